"""The check protocol of DESIGN §2.5, shared by all properties."""
from __future__ import annotations

import concurrent.futures as cf
import importlib
import json
import os
import re
import subprocess
import sys
import tempfile
import time

from . import gen, model
from .stage import PY, VERIF, Stage

EVID = os.path.join(VERIF, "evidence") if os.path.abspath(os.environ.get("VERIF_REPO", "/repo")) == "/repo" else "/var/tmp/verif-evidence-altrepo"
REPLAYS = os.path.join(VERIF, "replays")
BACKENDS = (("py", False), ("rs", True))

GLOBAL_TRUSTED = [
    "Coq 8.16.1 kernel incl. its VM (vm_compute); no native_compute",
    "translator tools/vlib/py2gallina.py + gen*.py (Python ast -> Gallina, fail closed)",
    "extraction (ExtrOcamlBasic only, no Extract Constant/Inductive of our own) + coq/Extract/driver.ml; cross-checked against vm_compute on a subset each run",
    "correspondence harness (tools/vlib, tools/props) and the direct oracles (CPython datetime/calendar/zoneinfo/fractions)",
    "hand-written models in coq/Model and reference semantics in coq/Spec are tied to the code only by the correspondence run",
]


def load_findings():
    d = os.path.join(VERIF, "known_findings")
    out = []
    for f in sorted(os.listdir(d)) if os.path.isdir(d) else []:
        if f.endswith(".json"):
            out += json.load(open(os.path.join(d, f)))["findings"]
    return out


def run_impl(stage, modname, cases, ext, workers=1, ambient=None):
    """Run mod.impl_run over cases inside the staged interpreter (one backend)."""
    if not cases:
        return []
    chunks = [cases[i::workers] for i in range(workers)] if workers > 1 else [cases]
    results = [None] * len(chunks)

    def one(i):
        with tempfile.TemporaryDirectory(dir="/var/tmp") as td:
            ci, co = os.path.join(td, "c.json"), os.path.join(td, "o.json")
            json.dump(chunks[i], open(ci, "w"))
            env = stage.env(ext)
            env.pop("VERIF_AMBIENT", None)
            if ambient:
                env["VERIF_AMBIENT"] = ambient
            p = subprocess.run([PY, "-m", "vlib.impl_main", modname, ci, co], env=env, capture_output=True, text=True,
                               cwd=os.path.join(VERIF, "tools"))
            if p.returncode != 0:
                raise RuntimeError(f"implementation runner failed ({'rs' if ext else 'py'}): " + p.stderr[-3000:])
            results[i] = json.load(open(co))
    with cf.ThreadPoolExecutor(max_workers=len(chunks)) as ex:
        list(ex.map(one, range(len(chunks))))
    if workers == 1:
        return results[0]
    out = [None] * len(cases)
    for i, r in enumerate(results):
        out[i::workers] = r
    return out


def locate_failure(make_out):
    """Name the lemma/theorem in which the Coq build failed."""
    names = []
    for m in re.finditer(r'File "\./([^"]+)", line (\d+)', make_out):
        f, ln = m.group(1), int(m.group(2))
        try:
            lines = open(os.path.join(model.COQ, f)).read().split("\n")[:ln]
        except OSError:
            continue
        nm = None
        for l in reversed(lines):
            mm = re.match(r"\s*(?:Lemma|Theorem|Corollary|Definition|Fixpoint|Example|Fact)\s+(\w+)", l)
            if mm:
                nm = mm.group(1)
                break
        names.append(f"{f}:{ln} ({nm})")
    return names


def pins_file(mod):
    """Props/<id>Pins.v (source pins of the hand-modelled functions, tools/mkpins.py) when the property has one."""
    f = mod.PROPS[:-2] + "Pins.v"
    return f if os.path.exists(os.path.join(model.COQ, f)) else None


def all_theorems(mod):
    pf = pins_file(mod)
    return model.theorems_of(mod.PROPS) + (model.theorems_of(pf) if pf else [])


def changed_pins(mod):
    """Names of the pinned functions whose current fingerprint differs from the one the model was written against."""
    pf = pins_file(mod)
    if not pf:
        return []
    from .gens import g05_pins
    want = dict(re.findall(r'\("([^"]+)"%string, "([0-9a-fA-FMISNG]+)"%string\)', open(os.path.join(model.COQ, pf)).read()))
    return [s for s, h in g05_pins.current_pins(mod.ID) if want.get(s) != h]


def coq_props(mod):
    """Build the dependencies of Props/<id>.v (and Props/<id>Pins.v), then compile them capturing Print Assumptions."""
    t0 = time.time()
    files = [mod.PROPS] + ([pins_file(mod)] if pins_file(mod) else [])
    ok, out, _ = model.make([f + "o" for f in files])
    info = {"ok": ok, "log": out[-6000:], "failed_at": locate_failure(out) if not ok else [], "assumptions": {}}
    if ok:
        for props in files:
            with model.Lock():
                p = subprocess.run(["timeout", "900", "coqc", "-R", ".", "PV", props], cwd=model.COQ, capture_output=True, text=True)
            if p.returncode != 0:
                info.update(ok=False, log=(p.stdout + p.stderr)[-6000:], failed_at=locate_failure(p.stdout + p.stderr))
                break
            # output of `Print Assumptions t.` follows in order of the theorems
            thms = model.theorems_of(props)
            chunks = re.split(r"(?=Closed under the global context|Axioms:)", p.stdout)
            chunks = [c.strip() for c in chunks if c.strip()]
            for t, c in zip(thms, chunks):
                info["assumptions"][t] = re.sub(r"\s+", " ", c)[:600]
    if not ok or not info["ok"]:
        ch = changed_pins(mod)
        if ch:
            info["failed_at"] = list(info["failed_at"]) + ["source pin: hand-modelled function changed in /repo: " + ", ".join(ch)]
    info["seconds"] = time.time() - t0
    return info


def coqchk(mod):
    """Thorough tier: re-check the compiled Props library and everything it depends on with the independent checker; list the axioms it reports."""
    lib = "PV." + mod.PROPS[:-2].replace("/", ".")
    libs = [lib] + ([lib + "Pins"] if pins_file(mod) else [])
    t0 = time.time()
    try:
        p = subprocess.run(["timeout", "1500", "coqchk", "-silent", "-o", "-R", ".", "PV"] + libs, cwd=model.COQ, capture_output=True, text=True)
        out = p.stdout + p.stderr
        ok = p.returncode == 0
    except Exception as e:  # noqa
        out, ok = str(e), False
    ax = ""
    m = re.search(r"(CONTEXT SUMMARY.*)", out, re.S)
    if m:
        ax = re.sub(r"\s+", " ", m.group(1))[:1500]
    return {"ok": ok, "summary": ax or out[-800:], "seconds": round(time.time() - t0, 1)}


def write_replay(pid, payload):
    os.makedirs(REPLAYS, exist_ok=True)
    n = 0
    while True:
        p = os.path.join(REPLAYS, f"{pid}_{os.getpid()}_{n}.json")
        if not os.path.exists(p):
            break
        n += 1
    json.dump(payload, open(p, "w"), indent=1, default=str)
    return p


def evaluate(mod, stage, cases, driver_ok, want_model=True, impl_workers=4):
    """Run impl (both backends), model, oracle.  Returns dict with per-backend lists."""
    res = {"impl": {}, "model": {}, "corr_diffs": [], "violations": [], "known": {}, "nontrivial": set(), "errors": []}
    with cf.ThreadPoolExecutor(max_workers=2) as ex:
        futs = {}
        for bname, ext in BACKENDS:
            if ext and stage.ext_error:
                res["errors"].append("rust extension failed to build: " + stage.ext_error[-500:])
                continue
            sel = [c for c in cases if bname in c.get("backends", ("py", "rs"))]
            futs[bname] = (sel, ex.submit(run_impl, stage, mod.ID, sel, ext, impl_workers))
        for bname, (sel, fut) in futs.items():
            try:
                res["impl"][bname] = (sel, fut.result())
            except Exception as e:  # noqa
                res["errors"].append(str(e))
    # model
    if driver_ok and want_model:
        for bname, _ in BACKENDS:
            if bname not in res["impl"]:
                continue
            sel, _r = res["impl"][bname]
            calls, spans = [], []
            for c in sel:
                cl = mod.model_calls(c, bname)
                if cl is None:
                    spans.append(None)
                else:
                    spans.append((len(calls), len(cl)))
                    calls += cl
            try:
                outs = model.run_driver(mod.ID, calls) if calls else []
            except Exception as e:  # noqa
                res["errors"].append(str(e))
                continue
            mres = []
            for c, sp in zip(sel, spans):
                mres.append(None if sp is None else mod.model_result(c, bname, outs[sp[0]:sp[0] + sp[1]]))
            res["model"][bname] = mres
    # compare + oracle
    for bname, (sel, ires) in res["impl"].items():
        mres = res["model"].get(bname)
        for i, (c, r) in enumerate(zip(sel, ires)):
            if mres is not None and mres[i] is not None and not mod.same(c, mres[i], r):
                res["corr_diffs"].append({"backend": bname, "case": c, "impl": r, "model": mres[i]})
            why = mod.oracle(c, bname, r)
            if why is not None:
                k = mod.known(c, bname, r)
                if k and mres is not None and mres[i] is not None and not mod.same(c, mres[i], r):
                    # the faithful model of the listed defect predicts another result for this input: what failed here is not the listed finding
                    why += f" (inside the region of listed finding {k}, but the model of that defect gives {json.dumps(mres[i])[:200]})"
                    k = None
                if k:
                    res["known"].setdefault(k, {"backend": bname, "case": c, "impl": r, "why": why, "count": 0})["count"] += 1
                else:
                    res["violations"].append({"backend": bname, "case": c, "impl": r, "why": why})
    return res


def history_check(mod, stage, res):
    """The properties quantify over every history of the process; the streams run each case once, in one order, in a fresh process.
    Extra passes re-run a deterministic sample of the same cases under a DIFFERENT history, one fresh process per backend and pass:
      reverse : the sample in reversed order (a cache keyed too coarsely, state left behind by an earlier call);
      failed  : after configuration calls that are rejected (set_locale of an unknown locale, week_starts_at(9)): they must change nothing;
      ambient : under a non-default, documented process-wide configuration (week_starts_at/week_ends_at, set_locale, set_local_timezone),
                minus the settings the module's cases legitimately depend on (mod.AMBIENT_DEPENDS).
    A case whose canonical result differs from the first pass depends on the history.  For `reverse` the offending predecessor is located
    by bisection so that the replay is the shortest history [.., victim] found; for the other passes the replay names the pass."""
    out = []
    depends = set(getattr(mod, "AMBIENT_DEPENDS", ()))
    amb = ",".join(w for w in ("week", "locale", "localtz") if w not in depends)
    passes = [("reverse", None), ("failed", "failed")] + ([("ambient", amb)] if amb else [])
    for bname, ext in BACKENDS:
        if bname not in res["impl"]:
            continue
        sel, ires = res["impl"][bname]
        want = getattr(mod, "HISTORY_SAMPLE", None) or min(3000, max(50, len(sel) // 8))
        step = max(1, len(sel) // want)
        for pname, ambient in passes:
            idx = list(range(0, len(sel), step))
            if pname == "reverse":
                idx = idx[::-1]
            sample = [sel[i] for i in idx]
            try:
                r2 = run_impl(stage, mod.ID, sample, ext, 1, ambient)
            except Exception as e:  # noqa
                res["errors"].append(f"history pass {pname}: " + str(e)[-400:])
                continue
            res.setdefault("history_checked", {}).setdefault(pname, {})[bname] = len(sample)
            bad = [k for k, i in enumerate(idx) if r2[k] != ires[i]]
            if pname == "ambient":
                # a single case may declare the settings it legitimately follows: {"ambient_depends": ["week"]}
                act = set(ambient.split(","))
                bad = [k for k in bad if not (set(sample[k].get("ambient_depends", ())) & act)]
            if not bad:
                continue
            k = bad[0]
            victim, first, second = sample[k], ires[idx[k]], r2[k]
            alone = run_impl(stage, mod.ID, [victim], ext, 1)[0]
            hist = None
            if pname == "reverse":
                hist = sample[:k]
                # bisect for a short history that still changes the victim's result w.r.t. running it alone in a fresh process
                if run_impl(stage, mod.ID, hist + [victim], ext, 1)[-1] != alone:
                    while len(hist) > 1:
                        h1, h2 = hist[:len(hist) // 2], hist[len(hist) // 2:]
                        if run_impl(stage, mod.ID, h1 + [victim], ext, 1)[-1] != alone:
                            hist = h1
                        elif run_impl(stage, mod.ID, h2 + [victim], ext, 1)[-1] != alone:
                            hist = h2
                        else:
                            break
                else:
                    hist = None     # the forward pass was the history-dependent one
            label = {"reverse": "a different order of the same calls",
                     "failed": "configuration calls that were REJECTED (set_locale('tlh'), week_starts_at(9), ...)",
                     "ambient": f"the documented process-wide configuration [{ambient}] set before the calls"}[pname]
            out.append({"backend": bname, "case": victim, "impl": second, "history": hist, "ambient": ambient,
                        "why": f"the result depends on what happened earlier in the process ({label}): {json.dumps(first)[:300]} in a fresh process, "
                               f"{json.dumps(second)[:300]} after that history, {json.dumps(alone)[:300]} alone "
                               f"({len(bad)} of {len(sample)} re-run cases differ)"})
            break
    return out


def main(argv=None):
    argv = argv or sys.argv[1:]
    pid = argv[0]
    tier = os.environ.get("VERIF_TIER", "quick")
    replay = None
    i = 1
    while i < len(argv):
        if argv[i] == "--tier":
            tier = argv[i + 1]; i += 2
        elif argv[i] == "--replay":
            replay = argv[i + 1]; i += 2
        else:
            i += 1
    seed = int(os.environ.get("VERIF_SEED", "0") or 0)
    sys.path.insert(0, os.path.join(VERIF, "tools"))
    mod = importlib.import_module("props." + pid)
    t0 = time.time()
    evid_path = os.path.join(EVID, pid + ".json")
    os.makedirs(EVID, exist_ok=True)
    try:
        os.remove(evid_path)
    except OSError:
        pass
    findings = [f for f in load_findings() if f["property"] == pid]
    known_ids = {f["id"] for f in findings if f["status"] == "known"}

    with Stage() as stage:
        if replay:
            return do_replay(mod, stage, replay)
        # 2. generate
        changed, gen_errors = gen.generate()
        bad = model.forbidden_scan()
        # 3. prove
        proof = coq_props(mod)
        theorems = all_theorems(mod)
        chk = coqchk(mod) if (tier == "thorough" and proof["ok"]) else None
        # model driver
        driver_ok, drv_out = model.build_driver(mod.ID)
        tie_broken = []
        # a failed translation leaves a Gen file that cannot compile: it breaks exactly the proofs / models that depend on it
        gen_notes = [f"translator: {f}: {msg}" for f, msg in gen_errors]
        for b in bad:
            tie_broken.append(f"forbidden construct: {b}")
        if not proof["ok"]:
            tie_broken.append("proof: " + ("; ".join(proof["failed_at"]) or "Props/%s.v does not build" % pid))
            tie_broken += [g for g in gen_notes if any(g.split(": ")[1][:-2] in fa for fa in proof["failed_at"])]
        if chk is not None and not chk["ok"]:
            tie_broken.append("coqchk rejected the compiled library: " + chk["summary"][-400:])
        if not driver_ok:
            tie_broken.append("model does not build: " + drv_out[-400:])
            tie_broken += [g for g in gen_notes if g.split(": ")[1][:-2] in drv_out and g not in tie_broken]
        # 4/5. correspond + oracle
        cases = mod.cases(tier, seed)
        res = evaluate(mod, stage, cases, driver_ok)
        history_violations = history_check(mod, stage, res) if os.environ.get("VERIF_NO_HISTORY") != "1" else []
        for e in res["errors"]:
            tie_broken.append("run: " + e)
        # in-kernel cross-check of extraction on a deterministic subset
        vm_checked = 0
        if driver_ok:
            sub = []
            for c in cases:
                for bname, _ in BACKENDS:
                    if bname in c.get("backends", ("py", "rs")):
                        cl = mod.model_calls(c, bname)
                        if cl:
                            sub += cl[:2]
                if len(sub) >= mod.VM_SUBSET if hasattr(mod, "VM_SUBSET") else len(sub) >= 200:
                    break
            sub = sub[:300]
            if sub:
                try:
                    a = model.run_vm(pid, sub)
                    b = model.run_driver(pid, sub)
                    vm_checked = len(sub)
                    if a != b:
                        j = next(k for k in range(len(sub)) if a[k] != b[k])
                        tie_broken.append(f"extraction differs from vm_compute on {sub[j]}: {a[j]} vs {b[j]}")
                except Exception as e:  # noqa
                    tie_broken.append("vm cross-check: " + str(e)[-300:])
        for d in res["corr_diffs"][:1]:
            tie_broken.append("correspondence: model and implementation differ, e.g. " + json.dumps(d)[:400])
        violations = res["violations"] + history_violations
        known = res["known"]
        extra_search = 0
        if tie_broken and not violations and tier == "quick" and hasattr(mod, "search_cases"):
            # enlarged search for a concrete failing input (oracle only)
            more = mod.search_cases(seed)
            extra_search = len(more)
            r2 = evaluate(mod, stage, more, driver_ok, want_model=False, impl_workers=8)
            violations = r2["violations"]
            for k, v in r2["known"].items():
                known.setdefault(k, v)
        # correspondence differences on which the property itself fails are already in violations;
        # differences where the oracle is satisfied remain a broken tie.
        wall = time.time() - t0
        # KNOWN-FINDING lines: every listed finding is re-confirmed by its witness
        for f in findings:
            if f["status"] != "known":
                continue
            if f["id"] in known:
                print(f"KNOWN-FINDING: property={pid} {f['id']}: {f['what']}")
            else:
                # the listed finding did not reproduce in this run's streams (e.g. it was repaired): say so, do not suppress anything
                print(f"NOTE: listed finding {f['id']} did not reproduce in this run")
        unknown_known = [k for k in known if k not in known_ids]
        for k in unknown_known:
            v = known[k]
            violations.append({"backend": v["backend"], "case": v["case"], "impl": v["impl"], "why": v["why"] + f" (finding class {k} is not listed in known_findings.json)"})
        exit_code = 0
        if violations:
            v = min(violations, key=lambda x: len(json.dumps(x["case"])))
            path = write_replay(pid, {"property": pid, "kind": "violation", "seed": seed, "tier": tier, **v,
                                      "also_broken": tie_broken, "n_violations": len(violations)})
            print(f"VIOLATION property={pid} replay={path}")
            exit_code = 1
        elif tie_broken:
            path = write_replay(pid, {"property": pid, "kind": "tie-broken", "seed": seed, "tier": tier, "no_longer_checks": tie_broken,
                                      "proof_log": proof["log"][-3000:] if not proof["ok"] else "", "searched_cases": len(cases) + extra_search})
            print(f"VIOLATION property={pid} replay={path} no-failing-input-found")
            exit_code = 1
        # evidence
        n_eval = sum(len(s) for s, _ in res["impl"].values())
        distinct = len({json.dumps([c["fn"], c["args"]]) for c in cases if mod.nontrivial(c)})
        streams = {}
        for c in cases:
            streams[c.get("stream", "?")] = streams.get(c.get("stream", "?"), 0) + 1
        samples = []
        seen = set()
        for bname, (sel, ires) in res["impl"].items():
            for c, r in zip(sel, ires):
                if c.get("stream") not in seen and len(json.dumps(r)) < 400:
                    seen.add(c.get("stream"))
                    samples.append({"backend": bname, "stream": c.get("stream"), "fn": c["fn"], "args": c["args"], "impl_result": r})
        ev = {
            "property_id": pid, "tier": tier, "seed": seed, "level": "proof",
            "coverage": {
                "obligations": len(theorems), "discharged": len(theorems) if proof["ok"] else 0,
                "checker_cmd": f"cd /verif/coq && make Props/{pid}.vo && coqc -R . PV Props/{pid}.v   (full .vo build, Coq 8.16.1)",
                "trusted_base": GLOBAL_TRUSTED + list(getattr(mod, "TRUSTED", [])),
                "theorems": theorems, "assumptions": proof["assumptions"],
                "translated_files_changed_this_run": changed,
                "evaluations": n_eval, "distinct_nontrivial": distinct,
                "rule": mod.RULE, "streams": streams, "samples": samples[:12],
                "history_independence": {"cases_rerun_per_pass_and_backend": res.get("history_checked", {}),
                                         "results_that_changed": len(history_violations)},
                "correspondence": {"cases": len(cases), "model_impl_differences": len(res["corr_diffs"]),
                                   "vm_compute_cross_checked": vm_checked, "backends": list(res["impl"].keys())},
                "known_findings_reproduced": {k: v["count"] for k, v in known.items()},
                "exhaustive": bool(getattr(mod, "EXHAUSTIVE", {}).get(tier, False)),
                "proof_seconds": round(proof["seconds"], 1),
                "coqchk": chk,
            },
            "assumptions": list(getattr(mod, "ASSUMPTIONS", [])),
            "wall_s": round(wall, 2), "violations": len(violations),
        }
        json.dump(ev, open(evid_path, "w"), indent=1, default=str)
        print(f"{pid}: tier={tier} theorems={len(theorems)} proof_ok={proof['ok']} cases={len(cases)} evals={n_eval} "
              f"corr_diffs={len(res['corr_diffs'])} violations={len(violations)} known={list(known)} wall={wall:.1f}s")
        return exit_code


def do_replay(mod, stage, path):
    rp = json.load(open(path))
    if rp.get("kind") != "violation":
        print("replay names what no longer checks:", json.dumps(rp.get("no_longer_checks"), indent=1))
        return 1
    c = rp["case"]
    if rp.get("history") is not None or rp.get("ambient"):
        ext = dict(BACKENDS)[rp["backend"]]
        alone = run_impl(stage, mod.ID, [c], ext, 1)[0]
        after = run_impl(stage, mod.ID, (rp.get("history") or []) + [c], ext, 1, rp.get("ambient"))[-1]
        print(json.dumps({"alone": alone, "after_history": after}, default=str))
        if alone != after:
            print(f"VIOLATION property={mod.ID} replay={path}")
            return 1
        return 0
    gen.generate()
    driver_ok, _ = model.build_driver(mod.ID)
    res = evaluate(mod, stage, [c], driver_ok)
    print(json.dumps({"impl": {b: r for b, (s, r) in res["impl"].items()}, "model": res["model"],
                      "violations": res["violations"], "known": list(res["known"])}, indent=1, default=str))
    if res["violations"]:
        print(f"VIOLATION property={mod.ID} replay={path}")
        return 1
    return 0
