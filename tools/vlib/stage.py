"""Stage the implementation under test: a copy of /repo/src/pendulum plus a freshly built extension."""
from __future__ import annotations

import fcntl
import hashlib
import os
import shutil
import subprocess
import sys

REPO = os.environ.get("VERIF_REPO", "/repo")
VERIF = os.path.dirname(os.path.dirname(os.path.dirname(os.path.abspath(__file__))))
CACHE = os.path.join(VERIF, ".cache")
SO_NAME = "_pendulum.cpython-312-x86_64-linux-gnu.so"
PY = "/venv/bin/python"


def _hash_tree(root, exts=None):
    h = hashlib.sha256()
    for d, dirs, files in sorted(os.walk(root)):
        dirs[:] = sorted(x for x in dirs if x not in ("target", "__pycache__", ".git"))
        for f in sorted(files):
            if exts and not f.endswith(exts):
                continue
            p = os.path.join(d, f)
            h.update(os.path.relpath(p, root).encode())
            with open(p, "rb") as fh:
                h.update(fh.read())
    return h.hexdigest()[:24]


def build_extension():
    """Returns (path to .so, None) or (None, error text). Cached by the hash of rust/ sources."""
    rust = os.path.join(REPO, "rust")
    key = _hash_tree(rust, (".rs", ".toml", ".lock"))
    os.makedirs(os.path.join(CACHE, "so"), exist_ok=True)
    so = os.path.join(CACHE, "so", key + ".so")
    if os.path.exists(so):
        return so, None
    lock = open(os.path.join(CACHE, "cargo.lock"), "w")
    fcntl.flock(lock, fcntl.LOCK_EX)
    try:
        if os.path.exists(so):
            return so, None
        env = dict(os.environ, CARGO_NET_OFFLINE="true")
        # one private target directory per source hash (a shared one was observed to hand the artifact of a concurrent
        # build of another checkout to this one); removed after the artifact is cached
        target = os.path.join(CACHE, "ct-" + key)
        p = subprocess.run(["cargo", "build", "--release", "--offline", "--manifest-path", os.path.join(rust, "Cargo.toml"),
                            "--target-dir", target], env=env, capture_output=True, text=True, timeout=1200)
        if p.returncode != 0:
            return None, p.stderr[-3000:]
        built = os.path.join(target, "release", "lib_pendulum.so")
        shutil.copyfile(built, so + ".tmp")
        os.replace(so + ".tmp", so)
        shutil.rmtree(target, ignore_errors=True)
        return so, None
    finally:
        fcntl.flock(lock, fcntl.LOCK_UN)
        lock.close()


class Stage:
    def __init__(self):
        self.dir = None
        self.ext_error = None

    def __enter__(self):
        self.dir = f"/var/tmp/pendulum-verif.{os.getpid()}"
        shutil.rmtree(self.dir, ignore_errors=True)
        os.makedirs(self.dir)
        shutil.copytree(os.path.join(REPO, "src", "pendulum"), os.path.join(self.dir, "pendulum"),
                        ignore=shutil.ignore_patterns("*.so", "__pycache__", "*.pyc"))
        so, err = build_extension()
        if so:
            shutil.copyfile(so, os.path.join(self.dir, "pendulum", SO_NAME))
        else:
            self.ext_error = err
        return self

    def __exit__(self, *a):
        shutil.rmtree(self.dir, ignore_errors=True)

    def env(self, extensions: bool):
        e = {k: v for k, v in os.environ.items() if k not in ("PYTHONPATH",)}
        e.update(PYTHONPATH=self.dir + os.pathsep + os.path.join(VERIF, "tools"), PYTHONHASHSEED="0", TZ="UTC",
                 PENDULUM_EXTENSIONS="1" if extensions else "0", PYTHONDONTWRITEBYTECODE="1")
        return e


if __name__ == "__main__":
    with Stage() as s:
        print(s.dir, s.ext_error)
        print(subprocess.run([PY, "-c", "import pendulum, pendulum.helpers as h; print(pendulum.__file__, h.week_day.__module__ if hasattr(h.week_day,'__module__') else h.week_day)"],
                             env=s.env(True), capture_output=True, text=True))
