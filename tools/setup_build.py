"""Called by setup.sh: build every property's OCaml driver and the staged extension."""
import os
import sys

sys.path.insert(0, os.path.dirname(os.path.abspath(__file__)))
from vlib import model, stage  # noqa

for f in sorted(os.listdir(os.path.join(os.path.dirname(os.path.abspath(__file__)), "props"))):
    if f[0] == "C" and f.endswith(".py"):
        ok, out = model.build_driver(f[:-3])
        print("driver", f[:-3], "ok" if ok else "FAILED\n" + out[-1500:])
so, err = stage.build_extension()
print("extension", "ok" if so else "FAILED\n" + str(err))
