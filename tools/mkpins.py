#!/usr/bin/env python3
"""Development-time tool: (re)write coq/Props/<Cxx>Pins.v from the CURRENT source of /repo (tools/pins.json names the functions).
Run it after every deliberate change to /repo (a `fix:` commit) and commit the result; the checks never run it.
usage: tools/mkpins.py [Cxx ...]   (default: every property in pins.json)"""
import os
import sys

sys.path.insert(0, os.path.dirname(os.path.abspath(__file__)))
from vlib.gens import g05_pins as G  # noqa
from vlib import gen  # noqa

ids = sys.argv[1:] or sorted(G.load_config())
for pid in ids:
    pins = G.current_pins(pid)
    missing = [s for s, h in pins if h == "MISSING"]
    if missing:
        print(f"{pid}: NOT written, names not found in /repo: {missing}")
        continue
    rows = ";\n  ".join(f'("{s}"%string, "{h}"%string)' for s, h in pins)
    text = (f"(* Props/{pid}Pins.v — written by tools/mkpins.py at development time (committed; never rewritten by a check).\n"
            f"   The hand-written model of {pid} was transcribed from exactly these versions of the functions below (sha256 of the Python ast /\n"
            f"   of the comment-free Rust text, first 20 hex digits).  Gen/Pins{pid}.v is recomputed from /repo on every check: an edit to any\n"
            f"   pinned function breaks this obligation, and the check then has to find a failing input or report no-failing-input-found. *)\n"
            "From Coq Require Import List String.\n"
            f"From PV Require Import Gen.Pins{pid}.\n"
            "Import ListNotations.\n"
            f"Theorem hand_modelled_sources_unchanged_{pid} : Pins{pid}.pins = [\n  {rows}].\n"
            "Proof. exact eq_refl. Qed.\n"
            f"Print Assumptions hand_modelled_sources_unchanged_{pid}.\n")
    gen.write_if_changed(os.path.join(gen.COQDIR, "Props", f"{pid}Pins.v"), text)
    print(f"{pid}: {len(pins)} pins")
