#!/usr/bin/env python3
"""Run the repository's pinned test suite in a given checkout and compare with /root/.vp/BASELINE.json.
usage: tools/run_baseline.py [repo_dir]     (default /repo).  Exit 0 iff every stable_pass test passed.
For a scratch worktree the freshly built extension of that worktree is copied next to its sources (the .so is git-ignored)."""
import json
import os
import shutil
import subprocess
import sys
import tempfile
import xml.etree.ElementTree as ET

repo = os.path.abspath(sys.argv[1] if len(sys.argv) > 1 else "/repo")
os.environ["VERIF_REPO"] = repo
sys.path.insert(0, os.path.dirname(os.path.abspath(__file__)))
from vlib import stage  # noqa

so, err = stage.build_extension()
if not so:
    print("extension build failed:\n", err)
    sys.exit(2)
dst = os.path.join(repo, "src", "pendulum", stage.SO_NAME)
shutil.copyfile(so, dst)
base = json.load(open("/root/.vp/BASELINE.json"))
with tempfile.TemporaryDirectory(dir="/var/tmp") as td:
    xml = os.path.join(td, "j.xml")
    env = dict(os.environ, PYTHONPATH=os.path.join(repo, "src"), PYTHONDONTWRITEBYTECODE="1")
    env.pop("PENDULUM_VERIF", None)
    p = subprocess.run(["/venv/bin/python", "-m", "pytest", "-q", "-p", "no:cacheprovider", "--timeout=900", "--continue-on-collection-errors",
                        "-x" if "--fast" in sys.argv else "-q", f"--junitxml={xml}"], cwd=repo, env=env, capture_output=True, text=True)
    passed = set()
    for tc in ET.parse(xml).getroot().iter("testcase"):
        if not any(ch.tag in ("failure", "error", "skipped") for ch in tc):
            passed.add(f"{tc.get('classname')}::{tc.get('name')}")
missing = [t for t in base["stable_pass"] if t not in passed]
print(p.stdout.strip().split("\n")[-1])
print(f"stable_pass={len(base['stable_pass'])} passed_now={len(passed)} missing={len(missing)}")
for t in missing[:40]:
    print("  NOT PASSING:", t)
sys.exit(1 if missing else 0)
