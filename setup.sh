#!/bin/sh
# Build the framework from files on disk only (offline): generated Coq files, the whole development,
# the per-property OCaml drivers, the staged extension.  Failures here are reported again by the checks.
cd "$(dirname "$0")"
export CARGO_NET_OFFLINE=true
(cd tools && python3 -m vlib.gen)
for p in tools/props/C*.py; do mkdir -p "coq/Extract/$(basename "$p" .py)"; done
(cd coq && coq_makefile -f _CoqProject -o Makefile >/dev/null && timeout 7200 make -j16 -k)
python3 tools/setup_build.py
exit 0
