#!/bin/sh
# Build the framework from files on disk only (offline): generated Coq files, the whole development, the OCaml driver, the staged extension.
set -e
cd "$(dirname "$0")"
export CARGO_NET_OFFLINE=true
cd tools && python3 -m vlib.gen || true
cd ../coq && coq_makefile -f _CoqProject -o Makefile >/dev/null && timeout 7200 make -j16 -k || true
cd ../tools && python3 -c "
from vlib import model, stage
print('driver', model.build_driver()[0]); print('extension', stage.build_extension()[1] is None)"
