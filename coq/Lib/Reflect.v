(* Lib/Reflect.v — finite reflection over integer ranges. *)
From Coq Require Import ZArith List Bool Lia.
Open Scope Z_scope.

Fixpoint forall_from (f : Z -> bool) (n : nat) (s : Z) : bool :=
  match n with
  | O => true
  | S k => f s && forall_from f k (s + 1)
  end.

Lemma forall_from_spec f n : forall s, forall_from f n s = true ->
  forall k, s <= k < s + Z.of_nat n -> f k = true.
Proof.
  induction n as [|n IH]; intros s H k Hk; [lia|].
  cbn [forall_from] in H. apply andb_true_iff in H. destruct H as [H0 H1].
  destruct (Z.eq_dec k s) as [->|Hne]; [exact H0|].
  apply (IH (s + 1) H1). lia.
Qed.

Definition forall_range (f : Z -> bool) (lo hi : Z) : bool :=
  forall_from f (Z.to_nat (hi - lo + 1)) lo.

Lemma forall_range_spec f lo hi : forall_range f lo hi = true ->
  forall k, lo <= k <= hi -> f k = true.
Proof.
  unfold forall_range. intros H k Hk.
  apply (forall_from_spec f _ lo H). rewrite Z2Nat.id; lia.
Qed.

(* two-dimensional version *)
Definition forall_range2 (f : Z -> Z -> bool) (lo1 hi1 lo2 hi2 : Z) : bool :=
  forall_range (fun a => forall_range (f a) lo2 hi2) lo1 hi1.

Lemma forall_range2_spec f lo1 hi1 lo2 hi2 : forall_range2 f lo1 hi1 lo2 hi2 = true ->
  forall a b, lo1 <= a <= hi1 -> lo2 <= b <= hi2 -> f a b = true.
Proof.
  unfold forall_range2. intros H a b Ha Hb.
  pose proof (forall_range_spec _ _ _ H a Ha) as H1. cbv beta in H1.
  exact (forall_range_spec _ _ _ H1 b Hb).
Qed.
