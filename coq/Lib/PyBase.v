(* Lib/PyBase.v — the tiny runtime the generated (translated) definitions rely on. *)
From Coq Require Import ZArith List Bool.
Import ListNotations.
Open Scope Z_scope.

(* exception kinds that models distinguish *)
Inductive exn :=
| E_ValueError | E_TypeError | E_OverflowError | E_IndexError | E_RuntimeError | E_AttributeError
| E_KeyError | E_ZeroDivisionError | E_ParserError | E_NonExistingTime | E_AmbiguousTime
| E_PendulumException | E_OutOfFuel | E_Exception | E_NotImplemented.

Inductive result (A : Type) := Ok (a : A) | Raise (e : exn).
Arguments Ok {A} a.
Arguments Raise {A} e.

Definition bind {A B} (r : result A) (f : A -> result B) : result B :=
  match r with Ok a => f a | Raise e => Raise e end.

Definition exn_code (e : exn) : Z :=
  match e with
  | E_ValueError => 1 | E_TypeError => 2 | E_OverflowError => 3 | E_IndexError => 4 | E_RuntimeError => 5
  | E_AttributeError => 6 | E_KeyError => 7 | E_ZeroDivisionError => 8 | E_ParserError => 9
  | E_NonExistingTime => 10 | E_AmbiguousTime => 11 | E_PendulumException => 12 | E_OutOfFuel => 13
  | E_Exception => 14 | E_NotImplemented => 15
  end.

(* out-of-range marker for constant-table lookups: never a legitimate table value *)
Definition OOB : Z := -1000000007.

(* Python indexing of a constant tuple: negative indices count from the end; outside -> OOB *)
Definition tidx (l : list Z) (i : Z) : Z :=
  let n := Z.of_nat (length l) in
  let j := if i <? 0 then i + n else i in
  if (j <? 0) || (n <=? j) then OOB else nth (Z.to_nat j) l OOB.

Definition tidx2 (l : list (list Z)) (i : Z) : list Z :=
  let n := Z.of_nat (length l) in
  let j := if i <? 0 then i + n else i in
  if (j <? 0) || (n <=? j) then [] else nth (Z.to_nat j) l [].

(* ceiling division (b > 0) *)
Definition cdiv (a b : Z) : Z := - ((- a) / b).

(* the fields of a date object *)
Record pdate := mkdate { d_year : Z; d_month : Z; d_day : Z }.
