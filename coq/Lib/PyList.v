(* Lib/PyList.v — the small list runtime used by translations of Python code that works on lists of ints
   (tools/vlib/py2gallina.py, `ctx.list_fragment`).  A Python list/tuple of ints is a `list Z`; reading `l[i]` is PyBase.tidx
   (Python's negative-index rule, OOB sentinel outside).  Executable definitions only; facts are in Proofs/PyListFacts.v. *)
From Coq Require Import ZArith List Bool.
From PV Require Import Lib.PyBase.
Import ListNotations.
Open Scope Z_scope.

Definition plen {A} (l : list A) : Z := Z.of_nat (length l).

(* bisect.bisect_right(l, x) — MODEL OF THE LIBRARY CONTRACT, valid for a sorted (non-decreasing) l: the insertion point i with
   all(e <= x for e in l[:i]) and all(e > x for e in l[i:]).  Defined as the length of the longest prefix of elements <= x;
   on a sorted list this is also the number of elements <= x (Proofs/PyListFacts.v bisect_right_count) and the result of
   the binary search of Lib/bisect.py.  On an unsorted list Python's answer depends on the probe sequence and is NOT modelled. *)
Fixpoint bisect_right (l : list Z) (x : Z) : Z :=
  match l with
  | [] => 0
  | a :: r => if x <? a then 0 else 1 + bisect_right r x
  end.

Definition count_le (l : list Z) (x : Z) : Z := plen (filter (fun a => a <=? x) l).

Fixpoint sortedb (l : list Z) : bool :=
  match l with
  | [] => true
  | a :: r => match r with [] => true | b :: _ => (a <=? b) end && sortedb r
  end.

(* l[lo:hi] with Python's clamping of out-of-range and negative bounds (None = omitted bound); step 1 only *)
Definition clamp_index (n : Z) (i : Z) : Z := let j := if i <? 0 then i + n else i in Z.max 0 (Z.min n j).
Definition pslice {A} (l : list A) (lo hi : option Z) : list A :=
  let n := plen l in
  let a := match lo with None => 0 | Some i => clamp_index n i end in
  let b := match hi with None => n | Some i => clamp_index n i end in
  firstn (Z.to_nat (b - a)) (skipn (Z.to_nat a) l).

(* l[i] = v as a functional update; None = IndexError *)
Fixpoint set_nth {A} (l : list A) (k : nat) (v : A) : list A :=
  match l, k with
  | [], _ => []
  | _ :: r, O => v :: r
  | a :: r, S k' => a :: set_nth r k' v
  end.
Definition norm_index (n i : Z) : option nat :=
  let j := if i <? 0 then i + n else i in
  if (j <? 0) || (n <=? j) then None else Some (Z.to_nat j).
Definition pset {A} (l : list A) (i : Z) (v : A) : option (list A) :=
  match norm_index (plen l) i with None => None | Some k => Some (set_nth l k v) end.
(* l[i][j] = v *)
Definition pset2 (l : list (list Z)) (i j : Z) (v : Z) : option (list (list Z)) :=
  match norm_index (plen l) i with
  | None => None
  | Some k => match pset (nth k l []) j v with None => None | Some row => Some (set_nth l k row) end
  end.
