(* Model/ParseTotal.v — C17: the whole chain behind pendulum.parse(text, **options), as an executable model.  No proofs here.

   It is BUILT ON the two existing parser models and only adds the glue:
     * Model/IsoParse.v (C07)  rs_parse_iso (Rust descent + pyo3 glue), py_parse_iso (generated ISO8601_DT AST + post-match code),
                               the generated COMMON AST, mk_date / mk_time / mk_datetime;
     * Model/DurParse.v (C13)  rs_raw (Rust parse_duration, u32 wrap explicit), py_native (ISO8601_DURATION + _parse_iso8601_duration +
                               Duration.__new__ / timedelta.__new__), rs_glue, py_parts / rs_parts, split_slash;
     * Gen/AddDuration.v       helpers.add_duration (translated), Spec/NativeDT.v (naive datetime arithmetic and its exceptions).
   Added here, statement by statement:
     parsing/__init__.py   _parse (suppress(ValueError) / suppress(ParserError) chain, strict gate, dateutil fallback as an OPAQUE
                           ORACLE ARGUMENT `du`, its ValueError / OverflowError and an out-of-range tzoffset answered with ParserError),
                           _parse_iso8601_interval (endpoint check, a date next to a duration taken at midnight),
                           _parse_common WITH the day_first option, _normalize;
     parser.py             _parse ("now", the isinstance dispatch, Interval assembly with DateTime.add / subtract inside
                           `try ... except OverflowError: raise ParserError`, likewise pendulum.duration(...) for the compiled parser's
                           result; Date.add(hours=...) / Time.add(years=...) = TypeError and instance(Duration) = AttributeError are
                           still modelled in `assemble` but no longer reachable: _parse_iso8601_interval now only returns date /
                           date-time endpoints, Proofs/C17Total.v interval_parse_dt);
     interval.py           Interval.__new__ (type checks, the `_start - offset` shift when both ends share the tzinfo object);
     CPython               str -> &str conversion of pyo3 (lone surrogates: UnicodeEncodeError, a ValueError), Unicode decimal digits
                           (`\d` and int() accept every Nd digit; Gen/UnicodeNd.v), int()'s 4300-digit limit.
   Every primitive returns `result` with its exception kind.  Tied to /repo by the correspondence run of ./check C17. *)
From Coq Require Import ZArith List Bool.
From PV Require Import Lib.PyBase Spec.Cal Spec.NativeDT Gen.AddDuration.
From PV Require Import Model.C07Regex Gen.IsoRegex Gen.IsoPost Gen.UnicodeNd.
From PV Require Model.IsoParse Model.DurParse.
Import ListNotations.
Open Scope Z_scope.


(* ------------------------------------------------------------------ characters *)
(* a Unicode decimal digit is read by `\d` / int() as its value: fold it to the ASCII digit *)
Fixpoint nd_lookup (runs : list (Z * Z * Z)) (c : Z) : Z :=
  match runs with
  | [] => c
  | (lo, hi, v) :: t => if (lo <=? c) && (c <=? hi) then 48 + v + (c - lo) else nd_lookup t c
  end.
Definition nd_fold (c : Z) : Z := if c <? 128 then c else nd_lookup ND_RUNS c.
Definition fold_str (s : list Z) : list Z := map nd_fold s.

Definition is_surrogate (c : Z) : bool := (55296 <=? c) && (c <=? 57343).

(* int() refuses more than 4300 digits with a ValueError.  _parse_iso8601_duration converts the integer part of every component and the
   fraction of W / D / H / M components; the fraction of the seconds is sliced to six characters first, fractions of Y / M raise ParserError *)
Definition INT_MAX_STR_DIGITS : Z := 4300.
Definition len_ok (l : list Z) : bool := Z.of_nat (length l) <=? INT_MAX_STR_DIGITS.
Definition tok_ok (with_frac : bool) (o : option DurParse.tok) : bool :=
  match o with
  | None => true
  | Some t => len_ok (DurParse.t_int t) &&
              (negb with_frac || match DurParse.t_frac t with Some f => len_ok f | None => true end)
  end.
Definition runs_ok (m : DurParse.dmatch) : bool :=
  tok_ok true (DurParse.g_weeks m) && tok_ok false (DurParse.g_years m) && tok_ok false (DurParse.g_months m) && tok_ok true (DurParse.g_days m)
  && tok_ok true (DurParse.g_hours m) && tok_ok true (DurParse.g_minutes m) && tok_ok false (DurParse.g_seconds m).

Definition head_is_P (s : list Z) : bool := match s with c :: _ => c =? 80 | [] => false end.

(* ------------------------------------------------------------------ stage 1: parse_iso8601, either backend *)
(* what parse_iso8601 returns: a native datetime/date/time, the raw _pendulum.Duration (eight u32 fields), or a pendulum Duration
   (total microseconds of the native value + observed fields) *)
Inductive ival :=
| I_p (p : IsoParse.pval)
| I_rsdur (r : DurParse.rsdur)
| I_pydur (x : Z) (o : DurParse.durobs).

Definition lift_p (r : result IsoParse.pval) : result ival := match r with Ok p => Ok (I_p p) | Raise e => Raise e end.

(* pendulum._pendulum.parse_iso8601: pyo3 turns the str into &str first (UnicodeEncodeError on a lone surrogate);
   Parser::parse: `if self.current == 'P' { parse_duration } else { parse_datetime }`.  A '/' is never consumed except in the
   interval branch of parse_datetime, every path of which ends in Err(..) or in the glue's PyValueError("Not yet implemented"):
   rs_parse_iso (which demands the end of input) therefore covers those inputs too (checked by the iso-level streams). *)
Definition rs_iso8601 (s : list Z) : result ival :=
  if existsb is_surrogate s then Raise E_ValueError
  else if IsoParse.cur s =? IsoParse.ch_P then match DurParse.rs_raw s with Ok r => Ok (I_rsdur r) | Raise e => Raise e end
  else lift_p (IsoParse.rs_parse_iso s).

(* pendulum.parsing.iso8601.parse_iso8601: _parse_iso8601_duration first (None when ISO8601_DURATION does not match), then ISO8601_DT *)
Definition py_iso8601 (s0 : list Z) : result ival :=
  let s := fold_str s0 in
  match DurParse.match_duration s with
  | Some m =>
      if negb (runs_ok m) then Raise E_ValueError       (* int(): "Exceeds the limit (4300 digits)" *)
      else match DurParse.py_native s with                (* try: _parse_iso8601_duration(text) *)
           | Ok (x, o) => Ok (I_pydur x o)
           | Raise E_OverflowError => Raise E_ParserError    (* except OverflowError: raise ParserError("Duration is out of range") *)
           | Raise e => Raise e
           end
  | None => lift_p (IsoParse.py_parse_iso s)
  end.

Definition iso8601 (rs : bool) : list Z -> result ival := if rs then rs_iso8601 else py_iso8601.

(* ------------------------------------------------------------------ stage 2: _parse_iso8601_interval *)
Inductive iform :=
| F_start_end (a b : ival)
| F_start_dur (a d : ival)
| F_dur_end (d b : ival).

(* `isinstance(endpoint, date)`: a date or a datetime; a time, a Duration and the compiled parser's raw Duration are not *)
Definition endpoint_ok (i : ival) : bool :=
  match i with I_p p => (IsoParse.p_kind p =? 1) || (IsoParse.p_kind p =? 2) | _ => false end.
(* next to a duration a date is taken at midnight: datetime(start.year, start.month, start.day) *)
Definition at_midnight (i : ival) : ival :=
  match i with
  | I_p p => if IsoParse.p_kind p =? 2 then I_p (IsoParse.mkp 1 (IsoParse.p_y p) (IsoParse.p_m p) (IsoParse.p_d p) 0 0 0 0 None) else i
  | _ => i
  end.

Definition interval_parse (iso : list Z -> result ival) (s : list Z) : result iform :=
  match DurParse.split_slash s with
  | (_, None) => Raise E_ParserError                                  (* "/" not in text *)
  | (first, Some last) =>
      if DurParse.has_slash last then Raise E_ValueError                     (* first, last = text.split("/"): too many values to unpack *)
      else if head_is_P first then
        bind (iso first) (fun d => bind (iso last) (fun b =>
          if endpoint_ok b then Ok (F_dur_end d (at_midnight b)) else Raise E_ParserError))      (* "Invalid interval" *)
      else if head_is_P last then
        bind (iso first) (fun a => bind (iso last) (fun d =>
          if endpoint_ok a then Ok (F_start_dur (at_midnight a) d) else Raise E_ParserError))
      else
        bind (iso first) (fun a => bind (iso last) (fun b =>
          if endpoint_ok a && endpoint_ok b then Ok (F_start_end a b) else Raise E_ParserError))
  end.

(* ------------------------------------------------------------------ stage 3: _parse_common(text, day_first=...) *)
Definition common_parse_df (day_first : bool) (s0 : list Z) : result IsoParse.pval :=
  let s := fold_str s0 in
  match re_match COMMON_RE COMMON_NGROUPS s with
  | None => Raise E_ParserError
  | Some c =>
    let has_date := IsoParse.has c G_COMMON_date in
    let year := if has_date then IsoParse.int_of (IsoParse.gtext c G_COMMON_year) else 0 in
    let '(month, day) :=
      if has_date && IsoParse.has c G_COMMON_monthday then
        if day_first then (IsoParse.int_of (IsoParse.gtext c G_COMMON_day), IsoParse.int_of (IsoParse.gtext c G_COMMON_month))
        else (IsoParse.int_of (IsoParse.gtext c G_COMMON_month), IsoParse.int_of (IsoParse.gtext c G_COMMON_day))
      else (1, 1) in
    if negb (IsoParse.has c G_COMMON_time) then IsoParse.mk_date year month day
    else
      if negb (IsoParse.has c G_COMMON_minute) then Raise E_TypeError       (* int(m.group("minute")) with the group absent: int(None) *)
      else
        let hour := IsoParse.int_of (IsoParse.gtext c G_COMMON_hour) in
        let minute := IsoParse.int_of (IsoParse.gtext c G_COMMON_minute) in
        let second := if IsoParse.has c G_COMMON_second then IsoParse.int_of (IsoParse.gtext c G_COMMON_second) else 0 in
        let us := if IsoParse.has c G_COMMON_subsecondsection then IsoParse.int_of (IsoParse.pad6r (firstn 6 (IsoParse.gtext c G_COMMON_subsecond))) else 0 in
        if has_date then IsoParse.mk_datetime year month day hour minute second us None
        else IsoParse.mk_time hour minute second us None
  end.

(* the region of the former "2:" defect: COMMON matches with its time group present and its minute group absent.  With the repaired
   pattern (minute group mandatory) the region is empty: Proofs/C17Total.v common_minute_absent_never *)
Definition common_minute_absent (s0 : list Z) : bool :=
  match re_match COMMON_RE COMMON_NGROUPS (fold_str s0) with
  | Some c => IsoParse.has c G_COMMON_time && negb (IsoParse.has c G_COMMON_minute)
  | None => false
  end.

(* ------------------------------------------------------------------ options *)
Record opts := mkopts { o_exact : bool; o_strict : bool; o_day_first : bool; o_year_first : bool;
                        o_tz : option Z;                 (* tz option: a fixed offset in seconds; None = not given (UTC) *)
                        o_now : Z * Z * Z }.             (* the date of options["now"] *)

Definition is_ve (e : exn) : bool := match e with E_ValueError | E_ParserError => true | _ => false end.

Inductive parsed := R_i (i : ival) | R_form (f : iform).

Section Chain.
  (* dateutil.parser.parse(text, dayfirst=, yearfirst=): opaque *)
  Variable du : list Z -> bool -> bool -> result IsoParse.pval.

  (* parsing/__init__.py::_parse *)
  Definition base_parse (rs : bool) (o : opts) (s : list Z) : result parsed :=
    match iso8601 rs s with
    | Ok i => Ok (R_i i)
    | Raise e1 =>
      if negb (is_ve e1) then Raise e1 else                          (* contextlib.suppress(ValueError) *)
      match interval_parse (iso8601 rs) s with
      | Ok f => Ok (R_form f)
      | Raise e2 =>
        if negb (is_ve e2) then Raise e2 else                        (* contextlib.suppress(ValueError) *)
        match common_parse_df (o_day_first o) s with
        | Ok p => Ok (R_i (I_p p))
        | Raise E_ParserError =>                                     (* contextlib.suppress(ParserError) only *)
            if o_strict o then Raise E_ParserError
            else match du s (o_day_first o) (o_year_first o) with
                 | Ok p =>                                            (* dt.utcoffset() inside the try: ValueError for 24 h and more *)
                     if match IsoParse.p_off p with Some z => (z <=? -86400) || (86400 <=? z) | None => false end
                     then Raise E_ParserError else Ok (R_i (I_p p))
                 | Raise E_ValueError | Raise E_ParserError | Raise E_OverflowError => Raise E_ParserError
                                                                     (* except (ValueError, OverflowError): raise ParserError *)
                 | Raise e => Raise e
                 end
        | Raise e3 => Raise e3
        end
      end
    end.

  (* does the chain reach the dateutil fallback? *)
  Definition reaches_oracle (rs : bool) (o : opts) (s : list Z) : bool :=
    match iso8601 rs s with
    | Ok _ => false
    | Raise e1 =>
      is_ve e1 &&
      match interval_parse (iso8601 rs) s with
      | Ok _ => false
      | Raise e2 =>
        is_ve e2 &&
        match common_parse_df (o_day_first o) s with
        | Raise E_ParserError => negb (o_strict o)
        | _ => false
        end
      end
    end.

  (* parsing/__init__.py::_normalize *)
  Definition normalize (o : opts) (r : parsed) : parsed :=
    if o_exact o then r else
    match r with
    | R_i (I_p p) =>
        if IsoParse.p_kind p =? 3 then
          let '(ny, nm, nd) := o_now o in
          R_i (I_p (IsoParse.mkp 1 ny nm nd (IsoParse.p_H p) (IsoParse.p_M p) (IsoParse.p_S p) (IsoParse.p_us p) None))
        else if IsoParse.p_kind p =? 2 then R_i (I_p (IsoParse.mkp 1 (IsoParse.p_y p) (IsoParse.p_m p) (IsoParse.p_d p) 0 0 0 0 None))
        else r
    | _ => r
    end.

  (* ---------------------------------------------------------------- parser.py::_parse *)
  Inductive tval :=
  | V_p (p : IsoParse.pval)                 (* DateTime (kind 1, offset always present), Date (2), Time (3) *)
  | V_dur (o : DurParse.durobs)
  | V_ival (kind : Z) (a b : IsoParse.pval) (* Interval of two DateTimes (1) or two Dates (2) *)
  | V_now.

  Definition deftz (o : opts) : Z := match o_tz o with Some z => z | None => 0 end.
  Definition bad_off (z : Z) : bool := (z <=? -86400) || (86400 <=? z).

  Definition wall_p (p : IsoParse.pval) : Z := wall_of (IsoParse.p_y p) (IsoParse.p_m p) (IsoParse.p_d p) (IsoParse.p_H p) (IsoParse.p_M p) (IsoParse.p_S p) (IsoParse.p_us p).
  Definition p_of_wall (w off : Z) : IsoParse.pval :=
    let '(y, m, d, hh, mm, ss, us) := fields_of_wall w in IsoParse.mkp 1 y m d hh mm ss us (Some off).
  Definition MEG : Z := 1000000.

  (* DateTime.add with the keyword arguments `parts` on an aware value with a fixed offset: wall clock W, offset off *)
  Definition dt_add (off W : Z) (p : DurParse.parts) : result Z :=
    let '(years, months, weeks, days, hours, minutes, seconds, us) := p in
    if negb (years =? 0) || negb (months =? 0) || negb (weeks =? 0) || negb (days =? 0) then
      (* units of variable length: add_duration on the wall clock, then create(tz=self.tz) *)
      match py_add_duration (mkndt W true) years months weeks days hours minutes seconds us with
      | Ok n => Ok (n_wall n)
      | Raise e => Raise e
      end
    else if bad_off off then Raise E_ValueError                       (* self.utcoffset() *)
    else
      let U := W - off * MEG in                                       (* current_dt - offset *)
      if negb (wall_in_range U) then Raise E_OverflowError else
      match py_add_duration (mkndt U true) 0 0 0 0 hours minutes seconds us with
      | Raise e => Raise e
      | Ok n => let W' := n_wall n + off * MEG in                      (* self.tz.convert(dt) from UTC *)
                if wall_in_range W' then Ok W' else Raise E_OverflowError
      end.

  Definition neg_parts (p : DurParse.parts) : DurParse.parts :=
    let '(a, b, c, d, e, f, g, h) := p in (- a, - b, - c, - d, - e, - f, - g, - h).

  (* Interval.__new__ on two aware DateTimes: utcoffset() of both; when both carry the SAME tzinfo object each end is shifted to UTC
     with naive arithmetic (OverflowError outside years 1..9999) *)
  Definition interval_new (same_obj : bool) (Wa oa Wb ob : Z) : result unit :=
    if bad_off oa || bad_off ob then Raise E_ValueError
    else if same_obj && negb (oa =? 0) then
      if wall_in_range (Wa - oa * MEG) && wall_in_range (Wb - ob * MEG) then Ok tt else Raise E_OverflowError
    else Ok tt.

  (* Interval.__init__ -> precise_diff(_start, _end).  The pure-Python helper shifts both ends to UTC with naive arithmetic when the offsets
     differ or both ends fall on the same calendar day (`if not in_same_tz or total_days == 0`), unless the two instants are equal;
     the compiled helper works on the fields and offsets and cannot overflow *)
  Definition interval_init (rs : bool) (Wa oa Wb ob : Z) : result unit :=
    if rs then Ok tt
    else if (Wa - oa * MEG) =? (Wb - ob * MEG) then Ok tt
    else if negb (oa =? ob) || (Wa / us_per_day =? Wb / us_per_day) then
      if ((oa =? 0) || wall_in_range (Wa - oa * MEG)) && ((ob =? 0) || wall_in_range (Wb - ob * MEG)) then Ok tt else Raise E_OverflowError
    else Ok tt.

  (* the tzinfo a parsed datetime ends up with: its own offset, else the tz option, else UTC *)
  Definition off_of (o : opts) (p : IsoParse.pval) : Z := match IsoParse.p_off p with Some z => z | None => deftz o end.

  (* the eight keyword arguments taken from the duration half *)
  Definition parts_of (d : ival) : result DurParse.parts :=
    match d with
    | I_rsdur r => Ok (DurParse.rs_parts r)
    | I_pydur x ob => DurParse.py_parts x ob
    | I_p _ => Raise E_AttributeError                                 (* datetime has no .years: not reachable, see Proofs *)
    end.

  Definition assemble (rs : bool) (o : opts) (f : iform) : result tval :=
    match f with
    | F_start_dur a d =>
        bind (parts_of d) (fun parts =>
        match a with
        | I_p p =>
            if IsoParse.p_kind p =? 1 then
              let off := off_of o p in let W := wall_p p in
              bind (dt_add off W parts) (fun W' =>
              bind (interval_new true W off W' off) (fun _ =>
              bind (interval_init rs W off W' off) (fun _ => Ok (V_ival 1 (p_of_wall W off) (p_of_wall W' off)))))
            else Raise E_TypeError          (* Date.add(hours=...) / Time.add(years=...): unexpected keyword argument *)
        | _ => Raise E_AttributeError       (* not reachable: the start half does not begin with 'P' *)
        end)
    | F_dur_end d b =>
        match b with
        | I_p p =>
            bind (parts_of d) (fun parts =>
            if IsoParse.p_kind p =? 1 then
              let off := off_of o p in let W := wall_p p in
              bind (dt_add off W (neg_parts parts)) (fun W' =>
              bind (interval_new true W' off W off) (fun _ =>
              bind (interval_init rs W' off W off) (fun _ => Ok (V_ival 1 (p_of_wall W' off) (p_of_wall W off)))))
            else Raise E_TypeError)
        | _ => Raise E_AttributeError       (* pendulum.instance(<Duration>): 'Duration' object has no attribute 'tzinfo' *)
        end
    | F_start_end a b =>
        match a, b with
        | I_p p, I_p q =>
            let ka := IsoParse.p_kind p in let kb := IsoParse.p_kind q in
            if (ka =? 1) && (kb =? 1) then
              let oa := off_of o p in let ob := off_of o q in
              let same := match IsoParse.p_off p, IsoParse.p_off q with
                          | None, None => true
                          | Some x, Some y => rs && (x =? y)            (* _safe_timezone: FixedTimezone cached per offset *)
                          | _, _ => false
                          end in
              bind (interval_new same (wall_p p) oa (wall_p q) ob) (fun _ =>
              bind (interval_init rs (wall_p p) oa (wall_p q) ob) (fun _ =>
                Ok (V_ival 1 (p_of_wall (wall_p p) oa) (p_of_wall (wall_p q) ob))))
            else if (ka =? 1) || (kb =? 1) then Raise E_ValueError     (* Both start and end of an Interval must have the same type *)
            else if (ka =? 2) && (kb =? 2) then Ok (V_ival 2 p q)
            else Raise E_TypeError                                      (* Time - Time / date - Time *)
        | _, _ => Raise E_AttributeError    (* not reachable: neither half begins with 'P' *)
        end
    end.

  Definition finish (rs : bool) (o : opts) (r : parsed) : result tval :=
    match r with
    | R_i (I_p p) =>
        if IsoParse.p_kind p =? 1 then Ok (V_p (IsoParse.mkp 1 (IsoParse.p_y p) (IsoParse.p_m p) (IsoParse.p_d p) (IsoParse.p_H p) (IsoParse.p_M p) (IsoParse.p_S p) (IsoParse.p_us p) (Some (off_of o p))))
        else if IsoParse.p_kind p =? 2 then Ok (V_p (IsoParse.mkp 2 (IsoParse.p_y p) (IsoParse.p_m p) (IsoParse.p_d p) 0 0 0 0 None))
        else Ok (V_p (IsoParse.mkp 3 0 0 0 (IsoParse.p_H p) (IsoParse.p_M p) (IsoParse.p_S p) (IsoParse.p_us p) None))
    | R_i (I_pydur _ ob) => Ok (V_dur ob)
    | R_i (I_rsdur r) =>
        match DurParse.rs_glue r with                     (* try: return pendulum.duration(years=parsed.years, ...) *)
        | Ok xo => Ok (V_dur (snd xo))
        | Raise E_OverflowError => Raise E_ParserError   (* except OverflowError: raise ParserError("Duration is out of range") *)
        | Raise e => Raise e
        end
    | R_form f =>
        match assemble rs o f with                        (* try: ... return pendulum.interval(...) *)
        | Raise E_OverflowError => Raise E_ParserError   (* except OverflowError: raise ParserError("Interval is out of range") *)
        | r => r
        end
    end.

  Definition is_now (s : list Z) : bool := match s with [110; 111; 119] => true | _ => false end.

  (* pendulum.parse(text, **options) *)
  Definition parse_full (rs : bool) (o : opts) (s : list Z) : result tval :=
    if is_now s then Ok V_now
    else bind (base_parse rs o s) (fun r => finish rs o (normalize o r)).
End Chain.

(* ------------------------------------------------------------------ the unbounded-integer reading (no_wrapped_value) *)
(* the raw u32 fields and their unbounded reading for a duration of integer components only: tokens (digits, designator) *)
Definition out_ok {A} (r : result A) : Prop :=
  match r with Ok _ => True | Raise E_ValueError => True | Raise E_ParserError => True | Raise _ => False end.
Definition out_okb {A} (r : result A) : bool :=
  match r with Ok _ => true | Raise e => is_ve e end.
