(* Model/DispatchC02.v — the timezone dispatch of Model/TzDispatch.v.  fn-table: TzDispatch *)
From Coq Require Import ZArith List.
From PV Require Import Model.TzDispatch.
Definition dispatch (fn : Z) (args : list Z) : list Z := TzDispatch.dispatch fn args.
