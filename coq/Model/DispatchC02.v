(* Model/DispatchC02.v — the two entries of Model/TzDispatch.v that C02 uses (same numbers and argument layout; repeated here because the
   extracted entry point must be the only function named `dispatch`) plus the history machine of Model/WallHistory.v.
   A zone is passed as  init :: n :: t1 :: o1 :: ... ;
   hist: args = the operations of the history, each  opcode :: [zone window] :: scalars  (WallHistory.parse_op; opcode 13 = a subset of the
   fields, WallFields.parse_op2). *)
From Coq Require Import ZArith List Bool.
From PV Require Import Lib.PyBase Spec.Cal Spec.Zone Model.TzConvert Model.TzDispatch Model.WallHistory Model.WallFields.
Import ListNotations.
Open Scope Z_scope.

Definition dispatch (fn : Z) (args : list Z) : list Z :=
  match fn with
  | 20 (* hist *) => run_history2 args
  | _ =>
    match parse_zone args with
    | None => [9]
    | Some (z, rest) =>
      match fn, rest with
      | 1 (* zone_probe *), [u; w] =>
          [0; off_utc z u; Z.b2z (fold_utc z u); off_local z w false; off_local z w true; Z.b2z (wf_zone z); Z.b2z (wf2_zone z)]
      | 2 (* create *), [fixed; W; f; r] => out_dt z (create z (zb fixed) W (zb f) (zb r))
      | _, _ => [9]
      end
    end
  end.
