(* Model/DispatchC02.v — the timezone dispatch of Model/TzDispatch.v (zone_probe, create) plus the history machine of Model/WallHistory.v.
   hist: args = the operations of the history, each  opcode :: [zone window] :: scalars  (WallHistory.parse_op). *)
From Coq Require Import ZArith List.
From PV Require Import Model.TzDispatch Model.WallHistory.
Import ListNotations.
Open Scope Z_scope.
Definition dispatch (fn : Z) (args : list Z) : list Z :=
  match fn with
  | 1 (* zone_probe *) => TzDispatch.dispatch 1 args
  | 2 (* create *) => TzDispatch.dispatch 2 args
  | 20 (* hist *) => WallHistory.run_history args
  | _ => [9]
  end.
