(* Model/TimeOfDay.v — C20: executable model of pendulum.Time arithmetic (src/pendulum/time.py).
   The integer cores (add_duration's carry normalisation, the timedelta guards, diff's totals, closest/farthest)
   are translated from /repo into Gen/TimeArith.v on every run; this file is the hand-written glue around them:
   DateTime.EPOCH.at(..).add(..).time() in UTC, the native datetime + timedelta with its range check, the operators.
   No proofs here (Proofs/C20Facts.v). *)
From Coq Require Import ZArith List Bool.
From PV Require Import Lib.PyBase Spec.Cal Model.TimeBase Gen.TimeArith.
Import ListNotations.
Open Scope Z_scope.

(* DateTime.EPOCH.at(hour, minute, second, microsecond): 1970-01-01 UTC with these fields, as a wall clock (Spec/Cal.v) *)
Definition epoch_at_wall (t : ptime) : Z :=
  wall_of 1970 1 1 (t_hour t) (t_minute t) (t_second t) (t_microsecond t).

(* timedelta(days=, hours=, minutes=, seconds=, microseconds=) on integers is the exact total *)
Definition units_total (days hours minutes seconds microseconds : Z) : Z :=
  (((days * 24 + hours) * 60 + minutes) * 60 + seconds) * 1000000 + microseconds.

(* DateTime.add(hours=, minutes=, seconds=, microseconds=) on that UTC value, then .time():
   no variable-length unit and a zero offset, so helpers.add_duration runs on the naive wall clock:
   normalise the units (translated), dt.replace(year, month, day) is the identity (years = months = 0),
   dt + timedelta(...) raises OverflowError outside 0001-01-01 .. 9999-12-31 (so do a timedelta beyond 999999999 days
   and the float conversion in _sign for astronomically large integers, all inside the same region),
   UTC.convert keeps the fields. *)
Definition dt_add_time (t : ptime) (hours minutes seconds microseconds : Z) : result ptime :=
  let '(_, _, days, hours, minutes, seconds, microseconds) :=
    py_add_duration_norm 0 0 0 hours minutes seconds microseconds in
  let w := epoch_at_wall t + units_total days hours minutes seconds microseconds in
  if wall_in_range w then
    let '(_, _, _, hh, mm, ss, us) := fields_of_wall w in Ok (mkT hh mm ss us)
  else Raise E_OverflowError.

(* Time.add / Time.subtract (DateTime.subtract negates every unit and calls add) *)
Definition time_add (t : ptime) (h m s us : Z) : result ptime := dt_add_time t h m s us.
Definition time_subtract (t : ptime) (h m s us : Z) : result ptime := dt_add_time t (- h) (- m) (- s) (- us).

(* Time.add_timedelta / subtract_timedelta / __add__ / __sub__ with a timedelta *)
Definition time_add_timedelta (t : ptime) (d : ptd) : result ptime :=
  bind (py_Time_add_timedelta_args d) (fun '(h, m, s, us) => time_add t h m s us).
Definition time_subtract_timedelta (t : ptime) (d : ptd) : result ptime :=
  bind (py_Time_subtract_timedelta_args d) (fun '(h, m, s, us) => time_subtract t h m s us).

(* add then subtract the same amount *)
Definition time_add_then_subtract (t : ptime) (h m s us : Z) : result (ptime * ptime) :=
  bind (time_add t h m s us) (fun t1 => bind (time_subtract t1 h m s us) (fun t2 => Ok (t1, t2))).

(* Time.diff(dt, abs): the native timedelta value of the returned Duration is the translated us2 - us1 (signed also
   for AbsoluteDuration); what the Duration reports (total_seconds(), in_seconds(), the unit properties) is the magnitude
   when abs is set. *)
Definition time_diff_native (self dt : ptime) : Z := py_Time_diff_us self (time_rebuild dt).
Definition time_diff_total (self dt : ptime) (abs : bool) : Z :=
  let d := time_diff_native self dt in if abs then Z.abs d else d.

(* Duration.in_seconds() = int(total_seconds()): truncation towards zero of the reported total *)
Definition time_diff_in_seconds (self dt : ptime) (abs : bool) : Z := Z.quot (time_diff_total self dt abs) 1000000.

(* self - other for a naive time: other.diff(self, False);  other - self through __rsub__: other.__sub__(self) *)
Definition time_op_sub (self other : ptime) : Z := time_diff_total (time_rebuild other) self false.
Definition time_op_rsub (self other : ptime) : Z := time_op_sub (time_rebuild other) self.

Definition time_closest (self a b : ptime) : ptime := py_Time_closest self a b.
Definition time_farthest (self a b : ptime) : ptime := py_Time_farthest self a b.
