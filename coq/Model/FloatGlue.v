(* Model/FloatGlue.v — named primitives for the translation of the FLOAT entry points of DateTime (Gen/FloatGlueGen.v), over the object model of
   Model/TzGlueObj.v (gdt / gtz) and the float routes of Model/FloatRoutes.v.  Executable definitions only.
     nat_utcfromtimestamp_float t   datetime.utcfromtimestamp(t) for a float t: CPython's pytime_double_to_denominator
                                    (FloatRoutes.utcfromtimestamp_float_us), then the year range check — the float twin of TzGlueObj.nat_utcfromtimestamp
     nat_timestamp d                datetime.timestamp() of an AWARE datetime (DateTime does not define it: CPython's own): (d - EPOCH).total_seconds()
                                    = FloatRoutes.timestamp_float ; of a naive one: local-time lookup, NOT modelled (E_NotImplemented marks it)
     g_add_seconds_float d x        DateTime.add(seconds=x) for a float x, every other argument 0: the hand model FloatRoutes.add_seconds_float /
                                    add_seconds_float_naive (around add_duration_float, which is proved equal to the translated helpers.add_duration:
                                    Props/C03.v model_is_code_add_duration_float).  DateTime.add itself is translated for INTEGER arguments only
                                    (Gen/TzGlue.glue_DateTime_add); its float typing is this named primitive. *)
From Coq Require Import ZArith List Bool.
From Coq Require Import Floats.SpecFloat.
From PV Require Import Lib.PyBase Spec.Cal Spec.Zone Spec.NativeDT Spec.TdFloat Model.TzConvert Model.FloatRoutes Model.TzGlueObj.
Open Scope Z_scope.

Definition nat_utcfromtimestamp_float (t : sf) : result gdt :=
  bind (utcfromtimestamp_float_us t) (fun n =>
  let U := EPOCH_US_g + n in if wall_in_range U then Ok (mkgdt U 0 None) else Raise E_ValueError).

Definition nat_timestamp (d : gdt) : result sf :=
  match g_tz d with
  | Some t => Ok (timestamp_float (gz_zone t) (g_wall d) (g_foldb d))
  | None => Raise E_NotImplemented
  end.

Definition g_res (tz : option gtz) (r : result (Z * bool)) : result gdt :=
  match r with Ok (W, f) => Ok (mkgdt W (Z.b2z f) tz) | Raise e => Raise e end.

Definition g_add_seconds_float (d : gdt) (x : sf) : result gdt :=
  match g_tz d with
  | Some t => g_res (Some t) (add_seconds_float (gz_zone t) (g_wall d) (g_foldb d) x)
  | None => g_res None (add_seconds_float_naive (g_wall d) (g_foldb d) x)
  end.
