(* Model/IsoRender.v — rendering of values as ISO 8601 text (the specification side of the round trip: what
   isoformat()/str()/to_iso8601_string()/to_rfc3339_string() emit, and the six date forms).  Executable, no proofs.
   Tied to CPython's formatting by the correspondence run (the *_year_form functions are compared with the
   implementation parsing Python-rendered strings). *)
From Coq Require Import ZArith List Bool.
From PV Require Import Lib.PyBase Spec.Cal.
Import ListNotations.
Open Scope Z_scope.

Definition dg (n : Z) : Z := 48 + n.
Definition render1 (n : Z) : list Z := [dg n].
Definition render2 (n : Z) : list Z := [dg (n / 10); dg (n mod 10)].
Definition render3 (n : Z) : list Z := [dg (n / 100); dg ((n / 10) mod 10); dg (n mod 10)].
Definition render4 (n : Z) : list Z := render2 (n / 100) ++ render2 (n mod 100).
Definition render6 (n : Z) : list Z := render2 (n / 10000) ++ render2 ((n / 100) mod 100) ++ render2 (n mod 100).

(* the six date forms: 0 calendar extended, 1 calendar basic, 2 ordinal extended, 3 ordinal basic, 4 week extended, 5 week basic *)
Definition yday (y m d : Z) : Z := days_before_month y m + d.
Definition render_date (form : Z) (y m d : Z) : list Z :=
  if form =? 0 then render4 y ++ [45] ++ render2 m ++ [45] ++ render2 d
  else if form =? 1 then render4 y ++ render2 m ++ render2 d
  else if form =? 2 then render4 y ++ [45] ++ render3 (yday y m d)
  else if form =? 3 then render4 y ++ render3 (yday y m d)
  else let '(iy, iw, iwd) := isocalendar y m d in
       if form =? 4 then render4 iy ++ [45; 87] ++ render2 iw ++ [45] ++ render1 iwd
       else render4 iy ++ [87] ++ render2 iw ++ render1 iwd.

(* extended time HH:MM:SS[.ffffff] as emitted by isoformat: fraction present iff us <> 0 *)
Definition render_time_ext (H M S us : Z) : list Z :=
  render2 H ++ [58] ++ render2 M ++ [58] ++ render2 S ++ (if us =? 0 then [] else 46 :: render6 us).

(* whole-minute offset +HH:MM / -HH:MM; off in seconds *)
Definition render_offset (off : Z) : list Z :=
  let a := Z.abs off / 60 in
  (if off <? 0 then 45 else 43) :: render2 (a / 60) ++ [58] ++ render2 (a mod 60).

(* YYYY-MM-DD<sep>HH:MM:SS[.ffffff]+HH:MM *)
Definition render_datetime_ext (sep : Z) (y m d H M S us off : Z) : list Z :=
  render_date 0 y m d ++ [sep] ++ render_time_ext H M S us ++ render_offset off.
