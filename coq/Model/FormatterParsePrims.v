(* Model/FormatterParsePrims.v — the primitives the TRANSLATED parse-side methods of formatter.py (Gen/FormatterParseMethods.v, g73_formatter_parse.py) call.
   Each one is the meaning of ONE Python expression form (reading rules in the generator); the definitions reuse the pieces of Model/FormatterParse.v.
     pval                        the value of self._PARSE_TOKENS[token](value): an int, a timestamp float (kept as (floor, microseconds), Model/FormatterParse.ts_of_text)
                                 or the text itself — the table _PARSE_TOKENS is generated data (Gen/FormatterTables.parse_tokens)
     apply_parse_token           self._PARSE_TOKENS[token](value): KeyError for an unknown token; int(): ValueError; float() outside the modelled fragment: Unsupported
     pv_int / pv_ts              the int / the float behind a parsed value where the code does integer arithmetic / stores parsed["timestamp"]
     starts_with p s             s.startswith(p) ;  split2_colon s    a, b = s.split(":") (ValueError unless exactly two pieces) ;  int_of_str s   int(s)
     group_of cs tok             m.group(index) of the named group tok (a group that did not take part in the match: outside the fragment)
     leading_int value           int(re.match(r"(\d+)", value).group(1)) (AttributeError on None.group when there is no leading digit)
     parse_meridiem              the `a` / `A` branch of _get_parsed_locale_value — NOT translated: the hand model (list of the two translations, lower(), index) *)
From Coq Require Import ZArith List Bool.
From PV Require Import Lib.PyBase Model.FormatterBase Gen.FormatterTables Gen.LocaleTables Model.Formatter Model.FormatterParse.
Import ListNotations.
Open Scope Z_scope.

Inductive pval := PVInt (v : Z) | PVTs (ts : Z * Z) | PVStr (s : str).

Definition apply_parse_token (tok value : str) : result pval :=
  match assoc tok parse_tokens with
  | None => Raise E_KeyError
  | Some (PInt k c) => match py_int value with Some v => Ok (PVInt (v * k + c)) | None => Raise E_ValueError end
  | Some (PFloat d) => match ts_of_text d value with Some ts => Ok (PVTs ts) | None => Unsupported end
  | Some PStr => Ok (PVStr value)
  end.
Definition pv_int (pv : pval) : result Z := match pv with PVInt v => Ok v | _ => Unsupported end.
Definition pv_ts (pv : pval) : result (Z * Z) := match pv with PVTs t => Ok t | _ => Unsupported end.

Definition starts_with (p s : str) : bool := match strip_prefix p s with Some _ => true | None => false end.
Definition split2_colon (s : str) : result (str * str) := match split_colon s with [h; m] => Ok (h, m) | _ => Raise E_ValueError end.
Definition int_of_str (s : str) : result Z := match py_int s with Some v => Ok v | None => Raise E_ValueError end.
Definition group_of (cs : caps) (tok : str) : result str := match assoc tok cs with Some v => Ok v | None => Unsupported end.
Definition leading_int (value : str) : result Z :=
  match leading_digits value with [] => Raise E_AttributeError | ds => Ok (value_of_digits ds) end.

Definition parse_meridiem (loc : locale_data) (tok value : str) (p : parsed) : result parsed :=
  match l_am loc, l_pm loc with
  | Some am, Some pm =>
    let lower := str_eqb tok T_a in
    if lower && negb (all_ascii am && all_ascii pm && all_ascii value) then Unsupported
    else
      let f := if lower then map ascii_lower else (fun s => s) in
      if str_eqb (f value) (f am) then Ok (set_pm (Some false) p)
      else if str_eqb (f value) (f pm) then Ok (set_pm (Some true) p)
      else Raise E_ValueError
  | _, _ => Unsupported
  end.
