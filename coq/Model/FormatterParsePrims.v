(* Model/FormatterParsePrims.v — the primitives the TRANSLATED parse-side methods of formatter.py (Gen/FormatterParseMethods.v, g73_formatter_parse.py) call.
   Each one is the meaning of ONE Python expression form (reading rules in the generator); the definitions reuse the pieces of Model/FormatterParse.v.
     pval                        the value of self._PARSE_TOKENS[token](value): an int, a timestamp float (kept as (floor, microseconds), Model/FormatterParse.ts_of_text)
                                 or the text itself — the table _PARSE_TOKENS is generated data (Gen/FormatterTables.parse_tokens)
     apply_parse_token           self._PARSE_TOKENS[token](value): KeyError for an unknown token; int(): ValueError; float() outside the modelled fragment: Unsupported
     pv_int / pv_ts              the int / the float behind a parsed value where the code does integer arithmetic / stores parsed["timestamp"]
     starts_with p s             s.startswith(p) ;  split2_colon s    a, b = s.split(":") (ValueError unless exactly two pieces) ;  int_of_str s   int(s)
     group_of cs tok             m.group(index) of the named group tok (a group that did not take part in the match: outside the fragment)
     leading_int value           int(re.match(r"(\d+)", value).group(1)) (AttributeError on None.group when there is no leading digit)
     parse_meridiem              the `a` / `A` branch of the hand model get_parsed_locale_value, as a function (the translated branch gen_parse_meridiem is proved equal to it) *)
From Coq Require Import ZArith List Bool.
From PV Require Import Lib.PyBase Spec.Cal Model.FormatterBase Gen.FormatterTables Gen.LocaleTables Model.Formatter Model.FormatterParse.
Import ListNotations.
Open Scope Z_scope.

Inductive pval := PVInt (v : Z) | PVTs (ts : Z * Z) | PVStr (s : str).

Definition apply_parse_token (tok value : str) : result pval :=
  match assoc tok parse_tokens with
  | None => Raise E_KeyError
  | Some (PInt k c) => match py_int value with Some v => Ok (PVInt (v * k + c)) | None => Raise E_ValueError end
  | Some (PFloat d) => match ts_of_text d value with Some ts => Ok (PVTs ts) | None => Unsupported end
  | Some PStr => Ok (PVStr value)
  end.
Definition pv_int (pv : pval) : result Z := match pv with PVInt v => Ok v | _ => Unsupported end.
Definition pv_ts (pv : pval) : result (Z * Z) := match pv with PVTs t => Ok t | _ => Unsupported end.

Definition starts_with (p s : str) : bool := match strip_prefix p s with Some _ => true | None => false end.
Definition split2_colon (s : str) : result (str * str) := match split_colon s with [h; m] => Ok (h, m) | _ => Raise E_ValueError end.
Definition int_of_str (s : str) : result Z := match py_int s with Some v => Ok v | None => Raise E_ValueError end.
Definition group_of (cs : caps) (tok : str) : result str := match assoc tok cs with Some v => Ok v | None => Unsupported end.
Definition leading_int (value : str) : result Z :=
  match leading_digits value with [] => Raise E_AttributeError | ds => Ok (value_of_digits ds) end.

Definition parse_meridiem (loc : locale_data) (tok value : str) (p : parsed) : result parsed :=
  match l_am loc, l_pm loc with
  | Some am, Some pm =>
    let lower := str_eqb tok T_a in
    if lower && negb (all_ascii am && all_ascii pm && all_ascii value) then Unsupported
    else
      let f := if lower then map ascii_lower else (fun s => s) in
      if str_eqb (f value) (f am) then Ok (set_pm (Some false) p)
      else if str_eqb (f value) (f pm) then Ok (set_pm (Some true) p)
      else Raise E_ValueError
  | _, _ => Unsupported
  end.

(* ------------------------------------------------------------------ primitives of the translated _check_parsed and of the a / A branch
     date3                       the (year, month, day) a pendulum DateTime shows where _check_parsed reads only dt.year / dt.month / dt.day
     mk_date y m d               pendulum.datetime(y, m, d): ValueError outside 1..9999 / for an impossible date
     jan1 y / jan1_of_now now    dt.start_of("year") of a date3 / of `now` (a `now` outside the calendar: outside the fragment)
     quarter_loop d q            while dt.quarter != q: dt = dt.add(months=3) — unrolled three additions deep (the four quarters of a year starting from a first quarter);
                                 still not found, or a day above 28 (add(months=3) would clamp): outside the fragment
     parse_ordinal rs y doy      pendulum.parse(f"{y}-{doy:>03d}"): the ISO ordinal date through the pure-Python / compiled parser model (doy_to_md_py / doy_to_md_rs)
     week_eve d                  dt.start_of("week").subtract(days=1) as an ordinal (range checks are made by next_weekday: the model's reading)
     next_weekday eve dow        dt.next(dow): ValueError for a weekday outside 0..6; a result outside the calendar: outside the fragment
     ts_has_point / ts_frac_us   "." in str(ts) (always, for a float below 1e16) / int(str(ts).split(".")[1].ljust(6, "0")) = the microseconds kept with the timestamp
     ts_local_time rs ts us      helpers.local_time(ts, 0, us) (math.floor(ts) = fst ts) through the translated / compiled model; seconds outside years 1..9999: outside the fragment
     need_strs / py_lower / lower_all / index_of / nth_str    the list of the two day-period translations (a missing one: outside the fragment), str.lower() on ASCII (else
                                 outside the fragment), list.index (ValueError), indexing a list of literals *)
Definition date3 := (Z * Z * Z)%type.
Definition d3_year (d : date3) : Z := let '(y, _, _) := d in y.
Definition d3_month (d : date3) : Z := let '(_, m, _) := d in m.
Definition d3_day (d : date3) : Z := let '(_, _, dd) := d in dd.
Definition mk_date (y m d : Z) : result date3 := if date_ok y m d then Ok (y, m, d) else Raise E_ValueError.
Definition jan1 (y : Z) : date3 := (y, 1, 1).
Definition jan1_of_now (now : pnow) : result date3 := if date_ok (n_year now) 1 1 then Ok (jan1 (n_year now)) else Unsupported.
Definition quarter_of (d : date3) : Z := (d3_month d - 1) / 3 + 1.
Definition add3 (d : date3) : date3 := let '(y, m, dd) := d in if m + 3 <=? 12 then (y, m + 3, dd) else (y + 1, m + 3 - 12, dd).
Fixpoint quarter_loop_f (fuel : nat) (d : date3) (q : Z) : result date3 :=
  if quarter_of d =? q then Ok d
  else match fuel with
       | O => Unsupported
       | S f => if 28 <? d3_day d then Unsupported else quarter_loop_f f (add3 d) q
       end.
Definition quarter_loop (d : date3) (q : Z) : result date3 := quarter_loop_f 3 d q.
Definition parse_ordinal (rs : bool) (year doy : Z) : result date3 :=
  if (1000 <=? year) && (year <=? 9999) && (0 <=? doy) then
    bind ((if rs then doy_to_md_rs else doy_to_md_py) year doy) (fun '(m, d) => Ok (year, m, d))
  else Unsupported.
Definition week_eve (d : date3) : Z := let '(y, m, dd) := d in let n := ymd2ord y m dd in n - weekday0 n - 1.
Definition next_weekday (eve dow : Z) : result date3 :=
  if (dow <? 0) || (6 <? dow) then Raise E_ValueError
  else let target := eve + 1 + dow in
       if (target <? 1) || (3652059 <? target) then Unsupported else Ok (ord2ymd target).
Definition ts_has_point (ts : Z * Z) : bool := true.
Definition ts_frac_us (ts : Z * Z) : Z := snd ts.
Definition ts_local_time (rs : bool) (ts : Z * Z) (us : Z) : result (Z * Z * Z * Z * Z * Z * Z) :=
  if (ts_min <=? fst ts) && (fst ts <=? ts_max) then
    match local_time_of rs (fst ts) us with Some t => Ok t | None => Unsupported end
  else Unsupported.
Definition is_some {A} (o : option A) : bool := match o with Some _ => true | None => false end.
Definition or_z (v d : Z) : Z := if v =? 0 then d else v.

Definition need_strs (l : list (option str)) : result (list str) :=
  fold_right (fun o acc => match o, acc with Some s, Ok r => Ok (s :: r) | _, _ => Unsupported end) (Ok []) l.
Definition py_lower (s : str) : result str := if all_ascii s then Ok (map ascii_lower s) else Unsupported.
Fixpoint lower_all (l : list str) : result (list str) :=
  match l with [] => Ok [] | s :: t => bind (py_lower s) (fun s' => bind (lower_all t) (fun t' => Ok (s' :: t'))) end.
Fixpoint index_of (v : str) (l : list str) : result Z :=
  match l with [] => Raise E_ValueError | s :: t => if str_eqb v s then Ok 0 else bind (index_of v t) (fun i => Ok (i + 1)) end.
Definition nth_str (l : list str) (i : Z) : result str :=
  if i <? 0 then Unsupported else match nth_error l (Z.to_nat i) with Some s => Ok s | None => Raise E_IndexError end.
