(* Model/IsoParse.v — executable model of pendulum's two ISO 8601 parsers and of pendulum.parse's wrapping.
   No proofs here.  Strings are lists of code points (ASCII; recorded assumption).

   * rs_*  : HAND model of rust/src/parsing.rs (Parser::parse_datetime / parse_time / parse_integer / iso_to_ymd /
             ordinal_to_ymd, character-level recursive descent, as the code IS — `ord <= MONTHS_OFFSETS[leap][i]` since the
             repair of finding rs-ordinal-month-end)
             and of the pyo3 glue rust/src/python/parsing.rs (`as u8` casts, the range checks of PyDate/PyDateTime/PyTime::new,
             FixedTimezone(offset)).  Tables come from the generated Gen/RustConstants.v; is_leap/week_day/... from Model/RustHelpers.v.
   * py_*  : pure-Python parser src/pendulum/parsing/iso8601.py::parse_iso8601.  The regex ISO8601_DT is the GENERATED AST
             Gen/IsoRegex.v run by Model/C07Regex.v; the integer post-match code (ordinal loop, _get_iso_8601_week core) is the
             TRANSLATED Gen/IsoPost.v; the string-level post-match code (group tests, int(), slicing, f-strings, strptime("%Y-%j"),
             tz text) is modelled by hand below, statement by statement.
   * common_parse : parsing/__init__.py::_parse_common over the generated COMMON regex (the fallback of _parse).
   * parse_top : parsing/__init__.py::_parse/_normalize + parser.py::_parse (fallback chain, exact, tz option, now).
   Everything here is tied to the implementation by the correspondence run of ./check C07. *)
From Coq Require Import ZArith List Bool.
From PV Require Import Lib.PyBase Spec.Cal Gen.Constants Gen.Helpers Gen.RustConstants Model.RustHelpers.
From PV Require Import Model.C07Regex Gen.IsoRegex Gen.IsoPost.
Import ListNotations.
Open Scope Z_scope.

(* ------------------------------------------------------------------ parsed values *)
(* kind: 1 = datetime.datetime, 2 = datetime.date, 3 = datetime.time *)
Record pval := mkp { p_kind : Z; p_y : Z; p_m : Z; p_d : Z; p_H : Z; p_M : Z; p_S : Z; p_us : Z; p_off : option Z }.

Definition valid_time (H M S us : Z) : bool :=
  (0 <=? H) && (H <? 24) && (0 <=? M) && (M <? 60) && (0 <=? S) && (S <? 60) && (0 <=? us) && (us <? 1000000).
Definition valid_date (y m d : Z) : bool := (1 <=? y) && (y <=? 9999) && valid_dateb y m d.

(* the CPython constructors: ValueError outside the ranges *)
Definition mk_date (y m d : Z) : result pval :=
  if valid_date y m d then Ok (mkp 2 y m d 0 0 0 0 None) else Raise E_ValueError.
Definition mk_time (H M S us : Z) (off : option Z) : result pval :=
  if valid_time H M S us then Ok (mkp 3 0 0 0 H M S us off) else Raise E_ValueError.
Definition mk_datetime (y m d H M S us : Z) (off : option Z) : result pval :=
  if valid_date y m d && valid_time H M S us then Ok (mkp 1 y m d H M S us off) else Raise E_ValueError.

(* ------------------------------------------------------------------ characters *)
Definition is_digit (c : Z) : bool := (48 <=? c) && (c <=? 57).
Definition cur (s : list Z) : Z := match s with c :: _ => c | [] => 0 end.      (* Parser.current, '\0' at the end *)
Definition isend (s : list Z) : bool := match s with [] => true | _ => false end.
Definition inc (s : list Z) : list Z := tl s.
Definition ch_T := 84. Definition ch_sp := 32. Definition ch_dash := 45. Definition ch_plus := 43.
Definition ch_colon := 58. Definition ch_W := 87. Definition ch_Z := 90. Definition ch_dot := 46.
Definition ch_comma := 44. Definition ch_slash := 47. Definition ch_P := 80.

(* ================================================================== Rust *)
(* Parser::parse_integer(length): exactly `length` ASCII digits, None = Err *)
Fixpoint rs_parse_int (n : nat) (s : list Z) (acc : Z) : option (Z * list Z) :=
  match n with
  | O => Some (acc, s)
  | S n' => match s with
            | c :: t => if is_digit c then rs_parse_int n' t (10 * acc + (c - 48)) else None
            | [] => None
            end
  end.

(* the first loop of the subsecond code: up to 6 digits *)
Fixpoint rs_frac6 (n : nat) (s : list Z) (acc cnt : Z) : Z * Z * list Z :=
  match n with
  | O => (acc, cnt, s)
  | S n' => match s with
            | c :: t => if is_digit c then rs_frac6 n' t (acc * 10 + (c - 48)) (cnt + 1) else (acc, cnt, s)
            | [] => (acc, cnt, s)
            end
  end.
Fixpoint drop_digits (s : list Z) : list Z :=
  match s with c :: t => if is_digit c then drop_digits t else s | [] => [] end.

Definition rs_fraction (s : list Z) : option (Z * list Z) :=
  let '(acc, cnt, s1) := rs_frac6 6 s 0 0 in
  if cnt =? 0 then None else Some (acc * 10 ^ (6 - cnt), drop_digits s1).

Record rdt := mkr { r_year : Z; r_month : Z; r_day : Z; r_hour : Z; r_minute : Z; r_second : Z; r_us : Z;
                    r_offset : option Z; r_has_date : bool; r_has_time : bool; r_ext : bool }.
Definition rdt0 : rdt := mkr 0 1 1 0 0 0 0 None false false false.

Definition not_tzstart (s : list Z) : bool :=
  negb (isend s) && negb (cur s =? ch_Z) && negb (cur s =? ch_plus) && negb (cur s =? ch_dash).

(* optional ".ffffff" after the seconds *)
Definition rs_opt_fraction (s : list Z) (us0 : Z) : option (Z * list Z) :=
  if (cur s =? ch_dot) || (cur s =? ch_comma) then rs_fraction (inc s) else Some (us0, s).

(* the offset part at the end of parse_time *)
Definition rs_offset (s : list Z) : option (option Z * list Z) :=
  if cur s =? ch_Z then Some (Some 0, inc s)
  else if (cur s =? ch_plus) || (cur s =? ch_dash) then
    let sign := if cur s =? ch_plus then 1 else -1 in
    match rs_parse_int 2 (inc s) 0 with
    | None => None
    | Some (tzh, s1) =>
      let s2 := if cur s1 =? ch_colon then inc s1 else s1 in
      match (if isend s2 then Some (0, s2) else rs_parse_int 2 s2 0) with
      | None => None
      | Some (tzm, s3) =>
        let tzminute := (tzm + tzh * 60) * sign in                       (* the bound is tested BEFORE the sign is applied: 24 h and more rejected *)
        if tzm + tzh * 60 >=? 24 * 60 then None else Some (Some (tzminute * 60), s3)
      end
    end
  else Some (None, s).

(* Parser::parse_time(datetime, skip_hour) *)
Definition rs_parse_time (dt : rdt) (skip_hour : bool) (s : list Z) : option (rdt * list Z) :=
  if negb (cur s =? ch_T) && negb (cur s =? ch_sp) && negb skip_hour then None else
  match (if skip_hour then Some (r_hour dt, s) else rs_parse_int 2 (inc s) 0) with
  | None => None
  | Some (hour, s1) =>
    let ext := r_ext dt in
    let hms : option (Z * Z * Z * list Z) :=
      if not_tzstart s1 then
        if cur s1 =? ch_colon then
          match rs_parse_int 2 (inc s1) 0 with
          | None => None
          | Some (minute, s3) =>
            if not_tzstart s3 then
              if negb (cur s3 =? ch_colon) then None else
              match rs_parse_int 2 (inc s3) 0 with
              | None => None
              | Some (second, s5) =>
                match rs_opt_fraction s5 (r_us dt) with
                | None => None
                | Some (us, s6) => if negb ext then None else Some (minute, second, us, s6)
                end
              end
            else Some (minute, r_second dt, r_us dt, s3)
          end
        else
          match rs_parse_int 2 s1 0 with
          | None => None
          | Some (minute, s2) =>
            match (if not_tzstart s2 then
                     match rs_parse_int 2 s2 0 with
                     | None => None
                     | Some (second, s3) =>
                       match rs_opt_fraction s3 (r_us dt) with
                       | None => None
                       | Some (us, s4) => Some (second, us, s4)
                       end
                     end
                   else Some (r_second dt, r_us dt, s2)) with
            | None => None
            | Some (second, us, s4) => if ext then None else Some (minute, second, us, s4)
            end
          end
      else Some (r_minute dt, r_second dt, r_us dt, s1) in
    match hms with
    | None => None
    | Some (minute, second, us, s7) =>
      match rs_offset s7 with
      | None => None
      | Some (off, s8) =>
        Some (mkr (r_year dt) (r_month dt) (r_day dt) hour minute second us off (r_has_date dt) true ext, s8)
      end
    end
  end.

(* Parser::ordinal_to_ymd — as the code is: `if ord <= MONTHS_OFFSETS[leap][i]` (it was `<` before the repair of finding
   rs-ordinal-month-end: the last day of every month then came out as day 0 of the following month) *)
Fixpoint rs_ord_loop (fuel : nat) (offs : list Z) (ord i : Z) : option (Z * Z) :=
  match fuel with
  | O => None
  | S f =>
    if i <? 14 then
      if ord <=? tidx offs i then Some (i - 1, (ord - tidx offs (i - 1)) mod 4294967296)
      else rs_ord_loop f offs ord (i + 1)
    else None
  end.

Definition rs_ordinal_to_ymd (year ordinal : Z) (allow_oob : bool) : option (Z * Z * Z) :=
  let st1 := if ordinal <? 1 then
               if negb allow_oob then None
               else Some (ordinal + rs_days_in_year (year - 1), year - 1)
             else Some (ordinal, year) in
  match st1 with
  | None => None
  | Some (ord, y) =>
    let st2 := if ord >? rs_days_in_year y then
                 if negb allow_oob then None
                 else Some (ord - rs_days_in_year y, y + 1)
               else Some (ord, y) in
    match st2 with
    | None => None
    | Some (ord, y) =>
      match rs_ord_loop 14 (tidx2 RS_MONTHS_OFFSETS (Z.b2z (rs_is_leap y))) ord 1 with
      | None => None
      | Some (month, day) => Some (y, month, day)
      end
    end
  end.

(* Parser::iso_to_ymd (iso_week, iso_day are u32: `== 0` is the lower-bound check, added by the repair of finding week-zero-accepted) *)
Definition rs_iso_to_ymd (iso_year iso_week iso_day : Z) : option (Z * Z * Z) :=
  if (iso_week =? 0) || (iso_week >? 53) || ((iso_week >? 52) && negb (rs_is_long_year iso_year)) then None
  else if (iso_day =? 0) || (iso_day >? 7) then None
  else rs_ordinal_to_ymd iso_year (iso_week * 7 + iso_day - (rs_week_day iso_year 1 4 + 3)) true.

Definition date_end (s : list Z) : bool := isend s || (cur s =? ch_sp) || (cur s =? ch_T).

Definition set_ymd (dt : rdt) (ymd : Z * Z * Z) (ext : bool) : rdt :=
  let '(y, m, d) := ymd in
  mkr y m d (r_hour dt) (r_minute dt) (r_second dt) (r_us dt) (r_offset dt) true (r_has_time dt) ext.

(* the date part of Parser::parse_datetime after the 4-digit year: returns the record and the rest *)
Definition rs_parse_date (year : Z) (s2 : list Z) : option (rdt * list Z) :=
  if cur s2 =? ch_dash then
    let s3 := inc s2 in
    if cur s3 =? ch_W then
      match rs_parse_int 2 (inc s3) 0 with
      | None => None
      | Some (wk, s5) =>
        match (if negb (date_end s5) then
                 if negb (cur s5 =? ch_dash) then None else rs_parse_int 1 (inc s5) 0
               else Some (1, s5)) with
        | None => None
        | Some (wd, s7) =>
          match rs_iso_to_ymd year wk wd with
          | None => None
          | Some ymd => Some (set_ymd rdt0 ymd true, s7)
          end
        end
      end
    else
      match rs_parse_int 2 s3 0 with
      | None => None
      | Some (month, s4) =>
        if negb (date_end s4) then
          if cur s4 =? ch_dash then
            match rs_parse_int 2 (inc s4) 0 with
            | None => None
            | Some (day, s6) => Some (set_ymd rdt0 (year, month, day) true, s6)
            end
          else
            match rs_parse_int 1 s4 0 with
            | None => None
            | Some (o, s5) =>
              match rs_ordinal_to_ymd year (month * 10 + o) false with
              | None => None
              | Some ymd => Some (set_ymd rdt0 ymd true, s5)
              end
            end
        else Some (set_ymd rdt0 (year, month, 1) true, s4)
      end
  else if cur s2 =? ch_W then
    match rs_parse_int 2 (inc s2) 0 with
    | None => None
    | Some (wk, s4) =>
      match (if negb (date_end s4) then rs_parse_int 1 s4 0 else Some (1, s4)) with
      | None => None
      | Some (wd, s5) =>
        match rs_iso_to_ymd year wk wd with
        | None => None
        | Some ymd => Some (set_ymd rdt0 ymd false, s5)
        end
      end
    end
  else
    match rs_parse_int 2 s2 0 with
    | None => None
    | Some (month, s3) =>
      match rs_parse_int 1 s3 0 with
      | None => None
      | Some (o, s4) =>
        if date_end s4 then
          match rs_ordinal_to_ymd year (o + month * 10) false with
          | None => None
          | Some ymd => Some (set_ymd rdt0 ymd false, s4)
          end
        else
          match rs_parse_int 1 s4 0 with
          | None => None
          | Some (d2, s5) => Some (set_ymd rdt0 (year, month, o * 10 + d2) false, s5)
          end
      end
    end.

(* Parser::parse_datetime for inputs without '/' (intervals are outside this model) *)
Definition rs_parse_datetime (s : list Z) : option rdt :=
  if cur s =? ch_T then
    match rs_parse_time rdt0 false s with
    | Some (dt, s') => if isend s' then Some dt else None
    | None => None
    end
  else
    match rs_parse_int 2 s 0 with
    | None => None
    | Some (y2, s1) =>
      if cur s1 =? ch_colon then
        match rs_parse_time (mkr 0 1 1 y2 0 0 0 None false false true) true s1 with
        | Some (dt, s') => if isend s' then Some dt else None
        | None => None
        end
      else
        match rs_parse_int 2 s1 0 with
        | None => None
        | Some (yy, s2) =>
          match rs_parse_date (y2 * 100 + yy) s2 with
          | None => None
          | Some (dt, s3) =>
            match (if negb (isend s3) then rs_parse_time dt false s3 else Some (dt, s3)) with
            | None => None
            | Some (dt', s4) => if isend s4 then Some dt' else None
            end
          end
        end
    end.

(* rust/src/python/parsing.rs: building the Python object (`as u8` = mod 256; constructors check the ranges) *)
Definition u8 (x : Z) : Z := x mod 256.
Definition rs_parse_iso (s : list Z) : result pval :=
  match rs_parse_datetime s with
  | None => Raise E_ValueError
  | Some dt =>
    match r_has_date dt, r_has_time dt with
    | true, true => mk_datetime (r_year dt) (u8 (r_month dt)) (u8 (r_day dt)) (u8 (r_hour dt)) (u8 (r_minute dt)) (u8 (r_second dt)) (r_us dt) (r_offset dt)
    | true, false => mk_date (r_year dt) (u8 (r_month dt)) (u8 (r_day dt))
    | false, true => mk_time (u8 (r_hour dt)) (u8 (r_minute dt)) (u8 (r_second dt)) (r_us dt) (r_offset dt)
    | false, false => Raise E_ValueError
    end
  end.

(* ================================================================== Python *)
Definition int_of (l : list Z) : Z := fold_left (fun a ch => 10 * a + (ch - 48)) l 0.
(* int(text) for a text of decimal digits: ValueError on the empty string *)
Definition int_of_str (l : list Z) : result Z := match l with [] => Raise E_ValueError | _ => Ok (int_of l) end.
Definition has (c : caps) (n : nat) : bool := match grp c n with Some _ => true | None => false end.
Definition gtext (c : caps) (n : nat) : list Z := match grp c n with Some l => l | None => [] end.

(* str(n) for n >= 0 *)
Fixpoint digits_aux (fuel : nat) (n : Z) (acc : list Z) : list Z :=
  match fuel with
  | O => acc
  | S f => let acc' := (48 + n mod 10) :: acc in if n <? 10 then acc' else digits_aux f (n / 10) acc'
  end.
Definition digits (n : Z) : list Z := digits_aux 20 n [].
(* f"{x:02d}" / f"{x:04d}" for x >= 0: the decimal digits, zero-padded on the left to the width *)
Definition padl (w : nat) (l : list Z) : list Z := repeat 48 (w - length l) ++ l.
(* f"{subsecond:0<6}" after [:6] *)
Definition pad6r (l : list Z) : list Z := l ++ repeat 48 (6 - length l).
Definition slice (l : list Z) (a b : nat) : list Z := firstn (b - a) (skipn a l).

(* datetime.datetime.strptime(f"{year}-{ordinal}", "%Y-%j"): %Y wants exactly four digits, %j 1..366; the result is
   date.fromordinal(date(year, 1, 1).toordinal() + julian - 1) *)
Definition py_strptime_Yj (year ordinal : Z) : result (Z * Z * Z) :=
  if (1000 <=? year) && (year <=? 9999) && (1 <=? ordinal) && (ordinal <=? 366)
     && (ymd2ord year 1 1 + ordinal - 1 <=? 3652059)
  then Ok (ord2ymd (ymd2ord year 1 1 + ordinal - 1)) else Raise E_ValueError.

(* _get_iso_8601_week(year, week, weekday): weekday None/"" -> 1 *)
Definition py_get_week (year week : Z) (weekday : option Z) : result (Z * Z * Z) :=
  let wd := match weekday with None => 1 | Some w => w end in
  match py_iso_week_core year week wd with
  | Raise e => Raise e
  | Ok (y', ord) =>
    match py_strptime_Yj y' ord with
    | Ok r => Ok r
    | Raise _ => Raise E_ParserError      (* `except ValueError: raise ParserError` in parse_iso8601 *)
    end
  end.

(* the tz text: "Z" or [+-]hh[:][mm] *)
Fixpoint split_colon (l : list Z) (acc : list Z) : option (list Z * list Z) :=
  match l with
  | [] => None
  | c :: t => if c =? ch_colon then Some (rev acc, t) else split_colon t (c :: acc)
  end.
Definition py_tz_offset (tz : list Z) : result Z :=
  match tz with
  | [90] => Ok 0
  | sgn :: rest =>
    let negative := sgn =? ch_dash in
    let parts := match split_colon rest [] with
                 | None => let r := if (length rest =? 2)%nat then rest ++ [48; 48] else rest in (slice r 0 2, slice r 2 4)
                 | Some (a, b) => (a, b)
                 end in
    match int_of_str (fst parts), int_of_str (snd parts) with
    | Ok hh, Ok mm => let o := (hh * 60 + mm) * 60 in
                      if o >=? 24 * 60 * 60 then Raise E_ParserError            (* "Timezone offset is too large" *)
                      else Ok (if negative then -1 * o else o)
    | _, _ => Raise E_ValueError
    end
  | [] => Raise E_ValueError
  end.

(* the date part of parse_iso8601: (year, month, day, ambiguous_date) *)
Definition py_datepart (c : caps) : result (Z * Z * Z * bool) :=
  if has c G_ISO_date then
    if has c G_ISO_isocalendar then
      if has c G_ISO_weeksep && negb (has c G_ISO_weekdaysep) && has c G_ISO_isoweekday then Raise E_ParserError
      else if negb (has c G_ISO_weeksep) && has c G_ISO_weekdaysep then Raise E_ParserError
      else
        match py_get_week (int_of (gtext c G_ISO_isoyear)) (int_of (gtext c G_ISO_isoweek))
                          (match grp c G_ISO_isoweekday with Some l => Some (int_of l) | None => None end) with
        | Ok (y, m, d) => Ok (y, m, d, false)
        | Raise e => Raise e
        end
    else
      let year := int_of (gtext c G_ISO_year) in
      if negb (has c G_ISO_monthday) then Ok (year, 1, 1, false)
      else if has c G_ISO_month && has c G_ISO_day then
        if negb (has c G_ISO_daysep) && (length (gtext c G_ISO_day) =? 1)%nat then
          match py_iso_ordinal_md year (int_of (gtext c G_ISO_month ++ gtext c G_ISO_day)) with
          | Ok (m, d) => Ok (year, m, d, false)
          | Raise e => Raise e
          end
        else Ok (year, int_of (gtext c G_ISO_month), int_of (gtext c G_ISO_day), false)
      else Ok (year, int_of (gtext c G_ISO_month), 1, negb (has c G_ISO_monthsep))
  else Ok (0, 1, 1, false).

Definition py_timepart (c : caps) (is_date : bool) (year month day : Z) : result pval :=
  let hour := int_of (gtext c G_ISO_hour) in
  let minsep := has c G_ISO_minsep in
  let secsep := has c G_ISO_secsep in
  if negb (has c G_ISO_minute) && minsep then Raise E_ParserError else
  let minute := if has c G_ISO_minute then int_of (gtext c G_ISO_minute) else 0 in
  if secsep && negb minsep && has c G_ISO_minute then Raise E_ParserError else
  if has c G_ISO_second && negb secsep && minsep then Raise E_ParserError else
  if negb (has c G_ISO_second) && secsep then Raise E_ParserError else
  let second := if has c G_ISO_second then int_of (gtext c G_ISO_second) else 0 in
  let us := if has c G_ISO_subsecondsection then int_of (pad6r (firstn 6 (gtext c G_ISO_subsecond))) else 0 in
  match (if has c G_ISO_tz then match py_tz_offset (gtext c G_ISO_tz) with Ok o => Ok (Some o) | Raise e => Raise e end
         else Ok None) with
  | Raise e => Raise e
  | Ok off =>
    if negb is_date then mk_time hour minute second us off
    else mk_datetime year month day hour minute second us off
  end.

(* parse_iso8601(text) for texts that are not durations (do not start with 'P') *)
Definition py_parse_iso (s : list Z) : result pval :=
  match re_match ISO_RE ISO_NGROUPS s with
  | None => Raise E_ParserError
  | Some c =>
    let is_date := has c G_ISO_date in
    match py_datepart c with
    | Raise e => Raise e
    | Ok (year, month, day, ambiguous) =>
      if negb (has c G_ISO_time) then
        if ambiguous then
          (* hhmmss = f"{year:04d}{month:02d}" (finding py-hhmmss-leading-zero repaired: it was f"{year!s}{month!s:0>2}",
             which dropped the leading zeros of the first four digits) *)
          let hhmmss := padl 4 (digits year) ++ padl 2 (digits month) in
          match int_of_str (slice hhmmss 0 2), int_of_str (slice hhmmss 2 4), int_of_str (skipn 4 hhmmss) with
          | Ok hh, Ok mm, Ok ss => mk_time hh mm ss 0 None
          | _, _, _ => Raise E_ValueError
          end
        else mk_date year month day
      else if ambiguous then Raise E_ParserError
      else if is_date && negb (has c G_ISO_timesep) then Raise E_ParserError
      else py_timepart c is_date year month day
    end
  end.

(* ================================================================== _parse_common (fallback) *)
Definition common_parse (s : list Z) : result pval :=
  match re_match COMMON_RE COMMON_NGROUPS s with
  | None => Raise E_ParserError
  | Some c =>
    let has_date := has c G_COMMON_date in
    let year := if has_date then int_of (gtext c G_COMMON_year) else 0 in
    let '(month, day) := if has_date && has c G_COMMON_monthday
                         then (int_of (gtext c G_COMMON_month), int_of (gtext c G_COMMON_day)) else (1, 1) in
    if negb (has c G_COMMON_time) then mk_date year month day
    else
      let hour := int_of (gtext c G_COMMON_hour) in
      if negb (has c G_COMMON_minute) then Raise E_TypeError       (* int(None) *)
      else
        let minute := int_of (gtext c G_COMMON_minute) in
        let second := if has c G_COMMON_second then int_of (gtext c G_COMMON_second) else 0 in
        let us := if has c G_COMMON_subsecondsection then int_of (pad6r (firstn 6 (gtext c G_COMMON_subsecond))) else 0 in
        if has_date then mk_datetime year month day hour minute second us None
        else mk_time hour minute second us None
  end.

(* ================================================================== pendulum.parse *)
(* supported inputs of the top-level model: no '/', not starting with 'P', not "now" *)
Definition supported (s : list Z) : bool :=
  negb (existsb (fun c => c =? ch_slash) s) && negb (cur s =? ch_P)
  && negb (match s with [110; 111; 119] => true | _ => false end).

Definition base_parse (rs : bool) (s : list Z) : result pval :=
  match (if rs then rs_parse_iso s else py_parse_iso s) with
  | Ok p => Ok p
  | Raise E_ValueError | Raise E_ParserError =>
      (* suppressed; _parse_iso8601_interval raises ParserError (no '/'); then _parse_common; strict=True *)
      common_parse s
  | Raise e => Raise e
  end.

(* exact / tz option (fixed offset in seconds, None = default UTC) / now = (y, m, d) *)
Definition to_datetime (y m d H M S us : Z) (off : Z) : result pval :=
  if (-86400 <? off) && (off <? 86400) then Ok (mkp 1 y m d H M S us (Some off)) else Raise E_ValueError.

Definition parse_top (rs exact : bool) (tzopt : option Z) (now : Z * Z * Z) (s : list Z) : result pval :=
  let deftz := match tzopt with Some o => o | None => 0 end in
  match base_parse rs s with
  | Raise e => Raise e
  | Ok p =>
    if p_kind p =? 1 then
      to_datetime (p_y p) (p_m p) (p_d p) (p_H p) (p_M p) (p_S p) (p_us p) (match p_off p with Some o => o | None => deftz end)
    else if p_kind p =? 2 then
      if exact then Ok p else to_datetime (p_y p) (p_m p) (p_d p) 0 0 0 0 deftz
    else
      if exact then Ok (mkp 3 0 0 0 (p_H p) (p_M p) (p_S p) (p_us p) None)
      else let '(ny, nm, nd) := now in to_datetime ny nm nd (p_H p) (p_M p) (p_S p) (p_us p) deftz
  end.
