(* Model/DispatchC13.v — entry point of the C13 models for the OCaml driver and the vm_compute cross-check.
   Strings are passed as their code points.  Result encoding: 0 :: values, [1; exn code], [9] bad call. *)
From Coq Require Import ZArith List Bool.
From PV Require Import Lib.PyBase Model.DurParse Model.DurSpec.
Import ListNotations.
Open Scope Z_scope.

Definition of_obs (r : result durobs) : list Z :=
  match r with Ok (y, mo, d, s, u) => [0; y; mo; d; s; u] | Raise e => [1; exn_code e] end.
Definition of_raw (r : result rsdur) : list Z :=
  match r with
  | Ok x => [0; r_years x; r_months x; r_weeks x; r_days x; r_hours x; r_minutes x; r_seconds x; r_us x]
  | Raise e => [1; exn_code e] end.
Definition of_interval (r : result (Z * parts)) : list Z :=
  match r with
  | Ok (form, (a, b, c, d, e, f, g, h)) => [0; form; a; b; c; d; e; f; g; h]
  | Raise e => [1; exn_code e] end.

Definition dispatch (fn : Z) (args : list Z) : list Z :=
  match fn, args with
  | 1 (* py_dur *), s => of_obs (py_dur_c s)
  | 2 (* rs_raw *), s => of_raw (rs_raw s)
  | 3 (* rs_dur *), s => of_obs (rs_dur_c s)
  | 4 (* spec *), w :: d :: h :: mi :: s :: unit_secs :: fs => [0; spec_num w d h mi s unit_secs fs; spec_den fs]
  | 5 (* py_interval *), s => of_interval (py_interval s)
  | 6 (* rs_interval *), s => of_interval (rs_interval s)
  | _, _ => [9]
  end.
