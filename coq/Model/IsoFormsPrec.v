(* Model/IsoFormsPrec.v — C07: the reduced-precision time forms of ISO 8601 as functions of the value (specification side, no proofs):
   hour only (HH) and hour-minute (HH:MM extended, HHMM basic), alone or after a date, with an optional offset (Model/IsoForms.v offs).
   A fraction is only written after the seconds (Model/IsoForms.v iso_datetime / iso_time). *)
From Coq Require Import ZArith List Bool.
From PV Require Import Lib.PyBase Spec.Cal Model.C07Regex Model.IsoParse Model.IsoRender Model.IsoForms.
Import ListNotations.
Open Scope Z_scope.

(* prec = 0: HH ; prec = 1: HH:MM / HHMM *)
Definition time_textp (ext : bool) (prec : nat) (H M : Z) : list Z :=
  match prec with
  | O => render2 H
  | _ => if ext then render2 H ++ [58] ++ render2 M else render2 H ++ render2 M
  end.
(* the minute that the text denotes *)
Definition minute_p (prec : nat) (M : Z) : Z := match prec with O => 0 | _ => M end.

(* <date><T| ><HH[[:]MM]>[<offset>] *)
Definition iso_datetimep (form sep : Z) (prec : nat) (y m d H M : Z) (o : offs) : list Z :=
  render_date form y m d ++ [sep] ++ time_textp (form_ext form) prec H M ++ offs_text o.
(* [T]<HH[[:]MM]>[<offset>] *)
Definition iso_timep (pre ext : bool) (prec : nat) (H M : Z) (o : offs) : list Z :=
  (if pre then [84] else []) ++ time_textp ext prec H M ++ offs_text o.
