(* Model/PickleHistory.v — C14: a copy made in a process that has a HISTORY.

   The statement of C14 quantifies over every value, hence over every process in which the value is copied.  The only process-wide state
   of pendulum that a timezone object can meet on its way through pickle / copy / deepcopy is the per-offset cache of
   `pendulum.tz.fixed_timezone` (`_tz_cache: dict[int, FixedTimezone]`), filled by `pendulum.timezone(<int>)`,
   `pendulum.datetime(..., tz=<number>)`, `dt.in_tz(<number>)`, `pendulum.instance(<datetime with a fixed stdlib offset>)`,
   `pendulum.from_format(.. "Z")`:

       def fixed_timezone(offset):                    def timezone(name):
           if offset in _tz_cache:                        if isinstance(name, int): return fixed_timezone(name)
               return _tz_cache[offset]                   if name.lower() == "utc": return UTC
           tz = FixedTimezone(offset)                     return Timezone(name)
           _tz_cache[offset] = tz
           return tz

   This file is the executable model of that small state machine: state = the cache, one step per earlier (or later) call, the
   output of a step = what the call returned as the public accessors show it.  The copy routes themselves are Model/Pickle.v: they
   are functions of the value alone (tzinfo.__reduce__ = (cls, __getinitargs__(), __dict__) never consults the cache), which is
   exactly what the `hist` entry of Model/DispatchC14.v lets the correspondence run compare with the implementation:
   a history of factory calls / constructions / earlier copies, then the copy of the value, then more factory calls.
   A call that raises (FixedTimezone(offset) with an offset beyond timedelta's range: OverflowError) leaves the cache as it was.
   No proofs here (Proofs/C14History.v).  Tied to /repo by the C14 correspondence run (the hist streams). *)
From Coq Require Import ZArith List Bool String.
From PV Require Import Lib.PyBase Spec.Cal Spec.Zone Spec.TdFloat Gen.Reduce Model.Pickle.
Import ListNotations.
Open Scope Z_scope.

(* pendulum.tz._tz_cache *)
Definition tzcache := list (Z * tzv).
Fixpoint cache_get (c : tzcache) (off : Z) : option tzv :=
  match c with
  | [] => None
  | (o, t) :: r => if o =? off then Some t else cache_get r off
  end.

(* pendulum.tz.fixed_timezone(offset): the object handed out and the cache afterwards *)
Definition fixed_timezone (c : tzcache) (off : Z) : result tzv * tzcache :=
  match cache_get c off with
  | Some t => (Ok t, c)
  | None => match fixed_new [AInt off] [] with
            | Ok t => (Ok t, (off, t) :: c)
            | Raise e => (Raise e, c)
            end
  end.

(* one call of the history *)
Inductive hop :=
| HTimezoneInt (off : Z)            (* pendulum.timezone(off) and every public route that ends there (tz=<number>, instance(), from_format) *)
| HTimezoneName (k : Z)             (* pendulum.timezone("<key>") = Timezone(key) *)
| HMakeTz (t : tzv)                 (* FixedTimezone(off[, name]) / Timezone(key) constructed directly and kept alive *)
| HCopyTz (r : route) (t : tzv)     (* an earlier pickle / copy.copy / copy.deepcopy of a timezone object *)
| HOther.                           (* an earlier copy of a Date / DateTime / Time / Duration / Interval: its own result is what the
                                       ordinary entries model; here it only matters that it leaves the cache alone *)

Definition res_obs {A} (obs : A -> list Z) (r : result A) : list Z :=
  match r with Ok v => 0 :: obs v | Raise e => [1; exn_code e] end.

(* the cache after the call, and what the call returned *)
Definition hstep (c : tzcache) (o : hop) : tzcache * list Z :=
  match o with
  | HTimezoneInt off => (snd (fixed_timezone c off), res_obs tz_obs (fst (fixed_timezone c off)))
  | HTimezoneName k => (c, res_obs tz_obs (Ok (TzNamed k)))
  | HMakeTz t => (c, res_obs tz_obs (Ok t))
  | HCopyTz r t => (c, res_obs tz_obs (tz_rebuild r t))
  | HOther => (c, [])
  end.

Fixpoint hrun (c : tzcache) (ops : list hop) : tzcache * list (list Z) :=
  match ops with
  | [] => (c, [])
  | o :: r => (fst (hrun (fst (hstep c o)) r), snd (hstep c o) :: snd (hrun (fst (hstep c o)) r))
  end.

(* the value that is copied after the history *)
Inductive hval := HvTz (t : tzv) | HvDt (v : dtv) | HvTm (v : tmv).

Section WithZones.
Variable zdb : Z -> zone.
Definition hv_orig (v : hval) : list Z :=
  match v with HvTz t => tz_obs t | HvDt d => dt_obs zdb d | HvTm t => tm_obs t end.
Definition hv_copy (r : route) (v : hval) : list Z :=
  match v with
  | HvTz t => res_obs tz_obs (tz_rebuild r t)
  | HvDt d => res_obs (dt_obs zdb) (dt_rebuild r d)
  | HvTm t => res_obs tm_obs (tm_rebuild r t)
  end.

(* calls before the copy, the original as observed, the copy (or the exception), calls after the copy *)
Record hres := mkhres { hr_before : list (list Z); hr_orig : list Z; hr_copy : list Z; hr_after : list (list Z); hr_cache : tzcache }.
Definition hist_run (before : list hop) (r : route) (v : hval) (after : list hop) : hres :=
  let b := hrun [] before in
  let a := hrun (fst b) after in
  mkhres (snd b) (hv_orig v) (hv_copy r v) (snd a) (fst a).
End WithZones.

(* length-prefixed segments for the driver *)
Definition seg (l : list Z) : list Z := Z.of_nat (List.length l) :: l.
Definition hres_codes (h : hres) : list Z :=
  flat_map seg (hr_before h) ++ seg (hr_orig h) ++ seg (hr_copy h) ++ flat_map seg (hr_after h).
