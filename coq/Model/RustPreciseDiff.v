(* Model/RustPreciseDiff.v — C06: hand-written model of rust/src/python/helpers.rs :: precise_diff, with its manual offset
   arithmetic exactly as written: truncating / and % on the offset, the `> 60` / `> 24` carry tests (so 60 minutes or 24 hours
   are NOT carried), the day moved by one without any month carry (day 0 / day 32 can appear), the lexicographic field-tuple
   ordering evaluated AFTER the shifts, total_days taken from the unshifted dates; both operands are tested with `is_type_of`
   (a datetime subclass instance is a datetime in either position: finding rs-second-operand-subclass is repaired).
   Executable definitions only.  Tied to the compiled extension by the correspondence run. *)
From Coq Require Import ZArith List Bool.
From PV Require Import Lib.PyBase Gen.RustConstants Model.RustHelpers Model.PdBase.
Import ListNotations.
Open Scope Z_scope.

Record rsinfo := mkrs { r_year : Z; r_month : Z; r_day : Z; r_hour : Z; r_minute : Z; r_second : Z; r_micro : Z }.

(* get_tz_name: "" (0) unless a datetime with a tzinfo that has key/name/zone; get_offset: 0 unless a datetime with tzinfo *)
Definition rs_tz (d : pdt) : Z := if p_is_dt d && p_has_tz d then p_tzname d else 0.
Definition rs_off (d : pdt) : Z := if p_is_dt d && p_has_tz d then p_offset d else 0.

(* the manual subtraction of the offset from (hour, minute, second, day) *)
Definition rs_shift (hh mm ss dd off : Z) : Z * Z * Z * Z :=
  let hh := hh - Z.quot off RS_SECS_PER_HOUR in
  let off := Z.rem off RS_SECS_PER_HOUR in
  let mm := mm - Z.quot off RS_SECS_PER_MIN in
  let off := Z.rem off RS_SECS_PER_MIN in
  let ss := ss - off in
  let '(ss, mm) := if ss <? 0 then (ss + 60, mm - 1) else if ss >? 60 then (ss - 60, mm + 1) else (ss, mm) in
  let '(mm, hh) := if mm <? 0 then (mm + 60, hh - 1) else if mm >? 60 then (mm - 60, hh + 1) else (mm, hh) in
  let '(hh, dd) := if hh <? 0 then (hh + 24, dd - 1) else if hh >? 24 then (hh - 24, dd + 1) else (hh, dd) in
  (hh, mm, ss, dd).

(* one operand after the `if dtinfo.is_datetime { ... }` block *)
Definition rs_info (d : pdt) (isdt in_same_tz : bool) (total_days : Z) : rsinfo :=
  if isdt then
    if (negb in_same_tz && negb (rs_off d =? 0)) || (total_days =? 0) then
      let '(hh, mm, ss, dd) := rs_shift (p_hour d) (p_minute d) (p_second d) (p_day d) (rs_off d) in
      mkrs (p_year d) (p_month d) dd hh mm ss (p_microsecond d)
    else mkrs (p_year d) (p_month d) (p_day d) (p_hour d) (p_minute d) (p_second d) (p_microsecond d)
  else mkrs (p_year d) (p_month d) (p_day d) 0 0 0 0.

(* lexicographic > on the seven fields *)
Fixpoint lex_gtb (a b : list Z) : bool :=
  match a, b with
  | x :: a', y :: b' => if x >? y then true else if x <? y then false else lex_gtb a' b'
  | _, _ => false
  end.
Definition rs_fields (i : rsinfo) : list Z := [r_year i; r_month i; r_day i; r_hour i; r_minute i; r_second i; r_micro i].
Definition rs_gtb (a b : rsinfo) : bool := lex_gtb (rs_fields a) (rs_fields b).

(* the part after the swap: borrow chain, month-length three-way match (the `Equal` arm is guarded by
   `dtinfo1.day == days_in_last_month`, otherwise Equal falls through to the Greater arm), month borrow *)
Definition rs_core (i1 i2 : rsinfo) (sign total_days : Z) : pdiff :=
  let year_diff := r_year i2 - r_year i1 in
  let month_diff := r_month i2 - r_month i1 in
  let day_diff := r_day i2 - r_day i1 in
  let hour_diff := r_hour i2 - r_hour i1 in
  let minute_diff := r_minute i2 - r_minute i1 in
  let second_diff := r_second i2 - r_second i1 in
  let micro_diff := r_micro i2 - r_micro i1 in
  let '(micro_diff, second_diff) := if micro_diff <? 0 then (micro_diff + 1000000, second_diff - 1) else (micro_diff, second_diff) in
  let '(second_diff, minute_diff) := if second_diff <? 0 then (second_diff + 60, minute_diff - 1) else (second_diff, minute_diff) in
  let '(minute_diff, hour_diff) := if minute_diff <? 0 then (minute_diff + 60, hour_diff - 1) else (minute_diff, hour_diff) in
  let '(hour_diff, day_diff) := if hour_diff <? 0 then (hour_diff + 24, day_diff - 1) else (hour_diff, day_diff) in
  let '(day_diff, month_diff) :=
    if day_diff <? 0 then
      let '(month, year) := if r_month i2 =? 1 then (12, r_year i2 - 1) else (r_month i2 - 1, r_year i2) in
      let days_in_last_month := tidx (tidx2 RS_DAYS_PER_MONTHS (Z.b2z (rs_is_leap year))) month in
      let days_in_month := tidx (tidx2 RS_DAYS_PER_MONTHS (Z.b2z (rs_is_leap (r_year i2)))) (r_month i2) in
      let '(day_diff, month_diff) :=
        if day_diff <? days_in_month - days_in_last_month then
          ((if days_in_last_month <? r_day i1 then day_diff + r_day i1 else day_diff + days_in_last_month), month_diff)
        else if (day_diff =? days_in_month - days_in_last_month) && (r_day i1 =? days_in_last_month) then (0, month_diff + 1)
        else (day_diff + days_in_last_month, month_diff) in
      (day_diff, month_diff - 1)
    else (day_diff, month_diff) in
  let '(month_diff, year_diff) := if month_diff <? 0 then (month_diff + 12, year_diff - 1) else (month_diff, year_diff) in
  mkPD (year_diff * sign) (month_diff * sign) (day_diff * sign) (hour_diff * sign) (minute_diff * sign) (second_diff * sign)
       (micro_diff * sign) (total_days * sign).

(* p_is_dt is `PyDateTime::is_type_of_bound` (datetime.datetime or any subclass, e.g. pendulum.DateTime), for BOTH operands *)
Definition rs_precise_diff (d1 d2 : pdt) : pdiff :=
  let in_same_tz := (rs_tz d1 =? rs_tz d2) && negb (rs_tz d1 =? 0) in
  let total_days := rs_day_number (p_year d2) (p_month d2) (p_day d2) - rs_day_number (p_year d1) (p_month d1) (p_day d1) in
  let i1 := rs_info d1 (p_is_dt d1) in_same_tz total_days in
  let i2 := rs_info d2 (p_is_dt d2) in_same_tz total_days in
  if rs_gtb i1 i2 then rs_core i2 i1 (-1) (- total_days) else rs_core i1 i2 1 total_days.
