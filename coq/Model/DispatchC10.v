(* Model/DispatchC10.v — entry point of the executable model of C10 (Duration arithmetic).
   A value travels as ten integers: kind, a1..a9
     1 int k            [k]
     2 float            [tag; mantissa; exponent]            (TdFloat.sf_code)
     3 Duration         [days; seconds; microseconds; milliseconds; minutes; hours; weeks; years; months]  (integer constructor arguments)
     4 plain timedelta  [N microseconds]
     5 Interval         [delta microseconds; absolute]       (end - start of the two native datetimes as given; absolute <> 0: Interval(start, end, absolute=True))
   Result encoding: 0 :: kind :: values (normal), 1 :: [exn code] (raise), 9 :: [] (bad call).
   Result kinds: 1 Duration (dur_obs) | 2 int | 3 float | 4 (int, Duration) | 5 plain timedelta (d, s, us) | 6 (int, plain timedelta)
                 | 7 bool | 8 triple | 12 Interval (dur_obs, absolute; ivl_unop only) | 15 NotImplemented (in a history: no pendulum operand)
   history: the outcomes of all steps, each preceded by its length. *)
From Coq Require Import ZArith List Bool.
From Coq Require Import Floats.SpecFloat.
From PV Require Import Lib.PyBase Spec.TdFloat Gen.Constants Model.Duration Gen.DurationOps Model.DurationOps.
Import ListNotations.
Open Scope Z_scope.

Definition decode (kind : Z) (a : list Z) : result value :=
  match kind, a with
  | 1, [k; _; _; _; _; _; _; _; _] => Ok (VInt k)
  | 2, [t; m; e; _; _; _; _; _; _] => Ok (VFloat (sf_decode t m e))
  | 3, [d; s; us; ms; mi; h; w; y; mo] => bind (duration_new d s us ms mi h w y mo) (fun x => Ok (VDur x))
  | 4, [n; _; _; _; _; _; _; _; _] => if td_in_range n then Ok (VTd n) else Raise E_OverflowError
  | 5, [n; ab; _; _; _; _; _; _; _] => bind (interval_new_abs n (negb (ab =? 0))) (fun x => Ok (VIvl x))
  | _, _ => Raise E_Exception
  end.

Definition td3 (n : Z) : list Z := let '(a, b, c) := td_norm n in [a; b; c].

Definition enc_res (r : opres) : list Z :=
  match r with
  | RDur d => 1 :: dur_obs d
  | RInt z => [2; z]
  | RFloat x => 3 :: sf_code x
  | RPair q d => 4 :: q :: dur_obs d
  | RTd n => 5 :: td3 n
  | RPairTd q n => 6 :: q :: td3 n
  | RBool b => [7; Z.b2z b]
  | RTriple a b c => [8; a; b; c]
  | RNotImpl => [15]
  end.

Definition of_res (r : result opres) : list Z :=
  match r with Ok x => 0 :: enc_res x | Raise e => [1; exn_code e] end.
Definition of_resZ (r : result Z) : list Z :=
  match r with Ok z => [0; z] | Raise e => [1; exn_code e] end.

(* a history travels as 22 integers per step: tag (1 binary, 2 unary); method; operand; operand (zeros for a unary step).
   Operand kinds 1..5 as above, 6 = the object returned by step a1, anything else (7: AbsoluteDuration) is not modelled *)
Definition operand_of (k : Z) (a : list Z) : operand := if k =? 6 then ORef (hd 0 a) else OLit (decode k a).

Fixpoint parse_history (a : list Z) : option (list hstep) :=
  match a with
  | [] => Some []
  | tag :: m :: k1 :: a1 :: a2 :: a3 :: a4 :: a5 :: a6 :: a7 :: a8 :: a9 :: k2 :: b1 :: b2 :: b3 :: b4 :: b5 :: b6 :: b7 :: b8 :: b9 :: rest =>
      match parse_history rest with
      | Some t =>
          let l := operand_of k1 [a1; a2; a3; a4; a5; a6; a7; a8; a9] in
          if tag =? 1 then Some (HBin m l (operand_of k2 [b1; b2; b3; b4; b5; b6; b7; b8; b9]) :: t)
          else if tag =? 2 then Some (HUn m l :: t) else None
      | None => None
      end
  | _ => None
  end.

(* the outcome of every step, each preceded by its length *)
Definition enc_history (rs : list (result opres)) : list Z :=
  flat_map (fun r => let e := of_res r in Z.of_nat (length e) :: e) rs.

Definition dispatch_history (a : list Z) : list Z :=
  match parse_history a with Some h => enc_history (run_history h) | None => [9] end.

Definition dispatch_divisor (k : Z) (a : list Z) : list Z :=
  match decode k a with
  | Ok v => match divisor_us v with Some u => [0; u] | None => [1; exn_code E_TypeError] end
  | Raise e => [1; exn_code e]
  end.

(* unary operators on an Interval(start, start + delta, absolute): -i and abs(i) are Interval's own (results: Intervals), +i and bool(i) are
   inherited from timedelta (on the native value) *)
Definition ivl_res (r : result dur) (absolute : bool) : list Z :=
  match r with Ok d => 0 :: 12 :: dur_obs d ++ [Z.b2z absolute] | Raise e => [1; exn_code e] end.

Definition dispatch_ivl_unop (m delta ab : Z) : list Z :=
  let a := negb (ab =? 0) in
  match interval_new_abs delta a with
  | Raise e => [1; exn_code e]
  | Ok i =>
      if m =? 3 then ivl_res (interval_neg delta a) a
      else if m =? 9 then ivl_res (interval_abs delta a) true
      else if (m =? 16) || (m =? 18) then of_res (unop m (VDur i))
      else [9]
  end.

Definition dispatch (fn : Z) (args : list Z) : list Z :=
  match fn, args with
  | 1 (* binop *), [m; k1; a1; a2; a3; a4; a5; a6; a7; a8; a9; k2; b1; b2; b3; b4; b5; b6; b7; b8; b9] =>
      of_res (bind (decode k1 [a1; a2; a3; a4; a5; a6; a7; a8; a9]) (fun l =>
              bind (decode k2 [b1; b2; b3; b4; b5; b6; b7; b8; b9]) (fun r => binop m l r)))
  | 2 (* unop *), [m; k1; a1; a2; a3; a4; a5; a6; a7; a8; a9] =>
      of_res (bind (decode k1 [a1; a2; a3; a4; a5; a6; a7; a8; a9]) (fun v => unop m v))
  | 3 (* divide_and_round *), [a; b] =>
      if b =? 0 then [1; exn_code E_ZeroDivisionError] else [0; py_divide_and_round a b]
  | 4 (* to_microseconds *), [d; s; us; ms; mi; h; w; y; mo] =>
      of_resZ (bind (duration_new d s us ms mi h w y mo) (fun x => Ok (py_Duration_to_microseconds x)))
  | 5 (* as_integer_ratio *), [t; m; e] =>
      match py_as_integer_ratio (sf_decode t m e) with Ok (a, b) => [0; a; b] | Raise ex => [1; exn_code ex] end
  | 6 (* int_truediv *), [a; b] =>
      match py_int_truediv a b with Ok x => 0 :: sf_code x | Raise ex => [1; exn_code ex] end
  | 7 (* divide_and_round_float *), [a; t; m; e] => of_resZ (divide_and_round_float a (sf_decode t m e))
  | 8 (* dur_fsec *), [t; m; e; y; mo] =>
      match duration_new_fsec (sf_decode t m e) y mo with Ok d => 0 :: dur_obs d | Raise ex => [1; exn_code ex] end
  | 9 (* history *), a => dispatch_history a
  | 10 (* divisor_us *), [k; a1; a2; a3; a4; a5; a6; a7; a8; a9] => dispatch_divisor k [a1; a2; a3; a4; a5; a6; a7; a8; a9]
  | 11 (* ivl_unop *), [m; n; ab] => dispatch_ivl_unop m n ab
  | _, _ => [9]
  end.
