(* Model/DurParse.v — C13: executable models of the two ISO 8601 duration parsers.
   Strings are lists of Unicode code points (Z).  No proofs here.

   rs_*  : rust/src/parsing.rs  parse_duration / parse_duration_number(_frac)  (u32 arithmetic wraps mod 2^32:
           Cargo profile has overflow-checks = false; f64 over Coq's SpecFloat, prec 53 emax 1024),
           rust/src/python/parsing.rs (raw _pendulum.Duration), glue in pendulum/parser.py to pendulum.duration(...).
   py_*  : src/pendulum/parsing/iso8601.py  ISO8601_DURATION (hand-written matcher equivalent to the regex on ASCII input;
           the pattern text itself is pinned by Gen/DurRegex.v) and _parse_iso8601_duration, Duration.__new__ ->
           timedelta.__new__ with float arguments (CPython delta_new/accum), Duration's derived fields used by the interval glue.
   Everything is tied to /repo by the correspondence run of ./check C13 (bit-exact on floats through their effects). *)
From Coq Require Import ZArith List Bool Floats.SpecFloat.
From PV Require Import Lib.PyBase Gen.Constants.
Import ListNotations.
Open Scope Z_scope.

(* ------------------------------------------------------------------ binary64 *)
Definition dprec : Z := 53.
Definition demax : Z := 1024.
Definition fmul := SFmul dprec demax.
Definition fadd := SFadd dprec demax.
Definition fsub := SFsub dprec demax.
Definition fdiv := SFdiv dprec demax.
Definition f_of_Z (n : Z) : spec_float := binary_normalize dprec demax n 0 false.
Definition f_zero : spec_float := S754_zero false.
Definition f_one : spec_float := f_of_Z 1.
Definition f_half : spec_float := fdiv f_one (f_of_Z 2).

Definition f_is_zero (x : spec_float) : bool := match x with S754_zero _ => true | _ => false end.
Definition f_is_finite (x : spec_float) : bool := match x with S754_zero _ | S754_finite _ _ _ => true | _ => false end.

(* integer part toward zero (0 for non-finite) *)
Definition f_truncZ (x : spec_float) : Z :=
  match x with
  | S754_finite s m e =>
      let a := if e <? 0 then Zpos m / 2 ^ (- e) else Zpos m * 2 ^ e in
      if s then - a else a
  | _ => 0
  end.

(* f64::trunc / the integer part of C modf, as a float *)
Definition f_trunc (x : spec_float) : spec_float :=
  match x with
  | S754_finite s m e =>
      if e <? 0 then binary_normalize dprec demax (f_truncZ x) 0 s else x
  | _ => x
  end.

(* f64::round / C round(): nearest integer, ties away from zero *)
Definition f_round_awayZ (x : spec_float) : Z :=
  match x with
  | S754_finite s m e =>
      let a := if e <? 0 then
                 let d := 2 ^ (- e) in
                 let q := Zpos m / d in let r := Zpos m mod d in
                 if d <=? 2 * r then q + 1 else q
               else Zpos m * 2 ^ e in
      if s then - a else a
  | _ => 0
  end.
Definition f_round_away (x : spec_float) : spec_float :=
  match x with
  | S754_finite s m e => if e <? 0 then binary_normalize dprec demax (f_round_awayZ x) 0 s else x
  | _ => x
  end.

(* Python round(x) -> int: ties to even (finite x) *)
Definition f_round_evenZ (x : spec_float) : Z :=
  match x with
  | S754_finite s m e =>
      let a := if e <? 0 then
                 let d := 2 ^ (- e) in
                 let q := Zpos m / d in let r := Zpos m mod d in
                 if d <? 2 * r then q + 1 else if d =? 2 * r then (if Z.even q then q else q + 1) else q
               else Zpos m * 2 ^ e in
      if s then - a else a
  | _ => 0
  end.

(* Rust `x as u32` : saturating, NaN -> 0 *)
Definition f_to_u32 (x : spec_float) : Z :=
  match x with
  | S754_nan => 0
  | S754_infinity s => if s then 0 else 4294967295
  | S754_zero _ => 0
  | S754_finite s _ _ => if s then 0 else Z.min (f_truncZ x) 4294967295
  end.

(* CPython int / int (long_true_divide): the correctly rounded quotient, a > = 0, b > 0; infinity = OverflowError *)
Definition int_truediv (a b : Z) : spec_float :=
  match a, b with
  | Zpos pa, Zpos pb =>
      let '(mz, ez, lz) := SFdiv_core_binary dprec demax (Zpos pa) 0 (Zpos pb) 0 in
      binary_round_aux dprec demax false mz ez lz
  | Z0, Zpos _ => S754_zero false
  | _, _ => S754_nan
  end.

(* ------------------------------------------------------------------ characters *)
Definition c_P := 80. Definition c_T := 84. Definition c_W := 87. Definition c_Y := 89. Definition c_M := 77.
Definition c_D := 68. Definition c_H := 72. Definition c_S := 83. Definition c_dot := 46. Definition c_comma := 44.
Definition c_slash := 47. Definition c_nl := 10.

Definition is_digit (c : Z) : bool := (48 <=? c) && (c <=? 57).
Definition is_sep (c : Z) : bool := (c =? 46) || (c =? 44).

(* int(<ascii digits>) *)
Definition dval (ds : list Z) : Z := fold_left (fun a c => 10 * a + (c - 48)) ds 0.

Fixpoint span_digits (l : list Z) : list Z * list Z :=
  match l with
  | c :: r => if is_digit c then let '(a, b) := span_digits r in (c :: a, b) else ([], l)
  | [] => ([], [])
  end.

Definition is_nil {A} (l : list A) : bool := match l with [] => true | _ => false end.

(* ================================================================== Rust *)
Definition u32 (x : Z) : Z := x mod 4294967296.

Record rsdur := mk_rsdur { r_years : Z; r_months : Z; r_weeks : Z; r_days : Z; r_hours : Z; r_minutes : Z; r_seconds : Z; r_us : Z }.
Definition rsdur0 := mk_rsdur 0 0 0 0 0 0 0 0.

(* while let Some(digit) = self.inc().and_then(|ch| ch.to_digit(10)) { value *= 10; value += digit; }   (each op wraps) *)
Fixpoint rs_num_loop (v : Z) (l : list Z) : Z * list Z :=
  match l with
  | c :: r => if is_digit c then rs_num_loop (u32 (u32 (v * 10) + (c - 48))) r else (v, l)
  | [] => (v, [])
  end.

(* parse_duration_number: `l` starts at self.current ([] = end of input, current = '\0') *)
Definition rs_number (l : list Z) : result (Z * list Z) :=
  match l with
  | c :: r => if is_digit c then Ok (rs_num_loop (c - 48) r) else Raise E_ValueError
  | [] => Raise E_ValueError
  end.

Fixpoint rs_frac_loop (dec den : spec_float) (l : list Z) : spec_float * spec_float * list Z :=
  match l with
  | c :: r => if is_digit c then rs_frac_loop (fadd (fmul dec (f_of_Z 10)) (f_of_Z (c - 48))) (fmul den (f_of_Z 10)) r
              else (dec, den, l)
  | [] => (dec, den, [])
  end.

Definition rs_number_frac (l : list Z) : result (Z * option spec_float * list Z) :=
  bind (rs_number l) (fun vl =>
    let '(v, l1) := vl in
    match l1 with
    | c :: r => if is_sep c then
                  let '(dec, den, l2) := rs_frac_loop f_zero f_one r in Ok (v, Some (fdiv dec den), l2)
                else Ok (v, None, l1)
    | [] => Ok (v, None, [])
    end).

(* the tail shared by the H / D / W fraction branches: extra_minutes (already rounded where the code rounds) -> minutes, seconds, us *)
Definition rs_spill_minutes (extra_minutes : spec_float) (d : rsdur) : rsdur :=
  let extra_full_minutes := f_trunc extra_minutes in
  let minutes := u32 (r_minutes d + f_to_u32 extra_full_minutes) in
  let extra_seconds := f_round_away (fmul (fsub extra_minutes extra_full_minutes) (f_of_Z 60)) in
  let extra_full_seconds := f_trunc extra_seconds in
  let seconds := u32 (r_seconds d + f_to_u32 extra_full_seconds) in
  let micro_extra := f_to_u32 (f_round_away (fmul (fsub extra_seconds extra_full_seconds) (f_of_Z 1000000))) in
  mk_rsdur (r_years d) (r_months d) (r_weeks d) (r_days d) (r_hours d) minutes seconds (u32 (r_us d + micro_extra)).

Definition rs_spill_hours (extra_hours : spec_float) (d : rsdur) : rsdur :=
  let extra_full_hours := f_trunc extra_hours in
  let d1 := mk_rsdur (r_years d) (r_months d) (r_weeks d) (r_days d) (u32 (r_hours d + f_to_u32 extra_full_hours))
                     (r_minutes d) (r_seconds d) (r_us d) in
  rs_spill_minutes (f_round_away (fmul (fsub extra_hours extra_full_hours) (f_of_Z 60))) d1.

Definition rs_unit (got_t : bool) (cur value : Z) (frac : option spec_float) (lhf : bool) (d : rsdur) : result rsdur :=
  if got_t then
    if cur =? c_H then
      if negb (r_minutes d =? 0) || negb (r_seconds d =? 0) || negb (r_us d =? 0) then Raise E_ValueError else
      let d1 := mk_rsdur (r_years d) (r_months d) (r_weeks d) (r_days d) (u32 (r_hours d + value)) (r_minutes d) (r_seconds d) (r_us d) in
      match frac with
      | Some fr => Ok (rs_spill_minutes (fmul fr (f_of_Z 60)) d1)
      | None => Ok d1
      end
    else if cur =? c_M then
      if negb (r_seconds d =? 0) || negb (r_us d =? 0) then Raise E_ValueError else
      let d1 := mk_rsdur (r_years d) (r_months d) (r_weeks d) (r_days d) (r_hours d) (u32 (r_minutes d + value)) (r_seconds d) (r_us d) in
      match frac with
      | Some fr =>
          let extra_seconds := fmul fr (f_of_Z 60) in
          let extra_full_seconds := f_trunc extra_seconds in
          let seconds := u32 (r_seconds d1 + f_to_u32 extra_full_seconds) in
          let micro_extra := f_to_u32 (f_round_away (fmul (fsub extra_seconds extra_full_seconds) (f_of_Z 1000000))) in
          Ok (mk_rsdur (r_years d1) (r_months d1) (r_weeks d1) (r_days d1) (r_hours d1) (r_minutes d1) seconds (u32 (r_us d1 + micro_extra)))
      | None => Ok d1
      end
    else if cur =? c_S then
      let d1 := mk_rsdur (r_years d) (r_months d) (r_weeks d) (r_days d) (r_hours d) (r_minutes d) value (r_us d) in
      match frac with
      | Some fr =>
          Ok (mk_rsdur (r_years d1) (r_months d1) (r_weeks d1) (r_days d1) (r_hours d1) (r_minutes d1) (r_seconds d1)
                       (u32 (r_us d1 + f_to_u32 (f_round_away (fmul fr (f_of_Z 1000000))))))
      | None => Ok d1
      end
    else Raise E_ValueError
  else
    if cur =? c_Y then
      if lhf then Raise E_ValueError else
      if negb (r_months d =? 0) || negb (r_days d =? 0) then Raise E_ValueError else
      Ok (mk_rsdur value (r_months d) (r_weeks d) (r_days d) (r_hours d) (r_minutes d) (r_seconds d) (r_us d))
    else if cur =? c_M then
      if lhf then Raise E_ValueError else
      if negb (r_days d =? 0) then Raise E_ValueError else
      Ok (mk_rsdur (r_years d) value (r_weeks d) (r_days d) (r_hours d) (r_minutes d) (r_seconds d) (r_us d))
    else if cur =? c_W then
      if negb (r_years d =? 0) || negb (r_months d =? 0) then Raise E_ValueError else
      let d1 := mk_rsdur (r_years d) (r_months d) value (r_days d) (r_hours d) (r_minutes d) (r_seconds d) (r_us d) in
      match frac with
      | Some fr =>
          let extra_days := fmul fr (f_of_Z 7) in
          let extra_full_days := f_trunc extra_days in
          let d2 := mk_rsdur (r_years d1) (r_months d1) (r_weeks d1) (u32 (r_days d1 + f_to_u32 extra_full_days))
                             (r_hours d1) (r_minutes d1) (r_seconds d1) (r_us d1) in
          Ok (rs_spill_hours (fmul (fsub extra_days extra_full_days) (f_of_Z 24)) d2)
      | None => Ok d1
      end
    else if cur =? c_D then
      if negb (r_weeks d =? 0) then Raise E_ValueError else
      let d1 := mk_rsdur (r_years d) (r_months d) (r_weeks d) (u32 (r_days d + value)) (r_hours d) (r_minutes d) (r_seconds d) (r_us d) in
      match frac with
      | Some fr => Ok (rs_spill_hours (fmul fr (f_of_Z 24)) d1)
      | None => Ok d1
      end
    else Raise E_ValueError.

(* the `loop { ... }` of parse_duration; `l` starts at self.current; fuel = number of remaining characters is enough *)
Fixpoint rs_loop (fuel : nat) (d : rsdur) (got_t lhf : bool) (l : list Z) : result rsdur :=
  match fuel with
  | O => Raise E_OutOfFuel
  | S f =>
    match l with
    | c :: r =>
      if c =? c_T then
        if got_t then Raise E_ValueError
        else if is_nil r then Ok d else rs_loop f d true lhf r
      else
        bind (rs_number_frac l) (fun vfl =>
          let '(value, frac, l1) := vfl in
          if lhf then Raise E_ValueError else
          let lhf' := match frac with Some _ => true | None => false end in
          match l1 with
          | cur :: r1 =>
              bind (rs_unit got_t cur value frac lhf' d) (fun d' =>
                if is_nil r1 then Ok d' else rs_loop f d' got_t lhf' r1)
          | [] => Raise E_ValueError          (* current = '\0': invalid unit *)
          end)
    | [] => Raise E_ValueError                (* "P" alone: invalid number *)
    end
  end.

(* Parser::parse on a string that starts with 'P' *)
Definition rs_raw (s : list Z) : result rsdur :=
  match s with
  | c :: l => if c =? c_P then rs_loop (S (length l)) rsdur0 false false l else Raise E_ValueError
  | [] => Raise E_ValueError
  end.

(* ================================================================== CPython timedelta.__new__ (delta_new / accum) *)
Inductive num := NInt (z : Z) | NFloat (f : spec_float).

Definition num_add_int (a : num) (b : Z) : num :=
  match a with NInt z => NInt (z + b) | NFloat f => NFloat (fadd f (f_of_Z b)) end.
Definition num_add_float (a : num) (b : spec_float) : num :=
  match a with NInt z => NFloat (fadd (f_of_Z z) b) | NFloat f => NFloat (fadd f b) end.

Definition accum (st : result (Z * spec_float)) (n : num) (factor : Z) : result (Z * spec_float) :=
  bind st (fun xs =>
    let '(sofar, leftover) := xs in
    match n with
    | NInt z => Ok (sofar + z * factor, leftover)
    | NFloat dn =>
        match dn with
        | S754_nan => Raise E_ValueError
        | S754_infinity _ => Raise E_OverflowError
        | _ =>
          let intpart := f_trunc dn in
          let fracpart := fsub dn intpart in
          let sum := sofar + f_truncZ intpart * factor in
          if f_is_zero fracpart then Ok (sum, leftover) else
          let dn2 := fmul (f_of_Z factor) fracpart in
          let intpart2 := f_trunc dn2 in
          let fracpart2 := fsub dn2 intpart2 in
          Ok (sum + f_truncZ intpart2, fadd leftover fracpart2)
        end
    end).

Definition US_PER_DAY : Z := 86400000000.

(* timedelta.__new__(cls, days, seconds, microseconds, milliseconds, minutes, hours, weeks): total microseconds *)
Definition td_total_us (days : Z) (seconds : num) (microseconds : Z) (minutes hours : num) (weeks : Z) : result Z :=
  let st := Ok (0, f_zero) in
  let st := accum st (NInt microseconds) 1 in
  let st := accum st (NInt 0) 1000 in
  let st := accum st seconds 1000000 in
  let st := accum st minutes 60000000 in
  let st := accum st hours 3600000000 in
  let st := accum st (NInt days) US_PER_DAY in
  let st := accum st (NInt weeks) (7 * US_PER_DAY) in
  bind st (fun xs =>
    let '(x, leftover_us) := xs in
    if f_is_zero leftover_us then Ok x else
    let whole_us := f_round_away leftover_us in
    let whole_us :=
      if SFeqb (SFabs (fsub whole_us leftover_us)) f_half then
        let x_is_odd := f_of_Z (if Z.odd x then 1 else 0) in
        fsub (fmul (f_of_Z 2) (f_round_away (fmul (fadd leftover_us x_is_odd) f_half))) x_is_odd
      else whole_us in
    Ok (x + f_truncZ whole_us)).

(* microseconds_to_delta_ex + new_delta_ex range check *)
Definition td_norm (x : Z) : result (Z * Z * Z) :=
  let days := x / US_PER_DAY in
  let rem := x mod US_PER_DAY in
  if (days <? -999999999) || (999999999 <? days) then Raise E_OverflowError
  else Ok (days, rem / 1000000, rem mod 1000000).

(* observed value of a parsed duration: years, months and the native timedelta fields of the Duration object *)
Definition durobs := (Z * Z * Z * Z * Z)%type.

(* Duration.__new__ (the part that determines the native value and can raise): total microseconds and the observed fields *)
Definition duration_native (years months weeks days : Z) (hours minutes seconds : num) (microseconds : Z) : result (Z * durobs) :=
  bind (td_total_us (days + years * 365 + months * 30) seconds microseconds minutes hours weeks) (fun x =>
  bind (td_norm x) (fun dsu => let '(d, s, u) := dsu in Ok (x, (years, months, d, s, u)))).

(* pendulum/parser.py: RustDuration -> pendulum.duration(years=..., ..., microseconds=...) *)
Definition rs_glue (r : rsdur) : result (Z * durobs) :=
  duration_native (r_years r) (r_months r) (r_weeks r) (r_days r) (NInt (r_hours r)) (NInt (r_minutes r)) (NInt (r_seconds r)) (r_us r).

Definition rs_dur (s : list Z) : result durobs := bind (rs_raw s) (fun r => bind (rs_glue r) (fun xo => Ok (snd xo))).

(* ================================================================== Python *)
Record tok := mk_tok { t_int : list Z; t_frac : option (list Z); t_start : Z }.

(* \d+(?:[.,]\d+)?  at the head of l *)
Definition scan_num (l : list Z) : option (list Z * option (list Z) * list Z) :=
  let '(ds, r) := span_digits l in
  if is_nil ds then None else
  match r with
  | c :: r' =>
      if is_sep c then
        let '(fs, r'') := span_digits r' in
        if is_nil fs then Some (ds, None, r) else Some (ds, Some fs, r'')
      else Some (ds, None, r)
  | [] => Some (ds, None, r)
  end.

(* (?P<x>\d+(?:[.,]\d+)?X)?  tried at position `pos` *)
Definition try_tok (x : Z) (total : Z) (l : list Z) : option tok * list Z :=
  match scan_num l with
  | Some (ds, fr, c :: r) => if c =? x then (Some (mk_tok ds fr (total - Z.of_nat (length l))), r) else (None, l)
  | _ => (None, l)
  end.

Record dmatch := mk_dmatch { g_weeks : option tok; g_years : option tok; g_months : option tok; g_days : option tok;
                             g_hms : bool; g_hours : option tok; g_minutes : option tok; g_seconds : option tok }.

Definition is_some {A} (o : option A) : bool := match o with Some _ => true | None => false end.

(* ISO8601_DURATION.match(text) *)
Definition match_duration (s : list Z) : option dmatch :=
  match s with
  | c :: l0 =>
    if c =? c_P then
      let n := Z.of_nat (length s) in
      let '(w, l1) := try_tok c_W n l0 in
      let '(y, l2) := try_tok c_Y n l1 in
      let '(mo, l3) := try_tok c_M n l2 in
      let '(dd, l4) := try_tok c_D n l3 in
      let '(hms, h, mi, se, l8) :=
        match l4 with
        | ct :: l5 =>
            if ct =? c_T then
              let '(h, l6) := try_tok c_H n l5 in
              let '(mi, l7) := try_tok c_M n l6 in
              let '(se, l8) := try_tok c_S n l7 in
              (true, h, mi, se, l8)
            else (false, None, None, None, l4)
        | [] => (false, None, None, None, l4)
        end in
      match l8 with
      | [] => Some (mk_dmatch w y mo dd hms h mi se)
      | [e] => if e =? c_nl then Some (mk_dmatch w y mo dd hms h mi se) else None     (* `$` also matches before a final newline *)
      | _ => None
      end
    else None
  | [] => None
  end.

(* int(portion) / 10 * k *)
Definition py_frac10 (portion : list Z) (k : Z) : result spec_float :=
  let q := int_truediv (dval portion) 10 in
  match q with
  | S754_infinity _ | S754_nan => Raise E_OverflowError
  | _ => Ok (fmul q (f_of_Z k))
  end.

(* int(f"{us[:6]:0<6}") *)
Definition py_us6 (fs : list Z) : Z :=
  let f6 := firstn 6 fs in dval f6 * 10 ^ (6 - Z.of_nat (length f6)).

Record pyargs := mk_pyargs { a_years : Z; a_months : Z; a_weeks : Z; a_days : Z; a_hours : num; a_minutes : num; a_seconds : num; a_us : Z }.

Definition tok_start (o : option tok) (dflt : Z) : Z := match o with Some t => t_start t | None => dflt end.

(* _parse_iso8601_duration after a successful match: the keyword arguments handed to Duration(...) *)
Definition py_args (m : dmatch) : result pyargs :=
  (* weeks *)
  bind (match g_weeks m with
        | Some t =>
            if is_some (g_years m) || is_some (g_months m) || is_some (g_days m) || g_hms m then Raise E_ValueError else
            match t_frac t with
            | Some portion =>
                bind (py_frac10 portion 7) (fun _days =>
                  if negb (f_is_finite _days) then Raise E_ValueError else
                  let fl := f_trunc _days in                               (* _days // 1 for _days >= 0 *)
                  let md := fsub _days fl in                                (* _days % 1 *)
                  Ok (dval (t_int t), f_truncZ fl, f_truncZ (fmul md (f_of_Z C_HOURS_PER_DAY))))
            | None => Ok (dval (t_int t), 0, 0)
            end
        | None => Ok (0, 0, 0)
        end) (fun wdh =>
  let '(weeks, days0, hours0) := wdh in
  (* ymd *)
  bind (if is_some (g_years m) || is_some (g_months m) || is_some (g_days m) then
          let years_start := tok_start (g_years m) (-3) in
          let months_start := tok_start (g_months m) (years_start + 1) in
          let days_start := tok_start (g_days m) (months_start + 1) in
          if negb ((years_start <? months_start) && (months_start <? days_start)) then Raise E_ValueError else
          bind (match g_years m with
                | Some t => if is_some (t_frac t) then Raise E_ValueError else Ok (dval (t_int t))
                | None => Ok 0 end) (fun years =>
          bind (match g_months m with
                | Some t => if is_some (t_frac t) then Raise E_ValueError else Ok (dval (t_int t))
                | None => Ok 0 end) (fun months =>
          match g_days m with
          | Some t =>
              match t_frac t with
              | Some _hours => bind (py_frac10 _hours C_HOURS_PER_DAY) (fun hf => Ok (years, months, dval (t_int t), NFloat hf, true))
              | None => Ok (years, months, dval (t_int t), NInt hours0, false)
              end
          | None => Ok (years, months, days0, NInt hours0, false)
          end))
        else Ok (0, 0, days0, NInt hours0, false)) (fun ymdhf =>
  let '(years, months, days, hours, fractional) := ymdhf in
  (* hms *)
  if g_hms m then
    let hours_start := tok_start (g_hours m) (-3) in
    let minutes_start := tok_start (g_minutes m) (hours_start + 1) in
    let seconds_start := tok_start (g_seconds m) (minutes_start + 1) in
    if negb ((hours_start <? minutes_start) && (minutes_start <? seconds_start)) then Raise E_ValueError else
    bind (match g_hours m with
          | Some t =>
              if fractional then Raise E_ValueError else
              match t_frac t with
              | Some _mins => bind (py_frac10 _mins C_MINUTES_PER_HOUR) (fun mf =>
                                Ok (num_add_int hours (dval (t_int t)), num_add_float (NInt 0) mf, true))
              | None => Ok (num_add_int hours (dval (t_int t)), NInt 0, fractional)
              end
          | None => Ok (hours, NInt 0, fractional) end) (fun hmf =>
    let '(hours, minutes, fractional) := hmf in
    bind (match g_minutes m with
          | Some t =>
              if fractional then Raise E_ValueError else
              match t_frac t with
              | Some _secs => bind (py_frac10 _secs C_SECONDS_PER_MINUTE) (fun sf =>
                                Ok (num_add_int minutes (dval (t_int t)), num_add_float (NInt 0) sf, true))
              | None => Ok (num_add_int minutes (dval (t_int t)), NInt 0, fractional)
              end
          | None => Ok (minutes, NInt 0, fractional) end) (fun msf =>
    let '(minutes, seconds, fractional) := msf in
    bind (match g_seconds m with
          | Some t =>
              if fractional then Raise E_ValueError else
              match t_frac t with
              | Some us => Ok (num_add_int seconds (dval (t_int t)), py_us6 us)
              | None => Ok (num_add_int seconds (dval (t_int t)), 0)
              end
          | None => Ok (seconds, 0) end) (fun su =>
    let '(seconds, us) := su in
    Ok (mk_pyargs years months weeks days hours minutes seconds us))))
  else Ok (mk_pyargs years months weeks days hours (NInt 0) (NInt 0) 0))).

(* parse_iso8601(text) on a duration string (None from _parse_iso8601_duration ends in ParserError since 'P' never starts a date) *)
Definition py_native (s : list Z) : result (Z * durobs) :=
  match match_duration s with
  | None => Raise E_ValueError
  | Some m => bind (py_args m) (fun a =>
      duration_native (a_years a) (a_months a) (a_weeks a) (a_days a) (a_hours a) (a_minutes a) (a_seconds a) (a_us a))
  end.
Definition py_dur (s : list Z) : result durobs := bind (py_native s) (fun xo => Ok (snd xo)).

(* ------------------------------------------------------------------ the `except OverflowError: raise ParserError(...)` clauses
   py_native / py_dur / rs_glue / rs_dur above are the code INSIDE the try blocks (an OverflowError is what int()/10, float arithmetic and
   Duration.__new__ / timedelta.__new__ raise for a value that does not fit); the functions below are what the callers see:
     parsing/iso8601.py::parse_iso8601   try: parsed = _parse_iso8601_duration(text)  except OverflowError: raise ParserError
     parser.py::_parse                   try: return pendulum.duration(years=parsed.years, ...)  except OverflowError: raise ParserError
   (ParserError is a ValueError; at this level the two are not distinguished).  These are the functions the correspondence runs. *)
Definition ov_to_ve {A} (r : result A) : result A :=
  match r with Raise E_OverflowError => Raise E_ValueError | _ => r end.
Definition py_native_c (s : list Z) : result (Z * durobs) := ov_to_ve (py_native s).
Definition py_dur_c (s : list Z) : result durobs := ov_to_ve (py_dur s).
Definition rs_glue_c (r : rsdur) : result (Z * durobs) := ov_to_ve (rs_glue r).
Definition rs_dur_c (s : list Z) : result durobs := bind (rs_raw s) (fun r => bind (rs_glue_c r) (fun xo => Ok (snd xo))).

(* ------------------------------------------------------------------ interval glue (pendulum/parsing/__init__.py, parser.py) *)
(* the eight keyword arguments handed to DateTime.add / DateTime.subtract *)
Definition parts := (Z * Z * Z * Z * Z * Z * Z * Z)%type.

(* pendulum.Duration: _total, _microseconds, _seconds, _days, weeks, remaining_days, hours, minutes, remaining_seconds.
   Duration.__new__:  m = -1 if total < 0 else 1;  _microseconds = round(total % m * 1e6);  _seconds = abs(int(total)) % 86400 * m;
   _days = abs(int(total)) // 86400 * m;  _remaining_days = abs(_days) % 7 * m;  weeks = abs(_days) // 7 * m;  the properties hours /
   minutes / remaining_seconds multiply their magnitudes by _sign(_seconds).  For either sign `total % m` is total - trunc(total)
   (float % keeps the sign of the divisor; the difference is exact), so the negative case is the positive one with every derived
   field negated (sg).  A parsed duration has non-negative components, so only sg = 1 is ever exercised; the negative case is the
   faithful reading of the same statements, not a special marker. *)
Definition py_parts (x : Z) (o : durobs) : result parts :=
  let '(years, months, _, _, _) := o in
  let ts := int_truediv x 1000000 in                                            (* timedelta.total_seconds() *)
  let total := fsub ts (f_of_Z ((years * 365 + months * 30) * 86400)) in
  let sg := if SFltb total f_zero then -1 else 1 in                              (* m, and _sign(_seconds) *)
  let it := f_truncZ total in
  let md := fsub total (f_trunc total) in                                       (* total % m *)
  let us := f_round_evenZ (fmul md (f_of_Z 1000000)) in
  let secs := Z.abs it mod 86400 in
  let days := Z.abs it / 86400 in
  let hours := if 3600 <=? Z.abs secs then Z.abs secs / 3600 mod 24 else 0 in
  let minutes := if 60 <=? Z.abs secs then Z.abs secs / 60 mod 60 else 0 in
  Ok (years, months, sg * (Z.abs days / 7), sg * (Z.abs days mod 7), sg * hours, sg * minutes, sg * (Z.abs secs mod 60), us).

Definition rs_parts (r : rsdur) : parts :=
  (r_years r, r_months r, r_weeks r, r_days r, r_hours r, r_minutes r, r_seconds r, r_us r).

Fixpoint split_slash (l : list Z) : list Z * option (list Z) :=
  match l with
  | c :: r => if c =? c_slash then ([], Some r)
              else let '(a, b) := split_slash r in (c :: a, b)
  | [] => ([], None)
  end.

Definition has_slash (l : list Z) : bool := existsb (fun c => c =? c_slash) l.

(* form: 0 start/end, 1 start/duration, 2 duration/end; parts only for 1 and 2.  The endpoint halves are not looked at here: C13's streams
   only use date and date-time endpoints (a time or a duration as an endpoint is rejected by _parse_iso8601_interval: Model/ParseTotal.v) *)
Definition interval_form (s : list Z) : result (Z * list Z) :=
  match split_slash s with
  | (first, Some last) =>
      if has_slash last then Raise E_ValueError else            (* first, last = text.split("/") needs exactly two pieces *)
      if match first with c :: _ => c =? c_P | [] => false end then Ok (2, first)
      else if match last with c :: _ => c =? c_P | [] => false end then Ok (1, last)
      else Ok (0, [])
  | (_, None) => Raise E_ValueError
  end.

Definition py_interval (s : list Z) : result (Z * parts) :=
  bind (interval_form s) (fun fd =>
    let '(form, d) := fd in
    if form =? 0 then Ok (0, (0, 0, 0, 0, 0, 0, 0, 0)) else
    bind (py_native_c d) (fun xo => bind (py_parts (fst xo) (snd xo)) (fun p => Ok (form, p)))).

Definition rs_interval (s : list Z) : result (Z * parts) :=
  bind (interval_form s) (fun fd =>
    let '(form, d) := fd in
    if form =? 0 then Ok (0, (0, 0, 0, 0, 0, 0, 0, 0)) else
    bind (rs_raw d) (fun r => Ok (form, rs_parts r))).
