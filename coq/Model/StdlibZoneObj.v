(* Model/StdlibZoneObj.v — HAND-WRITTEN object model for the translation of CPython's zoneinfo/_zoneinfo.py (Gen/StdlibZone.v).
   Only what the translated methods touch; executable definitions, no proofs.

   * a `_ttinfo` is reduced to its `utcoff` in whole seconds (dstoff and tzname are dropped); a timedelta of whole seconds is
     that number of seconds, so `.utcoff` and `.total_seconds()` are identities (total_seconds() returns a float in Python: an
     integer below 2^53 is exact and its comparison with an int is exact);
   * a ZoneInfo object is the record of the five attributes the lookups read; `_tz_after` is a plain `_ttinfo`
     (the POSIX-rule tail `_TZStr` is OUT OF SCOPE: the harness feeds tables in which rule transitions are already expanded);
   * a datetime is the record of what `_get_local_timestamp` reads (toordinal(), hour, minute, second) and `fold`; microseconds and
     tzinfo do not take part.  `dt + timedelta(seconds=s)` is the datetime s seconds later with fold = 0 (datetime.__add__ builds a
     new object through combine(), which resets fold; OverflowError outside years 1..9999 is not modelled);
     `dt.replace(fold=f)` sets fold. *)
From Coq Require Import ZArith List Bool.
Import ListNotations.
Open Scope Z_scope.

Record szone := mkszone {
  sz_trans_utc : list Z;            (* self._trans_utc *)
  sz_trans_local : list (list Z);   (* self._trans_local = [for fold 0, for fold 1] *)
  sz_ttinfos : list Z;              (* self._ttinfos, each reduced to utcoff seconds *)
  sz_tti_before : Z;                (* self._tti_before *)
  sz_tz_after : Z                   (* self._tz_after, a _ttinfo *)
}.

Record sdt := mksdt { dt_ord : Z; dt_hour : Z; dt_minute : Z; dt_second : Z; dt_fold : Z }.

Definition tti_utcoff (t : Z) : Z := t.
Definition td_total_seconds (t : Z) : Z := t.
Definition dt_toordinal (d : sdt) : Z := dt_ord d.

Definition sdt_add (d : sdt) (s : Z) : sdt :=
  let t := dt_ord d * 86400 + dt_hour d * 3600 + dt_minute d * 60 + dt_second d + s in
  mksdt (t / 86400) (t mod 86400 / 3600) (t mod 3600 / 60) (t mod 60) 0.
Definition sdt_replace_fold (d : sdt) (f : Z) : sdt :=
  mksdt (dt_ord d) (dt_hour d) (dt_minute d) (dt_second d) f.
