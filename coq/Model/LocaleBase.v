(* Model/LocaleBase.v (C18) — data types and evaluators the generated locale tables (Gen/Locales.v) are written in.
   No proofs here.

   * plural / ordinal lambdas of src/pendulum/locales/<loc>/locale.py as a small expression AST + evaluator;
   * the locale dictionaries as a tree [node] whose string leaves carry both the raw code points and the
     replacement fields of the string parsed as a str.format template;
   * Locale.get (dotted key lookup), str.format with ONE positional argument, str(int). *)
From Coq Require Import ZArith List Bool String.
From PV Require Import Lib.PyBase.
Import ListNotations.
Open Scope Z_scope.

(* ------------------------------------------------------------------ expression AST of the lambdas *)
Inductive iexp :=
| INum (z : Z)
| IVar                                (* the lambda's parameter n *)
| IAdd (a b : iexp) | ISub (a b : iexp) | IMul (a b : iexp)
| IMod (a : iexp) (m : Z)             (* a % m, m a positive literal (generator enforces m > 0) *)
| IDiv (a : iexp) (m : Z)             (* a // m, m a positive literal *)
| IInt (a : iexp).                    (* int(a) on an integer: identity *)

Inductive cmpop := CEq | CNe | CLt | CLe | CGt | CGe.

Inductive bexp :=
| BConst (b : bool)
| BCmp (op : cmpop) (a b : iexp)
| BRange (a : iexp) (lo hi : Z)       (* a in range(lo, hi) *)
| BAnd (a b : bexp) | BOr (a b : bexp) | BNot (a : bexp).

(* the value of a lambda: a constant string (the CLDR class) chosen by conditional expressions *)
Inductive sexp :=
| SLeaf (s : string)
| SIf (c : bexp) (t e : sexp).

Fixpoint ieval (e : iexp) (n : Z) : Z :=
  match e with
  | INum z => z
  | IVar => n
  | IAdd a b => ieval a n + ieval b n
  | ISub a b => ieval a n - ieval b n
  | IMul a b => ieval a n * ieval b n
  | IMod a m => (ieval a n) mod m
  | IDiv a m => (ieval a n) / m
  | IInt a => ieval a n
  end.

Definition cmp_eval (op : cmpop) (x y : Z) : bool :=
  match op with
  | CEq => x =? y | CNe => negb (x =? y) | CLt => x <? y | CLe => x <=? y | CGt => y <? x | CGe => y <=? x
  end.

Fixpoint beval (e : bexp) (n : Z) : bool :=
  match e with
  | BConst b => b
  | BCmp op a b => cmp_eval op (ieval a n) (ieval b n)
  | BRange a lo hi => (lo <=? ieval a n) && (ieval a n <? hi)
  | BAnd a b => beval a n && beval b n
  | BOr a b => beval a n || beval b n
  | BNot a => negb (beval a n)
  end.

Fixpoint seval (e : sexp) (n : Z) : string :=
  match e with
  | SLeaf s => s
  | SIf c t f => if beval c n then seval t n else seval f n
  end.

Fixpoint leaves (e : sexp) : list string :=
  match e with
  | SLeaf s => [s]
  | SIf _ t f => leaves t ++ leaves f
  end.

(* ------------------------------------------------------------------ strings, templates, dictionaries *)
(* a Python str is the list of its code points *)
Definition pstr := list Z.

(* one piece of a str.format template, as produced by string.Formatter().parse *)
Inductive seg :=
| Lit (s : pstr)
| PhAuto                  (* {}     *)
| PhIdx (i : Z)           (* {0}    *)
| PhName (name : pstr).   (* {time} *)

Definition tpl := list seg.

Inductive key := KS (s : string) | KI (z : Z).

Definition key_eqb (a b : key) : bool :=
  match a, b with
  | KS x, KS y => String.eqb x y
  | KI x, KI y => x =? y
  | _, _ => false
  end.

Inductive node :=
| NStr (raw : pstr) (t : tpl)
| NInt (z : Z)
| NFun                                  (* the plural / ordinal lambdas *)
| NDict (l : list (key * node)).

Fixpoint assoc (k : key) (l : list (key * node)) : option node :=
  match l with
  | [] => None
  | (k', v) :: r => if key_eqb k k' then Some v else assoc k r
  end.

(* Locale.get(key): self._data[parts[0]][parts[1]]...; KeyError -> None (the default); subscripting a str/int/function with a
   str raises TypeError, which Locale.get does not catch. *)
Fixpoint lookup (n : node) (path : list string) : result (option node) :=
  match path with
  | [] => Ok (Some n)
  | k :: rest =>
    match n with
    | NDict l => match assoc (KS k) l with Some n' => lookup n' rest | None => Ok None end
    | _ => Raise E_TypeError
    end
  end.

Record locale := mkLocale { l_name : string; l_plural : sexp; l_ordinal : sexp; l_data : node }.

Definition lget (L : locale) (path : list string) : result (option node) := lookup (l_data L) path.
Definition lplural (L : locale) (n : Z) : string := seval (l_plural L) n.
Definition lordinal (L : locale) (n : Z) : string := seval (l_ordinal L) n.

(* bool(x) of a looked-up value *)
Definition truthy (o : option node) : bool :=
  match o with
  | None => false
  | Some (NStr [] _) => false
  | Some (NInt 0) => false
  | Some (NDict []) => false
  | Some _ => true
  end.

(* ------------------------------------------------------------------ str(int) *)
Fixpoint digits_pos (fuel : nat) (n : Z) (acc : pstr) : pstr :=
  match fuel with
  | O => acc
  | S f => let acc' := (48 + n mod 10) :: acc in
           if n <? 10 then acc' else digits_pos f (n / 10) acc'
  end.

Definition str_of_Z (n : Z) : pstr :=
  if n <? 0 then 45 :: digits_pos (S (Z.to_nat (Z.log2 (- n)))) (- n) []
  else digits_pos (S (Z.to_nat (Z.log2 n))) n [].

(* ------------------------------------------------------------------ template.format(arg)  (exactly one positional argument) *)
(* Python scans the template left to right and raises at the first bad replacement field; since the partial output is
   discarded on error, format = (validate the fields) then (substitute).
   mode: Some true = automatic numbering used so far, Some false = manual numbering, None = neither yet; auto = next automatic index *)
Fixpoint fields_err (t : tpl) (mode : option bool) (auto : Z) : option exn :=
  match t with
  | [] => None
  | Lit _ :: r => fields_err r mode auto
  | PhAuto :: r =>
    match mode with
    | Some false => Some E_ValueError       (* cannot switch from manual field specification to automatic field numbering *)
    | _ => if auto =? 0 then fields_err r (Some true) (auto + 1) else Some E_IndexError
    end
  | PhIdx i :: r =>
    match mode with
    | Some true => Some E_ValueError
    | _ => if i =? 0 then fields_err r (Some false) auto else Some E_IndexError
    end
  | PhName _ :: r => Some E_KeyError
  end.

Fixpoint subst (t : tpl) (arg : pstr) : pstr :=
  match t with
  | [] => []
  | Lit s :: r => s ++ subst r arg
  | _ :: r => arg ++ subst r arg
  end.

Definition render (t : tpl) (arg : pstr) : result pstr :=
  match fields_err t None 0 with Some e => Raise e | None => Ok (subst t arg) end.

(* value.format(arg) where value is what Locale.get returned *)
Definition node_format (o : option node) (arg : pstr) : result pstr :=
  match o with
  | Some (NStr _ t) => render t arg
  | _ => Raise E_AttributeError            (* None / dict / int have no .format *)
  end.

(* a looked-up value used as a str (returned, or passed to format as the argument); only str is modelled *)
Definition node_str (o : option node) : result pstr :=
  match o with
  | Some (NStr raw _) => Ok raw
  | _ => Raise E_NotImplemented
  end.

(* ------------------------------------------------------------------ the component record DifferenceFormatter.format reads *)
Record comp := mkcomp { c_years : Z; c_months : Z; c_weeks : Z; c_rdays : Z; c_hours : Z; c_minutes : Z; c_rsecs : Z }.
