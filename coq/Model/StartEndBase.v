(* Model/StartEndBase.v — primitives under the translated _start_of_* / _end_of_* bodies (property C12).
   A DateTime is (zone, kind, W, fold): wall microseconds since 0001-01-01 (Spec/Cal.v), the fold flag of the instance,
   kind 0 = naive (tz None), 1 = FixedTimezone, 2 = Timezone (tz database zone, UTC included).
   A Date is its proleptic ordinal.  No proofs here.  Tied to /repo by the correspondence run of tools/props/C12.py. *)
From Coq Require Import ZArith List Bool.
From PV Require Import Lib.PyBase Spec.Cal Spec.Zone Spec.NativeDT Gen.AddDuration Model.TzConvert.
Import ListNotations.
Open Scope Z_scope.

Record dtv := mkdtv { v_zone : zone; v_kind : Z; v_W : Z; v_fold : bool }.

(* field accessors of a DateTime: self.year ... self.microsecond *)
Definition f_year (W : Z) : Z := let '(y, _, _, _, _, _, _) := fields_of_wall W in y.
Definition f_month (W : Z) : Z := let '(_, m, _, _, _, _, _) := fields_of_wall W in m.
Definition f_day (W : Z) : Z := let '(_, _, d, _, _, _, _) := fields_of_wall W in d.
Definition f_hour (W : Z) : Z := let '(_, _, _, h, _, _, _) := fields_of_wall W in h.
Definition f_minute (W : Z) : Z := let '(_, _, _, _, mi, _, _) := fields_of_wall W in mi.
Definition f_second (W : Z) : Z := let '(_, _, _, _, _, s, _) := fields_of_wall W in s.
Definition f_us (W : Z) : Z := let '(_, _, _, _, _, _, us) := fields_of_wall W in us.

Definition dt_year (v : dtv) : Z := f_year (v_W v).
Definition dt_month (v : dtv) : Z := f_month (v_W v).
Definition dt_day (v : dtv) : Z := f_day (v_W v).
(* self.days_in_month = calendar.monthrange(self.year, self.month)[1] *)
Definition dt_days_in_month (v : dtv) : Z := dim (dt_year v) (dt_month v).
(* self.day_of_week = WeekDay(self.weekday()), Monday = 0 *)
Definition wall_dow (W : Z) : Z := weekday0 (W / us_per_day + 1).

Definition time_okb (hh mm ss us : Z) : bool :=
  (0 <=? hh) && (hh <=? 23) && (0 <=? mm) && (mm <=? 59) && (0 <=? ss) && (ss <=? 59) && (0 <=? us) && (us <=? 999999).

(* DateTime.set(year, month, day, hour, minute, second, microsecond) with every field given:
     self.__class__.create(year, ..., microsecond, tz=self.tz, fold=self.fold)
   create builds datetime.datetime(...) (ValueError outside year 1..9999 or for an impossible date) and, when tz is not None,
   tz.convert(dt) — with THE INSTANCE'S fold, which decides the direction in which a skipped wall time is moved. *)
Definition dt_set (v : dtv) (y m d hh mm ss us : Z) : result (Z * bool) :=
  if (1 <=? y) && (y <=? 9999) && valid_dateb y m d && time_okb hh mm ss us then
    let W' := wall_of y m d hh mm ss us in
    if v_kind v =? 0 then Ok (W', v_fold v)
    else create (v_zone v) (v_kind v =? 1) W' (v_fold v) false
  else Raise E_ValueError.

(* the instance a DateTime-valued call returns: same tz object, new fields and fold *)
Definition upd (v : dtv) (r : Z * bool) : dtv := mkdtv (v_zone v) (v_kind v) (fst r) (snd r).

(* DateTime.add(days=k) / subtract(days=-k): add_duration on the naive fields, then create(..., tz=self.tz) with the DEFAULT fold 1 *)
Definition step_day (v : dtv) (k : Z) : result (Z * bool) :=
  match py_add_duration (mkndt (v_W v) true) 0 0 0 k 0 0 0 0 with
  | Raise e => Raise e
  | Ok d => if v_kind v =? 0 then Ok (n_wall d, true)
            else create (v_zone v) (v_kind v =? 1) (n_wall d) true false
  end.

(* ---- Date: a value is its ordinal ---- *)
Record dv := mkdv { d_ord : Z }.
Definition MAXORD : Z := 3652059.
Definition o_year (n : Z) : Z := let '(y, _, _) := ord2ymd n in y.
Definition o_month (n : Z) : Z := let '(_, m, _) := ord2ymd n in m.
Definition o_day (n : Z) : Z := let '(_, _, d) := ord2ymd n in d.
Definition date_year (v : dv) : Z := o_year (d_ord v).
Definition date_month (v : dv) : Z := o_month (d_ord v).
Definition date_day (v : dv) : Z := o_day (d_ord v).
Definition date_days_in_month (v : dv) : Z := dim (date_year v) (date_month v).
(* Date.set(year, month, day) = self.replace(year=, month=, day=): ValueError outside year 1..9999 / impossible date *)
Definition date_set (v : dv) (y m d : Z) : result Z :=
  if (1 <=? y) && (y <=? 9999) && valid_dateb y m d then Ok (ymd2ord y m d) else Raise E_ValueError.
(* Date.add(days=k): date + timedelta, OverflowError("date value out of range") outside 0001-01-01 .. 9999-12-31 *)
Definition date_step (n k : Z) : result Z :=
  if (1 <=? n + k) && (n + k <=? MAXORD) then Ok (n + k) else Raise E_OverflowError.
