(* Model/DropInPrims.v — C11: the field projections and the native constructor that the TRANSLATED override bodies (Gen/DropInMethods.v) use, over the
   value record dtv of Model/DropIn.v.  No proofs.
     dv_year .. dv_microsecond x     self.year .. self.microsecond: the components of date_fields_of / time_fields_of (v_wall x) (inherited accessors)
     native_fromordinal n            datetime.datetime.fromordinal(n): midnight of that day, naive, fold 0; ValueError outside 1 .. 3652059 *)
From Coq Require Import ZArith List Bool.
From PV Require Import Lib.PyBase Spec.Cal Model.DropIn.
Open Scope Z_scope.

Definition dv_year (x : dtv) : Z := fst (fst (date_fields_of (v_wall x))).
Definition dv_month (x : dtv) : Z := snd (fst (date_fields_of (v_wall x))).
Definition dv_day (x : dtv) : Z := snd (date_fields_of (v_wall x)).
Definition dv_hour (x : dtv) : Z := fst (fst (fst (time_fields_of (v_wall x)))).
Definition dv_minute (x : dtv) : Z := snd (fst (fst (time_fields_of (v_wall x)))).
Definition dv_second (x : dtv) : Z := snd (fst (time_fields_of (v_wall x))).
Definition dv_microsecond (x : dtv) : Z := snd (time_fields_of (v_wall x)).

Definition native_fromordinal (n : Z) : result dtv :=
  if (1 <=? n) && (n <=? 3652059) then Ok (mkdtv ((n - 1) * us_per_day) false None) else Raise E_ValueError.
