(* Model/IsoForms.v — the well-formed ISO 8601 texts of property C07 as FUNCTIONS of the value they denote (specification side,
   executable, no proofs).  A statement "for every value, parse (form value) = value" then quantifies over: the date (six date forms
   of Model/IsoRender.v render_date), the separator, the time of day, the fraction as an arbitrary digit list after '.' or ',',
   and the offset in each of its styles.  Strings are lists of code points. *)
From Coq Require Import ZArith List Bool.
From PV Require Import Lib.PyBase Spec.Cal Model.C07Regex Model.IsoParse Model.IsoRender.
Import ListNotations.
Open Scope Z_scope.

(* ---- time of day: extended HH:MM:SS or basic HHMMSS *)
Definition time_text (ext : bool) (H M S : Z) : list Z :=
  if ext then render2 H ++ [58] ++ render2 M ++ [58] ++ render2 S else render2 H ++ render2 M ++ render2 S.

(* ---- fraction: absent, or a separator ('.' = 46, ',' = 44) followed by a list of digits (code points) *)
Definition frac := option (Z * list Z).
Definition frac_text (f : frac) : list Z := match f with None => [] | Some (fs, ds) => fs :: ds end.
(* the microseconds a digit list denotes: the first six digits, right-padded with zeros (further digits are truncated) *)
Definition digits_us (ds : list Z) : Z := int_of (firstn 6 ds) * 10 ^ (6 - Z.of_nat (length (firstn 6 ds))).
Definition frac_value (f : frac) : Z := match f with None => 0 | Some (_, ds) => digits_us ds end.
(* well-formed: separator '.' or ',', 1 to 9 decimal digits *)
Definition frac_ok (f : frac) : bool :=
  match f with
  | None => true
  | Some (fs, ds) => ((fs =? 46) || (fs =? 44)) && forallb is_digit ds && (1 <=? length ds)%nat && (length ds <=? 9)%nat
  end.

(* ---- offset: absent, Z, or sign hh mm in style 0 = +hh:mm, 1 = +hhmm, 2 = +hh (mm not written); neg = 0 for '+', 1 for '-' *)
Inductive offs : Type := ONone | OZ | OHM (style neg hh mm : Z).
Definition hm_text (style neg hh mm : Z) : list Z :=
  (if neg =? 0 then 43 else 45) ::
  (if style =? 0 then render2 hh ++ [58] ++ render2 mm else if style =? 1 then render2 hh ++ render2 mm else render2 hh).
Definition hm_value (style neg hh mm : Z) : Z :=
  (if neg =? 0 then 1 else -1) * ((hh * 60 + (if style =? 2 then 0 else mm)) * 60).
Definition offs_text (o : offs) : list Z :=
  match o with ONone => [] | OZ => [90] | OHM style neg hh mm => hm_text style neg hh mm end.
Definition offs_value (o : offs) : option Z :=
  match o with ONone => None | OZ => Some 0 | OHM style neg hh mm => Some (hm_value style neg hh mm) end.
Definition offs_ok (o : offs) : bool :=
  match o with
  | OHM style neg hh mm => (0 <=? style) && (style <=? 2) && (0 <=? neg) && (neg <=? 1) && (0 <=? hh) && (hh <=? 23) && (0 <=? mm) && (mm <=? 59)
  | _ => true
  end.

(* ---- date forms (render_date): 0 calendar extended, 1 calendar basic, 2 ordinal extended, 3 ordinal basic, 4 week extended,
   5 week basic; the extended date forms are combined with the extended time form, the basic ones with the basic time form *)
Definition form_ext (form : Z) : bool := Z.even form.

(* combined date and time: <date><sep><time>[<fraction>][<offset>], sep = 'T' (84) or ' ' (32) *)
Definition iso_datetime (form sep y m d H M S : Z) (f : frac) (o : offs) : list Z :=
  render_date form y m d ++ [sep] ++ time_text (form_ext form) H M S ++ frac_text f ++ offs_text o.

(* time only: [T]<time>[<fraction>][<offset>] *)
Definition iso_time (pre ext : bool) (H M S : Z) (f : frac) (o : offs) : list Z :=
  (if pre then [84] else []) ++ time_text ext H M S ++ frac_text f ++ offs_text o.

(* the ISO year of a date (the year written in the week forms) *)
Definition iso_year_of (y m d : Z) : Z := fst (fst (isocalendar y m d)).
