(* Model/DispatchC08.v — entry point of the C08 models on integer argument lists.
   Strings travel as <length> followed by the code points.  Result encoding: 0 :: values (normal), [1; exn code] (raise),
   [2] (outside the modelled fragment), [9] (bad call). *)
From Coq Require Import ZArith List Bool.
From PV Require Import Lib.PyBase Spec.Cal Model.FormatterBase Gen.FormatterTables Gen.LocaleTables Model.Formatter Model.FormatterParse Model.FormatterSession.
Import ListNotations.
Open Scope Z_scope.

Definition take_str (l : list Z) : option (str * list Z) :=
  match l with
  | n :: t => if (0 <=? n) && (Z.of_nat (length t) >=? n) then Some (firstn (Z.to_nat n) t, skipn (Z.to_nat n) t) else None
  | [] => None
  end.

Fixpoint take_strs (k : nat) (l : list Z) : option (list str * list Z) :=
  match k with
  | O => Some ([], l)
  | S k' => match take_str l with
            | Some (s, r) => match take_strs k' r with Some (ss, r') => Some (s :: ss, r') | None => None end
            | None => None
            end
  end.

Definition of_res (r : result str) : list Z :=
  match r with
  | Ok s => 0 :: s
  | Raise E_OutOfFuel => [2]
  | Raise e => [1; exn_code e]
  end.

Definition take_dt (l : list Z) : option (pdt * list Z) :=
  match l with
  | y :: m :: d :: hh :: mi :: ss :: us :: has :: off :: r =>
    match take_str r with
    | Some (zone, r1) => match take_str r1 with
                         | Some (abbr, r2) => Some (mkpdt y m d hh mi ss us (negb (has =? 0)) off zone abbr, r2)
                         | None => None
                         end
    | None => None
    end
  | _ => None
  end.

Definition of_validated (r : result validated) : list Z :=
  match r with
  | Ok (y, m, d, hh, mi, ss, us, tz) =>
    [0; y; m; d; hh; mi; ss; us] ++ match tz with None => [0] | Some (TzFixed o) => [1; o] | Some (TzNamed n) => 2 :: n end
  | Raise E_OutOfFuel => [2]
  | Raise e => [1; exn_code e]
  end.

(* parse(format(dt)) : 0 :: len :: text ++ fields | 3 :: len :: text ++ [exn] (parse raised) | [1; exn] (format raised) *)
Definition of_round (r : result (str * result validated)) : list Z :=
  match r with
  | Ok (s, v) => match of_validated v with
                 | 0 :: f => 0 :: Z.of_nat (length s) :: s ++ f
                 | 1 :: e => 3 :: Z.of_nat (length s) :: s ++ e
                 | other => other
                 end
  | Raise E_OutOfFuel => [2]
  | Raise e => [1; exn_code e]
  end.

(* ---- a session (Model/FormatterSession.v) as a flat integer list.  A string is  len c1 .. clen ; an optional locale is 0 or 1 <string>.
   operations:  1 <name> set_locale | 2 get_locale | 3 <loc> <datetime> <fmt>  format | 4 <loc> nz <zones> <datetime> <fmt>  parse(format())
                5 <loc> nz <zones> <text> <fmt>  parse *)
Definition take_loc (l : list Z) : option (option str * list Z) :=
  match l with
  | 0 :: r => Some (None, r)
  | 1 :: r => match take_str r with Some (s, r') => Some (Some s, r') | None => None end
  | _ => None
  end.
Definition take_op (l : list Z) : option (fop * list Z) :=
  match l with
  | 1 :: r => match take_str r with Some (n, r') => Some (FSet n, r') | None => None end
  | 2 :: r => Some (FGet, r)
  | 3 :: r =>
    match take_loc r with
    | Some (loc, r1) =>
      match take_dt r1 with
      | Some (t, r2) => match take_str r2 with Some (fmt, r3) => Some (FFormat loc t fmt, r3) | None => None end
      | None => None end
    | None => None end
  | 4 :: r =>
    match take_loc r with
    | Some (loc, nz :: r1) =>
      match take_strs (Z.to_nat nz) r1 with
      | Some (zones, r2) =>
        match take_dt r2 with
        | Some (t, r3) => match take_str r3 with Some (fmt, r4) => Some (FRound loc zones t fmt, r4) | None => None end
        | None => None end
      | None => None end
    | _ => None end
  | 5 :: r =>
    match take_loc r with
    | Some (loc, nz :: r1) =>
      match take_strs (Z.to_nat nz) r1 with
      | Some (zones, r2) =>
        match take_strs 2 r2 with
        | Some ([time; fmt], r3) => Some (FParse loc zones time fmt, r3)
        | _ => None end
      | None => None end
    | _ => None end
  | _ => None
  end.
Fixpoint decode_ops (fuel : nat) (l : list Z) : option (list fop) :=
  match l with
  | [] => Some []
  | _ =>
    match fuel with
    | O => None
    | S f =>
      match take_op l with
      | Some (o, r) => match decode_ops f r with Some ops => Some (o :: ops) | None => None end
      | None => None
      end
    end
  end.

Definition of_out (o : fout) : list Z :=
  match o with
  | OUnit (Ok _) => [0]
  | OUnit (Raise E_OutOfFuel) => [2]
  | OUnit (Raise e) => [1; exn_code e]
  | OStr r => of_res r
  | OVal v => of_validated v
  | ORound r => of_round r
  end.

(* output number k of the session, started from the default configuration of a fresh process *)
Definition session_out (rs : bool) (now : pnow) (k : Z) (code : list Z) : list Z :=
  match decode_ops (length code) code with
  | Some ops => if k <? 0 then [9] else match nth_error (run rs now initial ops) (Z.to_nat k) with Some o => of_out o | None => [9] end
  | None => [9]
  end.

Definition dispatch (fn : Z) (args : list Z) : list Z :=
  match fn, args with
  | 1 (* fmt_format *), _ =>
      (* locale name, datetime, format *)
      match take_str args with
      | Some (lname, r) => match take_dt r with
                           | Some (t, r1) => match take_str r1 with Some (fmt, []) => of_res (format lname t fmt) | _ => [9] end
                           | None => [9] end
      | None => [9] end
  | 2 (* fmt_helper *), _ =>
      (* method name (to_xxx_string), datetime *)
      match take_str args with
      | Some (name, r) => match take_dt r with Some (t, []) => of_res (string_helper name t) | _ => [9] end
      | None => [9] end
  | 3 (* fmt_parse *), rs :: ny :: nm :: nd :: nz :: r =>
      (* backend flag, now, zone names known to pendulum.timezones(), locale name, time string, format *)
      match take_strs (Z.to_nat nz) r with
      | Some (zones, r1) =>
        match take_strs 3 r1 with
        | Some ([lname; time; fmt], []) => of_validated (parse (negb (rs =? 0)) zones lname (mknow ny nm nd) time fmt)
        | _ => [9] end
      | None => [9] end
  | 7 (* fmt_roundtrip *), rs :: ny :: nm :: nd :: nz :: r =>
      (* parse(format(dt, fmt, locale), fmt, now, locale): backend flag, now, zones, locale name, datetime, format *)
      match take_strs (Z.to_nat nz) r with
      | Some (zones, r1) =>
        match take_str r1 with
        | Some (lname, r2) =>
          match take_dt r2 with
          | Some (t, r3) =>
            match take_str r3 with
            | Some (fmt, []) =>
              match format lname t fmt with
              | Ok s => match of_validated (parse (negb (rs =? 0)) zones lname (mknow ny nm nd) s fmt) with
                        | 0 :: v => 0 :: Z.of_nat (length s) :: s ++ v
                        | 1 :: e => 3 :: Z.of_nat (length s) :: s ++ e
                        | other => other
                        end
              | Raise E_OutOfFuel => [2]
              | Raise e => [1; exn_code e]
              end
            | _ => [9] end
          | None => [9] end
        | None => [9] end
      | None => [9] end
  | 8 (* fmt_session *), k :: rs :: ny :: nm :: nd :: code => session_out (negb (rs =? 0)) (mknow ny nm nd) k code
  | 4 (* fmt_render_dec *), [w; sl; n] => 0 :: render_dec w sl n
  | 5 (* fmt_py_int *), _ => match py_int args with Some v => [0; v] | None => [1; 1] end
  | 6 (* fmt_re_escape *), _ => 0 :: re_escape args
  | _, _ => [9]
  end.
