(* Model/DispatchC08.v — entry point of the C08 models on integer argument lists.
   Strings travel as <length> followed by the code points.  Result encoding: 0 :: values (normal), [1; exn code] (raise),
   [2] (outside the modelled fragment), [9] (bad call). *)
From Coq Require Import ZArith List Bool.
From PV Require Import Lib.PyBase Spec.Cal Model.FormatterBase Gen.FormatterTables Gen.LocaleTables Model.Formatter Model.FormatterParse.
Import ListNotations.
Open Scope Z_scope.

Definition take_str (l : list Z) : option (str * list Z) :=
  match l with
  | n :: t => if (0 <=? n) && (Z.of_nat (length t) >=? n) then Some (firstn (Z.to_nat n) t, skipn (Z.to_nat n) t) else None
  | [] => None
  end.

Fixpoint take_strs (k : nat) (l : list Z) : option (list str * list Z) :=
  match k with
  | O => Some ([], l)
  | S k' => match take_str l with
            | Some (s, r) => match take_strs k' r with Some (ss, r') => Some (s :: ss, r') | None => None end
            | None => None
            end
  end.

Definition of_res (r : result str) : list Z :=
  match r with
  | Ok s => 0 :: s
  | Raise E_OutOfFuel => [2]
  | Raise e => [1; exn_code e]
  end.

Definition take_dt (l : list Z) : option (pdt * list Z) :=
  match l with
  | y :: m :: d :: hh :: mi :: ss :: us :: has :: off :: r =>
    match take_str r with
    | Some (zone, r1) => match take_str r1 with
                         | Some (abbr, r2) => Some (mkpdt y m d hh mi ss us (negb (has =? 0)) off zone abbr, r2)
                         | None => None
                         end
    | None => None
    end
  | _ => None
  end.

Definition of_validated (r : result validated) : list Z :=
  match r with
  | Ok (y, m, d, hh, mi, ss, us, tz) =>
    [0; y; m; d; hh; mi; ss; us] ++ match tz with None => [0] | Some (TzFixed o) => [1; o] | Some (TzNamed n) => 2 :: n end
  | Raise E_OutOfFuel => [2]
  | Raise e => [1; exn_code e]
  end.

Definition dispatch (fn : Z) (args : list Z) : list Z :=
  match fn, args with
  | 1 (* fmt_format *), _ =>
      (* locale name, datetime, format *)
      match take_str args with
      | Some (lname, r) => match take_dt r with
                           | Some (t, r1) => match take_str r1 with Some (fmt, []) => of_res (format lname t fmt) | _ => [9] end
                           | None => [9] end
      | None => [9] end
  | 2 (* fmt_helper *), _ =>
      (* method name (to_xxx_string), datetime *)
      match take_str args with
      | Some (name, r) => match take_dt r with Some (t, []) => of_res (string_helper name t) | _ => [9] end
      | None => [9] end
  | 3 (* fmt_parse *), rs :: ny :: nm :: nd :: nz :: r =>
      (* backend flag, now, zone names known to pendulum.timezones(), locale name, time string, format *)
      match take_strs (Z.to_nat nz) r with
      | Some (zones, r1) =>
        match take_strs 3 r1 with
        | Some ([lname; time; fmt], []) => of_validated (parse (negb (rs =? 0)) zones lname (mknow ny nm nd) time fmt)
        | _ => [9] end
      | None => [9] end
  | 7 (* fmt_roundtrip *), rs :: ny :: nm :: nd :: nz :: r =>
      (* parse(format(dt, fmt, locale), fmt, now, locale): backend flag, now, zones, locale name, datetime, format *)
      match take_strs (Z.to_nat nz) r with
      | Some (zones, r1) =>
        match take_str r1 with
        | Some (lname, r2) =>
          match take_dt r2 with
          | Some (t, r3) =>
            match take_str r3 with
            | Some (fmt, []) =>
              match format lname t fmt with
              | Ok s => match of_validated (parse (negb (rs =? 0)) zones lname (mknow ny nm nd) s fmt) with
                        | 0 :: v => 0 :: Z.of_nat (length s) :: s ++ v
                        | 1 :: e => 3 :: Z.of_nat (length s) :: s ++ e
                        | other => other
                        end
              | Raise E_OutOfFuel => [2]
              | Raise e => [1; exn_code e]
              end
            | _ => [9] end
          | None => [9] end
        | None => [9] end
      | None => [9] end
  | 4 (* fmt_render_dec *), [w; sl; n] => 0 :: render_dec w sl n
  | 5 (* fmt_py_int *), _ => match py_int args with Some v => [0; v] | None => [1; 1] end
  | 6 (* fmt_re_escape *), _ => 0 :: re_escape args
  | _, _ => [9]
  end.
