(* Model/DateTimeNavGlueObj.v — hand-written primitives of the translated DateTime navigation (Gen/DateTimeNavGlue.v,
   tools/vlib/gens/g83_datetime_nav_glue.py) on the object model gdt of Model/TzGlueObj.v:
     g_quarter d      DateTime.quarter (inherited Date.quarter = math.ceil(self.month / 3)): the TRANSLATED py_Date_quarter of Gen/DateGetters.v
     g_same_ym a b    a.format("%Y-%M") == b.format("%Y-%M"): the formatter renders "%" + year + "-%" + month, so the two strings are equal iff
                      year and month are (Model/Weekday.v same_year_month; validated by the format-check stream of tools/props/C16.py)
   self.day_of_week and self.days_in_month are g_day_of_week / g_days_in_month of Model/StartEndGlueObj.v; the month table is mc_get of
   Model/Weekday.v (calendar.Calendar(calendar.MONDAY).monthdayscalendar: a NATIVE primitive of the standard library). *)
From Coq Require Import ZArith Bool.
From PV Require Import Lib.PyBase Spec.Cal Gen.DateGetters Model.TzGlueObj.
Open Scope Z_scope.

Definition g_pdate (d : gdt) : pdate := mkdate (g_year d) (g_month d) (g_day d).
Definition g_quarter (d : gdt) : Z := py_Date_quarter (g_pdate d).
Definition g_same_ym (a b : gdt) : bool := (g_year a =? g_year b) && (g_month a =? g_month b).
