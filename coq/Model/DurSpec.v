(* Model/DurSpec.v — C13: the reference value of an ISO 8601 duration (exact rational arithmetic; no floats, no parsing).
   Tied to the harness oracle (fractions.Fraction) by the `spec` stream of ./check C13. *)
From Coq Require Import ZArith List Bool.
From PV Require Import Lib.PyBase Model.DurParse.
Import ListNotations.
Open Scope Z_scope.

(* whole seconds of the integer components (weeks, days, hours, minutes, seconds) *)
Definition spec_secs (w d h mi s : Z) : Z := (7 * w + d) * 86400 + h * 3600 + mi * 60 + s.

(* exact length in microseconds as the rational  spec_num / spec_den : the fraction digits `fs` (possibly empty) belong to the
   smallest component, whose unit is `unit_secs` seconds (604800 W, 86400 D, 3600 H, 60 M, 1 S) *)
Definition spec_den (fs : list Z) : Z := 10 ^ Z.of_nat (length fs).
Definition spec_num (w d h mi s unit_secs : Z) (fs : list Z) : Z :=
  (spec_secs w d h mi s * spec_den fs + unit_secs * dval fs) * 1000000.

(* r is a nearest integer to num/den (either neighbour is accepted on an exact tie) *)
Definition nearest (r num den : Z) : Prop := 2 * Z.abs (r * den - num) <= den.
Definition nearestb (r num den : Z) : bool := 2 * Z.abs (r * den - num) <=? den.

(* remaining length (without the 365-day years and 30-day months that Duration folds into the native value) in microseconds *)
Definition obs_us (o : durobs) : Z :=
  let '(y, mo, d, s, u) := o in ((d - 365 * y - 30 * mo) * 86400 + s) * 1000000 + u.

(* the property for one parsed value *)
Definition exact_obs (o : durobs) (years months : Z) (num den : Z) : Prop :=
  let '(y, mo, _, _, _) := o in y = years /\ mo = months /\ nearest (obs_us o) num den.
