(* Model/TzConvert.v — hand-written model of the timezone glue of pendulum:
   tz/timezone.py (Timezone.convert, FixedTimezone.convert/fromutc), DateTime.create/instance/in_timezone/astimezone,
   the fixed-unit branch of DateTime.add, from_timestamp / int_timestamp.
   A DateTime is (W, f): wall microseconds since 0001-01-01 (Spec/Cal.v) and the fold flag, interpreted in a zone (Spec/Zone.v).
   Tied to /repo by the correspondence runs of C01/C02/C03.  No proofs here. *)
From Coq Require Import ZArith List Bool.
From PV Require Import Lib.PyBase Spec.Cal Spec.Zone Spec.NativeDT Gen.AddDuration.
Import ListNotations.
Open Scope Z_scope.

Definition sec (W : Z) : Z := W / MEG.

(* Timezone.convert on a naive value (dt.tzinfo is None).
   offset_before / offset_after are utcoffset() with fold 0 / fold 1; a native `dt + timedelta` resets fold to 0. *)
Definition convert_naive (z : zone) (W : Z) (f : bool) (raise_unknown : bool) : result (Z * bool) :=
  let ob := off_local z (sec W) false in
  let oa := off_local z (sec W) true in
  if oa >? ob then
    if raise_unknown then Raise E_NonExistingTime
    else let W' := W + MEG * (if f then oa - ob else ob - oa) in
         if wall_in_range W' then Ok (W', false) else Raise E_OverflowError
  else if (ob >? oa) && raise_unknown then Raise E_AmbiguousTime
  else Ok (W, f).

(* FixedTimezone.convert on a naive value: same fields, fold forced to 0 *)
Definition convert_naive_fixed (W : Z) (f : bool) : result (Z * bool) := Ok (W, false).

(* DateTime.create(..., tz, fold, raise_on_unknown_times): fields are already a valid wall value W *)
Definition create (z : zone) (is_fixed : bool) (W : Z) (f : bool) (raise_unknown : bool) : result (Z * bool) :=
  if is_fixed then convert_naive_fixed W f else convert_naive z W f raise_unknown.

(* datetime.astimezone(tz) for an aware value in zone z1 going to z2 (distinct tzinfo objects):
   utc = self - self.utcoffset() (OverflowError outside years 1..9999), then tz.fromutc(utc) *)
Definition astz (z1 z2 : zone) (W : Z) (f : bool) : result (Z * bool) :=
  let U := inst z1 W f in
  if negb (wall_in_range U) then Raise E_OverflowError else
  let '(W', f') := render z2 U in
  if wall_in_range W' then Ok (W', f') else Raise E_OverflowError.

(* in_timezone / Timezone.convert on an aware value: astimezone returns self when the tzinfo object is the same *)
Definition in_tz (same_obj : bool) (z1 z2 : zone) (W : Z) (f : bool) : result (Z * bool) :=
  if same_obj then Ok (W, f) else astz z1 z2 W f.

(* DateTime.add with only hours/minutes/seconds/microseconds on an aware value (tz is not None):
   naive(self) - utcoffset, add_duration (translated), re-attach UTC, tz.convert *)
Definition add_fixed (z : zone) (W : Z) (f : bool) (hours minutes seconds us : Z) : result (Z * bool) :=
  let U := inst z W f in
  if negb (wall_in_range U) then Raise E_OverflowError else
  match py_add_duration (mkndt U true) 0 0 0 0 hours minutes seconds us with
  | Raise e => Raise e
  | Ok d =>
    let '(W', f') := render z (n_wall d) in
    if wall_in_range W' then Ok (W', f') else Raise E_OverflowError
  end.

(* naive DateTime.add (tz is None): add_duration on the wall clock, then create(tz=None) *)
Definition add_naive (W : Z) (f : bool) (years months weeks days hours minutes seconds us : Z) : result (Z * bool) :=
  match py_add_duration (mkndt W true) years months weeks days hours minutes seconds us with
  | Raise e => Raise e
  | Ok d => Ok (n_wall d, true)   (* create(tz=None) keeps its default fold=1 on the naive result *)
  end.

(* DateTime.add with calendar units on an aware value: add_duration on the wall clock, then create(tz=self.tz) with the default fold 1 *)
Definition add_calendar (z : zone) (is_fixed : bool) (W : Z) (years months weeks days hours minutes seconds us : Z) : result (Z * bool) :=
  match py_add_duration (mkndt W true) years months weeks days hours minutes seconds us with
  | Raise e => Raise e
  | Ok d => create z is_fixed (n_wall d) true false
  end.

(* int_timestamp: (dt - EPOCH) as days*86400 + seconds; 62135596800 s = 0001-01-01 .. 1970-01-01 *)
Definition EPOCH_US : Z := 62135596800 * MEG.
Definition int_timestamp (z : zone) (W : Z) (f : bool) : Z := (inst z W f - EPOCH_US) / MEG.
(* from_timestamp with an integer timestamp: UTC fields then in_timezone *)
Definition from_timestamp_int (z : zone) (is_utc_obj : bool) (n : Z) : result (Z * bool) :=
  let U := EPOCH_US + n * MEG in
  if negb (wall_in_range U) then Raise E_ValueError else
  in_tz is_utc_obj (fixed_zone 0) z U true.
