(* Model/DispatchC16.v — entry point for running the C16 models on integer argument lists.
   Result encoding: 0 :: values (normal), 1 :: [exn code] (raise), 9 :: [] (bad call).
   A weekday argument is the pair (has_wd, wd): has_wd = 0 means day_of_week=None. *)
From Coq Require Import ZArith List Bool.
From PV Require Import Lib.PyBase Spec.Cal Spec.Zone Model.TzConvert Model.TzDispatch Model.Weekday Model.WeekdayZone.
Import ListNotations.
Open Scope Z_scope.

Definition owd (h w : Z) : option Z := if h =? 0 then None else Some w.
Definition of_rz (r : result Z) : list Z := match r with Ok v => [0; v] | Raise e => [1; exn_code e] end.
Definition of_rd (r : result pdate) : list Z :=
  match r with Ok p => [0; d_year p; d_month p; d_day p] | Raise e => [1; exn_code e] end.
Definition of_rt (r : result pdt) : list Z :=
  match r with Ok x => [0; d_year (t_date x); d_month (t_date x); d_day (t_date x); t_tod x; t_zone x] | Raise e => [1; exn_code e] end.
Definition mkt (y m d tod z : Z) : pdt := mkdt (mkdate y m d) tod z.

(* DateTime in a tz-database zone: the instance pendulum.datetime(y, m, d, time, tz=zone, fold=f) is built by the model too.
   Result: 0 :: result fields, fold, utcoffset() :: instance fields, fold   |  1 :: exn :: instance fields   |  [1; exn] when
   the constructor raises. *)
Definition zfields (x : zdt) : list Z := [d_year (z_date x); d_month (z_date x); d_day (z_date x); z_tod x; Z.b2z (z_fold x)].
Definition z_call (z : zone) (op y m d tod f u n h w k : Z) : list Z :=
  match z_create z y m d tod (zb f) with
  | Raise e => [1; exn_code e]
  | Ok x =>
    match z_apply z op u n (owd h w) (zb k) x with
    | Ok r => 0 :: zfields r ++ off_local z (z_wall r / MEG) (z_fold r) :: zfields x
    | Raise e => 1 :: exn_code e :: zfields x
    end
  end.

Definition dispatch (fn : Z) (args : list Z) : list Z :=
  match fn, args with
  | 1 (* cal_mc_get *), [y;m;i;c] => of_rz (mc_get y m i c)
  | 2 (* cal_mc_rows *), [y;m] => [0; mc_rows y m]
  | 3 (* cal_weekday0 *), [y;m;d] => [0; dow (mkdate y m d)]
  | 10 (* d_next *), [y;m;d;h;w] => of_rd (d_next (mkdate y m d) (owd h w))
  | 11 (* d_previous *), [y;m;d;h;w] => of_rd (d_previous (mkdate y m d) (owd h w))
  | 12 (* d_first_of *), [u;y;m;d;h;w] => of_rd (d_first_of u (mkdate y m d) (owd h w))
  | 13 (* d_last_of *), [u;y;m;d;h;w] => of_rd (d_last_of u (mkdate y m d) (owd h w))
  | 14 (* d_nth_of *), [u;n;y;m;d;w] => of_rd (d_nth_of u (mkdate y m d) n w)
  | 20 (* t_next *), [y;m;d;tod;z;h;w;k] => of_rt (t_next (mkt y m d tod z) (owd h w) (negb (k =? 0)))
  | 21 (* t_previous *), [y;m;d;tod;z;h;w;k] => of_rt (t_previous (mkt y m d tod z) (owd h w) (negb (k =? 0)))
  | 22 (* t_first_of *), [u;y;m;d;tod;z;h;w] => of_rt (t_first_of u (mkt y m d tod z) (owd h w))
  | 23 (* t_last_of *), [u;y;m;d;tod;z;h;w] => of_rt (t_last_of u (mkt y m d tod z) (owd h w))
  | 24 (* t_nth_of *), [u;n;y;m;d;tod;z;w] => of_rt (t_nth_of u (mkt y m d tod z) n w)
  | 30 (* z_call *), l =>
      match parse_zone l with
      | Some (z, [op;y;m;d;tod;f;u;n;h;w;k]) => z_call z op y m d tod f u n h w k
      | _ => [9]
      end
  | 40 (* fw_first_of *), [fw;u;y;m;d;h;w] => of_rd (fw_first_of fw u (mkdate y m d) (owd h w))
  | 41 (* fw_last_of *), [fw;u;y;m;d;h;w] => of_rd (fw_last_of fw u (mkdate y m d) (owd h w))
  | 42 (* fw_nth_of *), [fw;u;n;y;m;d;w] => of_rd (fw_nth_of fw u (mkdate y m d) n w)
  | 43 (* fw_mc_get *), [fw;y;m;i;c] => of_rz (mc_get_fw fw y m i c)
  | 44 (* fw_mc_rows *), [fw;y;m] => [0; mc_rows_fw fw y m]
  | _, _ => [9]
  end.
