(* Model/FormatterPrims.v — C08: small named primitives used by the TRANSLATED method bodies of Formatter (Gen/FormatterMethods.v).  No proofs.
     need_int o          an int-valued expression that may be None inside int arithmetic: TypeError on None
     none_as_empty o     a str-or-None value returned to re.sub's callback: None is rendered as the empty string
     dict_get k tbl      d[k] on a str -> str dict: KeyError when missing
     loc_date_format     locale.get(f"custom.date_formats.{token}"): None when the locale has no custom.date_formats or not this key
     fge / fle           float >= / <= (IEEE: false on NaN) from Spec/TdFloat's flt and feq *)
From Coq Require Import ZArith List Bool.
From Coq Require Import Floats.SpecFloat.
From PV Require Import Lib.PyBase Spec.TdFloat Model.FormatterBase.
Import ListNotations.
Open Scope Z_scope.

Definition need_int (o : option Z) : result Z := match o with Some v => Ok v | None => Raise E_TypeError end.
Definition none_as_empty (o : option str) : str := match o with Some s => s | None => [] end.
Definition dict_get (k : str) (tbl : list (str * str)) : result str :=
  match assoc k tbl with Some v => Ok v | None => Raise E_KeyError end.
Definition loc_date_format (loc : locale_data) (tok : str) : option str :=
  match l_date_formats loc with Some tbl => assoc tok tbl | None => None end.
Definition fge (a b : sf) : bool := flt b a || feq a b.
Definition fle (a b : sf) : bool := flt a b || feq a b.
