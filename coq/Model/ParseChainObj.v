(* Model/ParseChainObj.v — hand-written primitives under the TRANSLATED parse chain (Gen/ParseChain.v, tools/vlib/gens/g84_parse_chain.py):
   src/pendulum/parsing/__init__.py (parse, _parse, _normalize, _parse_iso8601_interval) and src/pendulum/parser.py.
   The values are those of Model/ParseTotal.v: every Python value of type datetime | date | time | _Interval | Duration is a `parsed`
   (R_i (I_p p): a native datetime (p_kind 1) / date (2) / time (3); R_i (I_rsdur _), R_i (I_pydur _ _): a Duration of either backend; R_form _: an
   _Interval), a str is the list of its code points, **options is the record `opts` (every key present: parse() completes it with DEFAULT_OPTIONS).
   Each primitive names the Python expression it stands for.  parse_iso8601 (either backend) and dateutil.parser.parse stay PARAMETERS (iso, du),
   exactly as in Model/ParseTotal.v. *)
From Coq Require Import ZArith List Bool.
From PV Require Import Lib.PyBase Spec.Cal Model.ParseTotal.
From PV Require Model.IsoParse Model.DurParse.
Import ListNotations.
Open Scope Z_scope.

Definition pstr := list Z.

(* ---- exception classes: `except K` / contextlib.suppress(K) catch an exception e iff isinstance(e, K); `sub` lists the (subclass, class) pairs
   read from the source by the generator (class ParserError(ValueError)) ---- *)
Definition exn_eqb (a b : exn) : bool := exn_code a =? exn_code b.
Definition exn_isa (sub : list (exn * exn)) (cls e : exn) : bool :=
  exn_eqb cls e || existsb (fun p => exn_eqb (fst p) e && exn_eqb (snd p) cls) sub.

(* ---- parse_iso8601(text), dateutil.parser.parse(text, dayfirst=, yearfirst=): the parameters, injected into `parsed` ---- *)
Definition pc_iso8601 (iso : list Z -> result ival) (s : pstr) : result parsed :=
  match iso s with Ok i => Ok (R_i i) | Raise e => Raise e end.
Definition pc_dateutil (du : list Z -> bool -> bool -> result IsoParse.pval) (s : pstr) (dayfirst yearfirst : bool) : result parsed :=
  match du s dayfirst yearfirst with Ok p => Ok (R_i (I_p p)) | Raise e => Raise e end.

(* dt.utcoffset() of a native datetime: tzinfo.utcoffset -> timedelta; datetime raises ValueError unless -24 h < offset < 24 h; None when naive *)
Definition pc_utcoffset (r : parsed) : result (option Z) :=
  match r with
  | R_i (I_p p) => match IsoParse.p_off p with
                   | Some z => if (z <=? -86400) || (86400 <=? z) then Raise E_ValueError else Ok (Some z)
                   | None => Ok None
                   end
  | _ => Raise E_AttributeError
  end.

(* ---- isinstance(x, time) / isinstance(x, date) (a datetime IS a date) / isinstance(x, datetime) ---- *)
Definition pc_kind (r : parsed) : Z := match r with R_i (I_p p) => IsoParse.p_kind p | _ => 0 end.
Definition pc_is_time (r : parsed) : bool := pc_kind r =? 3.
Definition pc_is_datetime (r : parsed) : bool := pc_kind r =? 1.
Definition pc_is_date (r : parsed) : bool := (pc_kind r =? 1) || (pc_kind r =? 2).

(* ---- attributes of a native datetime / date / time ---- *)
Definition pc_p (r : parsed) : IsoParse.pval := match r with R_i (I_p p) => p | _ => IsoParse.mkp 0 0 0 0 0 0 0 0 None end.
Definition pc_year (r : parsed) : Z := IsoParse.p_y (pc_p r).
Definition pc_month (r : parsed) : Z := IsoParse.p_m (pc_p r).
Definition pc_day (r : parsed) : Z := IsoParse.p_d (pc_p r).
Definition pc_hour (r : parsed) : Z := IsoParse.p_H (pc_p r).
Definition pc_minute (r : parsed) : Z := IsoParse.p_M (pc_p r).
Definition pc_second (r : parsed) : Z := IsoParse.p_S (pc_p r).
Definition pc_microsecond (r : parsed) : Z := IsoParse.p_us (pc_p r).

(* datetime(y, m, d[, H, M, S, us]) (naive), date(y, m, d), time(H, M, S, us): the CPython constructors of Model/IsoParse.v *)
Definition pc_lift (r : result IsoParse.pval) : result parsed := match r with Ok p => Ok (R_i (I_p p)) | Raise e => Raise e end.
Definition pc_datetime (y m d H M S us : Z) : result parsed := pc_lift (IsoParse.mk_datetime y m d H M S us None).
Definition pc_date (y m d : Z) : result parsed := pc_lift (IsoParse.mk_date y m d).
Definition pc_time (H M S us : Z) : result parsed := pc_lift (IsoParse.mk_time H M S us None).

(* options["now"] or datetime.now(): the datetime whose date is o_now (the clock read when the option is absent is outside the model, as in
   Model/ParseTotal.v: o_now is the date of whichever value is used); only .year / .month / .day are read *)
Definition pc_now (o : opts) : parsed := let '(y, m, d) := o_now o in R_i (I_p (IsoParse.mkp 1 y m d 0 0 0 0 None)).
