(* Model/ParseChainObj.v — hand-written primitives under the TRANSLATED parse chain (Gen/ParseChain.v, tools/vlib/gens/g84_parse_chain.py):
   src/pendulum/parsing/__init__.py (parse, _parse, _normalize, _parse_iso8601_interval) and src/pendulum/parser.py.
   The values are those of Model/ParseTotal.v: every Python value of type datetime | date | time | _Interval | Duration is a `parsed`
   (R_i (I_p p): a native datetime (p_kind 1) / date (2) / time (3); R_i (I_rsdur _), R_i (I_pydur _ _): a Duration of either backend; R_form _: an
   _Interval), a str is the list of its code points, **options is the record `opts` (every key present: parse() completes it with DEFAULT_OPTIONS).
   Each primitive names the Python expression it stands for.  parse_iso8601 (either backend) and dateutil.parser.parse stay PARAMETERS (iso, du),
   exactly as in Model/ParseTotal.v. *)
From Coq Require Import ZArith List Bool.
From PV Require Import Lib.PyBase Spec.Cal Model.ParseTotal.
From PV Require Model.IsoParse Model.DurParse.
Import ListNotations.
Open Scope Z_scope.

Definition pstr := list Z.

(* ---- exception classes: `except K` / contextlib.suppress(K) catch an exception e iff isinstance(e, K); `sub` lists the (subclass, class) pairs
   read from the source by the generator (class ParserError(ValueError)) ---- *)
Definition exn_eqb (a b : exn) : bool := exn_code a =? exn_code b.
Definition exn_isa (sub : list (exn * exn)) (cls e : exn) : bool :=
  exn_eqb cls e || existsb (fun p => exn_eqb (fst p) e && exn_eqb (snd p) cls) sub.

(* ---- parse_iso8601(text), dateutil.parser.parse(text, dayfirst=, yearfirst=): the parameters, injected into `parsed` ---- *)
Definition pc_iso8601 (iso : list Z -> result ival) (s : pstr) : result parsed :=
  match iso s with Ok i => Ok (R_i i) | Raise e => Raise e end.
Definition pc_dateutil (du : list Z -> bool -> bool -> result IsoParse.pval) (s : pstr) (dayfirst yearfirst : bool) : result parsed :=
  match du s dayfirst yearfirst with Ok p => Ok (R_i (I_p p)) | Raise e => Raise e end.

(* dt.utcoffset() of a native datetime: tzinfo.utcoffset -> timedelta; datetime raises ValueError unless -24 h < offset < 24 h; None when naive *)
Definition pc_utcoffset (r : parsed) : result (option Z) :=
  match r with
  | R_i (I_p p) => match IsoParse.p_off p with
                   | Some z => if (z <=? -86400) || (86400 <=? z) then Raise E_ValueError else Ok (Some z)
                   | None => Ok None
                   end
  | _ => Raise E_AttributeError
  end.

(* ---- isinstance(x, time) / isinstance(x, date) (a datetime IS a date) / isinstance(x, datetime) ---- *)
Definition pc_kind (r : parsed) : Z := match r with R_i (I_p p) => IsoParse.p_kind p | _ => 0 end.
Definition pc_is_time (r : parsed) : bool := pc_kind r =? 3.
Definition pc_is_datetime (r : parsed) : bool := pc_kind r =? 1.
Definition pc_is_date (r : parsed) : bool := (pc_kind r =? 1) || (pc_kind r =? 2).

(* ---- attributes of a native datetime / date / time ---- *)
Definition pc_p (r : parsed) : IsoParse.pval := match r with R_i (I_p p) => p | _ => IsoParse.mkp 0 0 0 0 0 0 0 0 None end.
Definition pc_year (r : parsed) : Z := IsoParse.p_y (pc_p r).
Definition pc_month (r : parsed) : Z := IsoParse.p_m (pc_p r).
Definition pc_day (r : parsed) : Z := IsoParse.p_d (pc_p r).
Definition pc_hour (r : parsed) : Z := IsoParse.p_H (pc_p r).
Definition pc_minute (r : parsed) : Z := IsoParse.p_M (pc_p r).
Definition pc_second (r : parsed) : Z := IsoParse.p_S (pc_p r).
Definition pc_microsecond (r : parsed) : Z := IsoParse.p_us (pc_p r).

(* datetime(y, m, d[, H, M, S, us]) (naive), date(y, m, d), time(H, M, S, us): the CPython constructors of Model/IsoParse.v *)
Definition pc_lift (r : result IsoParse.pval) : result parsed := match r with Ok p => Ok (R_i (I_p p)) | Raise e => Raise e end.
Definition pc_datetime (y m d H M S us : Z) : result parsed := pc_lift (IsoParse.mk_datetime y m d H M S us None).
Definition pc_date (y m d : Z) : result parsed := pc_lift (IsoParse.mk_date y m d).
Definition pc_time (H M S us : Z) : result parsed := pc_lift (IsoParse.mk_time H M S us None).

(* options["now"] or datetime.now(): the datetime whose date is o_now (the clock read when the option is absent is outside the model, as in
   Model/ParseTotal.v: o_now is the date of whichever value is used); only .year / .month / .day are read *)
Definition pc_now (o : opts) : parsed := let '(y, m, d) := o_now o in R_i (I_p (IsoParse.mkp 1 y m d 0 0 0 0 None)).

(* ---- PINNED (not translated yet): _parse_common(text, **options) = common_parse_df of Model/ParseTotal.v ---- *)
Definition pin_parse_common (s : pstr) (o : opts) : result parsed := pc_lift (common_parse_df (o_day_first o) s).
Definition pin_parse_iso8601_interval (iso : list Z -> result ival) (s : pstr) : result parsed :=
  match interval_parse iso s with Ok f => Ok (R_form f) | Raise e => Raise e end.

(* ---- _parse_iso8601_interval ---- *)
(* "/" in text *)
Definition pc_contains_slash (s : pstr) : bool := DurParse.has_slash s.
(* first, last = text.split("/"): ValueError unless the text has exactly one "/" *)
Definition pc_split_slash (s : pstr) : result (pstr * pstr) :=
  match DurParse.split_slash s with
  | (first, Some last) => if DurParse.has_slash last then Raise E_ValueError else Ok (first, last)
  | (_, None) => Raise E_ValueError
  end.
(* x[:1] == "P" is head_is_P of Model/ParseTotal.v *)
(* _Interval(start, end, duration): the record with exactly one None (the only shapes the code builds); its fields are native values / durations *)
Definition pc_ival (r : parsed) : ival := match r with R_i i => i | R_form _ => I_p (IsoParse.mkp 0 0 0 0 0 0 0 0 None) end.
Definition pc_Interval (start end_ duration : option parsed) : parsed :=
  match start, end_, duration with
  | Some a, Some b, None => R_form (F_start_end (pc_ival a) (pc_ival b))
  | Some a, None, Some d => R_form (F_start_dur (pc_ival a) (pc_ival d))
  | None, Some b, Some d => R_form (F_dur_end (pc_ival d) (pc_ival b))
  | _, _, _ => R_form (F_start_end (pc_ival (R_form (F_start_end (I_p (IsoParse.mkp 0 0 0 0 0 0 0 0 None)) (I_p (IsoParse.mkp 0 0 0 0 0 0 0 0 None)))))
                                   (pc_ival (R_form (F_start_end (I_p (IsoParse.mkp 0 0 0 0 0 0 0 0 None)) (I_p (IsoParse.mkp 0 0 0 0 0 0 0 0 None))))))
  end.

(* ---- _parse_common: the code after COMMON.match ---- *)
From PV Require Import Model.C07Regex Gen.IsoRegex.
(* COMMON.match(text): the generated AST COMMON_RE run by the matcher of Model/C07Regex.v; `\d` and int() read every Unicode decimal digit as its
   value, so the matcher runs on the folded text (fold_str of Model/ParseTotal.v) and the groups hold ASCII digits *)
Definition pc_common_match (s : pstr) : option caps := re_match COMMON_RE COMMON_NGROUPS (fold_str s).
(* m.group(g) in a truth test: the group took part.  PINNED: each of the groups tested this way (date, monthday, time, second, subsecondsection)
   contains a mandatory character (\d{4}, \d{2}, ":", \d{1,2}, [.|,]), so a group that took part is a non-empty string *)
Definition pc_group_truth (c : caps) (g : nat) : bool := IsoParse.has c g.
(* int(m.group(g)): TypeError when the group did not take part (int(None)).  PINNED: the groups read this way are \d{..}: int() of a non-empty run of
   decimal digits is its value *)
Definition pc_group_int (c : caps) (g : nat) : result Z :=
  match grp c g with None => Raise E_TypeError | Some l => Ok (IsoParse.int_of l) end.
(* subsecond = m.group(g)[:6]; int(f"{subsecond:0<6}"): the first six characters, right-padded with "0" to six, read as an integer *)
Definition pc_group_us6 (c : caps) (g : nat) : result Z :=
  match grp c g with None => Raise E_TypeError | Some l => Ok (IsoParse.int_of (IsoParse.pad6r (firstn 6 l))) end.

(* ================================================================== parser.py :: _parse — the assembly of the pendulum objects *)
(* `text == "now"` is is_now, pendulum.now() is V_now, options.get("tz", UTC) is deftz (the tz option, else UTC) of Model/ParseTotal.v *)
Definition pc_is_interval (r : parsed) : bool := match r with R_form _ => true | _ => false end.
Definition pc_is_pydur (r : parsed) : bool := match r with R_i (I_pydur _ _) => true | _ => false end.
(* RustDuration is not None and isinstance(parsed, RustDuration): the compiled parser's Duration (RustDuration is None exactly when the extension is
   absent, and then no value is one) *)
Definition pc_is_rsdur (r : parsed) : bool := match r with R_i (I_rsdur _) => true | _ => false end.
(* parsed.tzinfo of a native datetime / time: its fixed offset, None when naive;  parsed.tzinfo or <tz>: a tzinfo object is always truthy *)
Definition pc_tzinfo (r : parsed) : option Z := IsoParse.p_off (pc_p r).
Definition pc_tz_or (a : option Z) (b : Z) : Z := match a with Some z => z | None => b end.
(* pendulum.datetime / date / time on the fields of a native object of the same class.  PINNED: the range checks of the constructors cannot fail on
   fields that come from a native object (Model/ParseTotal.v finish does not model them either) *)
Definition pc_pendulum_datetime (y m d H M S us tz : Z) : tval := V_p (IsoParse.mkp 1 y m d H M S us (Some tz)).
Definition pc_pendulum_date (y m d : Z) : tval := V_p (IsoParse.mkp 2 y m d 0 0 0 0 None).
Definition pc_pendulum_time (H M S us : Z) : tval := V_p (IsoParse.mkp 3 0 0 0 H M S us None).
(* `return parsed` for a pendulum Duration: the same object *)
Definition pc_as_duration (r : parsed) : tval := match r with R_i (I_pydur _ ob) => V_dur ob | _ => V_now end.
(* the compiled parser's Duration: its eight u32 fields; pendulum.duration(years=, ..., microseconds=) = Duration.__new__ (DurParse.duration_native) *)
Definition pc_rs (r : parsed) : DurParse.rsdur := match r with R_i (I_rsdur x) => x | _ => DurParse.rsdur0 end.
Definition pc_pendulum_duration (y mo w d h mi s us : Z) : result tval :=
  match DurParse.duration_native y mo w d (DurParse.NInt h) (DurParse.NInt mi) (DurParse.NInt s) us with Ok xo => Ok (V_dur (snd xo)) | Raise e => Raise e end.

(* ---- the _Interval record: parsed.start / parsed.end are two DISTINCT native objects (identity 0 / 1: their tzinfo objects are distinct unless the
   compiled backend's per-offset cache makes them one), parsed.duration a Duration of either backend ---- *)
Definition nobj := (ival * Z)%type.
Definition pc_junk : ival := I_p (IsoParse.mkp 0 0 0 0 0 0 0 0 None).
Definition pc_has_duration (r : parsed) : bool := match r with R_form (F_start_dur _ _) | R_form (F_dur_end _ _) => true | _ => false end.
Definition pc_has_start (r : parsed) : bool := match r with R_form (F_start_dur _ _) | R_form (F_start_end _ _) => true | _ => false end.
Definition pc_iv_start (r : parsed) : nobj := match r with R_form (F_start_dur a _) | R_form (F_start_end a _) => (a, 0) | _ => (pc_junk, 0) end.
Definition pc_iv_end (r : parsed) : nobj := match r with R_form (F_dur_end _ b) | R_form (F_start_end _ b) => (b, 1) | _ => (pc_junk, 1) end.
Definition pc_iv_duration (r : parsed) : ival := match r with R_form (F_start_dur _ d) | R_form (F_dur_end d _) => d | _ => pc_junk end.
(* duration.years, .months, .weeks, .remaining_days, .hours, .minutes, .remaining_seconds, .microseconds: parts_of (AttributeError on a non-duration) *)
Definition pc_dur_field (k : nat) (d : ival) : result Z :=
  bind (parts_of d) (fun p => let '(a, b, c, dd, e, f, g, h) := p in Ok (nth k [a; b; c; dd; e; f; g; h] 0)).

(* ---- pendulum.instance(native, tz=), DateTime.add / subtract, pendulum.interval(a, b) on the objects the chain builds:
   a DateTime (wall clock, fixed offset, which tzinfo OBJECT it carries), a Date, anything else ---- *)
Inductive tzsrc := S_opt | S_own (id off : Z).
Inductive dtobj := DT (W off : Z) (src : tzsrc) | DD (p : IsoParse.pval) | DX.
Definition pc_instance (x : nobj) (tz : Z) : result dtobj :=
  match fst x with
  | I_p p => if IsoParse.p_kind p =? 1
             then Ok (DT (wall_p p) (pc_tz_or (IsoParse.p_off p) tz) (match IsoParse.p_off p with Some z => S_own (snd x) z | None => S_opt end))
             else if IsoParse.p_kind p =? 2 then Ok (DD p) else Ok DX
  | _ => Raise E_AttributeError                 (* 'Duration' object has no attribute 'tzinfo' *)
  end.
Definition pc_dt_add (d : dtobj) (y mo w dd h mi s us : Z) : result dtobj :=
  match d with
  | DT W off src => match dt_add off W (y, mo, w, dd, h, mi, s, us) with Ok W' => Ok (DT W' off src) | Raise e => Raise e end
  | _ => Raise E_TypeError                      (* Date.add(hours=...) / Time.add(years=...): unexpected keyword argument *)
  end.
Definition pc_dt_subtract (d : dtobj) (y mo w dd h mi s us : Z) : result dtobj := pc_dt_add d (- y) (- mo) (- w) (- dd) (- h) (- mi) (- s) (- us).
(* are the two tzinfo objects the same object?  the tz option object with itself; an own tzinfo with itself; two own FixedTimezones of equal offsets
   under the compiled backend (_safe_timezone caches them per offset) *)
Definition same_src (rs : bool) (a b : tzsrc) : bool :=
  match a, b with
  | S_opt, S_opt => true
  | S_own i x, S_own j y => (i =? j) || (rs && (x =? y))
  | _, _ => false
  end.
Definition pc_interval (rs : bool) (a b : dtobj) : result tval :=
  match a, b with
  | DT Wa oa sa, DT Wb ob sb =>
      bind (interval_new (same_src rs sa sb) Wa oa Wb ob) (fun _ =>
      bind (interval_init rs Wa oa Wb ob) (fun _ => Ok (V_ival 1 (p_of_wall Wa oa) (p_of_wall Wb ob))))
  | DT _ _ _, _ | _, DT _ _ _ => Raise E_ValueError      (* Both start and end of an Interval must have the same type *)
  | DD p, DD q => Ok (V_ival 2 p q)
  | _, _ => Raise E_TypeError
  end.
