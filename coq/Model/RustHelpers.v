(* Model/RustHelpers.v — hand-written model of rust/src/helpers.rs (truncating / and %, tables from
   the generated Gen/RustConstants.v).  Tied to the compiled extension by the correspondence check. *)
From Coq Require Import ZArith List Bool.
From PV Require Import Lib.PyBase Gen.RustConstants.
Import ListNotations.
Open Scope Z_scope.

Definition rs_p (y : Z) : Z := y + Z.quot y 4 - Z.quot y 100 + Z.quot y 400.

Definition rs_is_leap (y : Z) : bool :=
  (Z.rem y 4 =? 0) && (negb (Z.rem y 100 =? 0) || (Z.rem y 400 =? 0)).

Definition rs_is_long_year (y : Z) : bool :=
  (Z.rem (rs_p y) 7 =? 4) || (Z.rem (rs_p (y - 1)) 7 =? 3).

Definition rs_days_in_year (y : Z) : Z :=
  if rs_is_leap y then RS_DAYS_PER_L_YEAR else RS_DAYS_PER_N_YEAR.

Definition rs_week_day (y m d : Z) : Z :=
  let y' := y - (if m <? 3 then 1 else 0) in
  let w := Z.rem (rs_p y' + tidx RS_DAY_OF_WEEK_TABLE (m - 1) + d) 7 in
  if w =? 0 then 7 else Z.abs w.

Definition rs_day_number (y m d : Z) : Z :=
  let m' := Z.rem (m + 9) 12 in
  let y' := y - Z.quot m' 10 in
  365 * y' + Z.quot y' 4 - Z.quot y' 100 + Z.quot y' 400 + Z.quot (m' * 306 + 5) 10 + (d - 1).

(* local_time: same chunking as the Python twin, with truncating division and the explicit
   negative-remainder fix-up that the Rust code needs *)
Fixpoint rs_lt_loop (fuel : nat) (tbl : list Z) (step leapv : Z) (seconds year leap chunk : Z) : option (Z * Z * Z * Z) :=
  match fuel with
  | O => None
  | S f => if seconds >=? chunk then
             rs_lt_loop f tbl step leapv (seconds - chunk) (year + step) leapv (tidx tbl leapv)
           else Some (seconds, year, leap, chunk)
  end.

Fixpoint rs_lt_month (fuel : nat) (leap day month : Z) : option (Z * Z) :=
  match fuel with
  | O => None
  | S f => if negb (month =? RS_TM_JANUARY + 1) then
             let mo := tidx (tidx2 RS_MONTHS_OFFSETS leap) month in
             if day >? mo then Some (day - mo, month) else rs_lt_month f leap day (month - 1)
           else Some (day, month)
  end.

Definition rs_lt_prefix (unix_time utc_offset : Z) : Z * Z :=
  let year := RS_EPOCH_YEAR in
  let seconds := unix_time in
  let '(seconds, year) :=
    if seconds >=? 0 then (seconds - 10957 * RS_SECS_PER_DAY, year + 30)
    else (seconds + (146097 - 10957) * RS_SECS_PER_DAY, year - 370) in
  let seconds := seconds + utc_offset in
  let year := year + 400 * Z.quot seconds RS_SECS_PER_400_YEARS in
  let seconds := Z.rem seconds RS_SECS_PER_400_YEARS in
  if seconds <? 0 then (seconds + RS_SECS_PER_400_YEARS, year - 400) else (seconds, year).

Definition rs_lt_tail (seconds year us : Z) : option (Z * Z * Z * Z * Z * Z * Z) :=
  let leap := 1 in
  match rs_lt_loop 4 RS_SECS_PER_100_YEARS 100 0 seconds year leap (tidx RS_SECS_PER_100_YEARS leap) with
  | None => None
  | Some (seconds, year, leap, _) =>
  match rs_lt_loop 25 RS_SECS_PER_4_YEARS 4 1 seconds year leap (tidx RS_SECS_PER_4_YEARS leap) with
  | None => None
  | Some (seconds, year, leap, _) =>
  match rs_lt_loop 4 RS_SECS_PER_YEAR 1 0 seconds year leap (tidx RS_SECS_PER_YEAR leap) with
  | None => None
  | Some (seconds, year, leap, _) =>
    let month := RS_TM_DECEMBER + 1 in
    let day := Z.quot seconds RS_SECS_PER_DAY + 1 in
    let seconds := Z.rem seconds RS_SECS_PER_DAY in
    match rs_lt_month 13 leap day month with
    | None => None
    | Some (day, month) =>
      let hour := Z.quot seconds RS_SECS_PER_HOUR in
      let seconds := Z.rem seconds RS_SECS_PER_HOUR in
      let minute := Z.quot seconds RS_SECS_PER_MIN in
      let second := Z.rem seconds RS_SECS_PER_MIN in
      Some (year, month, day, hour, minute, second, us)
    end
  end end end.

Definition rs_local_time (unix_time utc_offset us : Z) : option (Z * Z * Z * Z * Z * Z * Z) :=
  let '(seconds, year) := rs_lt_prefix unix_time utc_offset in rs_lt_tail seconds year us.
