(* Model/FormatterBase.v — types shared by the generated formatter tables (Gen/FormatterTables.v, Gen/LocaleTables.v)
   and the hand model of pendulum/formatting/formatter.py (Model/Formatter.v, Model/FormatterParse.v). No proofs here. *)
From Coq Require Import ZArith List Bool.
Import ListNotations.
Open Scope Z_scope.

(* Python str = list of Unicode code points *)
Definition str := list Z.

Fixpoint str_eqb (a b : str) : bool :=
  match a, b with
  | [], [] => true
  | x :: a', y :: b' => (x =? y) && str_eqb a' b'
  | _, _ => false
  end.

Fixpoint assoc {A} (k : str) (l : list (str * A)) : option A :=
  match l with
  | [] => None
  | (k', v) :: t => if str_eqb k k' then Some v else assoc k t
  end.

Fixpoint assocZ {A} (k : Z) (l : list (Z * A)) : option A :=
  match l with
  | [] => None
  | (k', v) :: t => if k =? k' then Some v else assocZ k t
  end.

Definition mem_str (k : str) (l : list str) : bool := existsb (str_eqb k) l.

(* the integer quantities of a DateTime that the f-strings of Formatter._TOKENS_RULES read *)
Record fq := mkfq {
  q_year : Z; q_month : Z; q_day : Z; q_hour : Z; q_minute : Z; q_second : Z; q_microsecond : Z;
  q_quarter : Z; q_day_of_year : Z; q_day_of_week : Z; q_isoweekday : Z; q_week_of_year : Z; q_int_timestamp : Z }.

(* one entry of Formatter._TOKENS_RULES:
   RDec f w sl ts   —  f"{f(dt):0<w>d}"[sl:]   (w = 0: plain :d), ts = the expression reads dt.int_timestamp
   RTzAbbr          —  f'{dt.tzname() if dt.tzinfo is not None else ""}'
   RTzName          —  f'{dt.timezone_name or ""}' *)
Inductive rule :=
| RDec (f : fq -> Z) (width : Z) (slice : Z) (uses_ts : bool)
| RTzAbbr
| RTzName.

(* values of Formatter._LOCALIZABLE_TOKENS (only used by from_format's pattern assembly) *)
Inductive lkind := LNone | LKey (k : str) | LDoOrdinal | LAmPm | LAmPmLower.

(* entries of Formatter._PARSE_TOKENS:  PInt k c = int(x) * k + c ; PStr = identity/str ; PFloat d = float(x) / d *)
Inductive pkind := PInt (k c : Z) | PStr | PFloat (d : Z).

(* regular expressions (the fragment used by the _MATCH_* constants and by locale words) *)
Inductive re :=
| Eps
| Chr (c : Z)
| Any                                  (* .  : anything but newline *)
| Cls (neg : bool) (rs : list (Z * Z)) (* character class as a list of inclusive ranges *)
| Seq (a b : re)
| Alt (a b : re)
| Rep (r : re) (lo hi : nat)           (* greedy bounded repetition r{lo,hi} *)
| Star (r : re)                        (* greedy r* *)
| Grp (name : str) (r : re).           (* (?P<name>r) *)

(* DateTime._FORMATS values and the to_*_string helpers *)
Inductive nfmt := NFmt (s : str) | NIsoT.
Inductive helper :=
| HFormat (fmt : str) (locale : option str)      (* return self.format(fmt[, locale=..]) *)
| HToString (key : str) (locale : option str)    (* return self._to_string(key[, locale=..]) *)
| HIso8601.                                      (* to_iso8601_string: _to_string("iso8601") then "+00:00" -> "Z" for UTC *)

(* one shipped locale (pendulum/locales/<name>/locale.py + custom.py), only the keys the formatter reads.
   None = the key path is absent (Locale.get returns None). *)
Record locale_data := mkloc {
  l_name : str;
  l_months_abbr : option (list (Z * str));
  l_months_wide : option (list (Z * str));
  l_days_short : option (list (Z * str));
  l_days_abbr : option (list (Z * str));
  l_days_wide : option (list (Z * str));
  l_first_day : option Z;
  l_am : option str;
  l_pm : option str;
  l_ordinal_fn : Z -> str;                         (* locale["ordinal"](n): the plural category *)
  l_ordinal_tbl : option (list (str * str));       (* custom.ordinal *)
  l_date_formats : option (list (str * str)) }.    (* custom.date_formats *)
