(* Model/DropInCfg.v — C11: the drop-in methods under pendulum's PROCESS-WIDE configuration, and the routing of FormattableMixin.__format__.
   Part 1: the one configurable value a drop-in method could wrongly consult: the local timezone of tz/local_timezone.py
     (`_mock_local_timezone`, written by set_local_timezone(z) / set_local_timezone() / the context manager test_local_timezone(z)).
     A history is a list of steps; the configuration is the LAST SUCCESSFULLY set value; a rejected call changes nothing.
   Part 2: astimezone on a NAIVE receiver.  The native datetime.astimezone presumes system local time (the C library's zone `sys`;
     UTC in the staged environment, which has no skipped / repeated wall times); DateTime.astimezone is super().astimezone(tz) rebuilt as
     a DateTime, so the configuration `c` is an argument of the model that the result must not depend on.
   Part 3: FormattableMixin.__format__(spec): "" -> str(self); a spec containing '%' -> self.strftime(spec) (what the native
     __format__ does for EVERY non-empty spec); any other spec -> pendulum's own formatter (the documented extension).
   No proofs here (Proofs/C11Cfg.v).  Tied to /repo by the C11 correspondence streams dt-cfg-* and fmt-route / fmt-spec-*. *)
From Coq Require Import ZArith List Bool String.
From PV Require Import Lib.PyBase Spec.Cal Spec.Zone Spec.NativeDT Model.TzConvert Model.DropIn.
Import ListNotations.
Open Scope Z_scope.

(* ------------------------------------------------------------------------------------------------ part 1: configuration *)
Record cfg := mkcfg { c_mock : option zone }.
Definition cfg0 : cfg := mkcfg None.

Inductive step :=
| SetLocalTz (z : option zone)      (* pendulum.set_local_timezone(z) ; set_local_timezone() is SetLocalTz None *)
| TestEnter (z : zone)              (* entering `with pendulum.test_local_timezone(z):` *)
| TestExit                          (* leaving it: set_local_timezone() *)
| Rejected.                         (* a configuration call that raised (set_locale('tlh'), week_starts_at(9), timezone('No/Where')) *)

Definition cfg_step (c : cfg) (s : step) : cfg :=
  match s with
  | SetLocalTz z => mkcfg z
  | TestEnter z => mkcfg (Some z)
  | TestExit => mkcfg None
  | Rejected => c
  end.
Definition run_cfg (c : cfg) (l : list step) : cfg := fold_left cfg_step l c.

(* pendulum.local_timezone(): the mock when one is set, the system zone otherwise *)
Definition pd_local_timezone (sys : zone) (c : cfg) : zone :=
  match c_mock c with Some z => z | None => sys end.

(* ------------------------------------------------------------------------------------------------ part 2: naive astimezone *)
(* datetime.astimezone(tz) of a NAIVE value: local_to_seconds in the system zone, then tz.fromutc *)
Definition native_astimezone_naive (sys : zone) (x : dtv) (tz : tzi) : result dtv :=
  match astz sys (tz_zone tz) (v_wall x) (v_fold x) with
  | Ok (W, f) => Ok (mkdtv W f (Some tz))
  | Raise e => Raise e
  end.

(* DateTime.astimezone(tz) of a naive DateTime under configuration c (same shape as Model/DropIn.v pd_astimezone: ZoneInfo.fromutc calls
   DateTime.replace(fold=1) on the second occurrence of a repeated time, which re-attaches pendulum's timezone object) *)
Definition pd_astimezone_naive (sys : zone) (c : cfg) (x : dtv) (tz : tzi) (tz_is_pendulum : bool) : result (tytag * dtv * bool) :=
  match native_astimezone_naive sys x tz with
  | Raise e => Raise e
  | Ok r =>
    if v_fold r then
      match pd_create (Some tz) (v_wall r) true with
      | Ok r' => Ok (TyDateTime, r', tz_is_pendulum)
      | Raise e => Raise e
      end
    else Ok (TyDateTime, r, true)
  end.

(* the whole case: a history of configuration steps, then the call *)
Definition astimezone_after (sys : zone) (h : list step) (x : dtv) (tz : tzi) (isp : bool) : result (tytag * dtv * bool) :=
  pd_astimezone_naive sys (run_cfg cfg0 h) x tz isp.

(* ------------------------------------------------------------------------------------------------ part 3: __format__ routing *)
(* 0 = str(self), 1 = self.strftime(spec), 2 = self.format(spec); a spec is its list of code points, '%' = 37 *)
Definition has_percent (spec : list Z) : bool := existsb (fun ch => ch =? 37) spec.
Definition fmt_route (spec : list Z) : Z :=
  match spec with
  | [] => 0
  | _ => if has_percent spec then 1 else 2
  end.
(* the native date / time / datetime __format__: str(self) for the empty spec, strftime otherwise *)
Definition native_fmt_route (spec : list Z) : Z := match spec with [] => 0 | _ => 1 end.
