(* Model/RegexSpan.v — the span-tracking twin of the backtracking matcher of Model/C07Regex.v: identical to `rmatch` / `re_match`
   except that a capture group stores its SPAN (start index, length) instead of its text (Python: m.start(g), m.end(g) - m.start(g));
   `texts` reads the group texts back off the input.  Executable definitions only; Proofs/RegexShape.v proves that
   `re_match r n s = option_map (texts s) (re_match_sp r n s)`. *)
From Coq Require Import ZArith List Bool.
From PV Require Import Model.C07Regex.
Import ListNotations.
Open Scope Z_scope.

Definition span := (nat * nat)%type.
Definition scaps := list (option span).

Fixpoint upd_sp (n : nat) (v : span) (c : scaps) : scaps :=
  match n, c with
  | O, _ :: t => Some v :: t
  | S n', h :: t => h :: upd_sp n' v t
  | _, [] => []
  end.

Fixpoint rmatch_sp (r : re) (i : nat) (s : list Z) (c : scaps)
         (k : nat -> list Z -> scaps -> option scaps) {struct r} : option scaps :=
  match r with
  | REps => k i s c
  | RLit a => match s with x :: t => if x =? a then k (S i) t c else None | [] => None end
  | RIn neg rs => match s with x :: t => if xorb neg (in_ranges x rs) then k (S i) t c else None | [] => None end
  | RSeq a b => rmatch_sp a i s c (fun i' s' c' => rmatch_sp b i' s' c' k)
  | RAlt a b => match rmatch_sp a i s c k with Some res => Some res | None => rmatch_sp b i s c k end
  | RRep a mn mx =>
      (fix rep (mx : nat) (mn : nat) (i : nat) (s : list Z) (c : scaps) {struct mx} : option scaps :=
         match mx with
         | O => match mn with O => k i s c | S _ => None end
         | S mx' =>
             match rmatch_sp a i s c (fun i' s' c' => rep mx' (pred mn) i' s' c') with
             | Some res => Some res
             | None => match mn with O => k i s c | S _ => None end
             end
         end) mx mn i s c
  | RGrp n a => rmatch_sp a i s c (fun i' s' c' => k i' s' (upd_sp n (i, (i' - i)%nat) c'))
  | RBeg => match i with O => k i s c | S _ => None end
  | REnd => match s with [] => k i s c | [10] => k i s c | _ => None end
  end.

Definition re_match_sp (r : re) (ngroups : nat) (s : list Z) : option scaps :=
  rmatch_sp r 0 s (repeat None (S ngroups)) (fun _ _ c => Some c).

(* the substring at a span, and the texts of a list of spans *)
Definition sub (whole : list Z) (sp : span) : list Z := firstn (snd sp) (skipn (fst sp) whole).
Definition texts (whole : list Z) (sc : scaps) : caps := map (option_map (sub whole)) sc.

