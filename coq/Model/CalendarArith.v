(* Model/CalendarArith.v — hand-written model of the calendar arithmetic entry points of pendulum (property C04):
     DateTime.add / subtract (datetime.py), DateTime._add_timedelta_ / _subtract_timedelta (the `+` / `-` operators with a
     plain timedelta, a Duration or an Interval), Date.add / subtract / _add_timedelta / _subtract_timedelta (date.py),
     Duration.__neg__ and the component accessors used to rebuild a Duration (duration.py).
   helpers.add_duration itself is TRANSLATED (Gen/AddDuration.v, integer path); the timezone glue (create, add_fixed,
   add_naive, add_calendar) is Model/TzConvert.v; Duration.__new__ (with its float `_total`) is Model/Duration.v (C09).
   A DateTime is (W, f): wall microseconds since 0001-01-01 and the fold flag, in a zone kind `tzk`; a Date is a wall value at midnight.
   Tied to /repo by the C04 correspondence run (both backends).  No proofs here. *)
From Coq Require Import ZArith List Bool.
From Coq Require Import Floats.SpecFloat.
From PV Require Import Lib.PyBase Spec.Cal Spec.Zone Spec.NativeDT Spec.TdFloat Gen.Constants Gen.AddDuration.
From PV Require Import Model.TzConvert Model.Duration.
Import ListNotations.
Open Scope Z_scope.

(* self.tz : None, a named zone, or a fixed offset (is_fixed = true, the zone has no transitions) *)
Inductive tzk := Naive | Aware (z : zone) (is_fixed : bool).

Definition nz (x : Z) : bool := negb (x =? 0).
(* units_of_variable_length = any([years, months, weeks, days]) *)
Definition any_cal (y mo wk d : Z) : bool := nz y || nz mo || nz wk || nz d.

(* DateTime.add with integer arguments.
   tz None: add_duration on the wall clock then create(tz=None);
   calendar units present: add_duration on the wall clock then create(tz=self.tz) with the default fold 1;
   only fixed units: through UTC (naive(self) - utcoffset, add_duration, tz.convert). *)
Definition dt_add (k : tzk) (W : Z) (f : bool) (y mo wk d h m s us : Z) : result (Z * bool) :=
  match k with
  | Naive => add_naive W f y mo wk d h m s us
  | Aware z fx =>
      if any_cal y mo wk d then add_calendar z fx W y mo wk d h m s us
      else add_fixed z W f h m s us
  end.

(* DateTime.subtract(kwargs) = self.add(negated kwargs) *)
Definition dt_subtract (k : tzk) (W : Z) (f : bool) (y mo wk d h m s us : Z) : result (Z * bool) :=
  dt_add k W f (- y) (- mo) (- wk) (- d) (- h) (- m) (- s) (- us).

(* ---------------------------------------------------------------- add(years=, months=, seconds=<float>)
   The operator paths pass a FLOAT number of seconds (Duration._total / timedelta.total_seconds()).  In add_duration
   (all other time arguments are the int 0):
       if abs(seconds) > 59: s = _sign(seconds); div, mod = divmod(seconds * s, 60); seconds = mod * s; minutes += div * s
   `minutes` is now an integer-valued float; the later carries (minutes -> hours -> days) and timedelta(days=, hours=, minutes=)
   are exact on integer-valued floats below 2**53 (the operands are timedelta totals, at most 8.64e13 s), so only the first
   carry and timedelta's rounding of the fractional `seconds` are float operations.  The rounded microseconds and the integer
   minutes are handed to the translated integer add_duration, which depends on its time arguments only through their total
   (Proofs/AddDurationFacts.v norm_parts_total).  _sign is int(copysign(1, x)): the sign bit. *)
Definition fsec_parts (x : sf) : result (Z * Z) :=
  if flt (sf_of_Z 59) (fabs x) then
    let s := if sf_sign x then -1 else 1 in
    bind (py_float_divmod (fmul x (sf_of_Z s)) (sf_of_Z 60)) (fun '(dv, md) =>
    bind (py_int_trunc (fmul dv (sf_of_Z s))) (fun mins =>
    bind (td_us_of_float_seconds (fmul md (sf_of_Z s))) (fun us => Ok (mins, us))))
  else bind (td_us_of_float_seconds x) (fun us => Ok (0, us)).

Definition dt_add_fsec (k : tzk) (W : Z) (f : bool) (y mo : Z) (x : sf) : result (Z * bool) :=
  bind (fsec_parts x) (fun '(mins, us) => dt_add k W f y mo 0 0 0 mins 0 us).

(* ---------------------------------------------------------------- the right operand of `+` / `-` *)
Inductive operand :=
| OpTd (N : Z)                                   (* a plain datetime.timedelta of N microseconds *)
| OpDur (d : dur)                                (* a pendulum.Duration (Model/Duration.v) *)
| OpIv (y mo wk rd h mi rs us : Z) (total : sf). (* a pendulum.Interval: the values of its accessors years, months, weeks,
                                                    remaining_days, hours, minutes, remaining_seconds, microseconds, and _total *)

(* DateTime._add_timedelta_ *)
Definition dt_add_timedelta (k : tzk) (W : Z) (f : bool) (op : operand) : result (Z * bool) :=
  match op with
  | OpIv y mo wk rd h mi rs us _ => dt_add k W f y mo wk rd h mi rs us
  | OpDur d =>
      match d_sig d with
      | [y; mo; wk; dd; h; mi; s; us] => dt_add k W f y mo wk dd h mi s us       (* self.add of the keyword dict delta._signature *)
      | _ => Raise E_AttributeError                                              (* AbsoluteDuration has no _signature *)
      end
  | OpTd N => dt_add_fsec k W f 0 0 (total_seconds N)
  end.

(* dt.subtract(years=d.years, months=d.months, weeks=d.weeks, days=d.remaining_days, hours=d.hours, minutes=d.minutes,
               seconds=d.remaining_seconds, microseconds=d.microseconds) *)
Definition dt_sub_components (k : tzk) (W : Z) (f : bool) (d : dur) : result (Z * bool) :=
  dt_subtract k W f (d_years d) (d_months d) (d_weeks d) (d_rdays d) (dur_hours d) (dur_minutes d) (dur_remaining_seconds d) (d_micro d).

(* DateTime._subtract_timedelta.  Duration (and Interval, a subclass): subtract() of the accessor values years, months, weeks,
   remaining_days, hours, minutes, remaining_seconds, microseconds (all integers: the same units as _add_timedelta_ on an
   Interval and as Date._subtract_timedelta; `_total` is not used).  A plain timedelta: subtract(seconds=total_seconds()). *)
Definition dt_sub_timedelta (k : tzk) (W : Z) (f : bool) (op : operand) : result (Z * bool) :=
  match op with
  | OpIv y mo wk rd h mi rs us _ => dt_subtract k W f y mo wk rd h mi rs us
  | OpDur d => dt_sub_components k W f d
  | OpTd N => dt_add_fsec k W f 0 0 (fopp (total_seconds N))
  end.

(* Duration.__neg__: self.__class__(years=-_years, months=-_months, weeks=-_weeks, days=-_remaining_days, seconds=-_seconds,
   microseconds=-_microseconds) — a NEW Duration, whose _signature is these keyword values (hours = minutes = 0) *)
Definition dur_neg (d : dur) : result dur :=
  duration_new (- d_rdays d) (- d_seconds d) (- d_micro d) 0 0 0 (- d_weeks d) (- d_years d) (- d_months d).

(* dt + (-d) *)
Definition dt_plus_neg (k : tzk) (W : Z) (f : bool) (d : dur) : result (Z * bool) :=
  bind (dur_neg d) (fun nd => dt_add_timedelta k W f (OpDur nd)).

(* ---------------------------------------------------------------- Date *)
(* Date.add: add_duration on date(y, m, d), then self.__class__(dt.year, dt.month, dt.day) *)
Definition date_add (W : Z) (y mo wk d : Z) : result Z :=
  match py_add_duration (mkndt W false) y mo wk d 0 0 0 0 with
  | Ok r => Ok (n_wall r)
  | Raise e => Raise e
  end.
Definition date_subtract (W : Z) (y mo wk d : Z) : result Z := date_add W (- y) (- mo) (- wk) (- d).

(* Date._add_timedelta / _subtract_timedelta: a Duration contributes years, months, weeks, remaining_days (its time part is
   dropped), a plain timedelta its .days (floor) *)
Definition date_add_timedelta (W : Z) (op : operand) : result Z :=
  match op with
  | OpTd N => date_add W 0 0 0 (N / US_PER_DAY)
  | OpDur d => date_add W (d_years d) (d_months d) (d_weeks d) (d_rdays d)
  | OpIv y mo wk rd _ _ _ _ _ => date_add W y mo wk rd
  end.
Definition date_sub_timedelta (W : Z) (op : operand) : result Z :=
  match op with
  | OpTd N => date_subtract W 0 0 0 (N / US_PER_DAY)
  | OpDur d => date_subtract W (d_years d) (d_months d) (d_weeks d) (d_rdays d)
  | OpIv y mo wk rd _ _ _ _ _ => date_subtract W y mo wk rd
  end.
