(* Model/WeekdayZone.v — executable model of pendulum's weekday navigation (property C16), two regions that Model/Weekday.v
   leaves out:

   (A) DateTime.next/previous/first_of/last_of/nth_of in a tz-database zone (a pendulum Timezone, Spec/Zone.v):
       every instance the methods build goes through DateTime.create -> Timezone.convert (Model/TzConvert.v, convert_naive),
       which moves a local time that does not exist by the size of the gap (forward with fold=1, BACKWARD with fold=0) —
       set()/on()/at()/start_of("day") pass the instance's fold, add(days=..) the default fold=1.
       The bodies repeat those of Model/Weekday.v statement by statement with `z_create` in the place of `t_create`.
   (B) the month helpers called under a process-wide calendar.setfirstweekday(fw): they build their own
       calendar.Calendar(calendar.MONDAY), whose rows start on Monday whatever fw is (calendar.Calendar(fw) is modelled for
       every fw and validated against the stdlib by the `firstweekday` stream).

   No proofs here (Proofs/C16Zone.v, Proofs/C16FirstWeekday.v).  Tied to /repo by the correspondence run of
   tools/props/C16.py (streams zone-*, firstweekday), both backends. *)
From Coq Require Import ZArith List Bool.
From PV Require Import Lib.PyBase Spec.Cal Spec.Zone Gen.DateGetters Model.TzConvert Model.Weekday.
Import ListNotations.
Open Scope Z_scope.

(* ------------------------------------------------------------------ (A) DateTime in a tz-database zone *)
(* fields: the date, the time of day in microseconds, the fold attribute; the zone is a parameter of every function
   (the methods always pass tz=self.tz on) *)
Record zdt := mkz { z_date : pdate; z_tod : Z; z_fold : bool }.

Definition wall_of_date (p : pdate) (tod : Z) : Z := (date_ord p - 1) * us_per_day + tod.
Definition zdt_of_wall (W : Z) (f : bool) : zdt := mkz (pdate_of3 (ord2ymd (W / us_per_day + 1))) (W mod us_per_day) f.
Definition z_wall (x : zdt) : Z := wall_of_date (z_date x) (z_tod x).

(* DateTime.create(y, m, d, time, tz=zone, fold=f): datetime.datetime(...) validates the fields, tz.convert(dt) normalises
   (raise_on_unknown_times=False), the fields of the converted value are the instance *)
Definition z_create (z : zone) (y m d tod : Z) (f : bool) : result zdt :=
  bind (date_new y m d) (fun p =>
  match convert_naive z (wall_of_date p tod) f false with
  | Ok (W', f') => Ok (zdt_of_wall W' f')
  | Raise e => Raise e
  end).

(* start_of("day") = at(0,0,0,0) = set(hour=0,...): create(..., fold=self.fold) *)
Definition z_start_of_day (z : zone) (x : zdt) : result zdt :=
  z_create z (d_year (z_date x)) (d_month (z_date x)) (d_day (z_date x)) 0 (z_fold x).

(* add(days=k): naive datetime + timedelta(days=k), then create(..., tz=self.tz) — fold is create's default, 1 *)
Definition z_add_days (z : zone) (x : zdt) (k : Z) : result zdt :=
  bind (date_add_days (z_date x) k) (fun p => z_create z (d_year p) (d_month p) (d_day p) (z_tod x) true).

Definition z_set_day (z : zone) (x : zdt) (d : Z) : result zdt :=
  z_create z (d_year (z_date x)) (d_month (z_date x)) d (z_tod x) (z_fold x).
Definition z_set_month (z : zone) (x : zdt) (m : Z) : result zdt :=
  z_create z (d_year (z_date x)) m (d_day (z_date x)) (z_tod x) (z_fold x).
Definition z_on (z : zone) (x : zdt) (y m d : Z) : result zdt := z_create z y m d (z_tod x) (z_fold x).

Fixpoint z_next_loop (z : zone) (fuel : nat) (wd : Z) (dt : zdt) : result zdt :=
  match fuel with
  | O => Raise E_OutOfFuel
  | S f => if negb (dow (z_date dt) =? wd) then bind (z_add_days z dt 1) (z_next_loop z f wd) else Ok dt
  end.

Definition z_next (z : zone) (self : zdt) (wd : option Z) (keep_time : bool) : result zdt :=
  let w := match wd with None => dow (z_date self) | Some w => w end in
  if wd_invalid w then Raise E_ValueError else
  bind (if keep_time then Ok self else z_start_of_day z self) (fun dt =>
  bind (z_add_days z dt 1) (z_next_loop z 7 w)).

Fixpoint z_prev_loop (z : zone) (fuel : nat) (wd : Z) (dt : zdt) : result zdt :=
  match fuel with
  | O => Raise E_OutOfFuel
  | S f => if negb (dow (z_date dt) =? wd) then bind (z_add_days z dt (-1)) (z_prev_loop z f wd) else Ok dt
  end.

Definition z_previous (z : zone) (self : zdt) (wd : option Z) (keep_time : bool) : result zdt :=
  let w := match wd with None => dow (z_date self) | Some w => w end in
  if wd_invalid w then Raise E_ValueError else
  bind (if keep_time then Ok self else z_start_of_day z self) (fun dt =>
  bind (z_add_days z dt (-1)) (z_prev_loop z 7 w)).

Definition z_first_of_month (z : zone) (self : zdt) (wd : option Z) : result zdt :=
  bind (z_start_of_day z self) (fun dt =>
  match wd with
  | None => z_set_day z dt 1
  | Some w =>
    let y := d_year (z_date dt) in let m := d_month (z_date dt) in
    bind (mc_get y m 0 w) (fun c0 =>
    if c0 >? 0 then z_set_day z dt c0
    else bind (mc_get y m 1 w) (fun c1 => z_set_day z dt c1))
  end).

Definition z_last_of_month (z : zone) (self : zdt) (wd : option Z) : result zdt :=
  bind (z_start_of_day z self) (fun dt =>
  match wd with
  | None => z_set_day z dt (days_in_month (z_date self))        (* dt.set(day=self.days_in_month): SELF's month length *)
  | Some w =>
    let y := d_year (z_date dt) in let m := d_month (z_date dt) in
    bind (mc_get y m (-1) w) (fun c0 =>
    if c0 >? 0 then z_set_day z dt c0
    else bind (mc_get y m (-2) w) (fun c1 => z_set_day z dt c1))
  end).

Definition z_first_of_quarter (z : zone) (self : zdt) (wd : option Z) : result zdt :=
  bind (z_on z self (d_year (z_date self)) (py_Date_quarter (z_date self) * 3 - 2) 1) (fun x => z_first_of_month z x wd).
Definition z_last_of_quarter (z : zone) (self : zdt) (wd : option Z) : result zdt :=
  bind (z_on z self (d_year (z_date self)) (py_Date_quarter (z_date self) * 3) 1) (fun x => z_last_of_month z x wd).
Definition z_first_of_year (z : zone) (self : zdt) (wd : option Z) : result zdt :=
  bind (z_set_month z self 1) (fun x => z_first_of_month z x wd).
Definition z_last_of_year (z : zone) (self : zdt) (wd : option Z) : result zdt :=
  bind (z_set_month z self 12) (fun x => z_last_of_month z x wd).

Definition z_first_of (z : zone) (u : Z) (self : zdt) (wd : option Z) : result zdt :=
  if u =? U_MONTH then z_first_of_month z self wd
  else if u =? U_QUARTER then z_first_of_quarter z self wd
  else if u =? U_YEAR then z_first_of_year z self wd
  else Raise E_ValueError.
Definition z_last_of (z : zone) (u : Z) (self : zdt) (wd : option Z) : result zdt :=
  if u =? U_MONTH then z_last_of_month z self wd
  else if u =? U_QUARTER then z_last_of_quarter z self wd
  else if u =? U_YEAR then z_last_of_year z self wd
  else Raise E_ValueError.

Fixpoint z_iter_next (z : zone) (k : nat) (wd : Z) (dt : zdt) : result zdt :=
  match k with
  | O => Ok dt
  | S k' => bind (z_next z dt (Some wd) false) (z_iter_next z k' wd)
  end.

(* the walked instance `dt` only decides WHICH day; the answer is rebuilt from self and normalised by start_of("day") *)
Definition z_nth_of_month (z : zone) (self : zdt) (nth wd : Z) : result (option zdt) :=
  if nth =? 1 then bind (z_first_of z U_MONTH self (Some wd)) (fun r => Ok (Some r)) else
  bind (z_first_of z U_MONTH self None) (fun dt0 =>
  bind (z_iter_next z (nth_iters nth wd (z_date dt0)) wd dt0) (fun dt =>
  if same_year_month (z_date dt) (z_date dt0)
  then bind (z_set_day z self (d_day (z_date dt))) (fun r => bind (z_start_of_day z r) (fun r' => Ok (Some r')))
  else Ok None)).

Definition z_nth_of_quarter (z : zone) (self : zdt) (nth wd : Z) : result (option zdt) :=
  if nth =? 1 then bind (z_first_of z U_QUARTER self (Some wd)) (fun r => Ok (Some r)) else
  bind (z_on z self (d_year (z_date self)) (py_Date_quarter (z_date self) * 3) 1) (fun dtq =>
  let last_month := d_month (z_date dtq) in
  let year := d_year (z_date dtq) in
  bind (z_first_of z U_QUARTER dtq None) (fun dt0 =>
  bind (z_iter_next z (nth_iters nth wd (z_date dt0)) wd dt0) (fun dt =>
  if (last_month <? d_month (z_date dt)) || negb (year =? d_year (z_date dt)) then Ok None
  else bind (z_on z self (d_year (z_date self)) (d_month (z_date dt)) (d_day (z_date dt))) (fun r =>
       bind (z_start_of_day z r) (fun r' => Ok (Some r')))))).

Definition z_nth_of_year (z : zone) (self : zdt) (nth wd : Z) : result (option zdt) :=
  if nth =? 1 then bind (z_first_of z U_YEAR self (Some wd)) (fun r => Ok (Some r)) else
  bind (z_first_of z U_YEAR self None) (fun dt0 =>
  let year := d_year (z_date dt0) in
  bind (z_iter_next z (nth_iters nth wd (z_date dt0)) wd dt0) (fun dt =>
  if negb (year =? d_year (z_date dt)) then Ok None
  else bind (z_on z self (d_year (z_date self)) (d_month (z_date dt)) (d_day (z_date dt))) (fun r =>
       bind (z_start_of_day z r) (fun r' => Ok (Some r'))))).

Definition z_nth_of (z : zone) (u : Z) (self : zdt) (nth wd : Z) : result zdt :=
  let r := if u =? U_MONTH then overflow_to_none (z_nth_of_month z self nth wd)
           else if u =? U_QUARTER then overflow_to_none (z_nth_of_quarter z self nth wd)
           else if u =? U_YEAR then overflow_to_none (z_nth_of_year z self nth wd)
           else Raise E_ValueError in
  bind r (fun o => match o with Some d => Ok d | None => Raise E_PendulumException end).

(* one public call: op 0 next, 1 previous, 2 first_of, 3 last_of, 4 nth_of *)
Definition z_apply (z : zone) (op u n : Z) (wd : option Z) (keep : bool) (x : zdt) : result zdt :=
  if op =? 0 then z_next z x wd keep
  else if op =? 1 then z_previous z x wd keep
  else if op =? 2 then z_first_of z u x wd
  else if op =? 3 then z_last_of z u x wd
  else match wd with Some w => z_nth_of z u x n w | None => Raise E_TypeError end.

(* ------------------------------------------------------------------ (B) calendar.setfirstweekday(fw) *)
(* calendar.Calendar(fw).monthdayscalendar(y, m): column c of a row is weekday (fw + c) mod 7
   (calendar.monthcalendar is this with fw = the process-wide calendar.firstweekday()) *)
Definition mc_first_fw (fw y m : Z) : Z := (weekday0 (ymd2ord y m 1) - fw) mod 7.
Definition mc_rows_fw (fw y m : Z) : Z := (mc_first_fw fw y m + dim y m + 6) / 7.
Definition mc_cell_fw (fw y m row col : Z) : Z :=
  let v := row * 7 + col - mc_first_fw fw y m + 1 in
  if (1 <=? v) && (v <=? dim y m) then v else 0.
Definition mc_get_fw (fw y m i c : Z) : result Z :=
  let n := mc_rows_fw fw y m in
  let r := if i <? 0 then i + n else i in
  let cc := if c <? 0 then c + 7 else c in
  if (r <? 0) || (n <=? r) || (cc <? 0) || (7 <=? cc) then Raise E_IndexError else Ok (mc_cell_fw fw y m r cc).

Definition CAL_MONDAY : Z := 0.                 (* calendar.MONDAY *)

(* Date._first_of_month / _last_of_month as written, called while calendar.setfirstweekday(fw) is in force (the DateTime
   variants are the same statements after start_of("day")):
     month = calendar.Calendar(calendar.MONDAY).monthdayscalendar(dt.year, dt.month)
   a calendar object of the helpers' own, laid out from Monday — the process-wide setting fw is an input of the call that the
   code does not read (before the repair of finding calendar-firstweekday it read calendar.monthcalendar = mc_get_fw fw) *)
Definition fw_first_of_month (fw : Z) (self : pdate) (wd : option Z) : result pdate :=
  match wd with
  | None => date_set_day self 1
  | Some w =>
    let y := d_year self in let m := d_month self in
    bind (mc_get_fw CAL_MONDAY y m 0 w) (fun c0 =>
    if c0 >? 0 then date_set_day self c0
    else bind (mc_get_fw CAL_MONDAY y m 1 w) (fun c1 => date_set_day self c1))
  end.

Definition fw_last_of_month (fw : Z) (self : pdate) (wd : option Z) : result pdate :=
  match wd with
  | None => date_set_day self (days_in_month self)
  | Some w =>
    let y := d_year self in let m := d_month self in
    bind (mc_get_fw CAL_MONDAY y m (-1) w) (fun c0 =>
    if c0 >? 0 then date_set_day self c0
    else bind (mc_get_fw CAL_MONDAY y m (-2) w) (fun c1 => date_set_day self c1))
  end.

Definition fw_first_of (fw u : Z) (self : pdate) (wd : option Z) : result pdate :=
  if u =? U_MONTH then fw_first_of_month fw self wd
  else if u =? U_QUARTER then bind (date_set_ymd self (d_year self) (py_Date_quarter self * 3 - 2) 1) (fun x => fw_first_of_month fw x wd)
  else if u =? U_YEAR then bind (date_set_month self 1) (fun x => fw_first_of_month fw x wd)
  else Raise E_ValueError.
Definition fw_last_of (fw u : Z) (self : pdate) (wd : option Z) : result pdate :=
  if u =? U_MONTH then fw_last_of_month fw self wd
  else if u =? U_QUARTER then bind (date_set_ymd self (d_year self) (py_Date_quarter self * 3) 1) (fun x => fw_last_of_month fw x wd)
  else if u =? U_YEAR then bind (date_set_month self 12) (fun x => fw_last_of_month fw x wd)
  else Raise E_ValueError.

(* nth_of reads the calendar only through first_of (nth = 1); next/previous never do *)
Definition fw_nth_of (fw u : Z) (self : pdate) (nth wd : Z) : result pdate :=
  if nth =? 1 then
    (if (u =? U_MONTH) || (u =? U_QUARTER) || (u =? U_YEAR) then fw_first_of fw u self (Some wd) else Raise E_ValueError)
  else d_nth_of u self nth wd.
