(* Model/TzDispatch.v — dispatch shared by the timezone properties (C01 C02 C03 C04 ...).
   A zone is passed as  init :: n :: t1 :: o1 :: ... :: tn :: on  (times in seconds since 0001-01-01T00:00:00Z). *)
From Coq Require Import ZArith List Bool.
From PV Require Import Lib.PyBase Spec.Cal Spec.Zone Spec.NativeDT Gen.AddDuration Model.TzConvert.
Import ListNotations.
Open Scope Z_scope.

Fixpoint take_trans (n : nat) (l : list Z) : list (Z * Z) * list Z :=
  match n, l with
  | S k, t :: o :: r => let '(tr, rest) := take_trans k r in ((t, o) :: tr, rest)
  | _, _ => ([], l)
  end.

Definition parse_zone (l : list Z) : option (zone * list Z) :=
  match l with
  | init :: n :: r => let '(tr, rest) := take_trans (Z.to_nat n) r in Some (mkzone init tr, rest)
  | _ => None
  end.

Definition zb (x : Z) : bool := negb (x =? 0).

(* result of a DateTime-valued operation: wall, fold, and the utcoffset() the zone reports for it *)
Definition out_dt (z : zone) (r : result (Z * bool)) : list Z :=
  match r with
  | Ok (W, f) => [0; W; Z.b2z f; off_local z (W / MEG) f]
  | Raise e => [1; exn_code e]
  end.

Definition dispatch (fn : Z) (args : list Z) : list Z :=
  match parse_zone args with
  | None => [9]
  | Some (z, rest) =>
    match fn, rest with
    | 1 (* zone_probe *), [u; w] =>
        [0; off_utc z u; Z.b2z (fold_utc z u); off_local z w false; off_local z w true; Z.b2z (wf_zone z); Z.b2z (wf2_zone z)]
    | 2 (* create *), [fixed; W; f; r] => out_dt z (create z (zb fixed) W (zb f) (zb r))
    | 4 (* add_fixed *), [W; f; h; m; s; us] => out_dt z (add_fixed z W (zb f) h m s us)
    | 5 (* add_naive *), [W; f; y; mo; wk; d; h; m; s; us] =>
        match add_naive W (zb f) y mo wk d h m s us with Ok (W', f') => [0; W'; Z.b2z f'] | Raise e => [1; exn_code e] end
    | 6 (* add_calendar *), [fixed; W; y; mo; wk; d; h; m; s; us] => out_dt z (add_calendar z (zb fixed) W y mo wk d h m s us)
    | 7 (* int_timestamp *), [W; f] => [0; int_timestamp z W (zb f)]
    | 8 (* from_timestamp_int *), [isutc; n] => out_dt z (from_timestamp_int z (zb isutc) n)
    | 9 (* add_duration *), [W; isdt; y; mo; wk; d; h; m; s; us] =>
        match py_add_duration (mkndt W (zb isdt)) y mo wk d h m s us with Ok d' => [0; n_wall d'] | Raise e => [1; exn_code e] end
    | 3 (* in_tz *), _ =>
        (* rest = second zone ++ [same_obj; W; f] *)
        match parse_zone rest with
        | Some (z2, [same; W; f]) => out_dt z2 (in_tz (zb same) z z2 W (zb f))
        | _ => [9]
        end
    | _, _ => [9]
    end
  end.
