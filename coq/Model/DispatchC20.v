(* Model/DispatchC20.v — entry point of the C20 models for the OCaml driver and the vm_compute cross-check.
   Times travel as their microsecond of the day (tod); results: 0 :: values | [1; exn code] | [9] bad call. *)
From Coq Require Import ZArith List Bool.
From PV Require Import Lib.PyBase Spec.Cal Model.TimeBase Gen.TimeArith Model.TimeOfDay Model.TimeOperand.
Import ListNotations.
Open Scope Z_scope.

Definition ok (l : list Z) : list Z := 0 :: l.
Definition of_time (r : result ptime) : list Z :=
  match r with Ok t => [0; tod t; Z.b2z (valid_time t)] | Raise e => [1; exn_code e] end.
Definition of_time2 (r : result (ptime * ptime)) : list Z :=
  match r with Ok (a, b) => [0; tod a; tod b] | Raise e => [1; exn_code e] end.
Definition of_list (r : result (list Z)) : list Z :=
  match r with Ok l => 0 :: l | Raise e => [1; exn_code e] end.
Definition T := time_of_tod.

Definition dispatch (fn : Z) (args : list Z) : list Z :=
  match fn, args with
  | 1 (* time_add *), [t;h;m;s;us] => of_time (time_add (T t) h m s us)
  | 2 (* time_subtract *), [t;h;m;s;us] => of_time (time_subtract (T t) h m s us)
  | 3 (* time_add_then_subtract *), [t;h;m;s;us] => of_time2 (time_add_then_subtract (T t) h m s us)
  | 4 (* time_add_timedelta *), [t;d;s;us] => of_time (time_add_timedelta (T t) (td_make d s us))
  | 5 (* time_subtract_timedelta *), [t;d;s;us] => of_time (time_subtract_timedelta (T t) (td_make d s us))
  | 6 (* time_diff *), [a;b;ab] =>
      let abs := negb (ab =? 0) in
      ok [time_diff_total (T a) (T b) abs; time_diff_native (T a) (T b); time_diff_in_seconds (T a) (T b) abs]
  | 7 (* time_op_sub *), [a;b] => ok [time_op_sub (T a) (T b)]
  | 8 (* time_op_rsub *), [a;b] => ok [time_op_rsub (T a) (T b)]
  | 9 (* time_closest *), [t;a;b] => ok [tod (time_closest (T t) (T a) (T b))]
  | 10 (* time_farthest *), [t;a;b] => ok [tod (time_farthest (T t) (T a) (T b))]
  | 11 (* td_make *), [d;s;us] => let x := td_make d s us in ok [td_days x; td_seconds x; td_microseconds x]
  | 12 (* add_duration_norm *), [d;h;m;s;us] =>
      let '(_, _, d', h', m', s', us') := py_add_duration_norm 0 0 d h m s us in ok [d'; h'; m'; s'; us']
  | 13 (* time_fields *), [t] => let x := T t in ok [t_hour x; t_minute x; t_second x; t_microsecond x; tod x]
  (* a timedelta SUBCLASS operand: k = 0 Duration, 1 AbsoluteDuration (nine constructor arguments), 2 Interval (d = its span in microseconds) *)
  | 14 (* time_add_operand *), [t;k;d;s;us;ms;mi;h;w;y;mo] => of_time (time_add_operand (T t) k d s us ms mi h w y mo)
  | 15 (* time_subtract_operand *), [t;k;d;s;us;ms;mi;h;w;y;mo] => of_time (time_subtract_operand (T t) k d s us ms mi h w y mo)
  | 16 (* operand_observe *), [k;d;s;us;ms;mi;h;w;y;mo] => of_list (operand_observe k d s us ms mi h w y mo)
  | _, _ => [9]
  end.
