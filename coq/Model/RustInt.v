(* Model/RustInt.v — Rust's fixed-width integers as the translated Rust code (Gen/RustHelpersGen.v, tools/vlib/rust2gallina.py) uses them.
   The crate is built with overflow-checks = false: + - * (and the casts `as`) wrap around modulo 2^n.  No proofs here.
     wrap_u n x    the value of x in an unsigned n-bit type ;  wrap_s n x   in a signed n-bit type (two's complement)
   isize / usize are 64-bit (the platforms the extension is built for). *)
From Coq Require Import ZArith.
Open Scope Z_scope.

Definition wrap_u (n : Z) (x : Z) : Z := x mod 2 ^ n.
Definition wrap_s (n : Z) (x : Z) : Z := (x + 2 ^ (n - 1)) mod 2 ^ n - 2 ^ (n - 1).

Definition wrap_u8 := wrap_u 8.    Definition wrap_u16 := wrap_u 16.   Definition wrap_u32 := wrap_u 32.   Definition wrap_u64 := wrap_u 64.
Definition wrap_usize := wrap_u 64.
Definition wrap_i8 := wrap_s 8.    Definition wrap_i16 := wrap_s 16.   Definition wrap_i32 := wrap_s 32.   Definition wrap_i64 := wrap_s 64.
Definition wrap_isize := wrap_s 64.

(* the outcome of a translated `for` loop whose body may `return`: the function returned r / the range is exhausted with state s / out of fuel *)
Inductive loop_res (R S : Type) : Type := LReturn (r : R) | LDone (s : S) | LFuel.
Arguments LReturn {R S} r.
Arguments LDone {R S} s.
Arguments LFuel {R S}.
