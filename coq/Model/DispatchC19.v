(* Model/DispatchC19.v — dispatch of the C19 correspondence: Interval construction + the translated range / __iter__ / __contains__.
   Arguments: zone of the first constructor argument ++ zone of the second (each init :: n :: t1 :: o1 :: ...) ++ scalars.
   A value is returned as wall, fold, utcoffset (0 for dates and naive values). *)
From Coq Require Import ZArith List Bool.
From PV Require Import Lib.PyBase Spec.Cal Spec.Zone Model.TzDispatch Model.IntervalRange Gen.IntervalRange.
Import ListNotations.
Open Scope Z_scope.

Definition out_val (v : dtv) : list Z :=
  [dv_W v; Z.b2z (dv_f v); if dv_kind v =? K_AWARE then off_local (dv_zone v) (dv_W v / MEG) (dv_f v) else 0].

Definition out_gen (iv : interval) (r : gen_out) : list Z :=
  let '(l, st) := r in
  [0; match st with GDone => 0 | GRaise _ => 1 | GFuel => 2 end; match st with GRaise e => exn_code e | _ => 0 end;
   Z.b2z (iv_invert iv); dv_W (iv_start iv); Z.b2z (dv_f (iv_start iv)); dv_W (iv_end iv); Z.b2z (dv_f (iv_end iv));
   Z.of_nat (length l)] ++ flat_map out_val l.

(* index of the first yielded value that is not `in` the interval, as -(index+1); the number of values when all are members *)
Fixpoint members (iv : interval) (l : list dtv) (i : Z) : Z :=
  match l with
  | [] => i
  | x :: r => if py_contains iv x then members iv r (i + 1) else - (i + 1)
  end.

Definition mkval (kind : Z) (z : zone) (fixed tzid W f : Z) : dtv := mkdtv kind z (zb fixed) tzid W (zb f).

Definition dispatch (fn : Z) (args : list Z) : list Z :=
  match parse_zone args with
  | None => [9]
  | Some (za, rest) =>
    match parse_zone rest with
    | None => [9]
    | Some (zb_, rest2) =>
      match fn, rest2 with
      | 1 (* range *), [kind; fa; fb; ia; ib; Ws; fs; We; fe; absolute; unit; amount; fuel] =>
          let iv := mk_interval (mkval kind za fa ia Ws fs) (mkval kind zb_ fb ib We fe) (zb absolute) in
          out_gen iv (py_range (Z.to_nat fuel) iv unit amount)
      | 2 (* iter *), [kind; fa; fb; ia; ib; Ws; fs; We; fe; absolute; fuel] =>
          let iv := mk_interval (mkval kind za fa ia Ws fs) (mkval kind zb_ fb ib We fe) (zb absolute) in
          out_gen iv (py_iter (Z.to_nat fuel) iv)
      | 5 (* member *), [kind; fa; fb; ia; ib; Ws; fs; We; fe; absolute; unit; amount; fuel] =>
          let iv := mk_interval (mkval kind za fa ia Ws fs) (mkval kind zb_ fb ib We fe) (zb absolute) in
          let l := fst (py_range (Z.to_nat fuel) iv unit amount) in
          [0; Z.of_nat (length l); members iv l 0]
      | 3 (* contains *), _ =>
          match parse_zone rest2 with
          | Some (zx, [kind; fa; fb; fx; ia; ib; ix; Ws; fs; We; fe; absolute; Wx; ffx]) =>
              let iv := mk_interval (mkval kind za fa ia Ws fs) (mkval kind zb_ fb ib We fe) (zb absolute) in
              [0; Z.b2z (py_contains iv (mkval kind zx fx ix Wx ffx)); Z.b2z (iv_invert iv)]
          | _ => [9]
          end
      | 4 (* shift *), [kind; fa; ia; W; f; m; unit; i] =>
          match call_method (mkval kind za fa ia W f) m unit i with
          | Ok v => 0 :: out_val v
          | Raise e => [1; exn_code e]
          end
      | _, _ => [9]
      end
    end
  end.
