(* Model/DispatchC17.v — entry point of the C17 model for the OCaml driver and the vm_compute cross-check.
   Strings are passed as their code points.  Result encoding: 0 :: values, [1; exn code], [9] bad call.
     DateTime/Date/Time   0 kind y m d H M S us hasoff off        (kind 1/2/3)
     Duration             0 4 years months days seconds microseconds
     Interval             0 5 kind  y m d H M S us off  y m d H M S us off
     now                  0 6
     raw Rust duration    0 7 years months weeks days hours minutes seconds microseconds     (parse_iso8601 level only)
   The dateutil oracle is instantiated with `Raise E_NotImplemented` (code 15): a result [1; 15] means "the chain reached the
   dateutil fallback and returns whatever it returns". *)
From Coq Require Import ZArith List Bool.
From PV Require Import Lib.PyBase Model.IsoParse Model.DurParse Model.ParseTotal.
Import ListNotations.
Open Scope Z_scope.

Definition enc_p8 (p : IsoParse.pval) : list Z :=
  [p_y p; p_m p; p_d p; p_H p; p_M p; p_S p; IsoParse.p_us p; match p_off p with Some o => o | None => 0 end].
Definition enc_p (p : IsoParse.pval) : list Z :=
  [p_kind p; p_y p; p_m p; p_d p; p_H p; p_M p; p_S p; IsoParse.p_us p;
   match p_off p with Some _ => 1 | None => 0 end; match p_off p with Some o => o | None => 0 end].
Definition enc_obs (o : durobs) : list Z := let '(a, b, c, d, e) := o in [4; a; b; c; d; e].

Definition enc_tval (r : result tval) : list Z :=
  match r with
  | Ok (V_p p) => 0 :: enc_p p
  | Ok (V_dur o) => 0 :: enc_obs o
  | Ok (V_ival k a b) => 0 :: 5 :: k :: enc_p8 a ++ enc_p8 b
  | Ok V_now => [0; 6]
  | Raise e => [1; exn_code e]
  end.

Definition enc_ival (r : result ival) : list Z :=
  match r with
  | Ok (I_p p) => 0 :: enc_p p
  | Ok (I_pydur _ o) => 0 :: enc_obs o
  | Ok (I_rsdur r) => [0; 7; r_years r; r_months r; r_weeks r; r_days r; r_hours r; r_minutes r; r_seconds r; DurParse.r_us r]
  | Raise e => [1; exn_code e]
  end.

Definition du_marker : list Z -> bool -> bool -> result IsoParse.pval := fun _ _ _ => Raise E_NotImplemented.

Definition nz (x : Z) : bool := negb (x =? 0).

Definition dispatch (fn : Z) (args : list Z) : list Z :=
  match fn, args with
  | 1 (* parse *), rs :: exact :: strict :: df :: yf :: tzf :: tzo :: ny :: nm :: nd :: s =>
      enc_tval (parse_full du_marker (nz rs) (mkopts (nz exact) (nz strict) (nz df) (nz yf) (if tzf =? 0 then None else Some tzo) (ny, nm, nd)) s)
  | 2 (* iso *), rs :: s => enc_ival (iso8601 (nz rs) s)
  | 3 (* common *), df :: s => match common_parse_df (nz df) s with Ok p => 0 :: enc_p p | Raise e => [1; exn_code e] end
  | 4 (* minute_absent *), s => [0; Z.b2z (common_minute_absent s)]
  | 5 (* fold *), s => 0 :: fold_str s
  | _, _ => [9]
  end.
