(* Model/DispatchC04.v — dispatch of the calendar-arithmetic model (Model/CalendarArith.v).
   args = zone (init :: n :: t1 :: o1 :: ...) ++ the call's own arguments.
   kind: 0 naive, 1 aware named zone, 2 aware fixed offset.
   operand: 0 :: N (plain timedelta of N us) | 1 :: years months weeks days hours minutes seconds microseconds (Duration constructor
   arguments) | 2 :: years months weeks remaining_days hours minutes remaining_seconds microseconds tag m e (Interval accessors, _total). *)
From Coq Require Import ZArith List Bool.
From PV Require Import Lib.PyBase Spec.Cal Spec.Zone Spec.NativeDT Spec.TdFloat Gen.AddDuration.
From PV Require Import Model.TzConvert Model.TzDispatch Model.Duration Model.CalendarArith.
Import ListNotations.
Open Scope Z_scope.

Definition mk_kind (z : zone) (kind : Z) : tzk :=
  if kind =? 0 then Naive else Aware z (kind =? 2).

Definition parse_operand (l : list Z) : option (result operand) :=
  match l with
  | [0; N] => Some (Ok (OpTd N))
  | [1; y; mo; wk; d; h; mi; s; us] =>
      Some (match duration_new d s us 0 mi h wk y mo with Ok du => Ok (OpDur du) | Raise e => Raise e end)
  | [2; y; mo; wk; rd; h; mi; rs; us; tag; m; e] => Some (Ok (OpIv y mo wk rd h mi rs us (sf_decode tag m e)))
  | _ => None
  end.

Definition out_date (r : result Z) : list Z :=
  match r with Ok W => [0; W] | Raise e => [1; exn_code e] end.

Definition with_operand (l : list Z) (k : operand -> list Z) : list Z :=
  match parse_operand l with
  | None => [9]
  | Some (Raise e) => [1; exn_code e]
  | Some (Ok op) => k op
  end.

Definition with_dur (l : list Z) (k : dur -> list Z) : list Z :=
  with_operand l (fun op => match op with OpDur d => k d | _ => [9] end).

Definition dispatch (fn : Z) (args : list Z) : list Z :=
  match parse_zone args with
  | None => [9]
  | Some (z, rest) =>
    match fn, rest with
    | 1 (* dt_add *), [kind; W; f; y; mo; wk; d; h; m; s; us] => out_dt z (dt_add (mk_kind z kind) W (zb f) y mo wk d h m s us)
    | 2 (* dt_subtract *), [kind; W; f; y; mo; wk; d; h; m; s; us] => out_dt z (dt_subtract (mk_kind z kind) W (zb f) y mo wk d h m s us)
    | 3 (* dt_plus *), kind :: W :: f :: op => with_operand op (fun o => out_dt z (dt_add_timedelta (mk_kind z kind) W (zb f) o))
    | 4 (* dt_minus *), kind :: W :: f :: op => with_operand op (fun o => out_dt z (dt_sub_timedelta (mk_kind z kind) W (zb f) o))
    | 5 (* dt_plus_neg *), kind :: W :: f :: op => with_dur op (fun d => out_dt z (dt_plus_neg (mk_kind z kind) W (zb f) d))
    | 6 (* dt_sub_components *), kind :: W :: f :: op => with_dur op (fun d => out_dt z (dt_sub_components (mk_kind z kind) W (zb f) d))
    | 7 (* date_add *), [W; y; mo; wk; d] => out_date (date_add W y mo wk d)
    | 8 (* date_subtract *), [W; y; mo; wk; d] => out_date (date_subtract W y mo wk d)
    | 9 (* date_plus *), W :: op => with_operand op (fun o => out_date (date_add_timedelta W o))
    | 10 (* date_minus *), W :: op => with_operand op (fun o => out_date (date_sub_timedelta W o))
    | 11 (* add_duration *), [W; isdt; y; mo; wk; d; h; m; s; us] =>
        match py_add_duration (mkndt W (zb isdt)) y mo wk d h m s us with Ok d' => [0; n_wall d'] | Raise e => [1; exn_code e] end
    | _, _ => [9]
    end
  end.
