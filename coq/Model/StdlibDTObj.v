(* Model/StdlibDTObj.v — HAND-WRITTEN object model for the translation of CPython's _pydatetime.py datetime/timedelta arithmetic
   (Gen/StdlibDT.v).  Executable definitions only, no proofs.

   * a timedelta object is the record of its slots _days/_seconds/_microseconds (`.days` etc. are the properties returning them);
   * a tzinfo object is an identity tag and its utcoffset(dt) as a function of the fields and the fold of dt (None or a timedelta);
     `a is b` on tzinfo objects (or None) is equality of the tags;
   * a datetime object is the record of its slots (_year .. _microsecond, _fold, _tzinfo); _hashcode is not modelled;
   * timedelta.__eq__ / the ordering of timedeltas compare the state tuples (days, seconds, microseconds): td_eqb / td_ltb;
     `None == None`, `None == td` (False);  bool(td) = some slot is non-zero;
   * `-timedelta(1) < offset < timedelta(1)` (the range test of _check_utc_offset) is td_in_day_range;
   * _cmp(x, y) on two 7-tuples of ints is the lexicographic three-way comparison (the body of _cmp is checked by shape);
   * self.replace(fold=not self.fold) is the same object with the other fold (dm_flip_fold: the constructor checks cannot fail on
     the fields of an existing object);
   * round(m + 0.0) on an int m is m (sl_round_int), see the generator for the float literals of timedelta.__new__. *)
From Coq Require Import ZArith List Bool.
From PV Require Import Lib.PyBase.
Import ListNotations.
Open Scope Z_scope.

Record std := mkstd { td_days : Z; td_seconds : Z; td_microseconds : Z }.
Definition fields7 : Type := (Z * Z * Z * Z * Z * Z * Z)%type.
Record stz := mkstz { stz_id : Z; stz_off : fields7 -> Z -> option std }.
Record sdtm := mksdtm { dm_year : Z; dm_month : Z; dm_day : Z; dm_hour : Z; dm_minute : Z; dm_second : Z; dm_microsecond : Z;
                        dm_fold : Z; dm_tz : option stz }.

Definition dm_fields (d : sdtm) : fields7 := (dm_year d, dm_month d, dm_day d, dm_hour d, dm_minute d, dm_second d, dm_microsecond d).
(* self._tzinfo.utcoffset(self), used where self._tzinfo is not None *)
Definition tz_utcoffset_of (d : sdtm) : option std :=
  match dm_tz d with None => None | Some t => stz_off t (dm_fields d) (dm_fold d) end.
Definition opt_tz_is (a b : option stz) : bool :=
  match a, b with None, None => true | Some x, Some y => stz_id x =? stz_id y | _, _ => false end.

Definition td_eqb (a b : std) : bool :=
  (td_days a =? td_days b) && (td_seconds a =? td_seconds b) && (td_microseconds a =? td_microseconds b).
Definition opt_td_eqb (a b : option std) : bool :=
  match a, b with None, None => true | Some x, Some y => td_eqb x y | _, _ => false end.
Definition td_bool (a : std) : bool := negb ((td_days a =? 0) && (td_seconds a =? 0) && (td_microseconds a =? 0)).
Definition td_us_total (a : std) : Z := (td_days a * 86400 + td_seconds a) * 1000000 + td_microseconds a.
Definition td_in_day_range (o : std) : bool := (- (86400 * 1000000) <? td_us_total o) && (td_us_total o <? 86400 * 1000000).

Definition sl_cmp7 (a b : fields7) : Z :=
  let '(a1, a2, a3, a4, a5, a6, a7) := a in let '(b1, b2, b3, b4, b5, b6, b7) := b in
  let c (x y k : Z) : Z := if x <? y then -1 else if y <? x then 1 else k in
  c a1 b1 (c a2 b2 (c a3 b3 (c a4 b4 (c a5 b5 (c a6 b6 (c a7 b7 0)))))).

Definition dm_flip_fold (d : sdtm) : sdtm :=
  mksdtm (dm_year d) (dm_month d) (dm_day d) (dm_hour d) (dm_minute d) (dm_second d) (dm_microsecond d)
         (if dm_fold d =? 0 then 1 else 0) (dm_tz d).
Definition sl_round_int (x : Z) : Z := x.
