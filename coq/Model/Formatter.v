(* Model/Formatter.v — executable model of Formatter.format / _format_token / _format_localizable_token
   (src/pendulum/formatting/formatter.py), Locale.ordinalize (locales/locale.py), DateTime._to_string and the
   to_*_string helpers (datetime.py).  Tables come from Gen/FormatterTables.v and Gen/LocaleTables.v (regenerated from /repo
   on every check); the control flow below is written by hand and pinned to the source by Proofs/C08SourceTie.v
   and by the correspondence run.  No proofs here. *)
From Coq Require Import ZArith List Bool.
From PV Require Import Lib.PyBase Spec.Cal Gen.DateGetters Model.FormatterBase Gen.FormatterTables Gen.LocaleTables.
Import ListNotations.
Open Scope Z_scope.

(* ------------------------------------------------------------------ decimal rendering *)
Fixpoint digits_fuel (fuel : nat) (n : Z) (acc : str) : str :=
  match fuel with
  | O => acc
  | S f => if n <? 10 then (48 + n) :: acc else digits_fuel f (n / 10) ((48 + n mod 10) :: acc)
  end.
(* decimal digits of n >= 0 (a number has no more decimal digits than bits) *)
Definition digits_of (n : Z) : str := digits_fuel (S (Z.to_nat (Z.log2 n))) n [].

(* f"{n:d}" and str(n) *)
Definition render_d (n : Z) : str := if n <? 0 then 45 :: digits_of (- n) else digits_of n.

Fixpoint zeros (k : nat) : str := match k with O => [] | S k' => 48 :: zeros k' end.
Definition lpad (w : Z) (s : str) : str := zeros (Z.to_nat (w - Z.of_nat (length s))) ++ s.
(* f"{n:0<w>d}" : sign-aware zero padding *)
Definition render_0wd (w n : Z) : str :=
  if n <? 0 then 45 :: lpad (w - 1) (digits_of (- n)) else lpad w (digits_of n).

Definition render_dec (w sl n : Z) : str :=
  skipn (Z.to_nat sl) (if w =? 0 then render_d n else render_0wd w n).

(* ------------------------------------------------------------------ the DateTime being formatted *)
Record pdt := mkpdt {
  t_year : Z; t_month : Z; t_day : Z; t_hour : Z; t_minute : Z; t_second : Z; t_micro : Z;
  t_has_tz : bool;       (* dt.tzinfo is not None *)
  t_off : Z;             (* dt.utcoffset() in seconds (pendulum timezones have whole-second offsets) *)
  t_zone : str;          (* dt.timezone_name *)
  t_abbr : str }.        (* dt.tzname() *)

Definition epoch_ordinal : Z := 719163.   (* date(1970, 1, 1).toordinal() *)

(* DateTime.int_timestamp: (dt - EPOCH).days * 86400 + (dt - EPOCH).seconds *)
Definition int_timestamp (t : pdt) : Z :=
  (ymd2ord (t_year t) (t_month t) (t_day t) - epoch_ordinal) * 86400
  + t_hour t * 3600 + t_minute t * 60 + t_second t - t_off t.

Definition fq_of (t : pdt) : fq :=
  let d := mkdate (t_year t) (t_month t) (t_day t) in
  let n := ymd2ord (t_year t) (t_month t) (t_day t) in
  mkfq (t_year t) (t_month t) (t_day t) (t_hour t) (t_minute t) (t_second t) (t_micro t)
       (py_Date_quarter d) (py_Date_day_of_year d) (weekday0 n) (iso_weekday n)
       (snd (fst (isocalendar (t_year t) (t_month t) (t_day t)))) (int_timestamp t).

(* ------------------------------------------------------------------ tokenizer: Formatter._FORMAT_RE.sub
   _TOKENS = <[ body ]> | <backslash, any char but newline> | (token alternatives).  Leftmost match, alternatives in order, greedy with backtracking:
   the bracket body is the longest run without '[' that is followed by ']' (so it ends at the LAST ']' of that run). *)
Fixpoint strip_prefix (p s : str) : option str :=
  match p, s with
  | [], _ => Some s
  | a :: p', b :: s' => if a =? b then strip_prefix p' s' else None
  | _ :: _, [] => None
  end.

Fixpoint first_token (toks : list str) (s : str) : option (str * str) :=
  match toks with
  | [] => None
  | t :: rest => match strip_prefix t s with Some r => Some (t, r) | None => first_token rest s end
  end.

Fixpoint bracket_body (s : str) : option (str * str) :=
  match s with
  | [] => None
  | c :: t =>
    if c =? 91 then None
    else match bracket_body t with
         | Some (b, r) => Some (c :: b, r)
         | None => if c =? 93 then Some ([], t) else None
         end
  end.

Inductive piece := PBracket (body : str) | PEscape (c : Z) | PToken (t : str) | PChar (c : Z).

Definition escape_at (s : str) : option (Z * str) :=
  match s with
  | 92 :: e :: rest => if e =? 10 then None else Some (e, rest)
  | _ => None
  end.

Fixpoint tokenize (fuel : nat) (s : str) : list piece :=
  match fuel with
  | O => []
  | S f =>
    match s with
    | [] => []
    | c :: t =>
      match (if c =? 91 then bracket_body t else None) with
      | Some (body, rest) => PBracket body :: tokenize f rest
      | None =>
        match escape_at s with
        | Some (e, rest) => PEscape e :: tokenize f rest
        | None =>
          match first_token format_tokens s with
          | Some (tok, rest) => PToken tok :: tokenize f rest
          | None => PChar c :: tokenize f t
          end
        end
      end
    end
  end.

(* ------------------------------------------------------------------ Locale *)
Definition tbl_get (tbl : option (list (Z * str))) (k : Z) : result str :=
  match tbl with
  | None => Raise E_TypeError                      (* None[...] *)
  | Some l => match assocZ k l with Some s => Ok s | None => Raise E_KeyError end
  end.

(* Locale.ordinalize *)
Definition ordinalize (loc : locale_data) (n : Z) : str :=
  match (match l_ordinal_tbl loc with Some tbl => assoc (l_ordinal_fn loc n) tbl | None => None end) with
  | Some (c :: o) => render_d n ++ c :: o
  | _ => render_d n
  end.

Definition find_locale (name : str) : option locale_data :=
  find (fun l => str_eqb (l_name l) name) locales.

(* ------------------------------------------------------------------ token names used by the hand-written control flow *)
Definition T_MMM : str := [77;77;77].       Definition T_MMMM : str := [77;77;77;77].
Definition T_dd : str := [100;100].         Definition T_ddd : str := [100;100;100].   Definition T_dddd : str := [100;100;100;100].
Definition T_e : str := [101].              Definition T_eo : str := [101;111].
Definition T_Do : str := [68;111].          Definition T_do : str := [100;111].
Definition T_Mo : str := [77;111].          Definition T_Qo : str := [81;111].
Definition T_wo : str := [119;111].         Definition T_DDDo : str := [68;68;68;111].
Definition T_A : str := [65].               Definition T_a : str := [97].
Definition T_Z : str := [90].               Definition T_ZZ : str := [90;90].

(* Formatter._format_localizable_token *)
Definition format_localizable (loc : locale_data) (t : pdt) (tok : str) : result str :=
  let q := fq_of t in
  if str_eqb tok T_MMM then tbl_get (l_months_abbr loc) (q_month q)
  else if str_eqb tok T_MMMM then tbl_get (l_months_wide loc) (q_month q)
  else if str_eqb tok T_dd then tbl_get (l_days_short loc) (q_day_of_week q)
  else if str_eqb tok T_ddd then tbl_get (l_days_abbr loc) (q_day_of_week q)
  else if str_eqb tok T_dddd then tbl_get (l_days_wide loc) (q_day_of_week q)
  else if str_eqb tok T_e then
    match l_first_day loc with
    | None => Raise E_TypeError                    (* int - None *)
    | Some fd => Ok (render_d ((q_day_of_week q mod 7 - fd) mod 7))
    end
  else if str_eqb tok T_Do then Ok (ordinalize loc (q_day q))
  else if str_eqb tok T_do then Ok (ordinalize loc ((q_day_of_week q + 1) mod 7))
  else if str_eqb tok T_Mo then Ok (ordinalize loc (q_month q))
  else if str_eqb tok T_Qo then Ok (ordinalize loc (q_quarter q))
  else if str_eqb tok T_wo then Ok (ordinalize loc (q_week_of_year q))
  else if str_eqb tok T_DDDo then Ok (ordinalize loc (q_day_of_year q))
  else if str_eqb tok T_eo then
    match l_first_day loc with
    | None => Raise E_TypeError
    | Some fd => Ok (ordinalize loc ((q_day_of_week q mod 7 - fd) mod 7 + 1))
    end
  else if str_eqb tok T_A then
    (* a missing key gives None, which re.sub treats as the empty string *)
    Ok (match (if 12 <=? q_hour q then l_pm loc else l_am loc) with Some s => s | None => [] end)
  else Ok tok.

(* the "ZZ"/"Z" branch of _format_token: minutes = total_seconds()/60 (a float), int() truncates towards zero *)
Definition format_offset (t : pdt) (colon : bool) : str :=
  if negb (t_has_tz t) then []
  else
    let sign := if 0 <=? t_off t then 43 else 45 in
    let am := Z.abs (Z.quot (t_off t) 60) in
    sign :: render_0wd 2 (am / 60) ++ (if colon then [58] else []) ++ render_0wd 2 (am mod 60).

Definition apply_rule (r : rule) (t : pdt) : result str :=
  match r with
  | RDec f w sl ts =>
    if ts && negb (t_has_tz t) then Raise E_TypeError     (* naive - aware *)
    else Ok (render_dec w sl (f (fq_of t)))
  | RTzAbbr => Ok (if t_has_tz t then t_abbr t else [])
  | RTzName => Ok (if t_has_tz t then t_zone t else [])
  end.

(* Formatter._format_token; rec = self.format(dt, fmt, locale) for the L/LT... tokens *)
Definition format_token (rec : str -> result str) (loc : locale_data) (t : pdt) (tok : str) : result str :=
  if mem_str tok date_format_tokens then
    match (match l_date_formats loc with Some tbl => assoc tok tbl | None => None end) with
    | Some f => rec f
    | None => match assoc tok default_date_formats with Some f => rec f | None => Raise E_KeyError end
    end
  else if existsb (fun kv => str_eqb tok (fst kv)) localizable_tokens then format_localizable loc t tok
  else match assoc tok tokens_rules with
       | Some r => apply_rule r t
       | None =>
         if str_eqb tok T_ZZ || str_eqb tok T_Z then Ok (format_offset t (str_eqb tok T_Z))
         else Ok tok
       end.

Fixpoint render_pieces (ft : str -> result str) (ps : list piece) : result str :=
  match ps with
  | [] => Ok []
  | p :: rest =>
    bind (match p with
          | PBracket body => Ok body      (* an empty body falls through to _format_token(None) = None = "" *)
          | PEscape c => Ok [c]
          | PToken tok => ft tok
          | PChar c => Ok [c]
          end) (fun a => bind (render_pieces ft rest) (fun b => Ok (a ++ b)))
  end.

(* Formatter.format with a loaded locale; depth bounds the L -> format -> L recursion *)
Fixpoint format_loc (depth : nat) (loc : locale_data) (t : pdt) (fmt : str) : result str :=
  match depth with
  | O => Raise E_OutOfFuel
  | S d => render_pieces (format_token (format_loc d loc t) loc t) (tokenize (S (length fmt)) fmt)
  end.

Definition default_locale : str := [101; 110].   (* pendulum.get_locale() = "en" *)

(* dt.format(fmt, locale=name) *)
Definition format (name : str) (t : pdt) (fmt : str) : result str :=
  match find_locale name with
  | None => Raise E_ValueError
  | Some loc => format_loc 4 loc t fmt
  end.

(* ------------------------------------------------------------------ datetime.isoformat("T") *)
Definition isoformat_T (t : pdt) : str :=
  lpad 4 (render_d (t_year t)) ++ [45] ++ render_0wd 2 (t_month t) ++ [45] ++ render_0wd 2 (t_day t) ++ [84]
  ++ render_0wd 2 (t_hour t) ++ [58] ++ render_0wd 2 (t_minute t) ++ [58] ++ render_0wd 2 (t_second t)
  ++ (if t_micro t =? 0 then [] else 46 :: render_0wd 6 (t_micro t))
  ++ (if negb (t_has_tz t) then []
      else let a := Z.abs (t_off t) in
           (if t_off t <? 0 then 45 else 43) :: render_0wd 2 (a / 3600) ++ [58] ++ render_0wd 2 ((a mod 3600) / 60)
           ++ (if a mod 60 =? 0 then [] else 58 :: render_0wd 2 (a mod 60))).

(* str.replace(old, new), old non-empty *)
Fixpoint replace_all (fuel : nat) (s old new : str) : str :=
  match fuel with
  | O => s
  | S f =>
    match s with
    | [] => []
    | c :: t => match strip_prefix old s with
                | Some rest => new ++ replace_all f rest old new
                | None => c :: replace_all f t old new
                end
    end
  end.

(* DateTime._to_string(key, locale) *)
Definition to_string (key : str) (locale : option str) (t : pdt) : result str :=
  match assoc key named_formats with
  | None => Raise E_ValueError
  | Some NIsoT => Ok (isoformat_T t)
  | Some (NFmt f) => format (match locale with Some l => l | None => default_locale end) t f
  end.

Definition UTC_name : str := [85; 84; 67].
Definition plus0000 : str := [43; 48; 48; 58; 48; 48].

(* dt.to_<name>_string() *)
Definition string_helper (name : str) (t : pdt) : result str :=
  match assoc name string_helpers with
  | None => Raise E_AttributeError
  | Some (HFormat f locale) => format (match locale with Some l => l | None => default_locale end) t f
  | Some (HToString key locale) => to_string key locale t
  | Some HIso8601 =>
    bind (to_string [105; 115; 111; 56; 54; 48; 49] None t) (fun s =>
      Ok (if t_has_tz t && str_eqb (t_zone t) UTC_name then replace_all (S (length s)) s plus0000 [90] else s))
  end.
