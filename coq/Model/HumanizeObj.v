(* Model/HumanizeObj.v — HAND-WRITTEN object model for the translation of pendulum's locale session code (Gen/HumanizeGlue.v, translated from
   /repo's helpers.py and locales/locale.py by tools/vlib/gens/g18_humanize_glue.py).  Executable definitions only.

   * a str is its list of code points (Model/LocaleBase.v pstr); `a == b` = pstr_eqb; s.lower() = LocaleSession.lower (ASCII names);
   * the module-level mutable state: pendulum._LOCALE is an explicit state value (a pstr) threaded through the functions; the class attribute
     Locale._cache (a dict str -> Locale) is an explicit association list `gcache`, threaded through every function that can touch it
     (key in cache = cache_has, cache[key] = cache_get, cache[key] = v = cache_set); NOTHING is assumed about its contents: transparency is a theorem;
   * a Locale object (gloc): its _locale name and its data = the record of Gen/Locales.v (the generated locale tables); _key_cache is not modelled;
   * re.match("([a-z]{2})[-_]([a-z]{2})", s, re.I) = re_match_locale: the two groups when s STARTS with two ASCII letters, '-' or '_', two ASCII
     letters (hand model of that one pattern; re.I makes [a-z] match both cases);
   * resources.files(__package__).joinpath(n).exists() = dir_exists n: n is the directory name of a shipped locale (Gen/Locales.v all_locales);
     import_module(f"pendulum.locales.{n}.locale").locale = the generated record of that name (locale_module; None when absent);
   * difference_formatter.format(diff, is_now, absolute, locale) = Locale.load(locale) (the translation below, cache threaded) then the hand model
     Model/DiffFormat.v format (the formatter itself is NOT translated). *)
From Coq Require Import ZArith List Bool String.
From PV Require Import Lib.PyBase Model.LocaleBase Gen.Locales Model.DiffFormat Model.LocaleSession.
Import ListNotations.
Open Scope Z_scope.

Record gloc := mkgloc { gl_name : pstr; gl_data : locale }.
Definition gcache : Type := list (pstr * gloc).
Fixpoint cache_get_opt (c : gcache) (k : pstr) : option gloc :=
  match c with [] => None | (k', v) :: r => if pstr_eqb k' k then Some v else cache_get_opt r k end.
Definition cache_has (c : gcache) (k : pstr) : bool := match cache_get_opt c k with Some _ => true | None => false end.
Definition dummy_gloc : gloc := mkgloc [] loc_en.
Definition cache_get (c : gcache) (k : pstr) : gloc := match cache_get_opt c k with Some v => v | None => dummy_gloc end.   (* KeyError not modelled: guarded by `in` *)
Definition cache_set (c : gcache) (k : pstr) (v : gloc) : gcache := (k, v) :: c.

Definition re_match_locale (s : pstr) : option (pstr * pstr) :=
  match s with
  | a :: b :: sp :: c :: d :: _ =>
    if is_az a && is_az b && ((sp =? 45) || (sp =? 95)) && is_az c && is_az d then Some ([a; b], [c; d]) else None
  | _ => None
  end.
Definition match_truth (m : option (pstr * pstr)) : bool := match m with Some _ => true | None => false end.
Definition match_group (m : option (pstr * pstr)) (n : Z) : pstr :=
  match m with Some (g1, g2) => if n =? 1 then g1 else g2 | None => [] end.
Definition join_underscore (a b : pstr) : pstr := a ++ [95] ++ b.
Definition dir_exists (n : pstr) : bool := match find_locale n with Some _ => true | None => false end.
Definition locale_module (n : pstr) : locale := match find_locale n with Some L => L | None => loc_en end.   (* ImportError not modelled: guarded by exists() *)

(* ------------------------------------------------------------------ Duration.in_words / Interval.in_words (the skeleton; Gen/HumanizeGlue.v)
   * the receiver (gwords): its seven component properties (years, months, weeks, remaining_days, hours, minutes, remaining_seconds) and
     .microseconds, as VALUES (where they come from is C06/C14's matter);
   * parts: a list of str (lpstr); `parts.append(x)` on that fresh, never aliased local = lp_append; `if not parts` = negb lp_truth;
   * the key f"units.{unit}.{cls}" is the pair (unit, cls) (ukey); loaded_locale.translation(key) = loc_translation: Locale.translation prefixes
     "translations." and Locale.get splits the key at the dots and walks the data (Model/LocaleBase.v lookup) — a primitive here, PROVED to be the
     translated Locale.translation / Locale.get (with _key_cache threaded) on every key in_words builds: Props/C18.v in_words_translation_is_code;
   * loaded_locale.plural(n) = the translated Locale.plural on the data of the loaded object (Gen/HumanizeGlue.v loc_plural);
   * translation.format(x) uses x only through str(x) (the shipped templates carry bare {} / {0} fields; LocaleBase.node_format);
   * f"{abs(us) / 1e6:.2f}" = DiffFormat.fmt2 (binary64 division then rounding to hundredths, hand model);
   * `locale or d` on an optional str (Interval.in_words): d for None AND for "". *)
Definition lpstr : Type := list pstr.
Definition ukey : Type := (string * string)%type.
Record gwords := mkgwords { gw_comp : comp; gw_us : Z }.
Definition mk_ukey (u cls : string) : ukey := (u, cls).
Definition loc_translation (L : gloc) (k : ukey) : result (option node) := lget (gl_data L) ["translations"; "units"; fst k; snd k]%string.
Definition lp_nil : lpstr := [].
Definition lp_truth (l : lpstr) : bool := match l with [] => false | _ => true end.
Definition lp_append (l : lpstr) (x : pstr) : lpstr := l ++ [x].
Definition opt_str_or (o : option pstr) (d : pstr) : pstr := match o with Some (c :: r) => c :: r | _ => d end.

(* ------------------------------------------------------------------ Locale.plural / ordinal / ordinalize (on the generated locale record)
   self._data["plural"] / ["ordinal"] are the generated expression ASTs (LocaleBase l_plural / l_ordinal), applied by lplural / lordinal;
   self.get(f"custom.ordinal.{c}") = loc_get_custom_ordinal (proved to be the translated Locale.get on that key: ordinalize_get_is_code);
   str(x) of a looked-up value = LocaleBase.node_str; + on str = pcat *)
Definition loc_get_custom_ordinal (L : locale) (c : string) : result (option node) := lget L ["custom"; "ordinal"; c]%string.
Definition pcat (a b : pstr) : pstr := a ++ b.

(* ------------------------------------------------------------------ Locale.get / Locale.translation (translated in Gen/HumanizeGlue.v)
   * self._data = the node tree of the generated locale record (LocaleBase l_data); d[k] with a str k = node_getitem: the entry of a dict whose key is
     that str (KeyError when absent; int keys never equal a str), TypeError on a str / an int (subscripting those with a str);
   * key.split(".") = psplit 46 key (never empty: "".split(".") = [""]); parts[0] / parts[1:] = lp_head / lp_tail;
   * the instance attribute self._key_cache (a dict str -> Any) is an explicit association list gkcache threaded through get / translation
     (k in c = kc_has, c[k] = kc_get, c[k] = v = kc_set); nothing is assumed about its contents: transparency is a theorem
     (Proofs/HumanizeGlueFacts.v kc_ok); a cached value is None (the default) or a node;
   * f"translations.{key}" = the code points of "translations." followed by key. *)
Definition gkcache : Type := list (pstr * option node).
Fixpoint kc_get_opt (c : gkcache) (k : pstr) : option (option node) :=
  match c with [] => None | (k', v) :: r => if pstr_eqb k' k then Some v else kc_get_opt r k end.
Definition kc_has (c : gkcache) (k : pstr) : bool := match kc_get_opt c k with Some _ => true | None => false end.
Definition kc_get (c : gkcache) (k : pstr) : option node := match kc_get_opt c k with Some v => v | None => None end.   (* KeyError not modelled: guarded by `in` *)
Definition kc_set (c : gkcache) (k : pstr) (v : option node) : gkcache := (k, v) :: c.

Fixpoint psplit (sep : Z) (s : pstr) : lpstr :=
  match s with
  | [] => [[]]
  | c :: r => if c =? sep then [] :: psplit sep r
              else match psplit sep r with h :: t => (c :: h) :: t | [] => [[c]] end
  end.
Definition lp_head (l : lpstr) : pstr := match l with h :: _ => h | [] => [] end.     (* IndexError not modelled: split never returns [] *)
Definition lp_tail (l : lpstr) : lpstr := match l with _ :: t => t | [] => [] end.

Fixpoint assoc_p (k : pstr) (l : list (key * node)) : option node :=
  match l with
  | [] => None
  | (KS s, v) :: r => if pstr_eqb (pstr_of_string s) k then Some v else assoc_p k r
  | (KI _, _) :: r => assoc_p k r
  end.
Definition node_getitem (n : node) (k : pstr) : result node :=
  match n with
  | NDict l => match assoc_p k l with Some v => Ok v | None => Raise E_KeyError end
  | _ => Raise E_TypeError
  end.
Definition s_translations_dot : pstr := pstr_of_string "translations.".
