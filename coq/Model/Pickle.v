(* Model/Pickle.v — C14: pickle / copy.copy / copy.deepcopy of the pendulum value classes.

   TRUSTED protocol (CPython pickle / copy / copyreg, not modelled further):
     pickle.loads(pickle.dumps(v, p)) = callable( *args' )  where (callable, args[, state]) = v.__reduce_ex__(p), every element of args
                                        rebuilt the same way (args'), then `state` installed (inst.__dict__.update) when present;
     copy.copy(v)      = v.__copy__() if defined, else callable( *args ) for v.__reduce_ex__(4) (arguments shared, state installed);
     copy.deepcopy(v)  = v.__deepcopy__(memo) if defined, else callable( *deepcopy(args) ) for v.__reduce_ex__(4) (state deep-copied).
   Native reducers (CPython's C datetime / zoneinfo, trusted):
     date.__reduce__      = (cls, (state bytes of year, month, day))          and date.__new__(cls, state) restores exactly those fields
     timedelta.__reduce__ = (cls, (days, seconds, microseconds))              [the normalised native value, NOT Duration's attributes]
     tzinfo.__reduce__    = (cls, self.__getinitargs__() or (), self.__dict__)
     ZoneInfo.__reduce__  = (cls._unpickle, (key, from_cache=True)) = cls(key)  [the per-class cache returns the live instance]
     object.__reduce_ex__(p) calls an overridden __reduce__.
   What the pendulum classes define and the ARGUMENT LISTS they build are data generated from /repo on every run (Gen/Reduce.v,
   tools/vlib/gens/g60_pickle.py): method resolution over the MRO, the tuple of `_getstate`/`_get_state`, the keyword list of
   `__deepcopy__` (or, for the state-based __deepcopy__ of Interval, which elements of the state it deep-copies), `__getinitargs__`,
   constructor parameter names.  This file interprets that data; a shape it does not know is
   `Raise E_NotImplemented` (the theorems of Props/C14.v and the correspondence then fail: fail closed).
   Constructors: datetime/date/time(...) direct constructors = fields as given, range-checked, no normalisation;
   Duration.__new__ / AbsoluteDuration.__new__ = Model/Duration.v; Interval.__new__/__init__ = interval_new below;
   Timezone(key); FixedTimezone(offset, name).
   Standard-library ("foreign") tzinfo objects - datetime.timezone(timedelta(seconds=off)) (timezone.utc is off = 0) and zoneinfo.ZoneInfo(key) -
   are opaque values of the TRUSTED protocol: pickling / copying / deep-copying one of them gives an equal object (timezone.__getinitargs__ =
   (offset,), ZoneInfo.__reduce__ = the cached constructor).  pendulum sees them only through DateTime.timezone / DateTime.tz, which
   return None for every tzinfo that is not a pendulum Timezone / FixedTimezone (pendulum_tz below; the body of the property is pinned by
   DateTime_tz_shape).  They reach a DateTime through astimezone(<stdlib tzinfo>) and the direct constructor DateTime(..., tzinfo=<stdlib tzinfo>).
   No proofs here.  Tied to /repo by the C14 correspondence run (both backends; nothing here is Rust). *)
From Coq Require Import ZArith List Bool String Ascii.
From Coq Require Import Floats.SpecFloat.
From PV Require Import Lib.PyBase Spec.Cal Spec.Zone Spec.TdFloat Gen.Constants Model.Duration Gen.Reduce.
Import ListNotations.
Open Scope Z_scope.

(* ------------------------------------------------------------------ values *)
(* a standard-library tzinfo: datetime.timezone(timedelta(seconds=off)) without a name, zoneinfo.ZoneInfo(key) (key: index into the tz database) *)
Inductive stdtz := StdOffset (off : Z) | StdZone (key : Z).
(* a tzinfo: None, pendulum Timezone (identified by its key: an index into the tz database), FixedTimezone(offset, name as char codes),
   or a standard-library tzinfo that is not a pendulum class *)
Inductive tzv := TzNone | TzNamed (key : Z) | TzFixed (off : Z) (name : list Z) | TzForeign (s : stdtz).
(* DateTime.timezone / DateTime.tz:  `if not isinstance(self.tzinfo, (Timezone, FixedTimezone)): return None` else `self.tzinfo` *)
Definition pendulum_tz (t : tzv) : tzv := match t with TzForeign _ => TzNone | other => other end.
(* DateTime: wall microseconds since 0001-01-01 (Spec/Cal.v), fold, tzinfo *)
Record dtv := mkdt { dt_W : Z; dt_fold : bool; dt_tz : tzv }.
(* Time: microseconds since midnight, fold, tzinfo *)
Record tmv := mktm { tm_T : Z; tm_fold : bool; tm_tz : tzv }.
(* an Interval endpoint: DateTime or Date (proleptic ordinal) *)
Inductive ep := EpDt (d : dtv) | EpDate (n : Z).
(* Interval: the endpoints as the properties start/end return them, _absolute, _invert, and the native timedelta value (microseconds) *)
Record ivv := mkiv { iv_start : ep; iv_end : ep; iv_abs : bool; iv_invert : bool; iv_N : Z }.

(* a Python argument value *)
Inductive arg := AInt (z : Z) | ABool (b : bool) | ATz (t : tzv) | AEp (e : ep) | AStr (s : list Z).

Inductive route := RPickle (p : Z) | RCopy | RDeep.

(* ------------------------------------------------------------------ generic machinery *)
Fixpoint lookup {A} (k : string) (l : list (string * A)) : option A :=
  match l with
  | [] => None
  | (k', v) :: r => if String.eqb k k' then Some v else lookup k r
  end.
Fixpoint smem (k : string) (l : list string) : bool :=
  match l with [] => false | x :: r => String.eqb k x || smem k r end.

(* first class of the MRO that defines method m is cls *)
Definition resolved (tbl : list (string * string)) (m cls : string) : bool :=
  match lookup m tbl with Some c => String.eqb c cls | None => false end.

(* evaluate `self.a, self.b, ...` *)
Fixpoint map_attrs (get : string -> option arg) (names : list string) : result (list arg) :=
  match names with
  | [] => Ok []
  | n :: r => match get n with
              | None => Raise E_AttributeError
              | Some a => bind (map_attrs get r) (fun l => Ok (a :: l))
              end
  end.
Fixpoint map_kw (get : string -> option arg) (kws : list (string * string)) : result (list (string * arg)) :=
  match kws with
  | [] => Ok []
  | (k, n) :: r => match get n with
                   | None => Raise E_AttributeError
                   | Some a => bind (map_kw get r) (fun l => Ok ((k, a) :: l))
                   end
  end.

(* Python call binding: positional arguments to `params` in order, keywords to `params ++ kwonly`;
   too many positionals, an unknown keyword or a doubly bound parameter is a TypeError *)
Fixpoint bind_pos (params : list string) (pos : list arg) : result (list (string * arg)) :=
  match pos, params with
  | [], _ => Ok []
  | _ :: _, [] => Raise E_TypeError
  | a :: pr, p :: ps => bind (bind_pos ps pr) (fun l => Ok ((p, a) :: l))
  end.
Fixpoint bind_kw (allowed : list string) (bound : list (string * arg)) (kw : list (string * arg)) : result (list (string * arg)) :=
  match kw with
  | [] => Ok bound
  | (k, a) :: r =>
      if negb (smem k allowed) then Raise E_TypeError
      else match lookup k bound with
           | Some _ => Raise E_TypeError
           | None => bind_kw allowed (bound ++ [(k, a)]) r
           end
  end.
Definition bind_params (params kwonly : list string) (pos : list arg) (kw : list (string * arg)) : result (list (string * arg)) :=
  bind (bind_pos params pos) (fun b => bind_kw (params ++ kwonly) b kw).

(* an integer parameter: missing -> default (None = required: TypeError); a non-integer -> TypeError *)
Definition arg_int (b : list (string * arg)) (k : string) (default : option Z) : result Z :=
  match lookup k b with
  | Some (AInt z) => Ok z
  | Some (ABool x) => Ok (Z.b2z x)
  | Some _ => Raise E_TypeError
  | None => match default with Some z => Ok z | None => Raise E_TypeError end
  end.
Definition arg_tz (b : list (string * arg)) (k : string) : result tzv :=
  match lookup k b with
  | Some (ATz t) => Ok t
  | Some _ => Raise E_TypeError
  | None => Ok TzNone
  end.

Definition swap01 {A} (l : list A) : list A :=
  match l with a :: b :: r => b :: a :: r | _ => l end.

(* ------------------------------------------------------------------ Timezone / FixedTimezone *)
(* FixedTimezone.__init__ default name  f"{sign}{hour:02d}:{minute:02d}"  (int(offset / 60) truncates towards zero) *)
Fixpoint digits_aux (fuel : nat) (n : Z) (acc : list Z) : list Z :=
  match fuel with
  | O => acc
  | S k => if n <? 10 then (48 + n) :: acc else digits_aux k (n / 10) ((48 + n mod 10) :: acc)
  end.
Definition fmt02d (n : Z) : list Z := if n <? 10 then [48; 48 + n] else digits_aux 40 n [].
Definition default_name (off : Z) : list Z :=
  let q := Z.abs (Z.quot off 60) in
  (if off <? 0 then 45 else 43) :: fmt02d (q / 60) ++ [58] ++ fmt02d (q mod 60).

Definition fz_attr (off : Z) (name : list Z) (n : string) : option arg :=
  if String.eqb n "_offset" then Some (AInt off)
  else if String.eqb n "offset" then Some (AInt off)
  else if String.eqb n "_name" then Some (AStr name)
  else if String.eqb n "name" then Some (AStr name)
  else None.

(* FixedTimezone(offset, name=None) *)
Definition fixed_new (pos : list arg) (kw : list (string * arg)) : result tzv :=
  if negb FixedTimezone_init_shape then Raise E_NotImplemented else
  bind (bind_params FixedTimezone_params [] pos kw) (fun b =>
  bind (arg_int b "offset" None) (fun off =>
  if negb (td_in_range (off * US_PER_SEC)) then Raise E_OverflowError else
  match lookup "name" b with
  | Some (AStr (c :: s)) => Ok (TzFixed off (c :: s))
  | Some (AStr []) | None => Ok (TzFixed off (default_name off))
  | Some _ => Raise E_TypeError
  end)).

(* every route: tzinfo.__reduce__ = (cls, __getinitargs__(), __dict__) ; ints and strs are their own copies;
   the state {_name, _offset, _utcoffset} is installed over the constructed object *)
Definition fixed_rebuild (off : Z) (name : list Z) : result tzv :=
  let t := FixedTimezone_resolve in
  if resolved t "__reduce_ex__" "object" && resolved t "__reduce__" "tzinfo" && resolved t "__copy__" "" && resolved t "__deepcopy__" ""
     && resolved t "__getinitargs__" "FixedTimezone" && resolved t "__setstate__" "" && resolved t "__getstate__" "object"
     && resolved t "__init__" "FixedTimezone" && resolved t "__new__" "tzinfo"
  then bind (map_attrs (fz_attr off name) FixedTimezone_getinitargs) (fun args =>
       bind (fixed_new args []) (fun built =>
       match built with
       | TzFixed _ _ => Ok (TzFixed off name)        (* __dict__.update(state) *)
       | other => Ok other
       end))
  else Raise E_NotImplemented.

(* every route: ZoneInfo.__reduce__ -> Timezone(key), Timezone.__new__ hands the key to the cached ZoneInfo constructor *)
Definition named_rebuild (k : Z) : result tzv :=
  let t := Timezone_resolve in
  if resolved t "__reduce_ex__" "object" && resolved t "__reduce__" "ZoneInfo" && resolved t "__copy__" "" && resolved t "__deepcopy__" ""
     && resolved t "__new__" "Timezone" && resolved t "__init__" "object" && Timezone_new_forwards_key
     && match Timezone_params with [p] => String.eqb p "key" | _ => false end
  then Ok (TzNamed k)
  else Raise E_NotImplemented.

Definition tz_rebuild (r : route) (t : tzv) : result tzv :=
  match t with
  | TzNone => Ok TzNone
  | TzNamed k => named_rebuild k
  | TzFixed off name => fixed_rebuild off name
  | TzForeign s => Ok (TzForeign s)             (* trusted: timezone / ZoneInfo reduce to an equal object on every route *)
  end.

(* ------------------------------------------------------------------ Date *)
(* date(year, month, day): the direct constructor *)
Definition date_new (pos : list arg) (kw : list (string * arg)) : result Z :=
  bind (bind_params ["year"%string; "month"%string; "day"%string] [] pos kw) (fun b =>
  bind (arg_int b "year" None) (fun y => bind (arg_int b "month" None) (fun m => bind (arg_int b "day" None) (fun d =>
  if (1 <=? y) && (y <=? 9999) && valid_dateb y m d then Ok (ymd2ord y m d) else Raise E_ValueError)))).

Definition date_rebuild (r : route) (n : Z) : result Z :=
  let t := Date_resolve in
  if resolved t "__reduce_ex__" "object" && resolved t "__reduce__" "date" && resolved t "__copy__" "" && resolved t "__deepcopy__" ""
     && resolved t "__new__" "date" && resolved t "__init__" "object" && resolved t "__setstate__" ""
  then let '(y, m, d) := ord2ymd n in date_new [AInt y; AInt m; AInt d] []
  else Raise E_NotImplemented.

(* ------------------------------------------------------------------ DateTime *)
Definition dt_attr_f (y mo d h mi s us : Z) (fold : bool) (tz : tzv) (n : string) : option arg :=
  if String.eqb n "year" then Some (AInt y) else if String.eqb n "month" then Some (AInt mo)
  else if String.eqb n "day" then Some (AInt d) else if String.eqb n "hour" then Some (AInt h)
  else if String.eqb n "minute" then Some (AInt mi) else if String.eqb n "second" then Some (AInt s)
  else if String.eqb n "microsecond" then Some (AInt us) else if String.eqb n "fold" then Some (AInt (Z.b2z fold))
  else if String.eqb n "tzinfo" then Some (ATz tz)
  else if (String.eqb n "tz" || String.eqb n "timezone") && DateTime_tz_shape then Some (ATz (pendulum_tz tz))
  else None.

(* datetime(year, month, day, hour=0, minute=0, second=0, microsecond=0, tzinfo=None, *, fold=0) *)
Definition time_fields_ok (h mi s us f : Z) : bool :=
  (0 <=? h) && (h <? 24) && (0 <=? mi) && (mi <? 60) && (0 <=? s) && (s <? 60) && (0 <=? us) && (us <? 1000000) && (0 <=? f) && (f <=? 1).
Definition datetime_new (pos : list arg) (kw : list (string * arg)) : result dtv :=
  bind (bind_params ["year"%string; "month"%string; "day"%string; "hour"%string; "minute"%string; "second"%string; "microsecond"%string; "tzinfo"%string] ["fold"%string] pos kw) (fun b =>
  bind (arg_int b "year" None) (fun y => bind (arg_int b "month" None) (fun m => bind (arg_int b "day" None) (fun d =>
  bind (arg_int b "hour" (Some 0)) (fun h => bind (arg_int b "minute" (Some 0)) (fun mi => bind (arg_int b "second" (Some 0)) (fun s =>
  bind (arg_int b "microsecond" (Some 0)) (fun us => bind (arg_int b "fold" (Some 0)) (fun f => bind (arg_tz b "tzinfo") (fun tz =>
  if (1 <=? y) && (y <=? 9999) && valid_dateb y m d && time_fields_ok h mi s us f
  then Ok (mkdt (wall_of y m d h mi s us) (negb (f =? 0)) tz) else Raise E_ValueError)))))))))).

(* rebuilding one argument along a route (ints, bools and strs are their own copies) *)
Definition tz_arg (r : route) (a : arg) : result arg :=
  match a with
  | ATz t => match r with RCopy => Ok (ATz t) | _ => bind (tz_rebuild r t) (fun t' => Ok (ATz t')) end
  | other => Ok other
  end.
Fixpoint map_res {A B} (f : A -> result B) (l : list A) : result (list B) :=
  match l with [] => Ok [] | a :: r => bind (f a) (fun b => bind (map_res f r) (fun l' => Ok (b :: l'))) end.

Definition dt_state (v : dtv) : result (list arg) :=
  let '(y, mo, d, h, mi, s, us) := fields_of_wall (dt_W v) in
  map_attrs (dt_attr_f y mo d h mi s us (dt_fold v) (dt_tz v)) DateTime_state.
Definition dt_deepcopy_args (v : dtv) : result (list arg * list (string * arg)) :=
  let '(y, mo, d, h, mi, s, us) := fields_of_wall (dt_W v) in
  let get := dt_attr_f y mo d h mi s us (dt_fold v) (dt_tz v) in
  bind (map_attrs get DateTime_deepcopy_pos) (fun p => bind (map_kw get DateTime_deepcopy_kw) (fun k => Ok (p, k))).

Definition dt_rebuild (r : route) (v : dtv) : result dtv :=
  let t := DateTime_resolve in
  if negb (resolved t "__copy__" "" && resolved t "__new__" "datetime" && resolved t "__init__" "object" && resolved t "__setstate__" "")
  then Raise E_NotImplemented else
  match r with
  | RDeep =>
      if resolved t "__deepcopy__" "DateTime"
      then bind (dt_deepcopy_args v) (fun '(p, k) => datetime_new p k)          (* self.__class__(...): arguments shared *)
      else if resolved t "__deepcopy__" "" && resolved t "__reduce_ex__" "DateTime"
      then bind (dt_state v) (fun args => bind (map_res (tz_arg r) args) (fun args' => datetime_new args' []))
      else Raise E_NotImplemented
  | _ =>
      if resolved t "__reduce_ex__" "DateTime"
      then bind (dt_state v) (fun args => bind (map_res (tz_arg r) args) (fun args' => datetime_new args' []))
      else Raise E_NotImplemented
  end.

(* ------------------------------------------------------------------ Time *)
Definition tm_attr_f (h mi s us : Z) (fold : bool) (tz : tzv) (n : string) : option arg :=
  if String.eqb n "hour" then Some (AInt h) else if String.eqb n "minute" then Some (AInt mi)
  else if String.eqb n "second" then Some (AInt s) else if String.eqb n "microsecond" then Some (AInt us)
  else if String.eqb n "fold" then Some (AInt (Z.b2z fold)) else if String.eqb n "tzinfo" then Some (ATz tz)
  else None.
Definition tod_fields (T : Z) : Z * Z * Z * Z := let s := T / 1000000 in (s / 3600, (s / 60) mod 60, s mod 60, T mod 1000000).
Definition tod_of (h mi s us : Z) : Z := ((h * 60 + mi) * 60 + s) * 1000000 + us.
(* time(hour=0, minute=0, second=0, microsecond=0, tzinfo=None, *, fold=0) *)
Definition time_new (pos : list arg) (kw : list (string * arg)) : result tmv :=
  bind (bind_params ["hour"%string; "minute"%string; "second"%string; "microsecond"%string; "tzinfo"%string] ["fold"%string] pos kw) (fun b =>
  bind (arg_int b "hour" (Some 0)) (fun h => bind (arg_int b "minute" (Some 0)) (fun mi => bind (arg_int b "second" (Some 0)) (fun s =>
  bind (arg_int b "microsecond" (Some 0)) (fun us => bind (arg_int b "fold" (Some 0)) (fun f => bind (arg_tz b "tzinfo") (fun tz =>
  if time_fields_ok h mi s us f then Ok (mktm (tod_of h mi s us) (negb (f =? 0)) tz) else Raise E_ValueError))))))).
Definition tm_state (v : tmv) : result (list arg) :=
  let '(h, mi, s, us) := tod_fields (tm_T v) in map_attrs (tm_attr_f h mi s us (tm_fold v) (tm_tz v)) Time_state.
Definition tm_rebuild (r : route) (v : tmv) : result tmv :=
  let t := Time_resolve in
  if resolved t "__copy__" "" && resolved t "__deepcopy__" "" && resolved t "__new__" "time" && resolved t "__init__" "object"
     && resolved t "__setstate__" "" && resolved t "__reduce_ex__" "Time"
  then bind (tm_state v) (fun args => bind (map_res (tz_arg r) args) (fun args' => time_new args' []))
  else Raise E_NotImplemented.

(* ------------------------------------------------------------------ Duration / AbsoluteDuration *)
Definition dur_attr (d : dur) (n : string) : option arg :=
  if String.eqb n "years" then Some (AInt (d_years d)) else if String.eqb n "months" then Some (AInt (d_months d))
  else if String.eqb n "weeks" then Some (AInt (d_weeks d)) else if String.eqb n "remaining_days" then Some (AInt (d_rdays d))
  else if String.eqb n "hours" then Some (AInt (dur_hours d)) else if String.eqb n "minutes" then Some (AInt (dur_minutes d))
  else if String.eqb n "remaining_seconds" then Some (AInt (dur_remaining_seconds d))
  else if String.eqb n "seconds" then Some (AInt (d_seconds d))
  else if String.eqb n "microseconds" then Some (AInt (d_micro d))
  else if String.eqb n "days" then Some (AInt (fst (fst (td_norm (d_N d)))))          (* timedelta.days (CPython; not PyPy) *)
  else None.

(* cls(days=0, seconds=0, microseconds=0, milliseconds=0, minutes=0, hours=0, weeks=0, years=0, months=0), integer arguments *)
Definition duration_ctor (absolute : bool) (pos : list arg) (kw : list (string * arg)) : result dur :=
  let params := if absolute then AbsoluteDuration_params else Duration_params in
  if negb (Z.of_nat (List.length params) =? (if absolute then AbsoluteDuration_params_defaults else Duration_params_defaults))
  then Raise E_NotImplemented else
  bind (bind_params params [] pos kw) (fun b =>
  bind (arg_int b "days" (Some 0)) (fun days => bind (arg_int b "seconds" (Some 0)) (fun seconds =>
  bind (arg_int b "microseconds" (Some 0)) (fun us => bind (arg_int b "milliseconds" (Some 0)) (fun ms =>
  bind (arg_int b "minutes" (Some 0)) (fun mi => bind (arg_int b "hours" (Some 0)) (fun h =>
  bind (arg_int b "weeks" (Some 0)) (fun w => bind (arg_int b "years" (Some 0)) (fun y => bind (arg_int b "months" (Some 0)) (fun mo =>
  if absolute then absolute_duration_new days seconds us ms mi h w y mo else duration_new days seconds us ms mi h w y mo)))))))))).

(* timedelta.__reduce__ arguments *)
Definition td_reduce_args (d : dur) : list arg := let '(nd, ns, nu) := td_norm (d_N d) in [AInt nd; AInt ns; AInt nu].

Definition dur_rebuild (r : route) (d : dur) : result dur :=
  let t := if d_abs d then AbsoluteDuration_resolve else Duration_resolve in
  let own := (if d_abs d then "AbsoluteDuration" else "Duration")%string in
  if negb (resolved t "__copy__" "" && resolved t "__new__" own && resolved t "__init__" "object" && resolved t "__setstate__" ""
           && resolved t "__reduce_ex__" "object" && resolved t "__reduce__" "timedelta")
  then Raise E_NotImplemented else
  match r with
  | RDeep =>
      if resolved t "__deepcopy__" "Duration"
      then bind (map_attrs (dur_attr d) (if d_abs d then AbsoluteDuration_deepcopy_pos else Duration_deepcopy_pos)) (fun p =>
           bind (map_kw (dur_attr d) (if d_abs d then AbsoluteDuration_deepcopy_kw else Duration_deepcopy_kw)) (fun k =>
           duration_ctor (d_abs d) p k))
      else if resolved t "__deepcopy__" "" then duration_ctor (d_abs d) (td_reduce_args d) []
      else Raise E_NotImplemented
  | _ => duration_ctor (d_abs d) (td_reduce_args d) []
  end.

(* ------------------------------------------------------------------ Interval *)
Section WithZones.
(* the tz database: key -> transition table *)
Variable zdb : Z -> zone.

Definition tz_off (t : tzv) (W : Z) (f : bool) : option Z :=
  match t with
  | TzNone => None
  | TzNamed k => Some (off_local (zdb k) (W / MEG) f)
  | TzFixed o _ => Some o
  | TzForeign (StdOffset o) => Some o
  | TzForeign (StdZone k) => Some (off_local (zdb k) (W / MEG) f)
  end.
Definition dt_off (v : dtv) : option Z := tz_off (dt_tz v) (dt_W v) (dt_fold v).
(* the UTC instant (the wall value itself for a naive DateTime) *)
Definition dt_inst (v : dtv) : Z := match dt_off v with Some o => dt_W v - MEG * o | None => dt_W v end.
Definition dt_aware (v : dtv) : bool := match dt_tz v with TzNone => false | _ => true end.

(* start > end as CPython evaluates it *)
Definition ep_gt (a b : ep) : result bool :=
  match a, b with
  | EpDate x, EpDate y => Ok (x >? y)
  | EpDt x, EpDt y =>
      match dt_tz x, dt_tz y with
      | TzNone, TzNone => Ok (dt_W x >? dt_W y)
      | TzNone, _ | _, TzNone => Raise E_TypeError
      | TzNamed k1, TzNamed k2 => if k1 =? k2 then Ok (dt_W x >? dt_W y) else Ok (dt_inst x >? dt_inst y)
      | TzForeign (StdZone k1), TzForeign (StdZone k2) =>          (* ZoneInfo(key) is cached: the same object, fields compared *)
          if k1 =? k2 then Ok (dt_W x >? dt_W y) else Ok (dt_inst x >? dt_inst y)
      | _, _ => Ok (dt_inst x >? dt_inst y)
      end
  | _, _ => Raise E_ValueError
  end.
(* _end - _start in microseconds *)
Definition ep_elapsed (a b : ep) : Z :=
  match a, b with
  | EpDate x, EpDate y => (y - x) * us_per_day
  | EpDt x, EpDt y => dt_inst y - dt_inst x
  | _, _ => 0
  end.

(* Interval(start, end, absolute) for pendulum DateTime / Date endpoints: __new__ then __init__ *)
Definition interval_new (s e : ep) (absolute : bool) : result ivv :=
  if negb Interval_ctor_shape then Raise E_NotImplemented else
  bind (ep_gt s e) (fun gt =>
  let '(s', e') := if absolute && gt then (e, s) else (s, e) in
  bind (td_of_float_seconds (total_seconds (ep_elapsed s' e'))) (fun N =>
  Ok (mkiv s' e' absolute gt N))).

Definition interval_ctor (pos : list arg) (kw : list (string * arg)) : result ivv :=
  bind (bind_params Interval_params [] pos kw) (fun b =>
  match lookup "start" b, lookup "end" b with
  | Some (AEp s), Some (AEp e) =>
      match lookup "absolute" b with
      | Some (ABool a) => interval_new s e a
      | None => interval_new s e false
      | Some _ => Raise E_TypeError
      end
  | _, _ => Raise E_TypeError
  end).

Definition iv_attr (v : ivv) (n : string) : option arg :=
  if String.eqb n "start" then Some (AEp (iv_start v)) else if String.eqb n "end" then Some (AEp (iv_end v))
  else if String.eqb n "_start" then Some (AEp (iv_start v)) else if String.eqb n "_end" then Some (AEp (iv_end v))
  else if String.eqb n "_absolute" then Some (ABool (iv_abs v)) else if String.eqb n "_invert" then Some (ABool (iv_invert v))
  else None.

Fixpoint all_true (get : string -> option arg) (names : list string) : result bool :=
  match names with
  | [] => Ok true
  | n :: r => match get n with
              | Some (ABool x) => if x then all_true get r else Ok false
              | Some _ => Raise E_TypeError
              | None => Raise E_AttributeError
              end
  end.

(* Interval._getstate *)
Definition iv_state (v : ivv) : result (list arg) :=
  bind (map_attrs (iv_attr v) Interval_state) (fun args =>
  match Interval_state_swap with
  | None => Ok args
  | Some (conds, i, j) =>
      if ((i =? 1) && (j =? 0)) || ((i =? 0) && (j =? 1))
      then bind (all_true (iv_attr v) conds) (fun c => Ok (if c then swap01 args else args))
      else Raise E_NotImplemented
  end).

Definition ep_rebuild (r : route) (e : ep) : result ep :=
  match e with
  | EpDt d => bind (dt_rebuild r d) (fun d' => Ok (EpDt d'))
  | EpDate n => bind (date_rebuild r n) (fun n' => Ok (EpDate n'))
  end.
Definition ep_arg (r : route) (a : arg) : result arg :=
  match a with
  | AEp e => bind (ep_rebuild r e) (fun e' => Ok (AEp e'))
  | ATz t => tz_arg r (ATz t)
  | other => Ok other
  end.

(* the elements of a state tuple whose flag is set go through f (copy.deepcopy(x, memo)), the others are passed on unchanged;
   the generator guarantees one flag per element *)
Fixpoint map_flagged (f : arg -> result arg) (flags : list bool) (l : list arg) : result (list arg) :=
  match flags, l with
  | [], [] => Ok []
  | b :: fr, a :: r => bind (if b : bool then f a else Ok a) (fun a' => bind (map_flagged f fr r) (fun l' => Ok (a' :: l')))
  | _, _ => Raise E_NotImplemented
  end.

Definition iv_rebuild (r : route) (v : ivv) : result ivv :=
  let t := Interval_resolve in
  if negb (resolved t "__copy__" "" && resolved t "__new__" "Interval" && resolved t "__init__" "Interval" && resolved t "__setstate__" ""
           && resolved t "__reduce_ex__" "Interval")
  then Raise E_NotImplemented else
  match r with
  | RCopy => bind (iv_state v) (fun args => interval_ctor args [])
  | RPickle _ => bind (iv_state v) (fun args => bind (map_res (ep_arg r) args) (fun args' => interval_ctor args' []))
  | RDeep =>
      if resolved t "__deepcopy__" "Interval"
      then (* Interval.__deepcopy__ (since `fix: copy.deepcopy of an Interval`):  start, end, absolute = self._getstate();
              self.__class__(copy.deepcopy(start, memo), copy.deepcopy(end, memo), absolute) - the flagged elements of the state are
              deep-copied (DateTime.__deepcopy__ / the reduce route of a Date), the others handed over as they are *)
           match Interval_deepcopy_state with
           | Some flags => bind (iv_state v) (fun args => bind (map_flagged (ep_arg r) flags args) (fun args' => interval_ctor args' []))
           | None => Raise E_NotImplemented
           end
      else if resolved t "__deepcopy__" "Duration"
      then (* the code before that repair: Duration.__deepcopy__ runs on the Interval: self.__class__(days=..., ...) is Interval(days=..., ...).
              The keyword values are Interval's component properties (not modelled: they cannot raise); the call itself is
              rejected by argument binding when a keyword is not a parameter of Interval.__new__ *)
           if existsb (fun kw => negb (smem (fst kw) Interval_params)) Interval_deepcopy_kw || negb (List.length Interval_deepcopy_pos <=? List.length Interval_params)%nat
           then Raise E_TypeError else Raise E_NotImplemented
      else if resolved t "__deepcopy__" ""
      then bind (iv_state v) (fun args => bind (map_res (ep_arg r) args) (fun args' => interval_ctor args' []))
      else Raise E_NotImplemented
  end.

(* ------------------------------------------------------------------ what is observed of a value (public accessors) *)
Definition tz_obs (t : tzv) : list Z :=
  match t with
  | TzNone => [0]
  | TzNamed k => [1; k]
  | TzFixed o name => 2 :: o :: Z.of_nat (List.length name) :: name
  | TzForeign (StdOffset o) => [3; o]
  | TzForeign (StdZone k) => [4; k]
  end.
Definition opt_obs (o : option Z) : list Z := match o with Some x => [1; x] | None => [0; 0] end.
(* fields, fold, utcoffset, UTC instant, zone (name / offset) *)
Definition dt_obs (v : dtv) : list Z :=
  let '(y, mo, d, h, mi, s, us) := fields_of_wall (dt_W v) in
  [y; mo; d; h; mi; s; us; Z.b2z (dt_fold v)] ++ opt_obs (dt_off v) ++ [dt_inst v] ++ tz_obs (dt_tz v).
(* what the statement of C14 names: fields, UTC instant and offset, zone - without the fold attribute itself *)
Definition dt_obs_nofold (v : dtv) : list Z :=
  let '(y, mo, d, h, mi, s, us) := fields_of_wall (dt_W v) in
  [y; mo; d; h; mi; s; us] ++ opt_obs (dt_off v) ++ [dt_inst v] ++ tz_obs (dt_tz v).
Definition date_obs (n : Z) : list Z := let '(y, m, d) := ord2ymd n in [y; m; d].
Definition tm_obs (v : tmv) : list Z :=
  let '(h, mi, s, us) := tod_fields (tm_T v) in [h; mi; s; us; Z.b2z (tm_fold v)] ++ tz_obs (tm_tz v).
Definition ep_obs (e : ep) : list Z := match e with EpDt d => 1 :: dt_obs d | EpDate n => 0 :: date_obs n end.
Definition iv_obs (v : ivv) : list Z :=
  let '(nd, ns, nu) := td_norm (iv_N v) in
  [Z.b2z (iv_abs v); Z.b2z (iv_invert v); nd; ns; nu] ++ ep_obs (iv_start v) ++ ep_obs (iv_end v).
End WithZones.

(* public accessors of a Duration: years months weeks remaining_days hours minutes remaining_seconds microseconds,
   seconds, invert, total_seconds() and the native (days, seconds, microseconds); NOT the private _signature *)
Definition dur_public (d : dur) : list Z :=
  let '(nd, ns, nu) := td_norm (d_N d) in
  [Z.b2z (d_abs d); d_years d; d_months d; d_weeks d; d_rdays d; dur_hours d; dur_minutes d; dur_remaining_seconds d; d_micro d;
   d_seconds d; Z.b2z (dur_invert d); nd; ns; nu] ++ sf_code (dur_total_seconds d).

(* the generated tables as character codes, for the correspondence with the live classes (type.__mro__, first definer) *)
Definition codes (s : string) : list Z := map (fun a => Z.of_N (N_of_ascii a)) (list_ascii_of_string s).
Definition table_codes (mro : list string) (tbl : list (string * string)) : list Z :=
  flat_map (fun c => codes c ++ [44]) mro ++ [124] ++ flat_map (fun p => codes (fst p) ++ [61] ++ codes (snd p) ++ [59]) tbl.
