(* Model/DispatchC11.v — entry points of the C11 correspondence (Model/DropIn.v).
   An operand is  aware :: fixed :: zone (init :: n :: t1 :: o1 :: ...) ++ [W; fold] ; binary operands are preceded by is_pendulum :: id :: pid. *)
From Coq Require Import ZArith List Bool String.
From PV Require Import Lib.PyBase Spec.Cal Spec.Zone Spec.NativeDT Spec.TdFloat Model.TzConvert Model.TzDispatch Gen.Classes Model.DropIn Model.DropInCfg.
Import ListNotations.
Open Scope Z_scope.

(* aware :: fixed :: zone ++ W :: f :: rest, the tzinfo object gets identity `id` *)
Definition parse_val (id : Z) (l : list Z) : option (dtv * list Z) :=
  match l with
  | aw :: fx :: r =>
    match parse_zone r with
    | Some (z, W :: f :: rest) => Some (mkdtv W (zb f) (if zb aw then Some (mktzi id (zb fx) z) else None), rest)
    | _ => None
    end
  | _ => None
  end.

Definition parse_operand (l : list Z) : option (operand * list Z) :=
  match l with
  | isp :: id :: pid :: r =>
    match parse_val id r with
    | Some (v, rest) => Some (mkop v (zb isp) pid, rest)
    | None => None
    end
  | _ => None
  end.

Definition rb (r : result bool) : Z := match r with Ok b => Z.b2z b | Raise _ => 2 end.
Definition rz (r : result Z) : list Z := match r with Ok n => [0; n] | Raise e => [1; exn_code e] end.
Definition off_or_none (x : dtv) : Z := match native_utcoffset x with Some o => o | None => NONE end.
Definition out_val (isdt : Z) (r : result dtv) (extra : list Z) : list Z :=
  match r with
  | Ok v => [0; isdt; v_wall v; Z.b2z (v_fold v); off_or_none v] ++ extra
  | Raise e => [1; exn_code e]
  end.
Definition acc_out (a : acc) (x : dtv) : list Z :=
  match dispatch_model a x with
  | Some (Ok l) => l
  | Some (Raise e) => [-1; exn_code e]
  | None => [-2]
  end.

Definition owner_code (s : string) : Z :=
  if String.eqb s "" then 0 else if String.eqb s "DateTime" then 1 else if String.eqb s "Date" then 2 else if String.eqb s "Time" then 3
  else if String.eqb s "FormattableMixin" then 4 else if String.eqb s "datetime" then 5 else if String.eqb s "date" then 6
  else if String.eqb s "time" then 7 else if String.eqb s "object" then 8 else 99.

Definition date_ops (n1 n2 : Z) : list Z :=
  [Z.b2z (n1 =? n2); Z.b2z (negb (n1 =? n2)); Z.b2z (n1 <? n2); Z.b2z (n1 <=? n2); Z.b2z (n1 >? n2); Z.b2z (n1 >=? n2)].

(* a history of configuration steps: 0 = set_local_timezone() | 1 :: zone = set_local_timezone(z) | 2 :: zone = entering test_local_timezone(z) |
   3 = leaving it | 4 = a rejected configuration call *)
Fixpoint parse_steps (n : nat) (l : list Z) : option (list step * list Z) :=
  match n with
  | O => Some ([], l)
  | S n' =>
    match l with
    | 0 :: r => option_map (fun p => (SetLocalTz None :: fst p, snd p)) (parse_steps n' r)
    | 3 :: r => option_map (fun p => (TestExit :: fst p, snd p)) (parse_steps n' r)
    | 4 :: r => option_map (fun p => (Rejected :: fst p, snd p)) (parse_steps n' r)
    | k :: r =>
      match parse_zone r with
      | Some (z, r') =>
        if k =? 1 then option_map (fun p => (SetLocalTz (Some z) :: fst p, snd p)) (parse_steps n' r')
        else if k =? 2 then option_map (fun p => (TestEnter z :: fst p, snd p)) (parse_steps n' r')
        else None
      | None => None
      end
    | [] => None
    end
  end.

Definition dispatch (fn : Z) (args : list Z) : list Z :=
  match fn, args with
  | 1 (* dt_unary *), _ =>
    match parse_val 1 args with
    | Some (x, []) =>
      (* every accessor goes through the dispatch model (generated table -> native slot or override model) *)
      let utt := match dispatch_model A_utctimetuple x with
                 | Some (Ok l) => 0 :: l
                 | _ => [1; 0; 0; 0; 0; 0; 0; 0; 0]
                 end in
      0 :: acc_out A_toordinal x ++ acc_out A_weekday x ++ acc_out A_isoweekday x ++ acc_out A_isocalendar x
        ++ acc_out A_utcoffset x ++ [instant x] ++ acc_out A_hash x
        ++ (match acc_out A_timetuple x with [y; m; d; hh; mi; ss; wd; yd] => [y; m; d; hh; mi; ss; yd] | l => l end)
        ++ utt
        ++ (match acc_out A_date x with t :: r => if t =? 1 then r else [-3] | l => l end)
        ++ (match acc_out A_time x with [t; h; mi; s; us; f] => if t =? 1 then [h; mi; s; us; f] else [-3] | l => l end)
    | _ => [9]
    end
  | 2 (* dt_timetz *), _ =>
    match parse_val 1 args with
    | Some (x, []) =>
      (* through the dispatch model: the override's model (pd_timetz) when the generated table names an override, the native slot otherwise;
         last component: the result carries the receiver's tzinfo object (None for a naive value) *)
      match acc_out A_timetz x with
      | [t; h; mi; s; us; f; tzc] => [0; t; h; mi; s; us; f; Z.b2z (tzc =? tz_code (v_tz x))]
      | l => l
      end
    | _ => [9]
    end
  | 3 (* dt_binary *), _ =>
    match parse_operand args with
    | Some (x, rest) =>
      match parse_operand rest with
      | Some (y, []) =>
        let a := o_val x in let b := o_val y in
        (* comparisons and hash are inherited C slots (table checked below): native semantics on the operands' fields *)
        match std_lookup "DateTime" "__eq__", std_lookup "DateTime" "__lt__", std_lookup "DateTime" "__hash__", std_lookup "DateTime" "__sub__" with
        | Some (1, _), Some (1, _), Some (1, _), Some (0, _) =>
          [0; Z.b2z (native_eq a b); Z.b2z (negb (native_eq a b)); rb (native_lt a b); rb (native_le a b); rb (native_gt a b); rb (native_ge a b);
           Z.b2z (hash_eq a b)]
          ++ (match pd_sub x y with Ok (_, N) => [0; N] | Raise e => [1; exn_code e] end)
          ++ [Z.b2z (same_tzobj a b)]
        | _, _, _, _ => [-2]
        end
      | _ => [9]
      end
    | None => [9]
    end
  | 4 (* dt_astz *), _ =>
    match parse_val 1 args with
    | Some (x, fx2 :: r) =>
      match parse_zone r with
      | Some (z2, [same; kind]) =>
        let tz := mktzi (if zb same then 1 else 2) (zb fx2) z2 in
        match pd_astimezone x tz (kind =? 0) with
        | Ok (t, v, keeps) => [0; tag_code t; v_wall v; Z.b2z (v_fold v); off_or_none v; Z.b2z keeps]
        | Raise e => [1; exn_code e]
        end
      | _ => [9]
      end
    | _ => [9]
    end
  | 5 (* dt_replace *), _ =>
    match parse_val 1 args with
    | Some (x, []) => out_val 1 (pd_replace x (v_wall x) (v_fold x)) [1]
    | _ => [9]
    end
  | 6 (* ctor_fromtimestamp *), fx :: r =>
    match parse_zone r with
    | Some (z, [t_us]) => out_val 1 (pd_fromtimestamp_us (mktzi 1 (zb fx) z) t_us) []
    | _ => [9]
    end
  | 7 (* ctor_fromordinal *), [n] => out_val 1 (pd_fromordinal n) []
  | 8 (* ctor_instance *), _ =>
    match parse_val 1 args with
    | Some (x, []) => out_val 1 (pd_instance x 1) []
    | _ => [9]
    end
  | 9 (* date_unary *), [y; m; d] =>
    let n := ymd2ord y m d in
    let '(iy, iw, id) := isocalendar y m d in
    [0; n; weekday0 n; iso_weekday n; iy; iw; id; days_before_month y m + d]
  | 10 (* date_binary *), [y1; m1; d1; y2; m2; d2; mode] =>
    let n1 := ymd2ord y1 m1 d1 in let n2 := ymd2ord y2 m2 d2 in
    0 :: date_ops n1 n2 ++ [Z.b2z (n1 =? n2)]
      ++ (if mode =? 2 then [0; (n1 - n2) * us_per_day]        (* native date - Date: date.__sub__ *)
          else match pd_date_sub n1 n2 with Ok (_, N) => [0; N] | Raise e => [1; exn_code e] end)
  | 11 (* time_binary *), [h1; m1; s1; us1; h2; m2; s2; us2] =>
    let k1 := ((h1 * 60 + m1) * 60 + s1) * 1000000 + us1 in
    let k2 := ((h2 * 60 + m2) * 60 + s2) * 1000000 + us2 in
    0 :: date_ops k1 k2 ++ [0; snd (pd_time_sub h1 m1 s1 us1 h2 m2 s2 us2)]
  | 13 (* dt_str *), _ =>
    match parse_val 1 args with
    | Some (x, []) =>
      match std_lookup "DateTime" "__str__", std_lookup "DateTime" "isoformat", std_lookup "DateTime" "__format__" with
      | Some (0, _), Some (1, _), Some (0, _) => 0 :: pd_str x ++ [-1] ++ native_isoformat 84 x ++ [-1] ++ pd_for_json x ++ [-1] ++ pd_format_empty x
      | _, _, _ => [-2]
      end
    | _ => [9]
    end
  | 14 (* dt_astz_cfg *), _ =>
    (* args = system zone ++ nsteps :: steps ++ [W; f] ++ fixed2 :: zone2 ++ [kind] ; the receiver is NAIVE.
       answer: the astimezone result and utcoffset of pendulum.local_timezone() (after the history) at the UTC second W / 10^6 *)
    match parse_zone args with
    | Some (sys, n :: r) =>
      match parse_steps (Z.to_nat n) r with
      | Some (h, W :: f :: fx2 :: r2) =>
        match parse_zone r2 with
        | Some (z2, [kind]) =>
          let c := run_cfg cfg0 h in
          let x := mkdtv W (zb f) None in
          match std_lookup "DateTime" "astimezone" with
          | Some (0, _) =>
            match pd_astimezone_naive sys c x (mktzi 2 (zb fx2) z2) (kind =? 0) with
            | Ok (t, v, keeps) => [0; tag_code t; v_wall v; Z.b2z (v_fold v); off_or_none v; Z.b2z keeps; off_utc (pd_local_timezone sys c) (sec W)]
            | Raise e => [1; exn_code e; off_utc (pd_local_timezone sys c) (sec W)]
            end
          | _ => [-2]
          end
        | _ => [9]
        end
      | _ => [9]
      end
    | _ => [9]
    end
  | 15 (* fmt_route *), _ =>
    match std_lookup "DateTime" "__format__", std_lookup "Date" "__format__", std_lookup "Time" "__format__" with
    | Some (0, _), Some (0, _), Some (0, _) => [0; fmt_route args; native_fmt_route args]
    | _, _, _ => [-2]
    end
  | 12 (* std_entry *), [i] =>
    match nth_error std_table (Z.to_nat i) with
    | Some (_, _, k, o) => [0; k; owner_code o]
    | None => [9]
    end
  | _, _ => [9]
  end.
