(* Model/Duration.v — hand model of src/pendulum/duration.py: Duration.__new__, AbsoluteDuration.__new__, the component
   properties (lazy hours / minutes / remaining_seconds), _signature, total_*() and in_*().
   Floats are SpecFloat values operated on exactly as CPython does (Spec/TdFloat.v).  No proofs here.
   Tied to /repo by the C09 correspondence run (both backends; the class is pure Python in both).
   SECONDS_PER_* come from the generated Gen/Constants.v. *)
From Coq Require Import ZArith List Bool.
From Coq Require Import Floats.SpecFloat.
From PV Require Import Lib.PyBase Spec.TdFloat Gen.Constants.
Import ListNotations.
Open Scope Z_scope.

Record dur := mkdur {
  d_N : Z;            (* the native timedelta value, microseconds *)
  d_abs : bool;       (* AbsoluteDuration? *)
  d_total : sf;       (* _total *)
  d_years : Z; d_months : Z; d_weeks : Z; d_days : Z; d_rdays : Z; d_seconds : Z; d_micro : Z;
  d_sig : list Z      (* _signature: years months weeks days hours minutes seconds microseconds ([] for AbsoluteDuration) *)
}.

Definition DAYS_PER_Y : Z := 365.
Definition DAYS_PER_M : Z := 30.
Definition f_zero : sf := S754_zero false.

(* "Intuitive normalization" of the float `total`:   m = -1 if total < 0 else 1 ;
     _microseconds = round(total % m * 1e6) ;  int(total)            ->  (m, _microseconds, int(total)) *)
Definition split_total (total : sf) : result (Z * Z * Z) :=
  let m := if flt total f_zero then -1 else 1 in
  bind (py_float_mod total (sf_of_Z m)) (fun fr =>
  bind (py_round_half_even (fmul fr f_1e6)) (fun micro =>
  bind (py_int_trunc total) (fun it => Ok (m, micro, it)))).

(* the float part of Duration.__new__ for a native value of N microseconds and Y = (years*365 + months*30) * SECONDS_PER_DAY:
     total = self.total_seconds() - Y   [float - int: Y is converted to a float, OverflowError if it does not fit] *)
Definition float_pipeline (N Y : Z) : result (sf * (Z * Z * Z)) :=
  bind (py_float_of_int Y) (fun fy =>
  let total := fsub (total_seconds N) fy in
  bind (split_total total) (fun r => Ok (total, r))).

(* Duration.__new__(days, seconds, microseconds, milliseconds, minutes, hours, weeks, years, months), integer arguments *)
Definition duration_new (days seconds us ms minutes hours weeks years months : Z) : result dur :=
  let ym := years * DAYS_PER_Y + months * DAYS_PER_M in
  bind (td_of_int_args (days + ym) seconds us ms minutes hours weeks) (fun N =>
  bind (float_pipeline N (ym * C_SECONDS_PER_DAY)) (fun '(total, (m, micro, it)) =>
  let secs := Z.abs it mod C_SECONDS_PER_DAY * m in
  let ds := Z.abs it / C_SECONDS_PER_DAY * m in
  Ok (mkdur N false total years months (Z.abs ds / 7 * m) ds (Z.abs ds mod 7 * m) secs micro
            [years; months; weeks; days; hours; minutes; seconds; us + ms * 1000]))).

(* AbsoluteDuration.__new__ : the native value excludes years / months;  total = abs(delta.total_seconds());
   `total % 1` is `total % m` with m = 1 because total >= 0 *)
Definition absolute_duration_new (days seconds us ms minutes hours weeks years months : Z) : result dur :=
  bind (td_of_int_args days seconds us ms minutes hours weeks) (fun N =>
  let t := total_seconds N in
  let total := fabs t in
  bind (py_float_mod total (sf_of_Z 1)) (fun fr =>
  bind (py_round_half_even (fmul fr f_1e6)) (fun micro =>
  bind (py_int_trunc total) (fun it =>
  let ds := it / C_SECONDS_PER_DAY in
  let secs := it mod C_SECONDS_PER_DAY in
  Ok (mkdur N true t (Z.abs years) (Z.abs months) (ds / 7) (Z.abs (ds + years * DAYS_PER_Y + months * DAYS_PER_M)) (ds mod 7) secs micro []))))).

(* _sign *)
Definition d_sign (v : Z) : Z := if v <? 0 then -1 else 1.

Definition dur_hours (d : dur) : Z :=
  let s := d_seconds d in
  if 3600 <=? Z.abs s then (Z.abs s / 3600 mod 24) * d_sign s else 0.
Definition dur_minutes (d : dur) : Z :=
  let s := d_seconds d in
  if 60 <=? Z.abs s then (Z.abs s / 60 mod 60) * d_sign s else 0.
Definition dur_remaining_seconds (d : dur) : Z :=
  let s := d_seconds d in Z.abs s mod 60 * d_sign s.

(* total_seconds(): timedelta's for Duration, abs(_total) for AbsoluteDuration *)
Definition dur_total_seconds (d : dur) : sf := if d_abs d then fabs (d_total d) else total_seconds (d_N d).
Definition dur_total_minutes (d : dur) : sf := fdiv (dur_total_seconds d) (sf_of_Z C_SECONDS_PER_MINUTE).
Definition dur_total_hours (d : dur) : sf := fdiv (dur_total_seconds d) (sf_of_Z C_SECONDS_PER_HOUR).
Definition dur_total_days (d : dur) : sf := fdiv (dur_total_seconds d) (sf_of_Z C_SECONDS_PER_DAY).
Definition dur_total_weeks (d : dur) : sf := fdiv (dur_total_days d) (sf_of_Z 7).
Definition dur_invert (d : dur) : bool :=
  if d_abs d then flt (d_total d) f_zero else flt (dur_total_seconds d) f_zero.

Definition dur_in_weeks (d : dur) := py_int_trunc (dur_total_weeks d).
Definition dur_in_days (d : dur) := py_int_trunc (dur_total_days d).
Definition dur_in_hours (d : dur) := py_int_trunc (dur_total_hours d).
Definition dur_in_minutes (d : dur) := py_int_trunc (dur_total_minutes d).
Definition dur_in_seconds (d : dur) := py_int_trunc (dur_total_seconds d).

(* the public components in the order of the constructor keywords used to rebuild:
   years months weeks days(remaining) hours minutes seconds(remaining) microseconds *)
Definition dur_components (d : dur) : list Z :=
  [d_years d; d_months d; d_weeks d; d_rdays d; dur_hours d; dur_minutes d; dur_remaining_seconds d; d_micro d].

(* Duration(years=.., months=.., weeks=.., days=remaining_days, hours=.., minutes=.., seconds=remaining_seconds, microseconds=..) *)
Definition duration_rebuild (d : dur) : result dur :=
  duration_new (d_rdays d) (dur_remaining_seconds d) (d_micro d) 0 (dur_minutes d) (dur_hours d) (d_weeks d) (d_years d) (d_months d).

(* everything the correspondence observes of one object, as integers *)
Definition dur_observe (d : dur) : result (list Z) :=
  bind (dur_in_weeks d) (fun iw => bind (dur_in_days d) (fun id => bind (dur_in_hours d) (fun ih =>
  bind (dur_in_minutes d) (fun im => bind (dur_in_seconds d) (fun is_ =>
  let '(nd, ns, nu) := td_norm (d_N d) in
  Ok ([nd; ns; nu] ++ sf_code (d_total d)
      ++ [d_years d; d_months d; d_weeks d; d_days d; d_rdays d; d_seconds d; dur_hours d; dur_minutes d;
          dur_remaining_seconds d; d_micro d; Z.b2z (dur_invert d)]
      ++ sf_code (dur_total_seconds d) ++ sf_code (dur_total_minutes d) ++ sf_code (dur_total_hours d)
      ++ sf_code (dur_total_days d) ++ sf_code (dur_total_weeks d)
      ++ [iw; id; ih; im; is_] ++ d_sig d)))))).
