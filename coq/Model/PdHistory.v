(* Model/PdHistory.v — C06: a PROCESS that builds several Intervals / calls the helper several times, one after the other.
   interval.py, helpers.py, _helpers.py and rust/src/python/helpers.rs keep NO state between two calls (no module-level cache, no
   configuration, operands are never written to): what Interval(a, b) reports is a function of its own two operands — wall fields,
   UTC offset (hence fold), tz name, tzinfo identity, date-or-datetime — and of nothing else.  `run_history` is therefore the
   straight-line program below; the history-* streams of tools/props/C06.py run whole histories in ONE interpreter against it, so
   a hidden dependence on what was built before (a memo keyed by ==/hash, which for aware datetimes means "by instant"; a key that
   ignores fold or the tz; a result object that a later call rewrites) shows up as a difference at a concrete step.
   Second part: a COUNTER-MODEL (not the code) — the same process with a memo in front of precise_diff, parameterised by the
   equivalence the memo looks its key up with.  Proofs/C06History.v shows that such a memo is transparent when the key separates
   everything precise_diff reads, and that the key CPython's datetime.__eq__/__hash__ provide does not.
   The entry points shared with Model/DispatchC06.v (py_pd, rs_pd, the result encodings, the domain guard) live here.
   Executable definitions only. *)
From Coq Require Import ZArith List Bool.
From PV Require Import Lib.PyBase Spec.Cal Gen.Constants Gen.Helpers Model.PdBase Gen.PreciseDiff Model.RustPreciseDiff Model.PdInterval.
Import ListNotations.
Open Scope Z_scope.

Definition zb (z : Z) : bool := negb (z =? 0).
Definition of_pd (r : result pdiff) : list Z :=
  match r with
  | Ok p => [0; pd_years p; pd_months p; pd_days p; pd_hours p; pd_minutes p; pd_seconds p; pd_microseconds p; pd_total_days p]
  | Raise e => [1; exn_code e]
  end.
Definition of_dt (r : result pdt) : list Z :=
  match r with
  | Ok d => [0; p_year d; p_month d; p_day d; p_hour d; p_minute d; p_second d; p_microsecond d]
  | Raise e => [1; exn_code e]
  end.
Definition of_ivc (r : result ivc) : list Z :=
  match r with
  | Ok c => [0; iv_years c; iv_months c; iv_weeks c; iv_remaining_days c; iv_hours c; iv_minutes c; iv_remaining_seconds c;
             iv_microseconds c; iv_in_months c; iv_in_days c]
  | Raise e => [1; exn_code e]
  end.

(* the Python function with the TypeError of `d1 > d2` on operands of different kinds (raised after the ValueError test) *)
Definition py_pd (a b : pdt) : result pdiff :=
  match py_precise_diff a b with
  | Raise e => Raise e
  | Ok r => if p_eqb a b then Ok r else if negb (p_comparable a b) then Raise E_TypeError else Ok r
  end.
Definition rs_pd (a b : pdt) : result pdiff := Ok (rs_precise_diff a b).

Definition in_domain (a : pdt) : bool := negb (p_aware a) || wall_in_range (p_instant a).

Definition interval_of (pd : result pdiff) (a b : pdt) : result ivc :=
  match pd with Raise e => Raise e | Ok d => Ok (iv_components d (iv_elapsed a b)) end.
Definition rebuild_of (pd : result pdiff) (a b : pdt) : result pdt :=
  match interval_of pd a b with Raise e => Raise e | Ok c => dt_add_ivc a c end.

Definition guard (a b : pdt) (r : list Z) : list Z := if in_domain a && in_domain b then r else [3].

(* ------------------------------------------------------------------ a process: a history of observations *)
Inductive hkind :=
| HIv      (* b - a, a + (b - a), a - b: the Interval component properties, the rebuilt end, the reversed Interval *)
| HPd.     (* precise_diff(a, b) and precise_diff(b, a) called directly on the native operands *)

Record hstep := mkhstep { hs_kind : hkind; hs_a : pdt; hs_b : pdt }.

(* what one step reports, given the PreciseDiff of (a, b) and of (b, a) — wherever those two came from *)
Definition step_out (k : hkind) (a b : pdt) (r_ab r_ba : result pdiff) : list (list Z) :=
  match k with
  | HIv => [guard a b (of_ivc (interval_of r_ab a b)); guard a b (of_dt (rebuild_of r_ab a b)); guard a b (of_ivc (interval_of r_ba b a))]
  | HPd => [guard a b (of_pd r_ab); guard a b (of_pd r_ba)]
  end.

Definition pd_of (rs : bool) : pdt -> pdt -> result pdiff := if rs then rs_pd else py_pd.

(* THE CODE: every step is computed from its own operands *)
Definition step_with (pd : pdt -> pdt -> result pdiff) (s : hstep) : list (list Z) :=
  step_out (hs_kind s) (hs_a s) (hs_b s) (pd (hs_a s) (hs_b s)) (pd (hs_b s) (hs_a s)).
Definition eval_step (rs : bool) (s : hstep) : list (list Z) := step_with (pd_of rs) s.
Definition run_history (rs : bool) (h : list hstep) : list (list (list Z)) := map (eval_step rs) h.

(* ------------------------------------------------------------------ COUNTER-MODEL: a memo in front of precise_diff *)
(* `Interval.__init__` asks a memo first; the memo finds an entry with the equivalence `eqv` (for functools.lru_cache: the == / hash of
   the two native operands).  Only returned values are kept (a call that raises leaves no entry); direct helper calls bypass it. *)
Definition pkey := (pdt * pdt)%type.
Definition cache := list (pkey * pdiff).

Fixpoint lookup (eqv : pkey -> pkey -> bool) (k : pkey) (c : cache) : option pdiff :=
  match c with
  | [] => None
  | (k', r) :: t => if eqv k k' then Some r else lookup eqv k t
  end.

Definition memo_pd (eqv : pkey -> pkey -> bool) (pd : pdt -> pdt -> result pdiff) (c : cache) (a b : pdt) : result pdiff * cache :=
  match lookup eqv (a, b) c with
  | Some r => (Ok r, c)
  | None => match pd a b with
            | Ok r => (Ok r, ((a, b), r) :: c)
            | Raise e => (Raise e, c)
            end
  end.

Fixpoint run_memo (eqv : pkey -> pkey -> bool) (pd : pdt -> pdt -> result pdiff) (c : cache) (h : list hstep) : list (list (list Z)) :=
  match h with
  | [] => []
  | s :: t =>
      match hs_kind s with
      | HIv =>
          let '(r1, c1) := memo_pd eqv pd c (hs_a s) (hs_b s) in
          let '(r2, c2) := memo_pd eqv pd c1 (hs_b s) (hs_a s) in
          step_out HIv (hs_a s) (hs_b s) r1 r2 :: run_memo eqv pd c2 t
      | HPd => step_with pd s :: run_memo eqv pd c t
      end
  end.

(* the key functools.lru_cache sees for two native operands: CPython's == (aware datetimes with different tzinfo objects: the instant;
   the same tzinfo object: the wall fields whatever the fold; dates: the ordinal) *)
Definition cpython_eq (k k' : pkey) : bool := p_eqb (fst k) (fst k') && p_eqb (snd k) (snd k').

(* a key that separates everything the model of precise_diff is a function of: all twelve fields of both operands *)
Definition pdt_eqb (x y : pdt) : bool :=
  (p_year x =? p_year y) && (p_month x =? p_month y) && (p_day x =? p_day y) && (p_hour x =? p_hour y) && (p_minute x =? p_minute y)
  && (p_second x =? p_second y) && (p_microsecond x =? p_microsecond y) && (p_offset x =? p_offset y)
  && Bool.eqb (p_has_tz x) (p_has_tz y) && (p_tzname x =? p_tzname y) && (p_tzobj x =? p_tzobj y) && Bool.eqb (p_is_dt x) (p_is_dt y).
Definition identity_eq (k k' : pkey) : bool := pdt_eqb (fst k) (fst k') && pdt_eqb (snd k) (snd k').

(* ------------------------------------------------------------------ wire format (Model/DispatchC06.v) *)
(* a history travels as 25 integers per step: tag (1 Interval, 2 direct helper call), then the two operands (12 integers each) *)
Fixpoint parse_history (l : list Z) : option (list hstep) :=
  match l with
  | [] => Some []
  | tag :: y1 :: m1 :: d1 :: h1 :: i1 :: s1 :: u1 :: o1 :: t1 :: n1 :: b1 :: k1
        :: y2 :: m2 :: d2 :: h2 :: i2 :: s2 :: u2 :: o2 :: t2 :: n2 :: b2 :: k2 :: rest =>
      match parse_history rest with
      | Some t =>
          let a := mkpdt y1 m1 d1 h1 i1 s1 u1 o1 (zb t1) n1 b1 (zb k1) in
          let b := mkpdt y2 m2 d2 h2 i2 s2 u2 o2 (zb t2) n2 b2 (zb k2) in
          if tag =? 1 then Some (mkhstep HIv a b :: t) else if tag =? 2 then Some (mkhstep HPd a b :: t) else None
      | None => None
      end
  | _ => None
  end.

(* every reported list of every step, each preceded by its length *)
Definition enc_history (rs : list (list (list Z))) : list Z :=
  flat_map (fun st => flat_map (fun e => Z.of_nat (length e) :: e) st) rs.

Definition dispatch_history (rs : bool) (l : list Z) : list Z :=
  match parse_history l with Some h => 0 :: enc_history (run_history rs h) | None => [9] end.
