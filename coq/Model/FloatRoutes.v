(* Model/FloatRoutes.v — the two FLOAT routes of C03 and C01, executable over SpecFloat (Spec/TdFloat.v).  No proofs here.

   C03   dt + td / dt - td / td + dt with a plain datetime.timedelta:
           DateTime._add_timedelta_   -> self.add(seconds=delta.total_seconds())
           DateTime._subtract_timedelta -> self.subtract(seconds=delta.total_seconds()) -> self.add(seconds=-seconds)
         i.e. a FLOAT goes through helpers.add_duration's carry chain
           if abs(seconds) > 59: s = _sign(seconds); div, mod = divmod(seconds * s, 60); seconds = mod * s; minutes += div * s
           if abs(minutes) > 59: ...(60) ; if abs(hours) > 23: ...(24)
         (minutes / hours / days start as the int 0 and become floats as soon as a carry reaches them), then
           dt.replace(year, month, day) ; dt + timedelta(days=, hours=, minutes=, seconds=<float>, microseconds=0)
         where CPython's delta_new / accum() treats int and float arguments differently (modf, fraction * factor in double,
         one leftover double rounded half-even at the end).
   C01   pendulum.from_timestamp(t) with a FLOAT t: datetime.utcfromtimestamp(t)  (pytime_double_to_denominator: modf,
         fraction * 1e6, round-half-even, carry / borrow) then in_timezone ; DateTime.timestamp() / float_timestamp of an aware
         value: (self - EPOCH).total_seconds().

   Numbers that may be int or float at run time are `pynum`.  Tied to /repo by the correspondence streams
   `td-*` of tools/props/C03.py and `tsf-*` of tools/props/C01.py (both backends). *)
From Coq Require Import ZArith List Bool.
From Coq Require Import Floats.SpecFloat.
From PV Require Import Lib.PyBase Spec.Cal Spec.Zone Spec.NativeDT Spec.TdFloat Gen.Constants Gen.Helpers Model.TzConvert.
Import ListNotations.
Open Scope Z_scope.

(* ------------------------------------------------------------------ Python numbers: int or float *)
Inductive pynum := PInt (n : Z) | PFlt (x : sf).

(* abs(v) > k  for a small int k: float-vs-int comparison converts the (<= 48 bit) int to double, exact *)
Definition num_abs_gt (v : pynum) (k : Z) : bool :=
  match v with PInt n => Z.abs n >? k | PFlt x => flt (sf_of_Z k) (fabs x) end.

(* helpers._sign: int(copysign(1, x)) *)
Definition num_sign (v : pynum) : Z :=
  match v with PInt n => py_sign n | PFlt x => if sf_sign x then -1 else 1 end.

(* v * s for an int s (float * int converts the int to double) *)
Definition num_mul_int (v : pynum) (s : Z) : pynum :=
  match v with PInt n => PInt (n * s) | PFlt x => PFlt (fmul x (sf_of_Z s)) end.

(* divmod(v, k) for an int k <> 0 *)
Definition num_divmod (v : pynum) (k : Z) : result (pynum * pynum) :=
  match v with
  | PInt n => Ok (PInt (n / k), PInt (n mod k))
  | PFlt x => bind (py_float_divmod x (sf_of_Z k)) (fun dm => Ok (PFlt (fst dm), PFlt (snd dm)))
  end.

(* a + b *)
Definition num_add (a b : pynum) : result pynum :=
  match a, b with
  | PInt n, PInt m => Ok (PInt (n + m))
  | PInt n, PFlt y => bind (py_float_of_int n) (fun x => Ok (PFlt (fadd x y)))
  | PFlt x, PInt m => bind (py_float_of_int m) (fun y => Ok (PFlt (fadd x y)))
  | PFlt x, PFlt y => Ok (PFlt (fadd x y))
  end.

(* one normalisation step of add_duration:  if abs(lo) > limit: s = _sign(lo); div, mod = divmod(lo * s, k); lo = mod * s; hi += div * s *)
Definition carry_step (lo hi : pynum) (limit k : Z) : result (pynum * pynum) :=
  if num_abs_gt lo limit then
    let s := num_sign lo in
    bind (num_divmod (num_mul_int lo s) k) (fun dm =>
    bind (num_add hi (num_mul_int (fst dm) s)) (fun hi' => Ok (num_mul_int (snd dm) s, hi')))
  else Ok (lo, hi).

(* add_duration(dt, seconds=<sec>) with every other unit at its default int 0: (days, hours, minutes, seconds) handed to timedelta().
   The microseconds step is skipped (abs(0) > 999999 is false). *)
Definition float_carry (sec : pynum) : result (pynum * pynum * pynum * pynum) :=
  bind (carry_step sec (PInt 0) 59 60) (fun p1 =>
  bind (carry_step (snd p1) (PInt 0) 59 60) (fun p2 =>
  bind (carry_step (snd p2) (PInt 0) 23 24) (fun p3 =>
  Ok (snd p3, fst p3, fst p2, fst p1)))).

(* ------------------------------------------------------------------ timedelta(days=, hours=, minutes=, seconds=, microseconds=0), mixed int / float *)
(* Modules/_datetimemodule.c accum(): state = (exact integer microseconds so far, leftover double) *)
Definition accum (st : Z * sf) (v : pynum) (factor : Z) : result (Z * sf) :=
  let '(sofar, leftover) := st in
  match v with
  | PInt n => Ok (sofar + n * factor, leftover)
  | PFlt d =>
    match d with
    | S754_nan => Raise E_ValueError
    | S754_infinity _ => Raise E_OverflowError
    | _ =>
      let sum := sofar + sf_intpart d * factor in
      let fr := sf_frac d in
      if sf_is_zero fr then Ok (sum, leftover) else
      let prod := fmul (sf_of_Z factor) fr in
      Ok (sum + sf_intpart prod, fadd leftover (sf_frac prod))
    end
  end.

(* delta_new: the leftover is rounded half-even into the sum (parity of the sum decides an exact half) *)
Definition td_finish (st : Z * sf) : Z :=
  let '(y, lo) := st in
  match lo with
  | S754_finite s m e =>
      let whole := cond_neg s (sf_round_away_mag m e) in
      if feq (fabs lo) f_half then
        let odd := y mod 2 in
        y + (if s then (if odd =? 1 then -1 else 0) else (if odd =? 1 then 1 else 0))
      else y + whole
  | _ => y
  end.

(* delta_new processes microseconds, (milliseconds,) seconds, minutes, hours, days in this order *)
Definition td_of_mixed (days hours minutes seconds : pynum) : result Z :=
  bind (accum (0, S754_zero false) (PInt 0) 1) (fun st =>
  bind (accum st seconds 1000000) (fun st =>
  bind (accum st minutes 60000000) (fun st =>
  bind (accum st hours 3600000000) (fun st =>
  bind (accum st days 86400000000) (fun st =>
  let N := td_finish st in
  if td_in_range N then Ok N else Raise E_OverflowError))))).

(* the microseconds of the timedelta that add_duration(dt, seconds=x) adds, for a float x *)
Definition float_route_us (x : sf) : result Z :=
  bind (float_carry (PFlt x)) (fun p => let '(d, h, mi, s) := p in td_of_mixed d h mi s).

(* helpers.add_duration(dt, seconds=x) on a naive datetime, x a float *)
Definition add_duration_float (d : ndt) (x : sf) : result ndt :=
  bind (float_carry (PFlt x)) (fun p => let '(dd, h, mi, s) := p in
  let v_year := ndt_year d in
  let v_month := ndt_month d in
  let v_day := Z.min (tidx (tidx2 C_DAYS_PER_MONTHS (Z.b2z (py_is_leap v_year))) v_month) (ndt_day d) in
  bind (ndt_replace_ymd d v_year v_month v_day) (fun d' =>
  bind (td_of_mixed dd h mi s) (fun T => ndt_add_td d' 0 0 0 0 T))).

(* DateTime.add(seconds=x) on an aware value (structure of TzConvert.add_fixed) *)
Definition add_seconds_float (z : zone) (W : Z) (f : bool) (x : sf) : result (Z * bool) :=
  let U := inst z W f in
  if negb (wall_in_range U) then Raise E_OverflowError else
  match add_duration_float (mkndt U true) x with
  | Raise e => Raise e
  | Ok d =>
    let '(W', f') := render z (n_wall d) in
    if wall_in_range W' then Ok (W', f') else Raise E_OverflowError
  end.

(* ... and on a naive value (create(tz=None) keeps its default fold=1) *)
Definition add_seconds_float_naive (W : Z) (f : bool) (x : sf) : result (Z * bool) :=
  match add_duration_float (mkndt W true) x with
  | Raise e => Raise e
  | Ok d => Ok (n_wall d, true)
  end.

(* dt + timedelta(microseconds=N) and timedelta + dt ; dt - timedelta(microseconds=N) *)
Definition add_timedelta (z : zone) (W : Z) (f : bool) (N : Z) : result (Z * bool) :=
  add_seconds_float z W f (total_seconds N).
Definition sub_timedelta (z : zone) (W : Z) (f : bool) (N : Z) : result (Z * bool) :=
  add_seconds_float z W f (fopp (total_seconds N)).
Definition add_timedelta_naive (W : Z) (f : bool) (N : Z) : result (Z * bool) :=
  add_seconds_float_naive W f (total_seconds N).
Definition sub_timedelta_naive (W : Z) (f : bool) (N : Z) : result (Z * bool) :=
  add_seconds_float_naive W f (fopp (total_seconds N)).

(* ------------------------------------------------------------------ C01: utcfromtimestamp(<float>) *)
(* Python/pytime.c pytime_double_to_denominator(d, &sec, &numerator, 1e6, ROUND_HALF_EVEN):
     floatpart = modf(d, &intpart); floatpart *= 1e6; floatpart = round_half_even(floatpart);
     if floatpart >= 1e6 { floatpart -= 1e6; intpart += 1 } else if floatpart < 0 { floatpart += 1e6; intpart -= 1 }
   returns (seconds, microseconds).  NaN -> ValueError ; out of time_t range (incl. infinity) -> OverflowError. *)
Definition double_to_timeval (t : sf) : result (Z * Z) :=
  match t with
  | S754_nan => Raise E_ValueError
  | S754_infinity _ => Raise E_OverflowError
  | _ =>
    let ip := sf_intpart t in
    let fp := fmul (sf_frac t) f_1e6 in
    match py_round_half_even fp with
    | Raise e => Raise e
    | Ok r =>
      let '(sec, us) := if r >=? 1000000 then (ip + 1, r - 1000000) else if r <? 0 then (ip - 1, r + 1000000) else (ip, r) in
      if (sec <? - 2 ^ 63) || (2 ^ 63 <=? sec) then Raise E_OverflowError else Ok (sec, us)
    end
  end.

(* microseconds since the Unix epoch of datetime.utcfromtimestamp(t) (before the year-range check) *)
Definition utcfromtimestamp_float_us (t : sf) : result Z :=
  bind (double_to_timeval t) (fun p => Ok (fst p * MEG + snd p)).

(* pendulum.from_timestamp(t, tz) for a float t: UTC fields (ValueError outside years 1..9999) then in_timezone *)
Definition from_timestamp_float (z : zone) (is_utc_obj : bool) (t : sf) : result (Z * bool) :=
  bind (utcfromtimestamp_float_us t) (fun n =>
  let U := EPOCH_US + n in
  if negb (wall_in_range U) then Raise E_ValueError else
  in_tz is_utc_obj (fixed_zone 0) z U true).

(* DateTime.timestamp() / float_timestamp of an aware value: (self - EPOCH).total_seconds() *)
Definition timestamp_float (z : zone) (W : Z) (f : bool) : sf := total_seconds (inst z W f - EPOCH_US).
