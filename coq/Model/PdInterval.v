(* Model/PdInterval.v — C06: hand-written model of the Interval glue around precise_diff (src/pendulum/interval.py) and of
   DateTime.add / Date.add / _add_timedelta_ (Interval branch) for naive values, UTC and fixed-offset zones.
   The elapsed Duration is modelled exactly (integer microseconds); the implementation goes through float total_seconds(),
   which is exact below 2^33 s (ASSUMPTIONS of tools/props/C06.py; longer spans are handled by the harness).
   Executable definitions only. *)
From Coq Require Import ZArith List Bool.
From PV Require Import Lib.PyBase Spec.Cal Gen.Constants Gen.Helpers Model.PdBase Gen.PreciseDiff.
Import ListNotations.
Open Scope Z_scope.

Definition sgn (x : Z) : Z := if x <? 0 then -1 else 1.      (* Duration._sign *)

(* Interval.__new__: elapsed microseconds end - start (instants for aware operands, wall for naive, days for dates) *)
Definition iv_elapsed (a b : pdt) : Z :=
  if p_is_dt a then (if p_aware a then p_instant b - p_instant a else p_wall b - p_wall a)
  else (p_date_ord b - p_date_ord a) * us_per_day.

Record ivc := mkivc { iv_years : Z; iv_months : Z; iv_weeks : Z; iv_remaining_days : Z; iv_hours : Z; iv_minutes : Z;
                      iv_remaining_seconds : Z; iv_microseconds : Z; iv_in_months : Z; iv_in_days : Z }.

(* the component properties, from the PreciseDiff `delta` and the elapsed Duration *)
Definition iv_components (delta : pdiff) (elapsed : Z) : ivc :=
  let m := sgn elapsed in
  let secs := Z.abs elapsed / 1000000 in
  let d_seconds := secs mod 86400 * m in           (* Duration._seconds *)
  let d_days := secs / 86400 * m in                (* Duration._days *)
  mkivc (pd_years delta) (pd_months delta)
        (Z.abs (pd_days delta) / 7 * sgn (pd_days delta))
        (Z.abs (pd_days delta) mod 7 * sgn d_days)
        (pd_hours delta) (pd_minutes delta)
        (Z.abs d_seconds mod 60 * sgn d_seconds)
        (Z.abs elapsed mod 1000000 * m)
        (pd_years delta * C_MONTHS_PER_YEAR + pd_months delta)
        (pd_total_days delta).

(* DateTime.add / Date.add for naive values and fixed-offset zones *)
Definition as_naive (a : pdt) (w : Z) : pdt :=
  let '(y, m, dd, hh, mm, ss, us) := fields_of_wall w in mkpdt y m dd hh mm ss us 0 false 0 0 (p_is_dt a).
Definition dt_add (a : pdt) (years months weeks days hours minutes seconds us : Z) : result pdt :=
  if p_is_dt a then
    let varlen := negb (years =? 0) || negb (months =? 0) || negb (weeks =? 0) || negb (days =? 0) in
    let off := p_utcoffset a in
    let w0 := if varlen then p_wall a else p_wall a - off * 1000000 in
    if negb (wall_in_range w0) then Raise E_OverflowError else
    match pd_add_duration (as_naive a w0) years months weeks days hours minutes seconds us with
    | Raise e => Raise e
    | Ok r =>
      let w := if varlen || negb (p_aware a) then p_wall r else p_wall r + off * 1000000 in
      if wall_in_range w then Ok (p_of_wall a w) else Raise E_OverflowError
    end
  else
    match pd_add_duration a years months weeks days 0 0 0 0 with
    | Raise e => Raise e
    | Ok r => Ok r
    end.

(* a + interval (the Interval branch of _add_timedelta_; Date._add_timedelta uses the four date components) *)
Definition dt_add_ivc (a : pdt) (c : ivc) : result pdt :=
  if p_is_dt a then
    dt_add a (iv_years c) (iv_months c) (iv_weeks c) (iv_remaining_days c) (iv_hours c) (iv_minutes c) (iv_remaining_seconds c) (iv_microseconds c)
  else dt_add a (iv_years c) (iv_months c) (iv_weeks c) (iv_remaining_days c) 0 0 0 0.
