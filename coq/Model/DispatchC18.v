(* Model/DispatchC18.v — entry point for running the C18 models on integer argument lists (see Model/DispatchC15.v).
   Strings travel as code point lists: 0 :: code points (normal), [1; exn code] (raise), [2] (None), [9] (bad call). *)
From Coq Require Import ZArith List Bool String.
From PV Require Import Lib.PyBase Model.LocaleBase Gen.Locales Model.DiffFormat.
Import ListNotations.
Open Scope Z_scope.

Definition of_res (r : result pstr) : list Z :=
  match r with Ok s => 0 :: s | Raise e => [1; exn_code e] end.

Definition zb (z : Z) : bool := negb (z =? 0).

Definition unit_index (u : string) : Z :=
  (fix go (l : list string) (i : Z) : Z :=
     match l with [] => -1 | x :: r => if String.eqb x u then i else go r (i + 1) end)
  ["year"; "month"; "week"; "day"; "hour"; "minute"; "second"]%string 0.

Definition with_locale (i : Z) (f : locale -> list Z) : list Z :=
  match nth_locale i with Some L => f L | None => [9] end.

Definition dispatch (fn : Z) (args : list Z) : list Z :=
  match fn, args with
  | 1 (* format_diff *), [loc; y; mo; w; d; h; mi; s; inv; now; absolute] =>
      with_locale loc (fun L => of_res (format L (mkcomp y mo w d h mi s) (zb now) (zb absolute) (zb inv)))
  | 2 (* in_words *), loc :: y :: mo :: w :: d :: h :: mi :: s :: us :: sep =>
      with_locale loc (fun L => of_res (in_words L (mkcomp y mo w d h mi s) us sep))
  | 3 (* pick *), [y; mo; w; d; h; mi; s] =>
      match gen_pick (mkcomp y mo w d h mi s) with Some (u, c) => [0; unit_index u; c] | None => [2] end
  | 4 (* plural *), [loc; n] => with_locale loc (fun L => 0 :: pstr_of_string (lplural L n))
  | 5 (* ordinal *), [loc; n] => with_locale loc (fun L => 0 :: pstr_of_string (lordinal L n))
  | 6 (* token *), [loc; tok; month; dow; day; hour] => with_locale loc (fun L => of_res (token L tok month dow day hour))
  | 7 (* locale_name *), [loc] => with_locale loc (fun L => 0 :: pstr_of_string (l_name L))
  | 8 (* ordinalize *), [loc; n] => with_locale loc (fun L => of_res (ordinalize L n))
  | 9 (* date_format *), [loc; i] =>
      with_locale loc (fun L => match date_format L i with Ok (Some s) => 0 :: s | Ok None => [2] | Raise e => [1; exn_code e] end)
  | 10 (* fmt2 *), [us] => 0 :: fmt2 us
  | _, _ => [9]
  end.
