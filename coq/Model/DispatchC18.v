(* Model/DispatchC18.v — entry point for running the C18 models on integer argument lists (see Model/DispatchC15.v).
   Strings travel as code point lists: 0 :: code points (normal), [1; exn code] (raise), [2] (None), [9] (bad call). *)
From Coq Require Import ZArith List Bool String.
From PV Require Import Lib.PyBase Model.LocaleBase Gen.Locales Model.DiffFormat Model.LocaleSession Model.PdBase Model.DiffHumans Model.DiffHumansNative.
Import ListNotations.
Open Scope Z_scope.

Definition of_res (r : result pstr) : list Z :=
  match r with Ok s => 0 :: s | Raise e => [1; exn_code e] end.

Definition zb (z : Z) : bool := negb (z =? 0).

Definition unit_index (u : string) : Z :=
  (fix go (l : list string) (i : Z) : Z :=
     match l with [] => -1 | x :: r => if String.eqb x u then i else go r (i + 1) end)
  ["year"; "month"; "week"; "day"; "hour"; "minute"; "second"]%string 0.

Definition with_locale (i : Z) (f : locale -> list Z) : list Z :=
  match nth_locale i with Some L => f L | None => [9] end.

(* ---- a session (Model/LocaleSession.v) as a flat integer list.  A string is  len c1 .. clen ; an optional locale is 0 or 1 <string>.
   operations:  1 <name> set_locale | 2 get_locale | 3 <name> locale(name) | 4 <loc> y mo w d h mi s inv now abs  format_diff
                5 <loc> y mo w d h mi s us <sep>  in_words | 6 <loc> tok month dow day hour  format token *)
Definition take_str (l : list Z) : option (pstr * list Z) :=
  match l with
  | n :: r => if (0 <=? n) && (Z.to_nat n <=? List.length r)%nat then Some (firstn (Z.to_nat n) r, skipn (Z.to_nat n) r) else None
  | [] => None
  end.
Definition take_loc (l : list Z) : option (option pstr * list Z) :=
  match l with
  | 0 :: r => Some (None, r)
  | 1 :: r => match take_str r with Some (s, r') => Some (Some s, r') | None => None end
  | _ => None
  end.
Definition take_op (l : list Z) : option (sop * list Z) :=
  match l with
  | 1 :: r => match take_str r with Some (n, r') => Some (SSet n, r') | None => None end
  | 2 :: r => Some (SGet, r)
  | 3 :: r => match take_str r with Some (n, r') => Some (SLoad n, r') | None => None end
  | 4 :: r =>
    match take_loc r with
    | Some (loc, y :: mo :: w :: d :: h :: mi :: s :: inv :: now :: absolute :: r') =>
      Some (SFmt loc (mkcomp y mo w d h mi s) (zb now) (zb absolute) (zb inv), r')
    | _ => None
    end
  | 5 :: r =>
    match take_loc r with
    | Some (loc, y :: mo :: w :: d :: h :: mi :: s :: us :: r') =>
      match take_str r' with Some (sep, r'') => Some (SWords loc (mkcomp y mo w d h mi s) us sep, r'') | None => None end
    | _ => None
    end
  | 6 :: r =>
    match take_loc r with
    | Some (loc, tok :: month :: dow :: day :: hour :: r') => Some (STok loc tok month dow day hour, r')
    | _ => None
    end
  | _ => None
  end.
Fixpoint decode_ops (fuel : nat) (l : list Z) : option (list sop) :=
  match l with
  | [] => Some []
  | _ =>
    match fuel with
    | O => None
    | S f =>
      match take_op l with
      | Some (o, r) => match decode_ops f r with Some ops => Some (o :: ops) | None => None end
      | None => None
      end
    end
  end.

(* output number k of the session, started from the given configured name *)
Definition session_out (init : pstr) (k : Z) (code : list Z) : list Z :=
  match decode_ops (List.length code) code with
  | Some ops => if k <? 0 then [9] else match nth_error (run init ops) (Z.to_nat k) with Some r => of_res r | None => [9] end
  | None => [9]
  end.

Definition dispatch (fn : Z) (args : list Z) : list Z :=
  match fn, args with
  | 1 (* format_diff *), [loc; y; mo; w; d; h; mi; s; inv; now; absolute] =>
      with_locale loc (fun L => of_res (format L (mkcomp y mo w d h mi s) (zb now) (zb absolute) (zb inv)))
  | 2 (* in_words *), loc :: y :: mo :: w :: d :: h :: mi :: s :: us :: sep =>
      with_locale loc (fun L => of_res (in_words L (mkcomp y mo w d h mi s) us sep))
  | 3 (* pick *), [y; mo; w; d; h; mi; s] =>
      match gen_pick (mkcomp y mo w d h mi s) with Some (u, c) => [0; unit_index u; c] | None => [2] end
  | 4 (* plural *), [loc; n] => with_locale loc (fun L => 0 :: pstr_of_string (lplural L n))
  | 5 (* ordinal *), [loc; n] => with_locale loc (fun L => 0 :: pstr_of_string (lordinal L n))
  | 6 (* token *), [loc; tok; month; dow; day; hour] => with_locale loc (fun L => of_res (token L tok month dow day hour))
  | 7 (* locale_name *), [loc] => with_locale loc (fun L => 0 :: pstr_of_string (l_name L))
  | 8 (* ordinalize *), [loc; n] => with_locale loc (fun L => of_res (ordinalize L n))
  | 9 (* date_format *), [loc; i] =>
      with_locale loc (fun L => match date_format L i with Ok (Some s) => 0 :: s | Ok None => [2] | Raise e => [1; exn_code e] end)
  | 10 (* fmt2 *), [us] => 0 :: fmt2 us
  | 11 (* session *), k :: code => session_out initial k code
  | 12 (* normalize_locale *), name => 0 :: normalize_locale name
  (* an operand is the 12 integers of Model/DispatchC06.v — year month day hour minute second microsecond offset has_tz tzname tzobj
     is_datetime; the offset is the one the operand's fold selects (Interval.__init__ passes fold= to the natives it hands to precise_diff);
     [3] = the UTC instant of an operand is outside 0001..9999 *)
  | 13 (* diff_comps *), [rs; y1;m1;d1;h1;i1;s1;u1;o1;t1;n1;b1;k1; y2;m2;d2;h2;i2;s2;u2;o2;t2;n2;b2;k2] =>
      let a := mkpdt y1 m1 d1 h1 i1 s1 u1 o1 (zb t1) n1 b1 (zb k1) in let b := mkpdt y2 m2 d2 h2 i2 s2 u2 o2 (zb t2) n2 b2 (zb k2) in
      if dh_in_domain a b then
        match diff_comps (zb rs) a b with
        | Ok (c, inv) => [0; c_years c; c_months c; c_weeks c; c_rdays c; c_hours c; c_minutes c; c_rsecs c; Z.b2z inv]
        | Raise e => [1; exn_code e]
        end
      else [3]
  | 14 (* dfh *), [loc; rs; absolute; y1;m1;d1;h1;i1;s1;u1;o1;t1;n1;b1;k1; y2;m2;d2;h2;i2;s2;u2;o2;t2;n2;b2;k2] =>
      let a := mkpdt y1 m1 d1 h1 i1 s1 u1 o1 (zb t1) n1 b1 (zb k1) in let b := mkpdt y2 m2 d2 h2 i2 s2 u2 o2 (zb t2) n2 b2 (zb k2) in
      if dh_in_domain a b then with_locale loc (fun L => of_res (diff_for_humans L (zb rs) a b (zb absolute))) else [3]
  (* operands handed in as NATIVE values (Model/DiffHumansNative.v): an operand is the 12 integers above — the value as Interval.__init__
     keeps it (pendulum.instance of a native value) — followed by has_tz and the tzinfo object id of the value AS GIVEN (what
     Interval.__new__ sees); iv_abs is Interval's own `absolute`, absolute the flag of format_diff *)
  | 15 (* diff_comps_native *), [rs; iv_abs; y1;m1;d1;h1;i1;s1;u1;o1;t1;n1;b1;k1;g1;j1; y2;m2;d2;h2;i2;s2;u2;o2;t2;n2;b2;k2;g2;j2] =>
      let a := mkpdt y1 m1 d1 h1 i1 s1 u1 o1 (zb t1) n1 b1 (zb k1) in let b := mkpdt y2 m2 d2 h2 i2 s2 u2 o2 (zb t2) n2 b2 (zb k2) in
      if dh_in_domain a b then
        match diff_comps_native (zb rs) (zb iv_abs) (as_given a (zb g1) j1) (as_given b (zb g2) j2) a b with
        | Ok (c, inv) => [0; c_years c; c_months c; c_weeks c; c_rdays c; c_hours c; c_minutes c; c_rsecs c; Z.b2z inv]
        | Raise e => [1; exn_code e]
        end
      else [3]
  | 16 (* format_diff_native *), [loc; rs; iv_abs; absolute; y1;m1;d1;h1;i1;s1;u1;o1;t1;n1;b1;k1;g1;j1; y2;m2;d2;h2;i2;s2;u2;o2;t2;n2;b2;k2;g2;j2] =>
      let a := mkpdt y1 m1 d1 h1 i1 s1 u1 o1 (zb t1) n1 b1 (zb k1) in let b := mkpdt y2 m2 d2 h2 i2 s2 u2 o2 (zb t2) n2 b2 (zb k2) in
      if dh_in_domain a b then
        with_locale loc (fun L => of_res (format_diff_native L (zb rs) (zb iv_abs) (as_given a (zb g1) j1) (as_given b (zb g2) j2) a b (zb absolute)))
      else [3]
  | 17 (* in_words_native *), [loc; rs; iv_abs; y1;m1;d1;h1;i1;s1;u1;o1;t1;n1;b1;k1;g1;j1; y2;m2;d2;h2;i2;s2;u2;o2;t2;n2;b2;k2;g2;j2] =>
      let a := mkpdt y1 m1 d1 h1 i1 s1 u1 o1 (zb t1) n1 b1 (zb k1) in let b := mkpdt y2 m2 d2 h2 i2 s2 u2 o2 (zb t2) n2 b2 (zb k2) in
      if dh_in_domain a b then
        with_locale loc (fun L => of_res (in_words_native L (zb rs) (zb iv_abs) (as_given a (zb g1) j1) (as_given b (zb g2) j2) a b [32]))
      else [3]
  | _, _ => [9]
  end.
