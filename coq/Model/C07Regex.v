(* Model/C07Regex.v — a small backtracking regular-expression matcher with captures (Python `re` semantics for the
   constructs used by pendulum/parsing: literals, character sets, sequence, ordered alternation, bounded greedy
   repetition, capture groups, ^ and $).  Executable definitions only.  The regex ASTs it runs are GENERATED from
   /repo's pattern strings (Gen/IsoRegex.v, by tools/vlib/gens/g30_iso8601.py through CPython's own pattern parser).
   Strings are lists of code points.  Assumption (recorded in tools/props/C07.py): inputs are ASCII, so that
   `\d` (Unicode decimal digit in Python) is the range 48..57. *)
From Coq Require Import ZArith List Bool.
Import ListNotations.
Open Scope Z_scope.

Inductive re : Type :=
| REps
| RLit (c : Z)
| RIn (neg : bool) (ranges : list (Z * Z))
| RSeq (a b : re)
| RAlt (a b : re)
| RRep (a : re) (mn mx : nat)      (* greedy a{mn,mx} *)
| RGrp (n : nat) (a : re)          (* capture group number n *)
| RBeg
| REnd.

Definition caps := list (option (list Z)).

Fixpoint in_ranges (x : Z) (l : list (Z * Z)) : bool :=
  match l with
  | [] => false
  | (lo, hi) :: t => ((lo <=? x) && (x <=? hi)) || in_ranges x t
  end.

Fixpoint upd (n : nat) (v : list Z) (c : caps) : caps :=
  match n, c with
  | O, _ :: t => Some v :: t
  | S n', h :: t => h :: upd n' v t
  | _, [] => []
  end.

Definition grp (c : caps) (n : nat) : option (list Z) := nth n c None.

(* continuation-passing backtracking matcher: i = index of the current position, s = the rest of the input *)
Fixpoint rmatch (r : re) (i : nat) (s : list Z) (c : caps)
         (k : nat -> list Z -> caps -> option caps) {struct r} : option caps :=
  match r with
  | REps => k i s c
  | RLit a => match s with x :: t => if x =? a then k (S i) t c else None | [] => None end
  | RIn neg rs => match s with x :: t => if xorb neg (in_ranges x rs) then k (S i) t c else None | [] => None end
  | RSeq a b => rmatch a i s c (fun i' s' c' => rmatch b i' s' c' k)
  | RAlt a b => match rmatch a i s c k with Some res => Some res | None => rmatch b i s c k end
  | RRep a mn mx =>
      (fix rep (mx : nat) (mn : nat) (i : nat) (s : list Z) (c : caps) {struct mx} : option caps :=
         match mx with
         | O => match mn with O => k i s c | S _ => None end
         | S mx' =>
             match rmatch a i s c (fun i' s' c' => rep mx' (pred mn) i' s' c') with
             | Some res => Some res
             | None => match mn with O => k i s c | S _ => None end
             end
         end) mx mn i s c
  | RGrp n a => rmatch a i s c (fun i' s' c' => k i' s' (upd n (firstn (i' - i) s) c'))
  | RBeg => match i with O => k i s c | S _ => None end
  | REnd => match s with [] => k i s c | [10] => k i s c | _ => None end
  end.

(* re.match(pattern, text): anchored at the start; the whole pattern followed by "accept" *)
Definition re_match (r : re) (ngroups : nat) (s : list Z) : option caps :=
  rmatch r 0 s (repeat None (S ngroups)) (fun _ _ c => Some c).
