(* Model/IntervalLen.v — hand model of the LENGTH of a pendulum Interval (property C05):
     interval.py  Interval.__new__ (type checks, `absolute and start > end` swap, native rebuild WITH fold, removal of the offsets by hand
                  when both rebuilt natives carry the SAME tzinfo OBJECT, native subtraction, Duration(seconds=delta.total_seconds()))
                  Interval.__init__ (natives go through pendulum.instance, `_invert = start > end`, swap when absolute), __abs__, __neg__
     duration.py  Duration.__new__(seconds=<float>), total_seconds / in_seconds / in_minutes / in_hours, invert
     datetime.py  DateTime.diff, __sub__, __rsub__ (native operand normalised through DateTime.instance / pendulum.naive)
     date.py      Date.diff, Date.__sub__
   CPython semantics used: aware datetime subtraction / ordering is on the WALL clock (fold ignored) when both operands carry the same
   tzinfo object and on the UTC instants (utcoffset() with fold) otherwise; naive - naive and date - date are wall differences;
   `aware - timedelta` raises OverflowError outside years 1..9999.
   An endpoint carries the identity of its tzinfo object as an integer (0 = None): two endpoints share the object iff the integers are equal.
   Tied to /repo by the C05 correspondence run (both backends).  No proofs here. *)
From Coq Require Import ZArith List Bool.
From Coq Require Import Floats.SpecFloat.
From PV Require Import Lib.PyBase Spec.Cal Spec.Zone Spec.TdFloat Gen.Constants Model.Duration Model.TzConvert.
Import ListNotations.
Open Scope Z_scope.

Record ep := mkep {
  e_dt : bool;        (* datetime (true) / plain date (false) *)
  e_native : bool;    (* a stdlib object (true) / a pendulum object (false) *)
  e_obj : Z;          (* identity of the tzinfo object, 0 = None (naive, and every date) *)
  e_canon : Z;        (* identity of the object pendulum caches for that zone name / offset: what instance() attaches *)
  e_fixed : bool;     (* that cached object is a FixedTimezone *)
  e_zone : zone;      (* the tz table of the tzinfo *)
  e_W : Z;            (* wall microseconds since 0001-01-01T00:00:00 (a date is its midnight) *)
  e_fold : bool }.

Definition UTC_ID : Z := 1.      (* identity reserved for pendulum.UTC *)

Definition aware (a : ep) : bool := negb (e_obj a =? 0).
Definition same_tz (a b : ep) : bool := e_obj a =? e_obj b.      (* `a.tzinfo is b.tzinfo` *)

(* the UTC instant CPython assigns to an aware value: wall - utcoffset() (fold honoured); the wall value itself when naive *)
Definition ep_inst (a : ep) : Z := if aware a then inst (e_zone a) (e_W a) (e_fold a) else e_W a.

(* Python's  a > b  for two dates, or two datetimes *)
Definition py_gt (a b : ep) : result bool :=
  if negb (e_dt a) then Ok (e_W a >? e_W b)
  else if xorb (aware a) (aware b) then Raise E_TypeError
  else if same_tz a b then Ok (e_W a >? e_W b)
  else Ok (ep_inst a >? ep_inst b).

(* (_x - x.utcoffset()).replace(tzinfo=None) : aware - timedelta is range checked *)
Definition utc_naive (a : ep) : result Z :=
  let U := inst (e_zone a) (e_W a) (e_fold a) in
  if wall_in_range U then Ok U else Raise E_OverflowError.

(* microseconds of  `_end - _start`  computed by Interval.__new__ for start = a, end = b (after the swap) *)
Definition native_delta (a b : ep) : result Z :=
  if negb (e_dt a) then Ok (e_W b - e_W a)
  else if same_tz a b then
    if aware a then bind (utc_naive a) (fun ua => bind (utc_naive b) (fun ub => Ok (ub - ua)))
    else Ok (e_W b - e_W a)
  else Ok (ep_inst b - ep_inst a).

(* Interval.__new__ up to `delta` *)
Definition interval_new_delta (a b : ep) (absolute : bool) : result Z :=
  if xorb (e_dt a) (e_dt b) then Raise E_ValueError
  else if e_dt a && xorb (aware a) (aware b) then Raise E_TypeError
  else bind (if absolute then py_gt a b else Ok false) (fun sw =>
       if sw then native_delta b a else native_delta a b).

(* Duration.__new__(cls, seconds=x) for a float x (years = months = 0) *)
Definition duration_of_float_seconds (x : sf) : result dur :=
  bind (td_of_float_seconds x) (fun N =>
  bind (float_pipeline N 0) (fun '(total, (m, micro, it)) =>
  let secs := Z.abs it mod C_SECONDS_PER_DAY * m in
  let ds := Z.abs it / C_SECONDS_PER_DAY * m in
  Ok (mkdur N false total 0 0 (Z.abs ds / 7 * m) ds (Z.abs ds mod 7 * m) secs micro []))).

(* pendulum.instance(x) as Interval.__init__ applies it to a stdlib endpoint (tz defaults to UTC for a naive datetime) *)
Definition instance_ep (a : ep) : result ep :=
  if negb (e_native a) then Ok a
  else if negb (e_dt a) then Ok (mkep false false 0 0 false (e_zone a) (e_W a) (e_fold a))
  else if aware a then
    bind (create (e_zone a) (e_fixed a) (e_W a) (e_fold a) false) (fun '(W, f) =>
    Ok (mkep true false (e_canon a) (e_canon a) (e_fixed a) (e_zone a) W f))
  else Ok (mkep true false UTC_ID UTC_ID false (fixed_zone 0) (e_W a) (e_fold a)).

(* the operand normalisation of DateTime.__sub__ / __rsub__ / Date.__sub__ *)
Definition normalise_operand (o : ep) : result ep :=
  if negb (e_native o) then Ok o
  else if negb (e_dt o) then Ok (mkep false false 0 0 false (e_zone o) (e_W o) (e_fold o))
  else if aware o then instance_ep o
  else Ok (mkep true false 0 0 false (e_zone o) (e_W o) true).          (* pendulum.naive(...): fold defaults to 1 *)

Record ival := mkival { i_dur : dur; i_invert : bool; i_start : ep; i_end : ep; i_abs : bool }.

(* Interval(a, b, absolute): __new__ then __init__ (precise_diff itself belongs to C06 and is not modelled) *)
Definition interval_make (a b : ep) (absolute : bool) : result ival :=
  bind (interval_new_delta a b absolute) (fun D =>
  bind (duration_of_float_seconds (total_seconds D)) (fun d =>
  bind (instance_ep a) (fun a' =>
  bind (instance_ep b) (fun b' =>
  bind (py_gt a' b') (fun inv =>
  if inv && absolute then Ok (mkival d inv b' a' absolute) else Ok (mkival d inv a' b' absolute)))))).

Definition dt_diff (self other : ep) (abs_ : bool) : result ival := interval_make self other abs_.
(* self - other *)
Definition dt_sub (self other : ep) : result ival := bind (normalise_operand other) (fun o => dt_diff o self false).
(* other - self, evaluated by self.__rsub__(other) *)
Definition dt_rsub (self other : ep) : result ival := bind (normalise_operand other) (fun o => dt_diff self o false).
Definition ival_abs (i : ival) : result ival := interval_make (i_start i) (i_end i) true.
Definition ival_neg (i : ival) : result ival := interval_make (i_end i) (i_start i) (i_abs i).

(* what the correspondence observes: native microseconds, in_seconds, in_minutes, in_hours, invert *)
Definition ival_observe (i : ival) : result (list Z) :=
  let d := i_dur i in
  bind (dur_in_seconds d) (fun s => bind (dur_in_minutes d) (fun m => bind (dur_in_hours d) (fun h =>
  Ok [d_N d; s; m; h; Z.b2z (i_invert i)]))).
