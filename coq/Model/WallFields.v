(* Model/WallFields.v — C02: a second construction step that passes ANY SUBSET of the seven fields.
   x.set(second=10), x.replace(minute=.., second=..), x.at(h) ...: DateTime.set / replace default every field that is not passed to the field
   of the instance and funnel ALL of them into DateTime.create() -> Timezone.convert() with the fold of the instance, whatever the subset is
   (also when only the smallest fields are passed: tz transitions are not minute-aligned -- Africa/Monrovia 1972-01-07 00:44:30, 437 distinct
   transitions of the tz data have an edge inside a minute).
   This file extends the history machine of Model/WallHistory.v by that operation (a separate file so that WallHistory.v and everything built
   on it stays untouched).  Transcribed from datetime.py (set, replace, at); tied to /repo by the substep-* streams of C02 and by
   model_is_code_set_fields / _replace_fields (Props/C02.v).  No proofs here. *)
From Coq Require Import ZArith List Bool.
From PV Require Import Lib.PyBase Spec.Cal Spec.Zone Model.TzConvert Model.TzDispatch Model.WallHistory.
Import ListNotations.
Open Scope Z_scope.

Definition pick (o : option Z) (d : Z) : Z := match o with Some v => v | None => d end.

(* what datetime.datetime(y, m, d, h, mi, s, us) accepts *)
Definition fields_okb (y m d h mi s us : Z) : bool :=
  (1 <=? y) && (y <=? 9999) && valid_dateb y m d && (0 <=? h) && (h <=? 23) && (0 <=? mi) && (mi <=? 59) && (0 <=? s) && (s <=? 59)
  && (0 <=? us) && (us <=? 999999).

(* the wall value whose fields are those passed, the others being the fields of W; None when they do not form a date/time (ValueError) *)
Definition merge_fields (W : Z) (oy om od oh omi os ous : option Z) : option Z :=
  let '(y, m, d, h, mi, s, us) := fields_of_wall W in
  let y' := pick oy y in let m' := pick om m in let d' := pick od d in let h' := pick oh h in
  let mi' := pick omi mi in let s' := pick os s in let us' := pick ous us in
  if fields_okb y' m' d' h' mi' s' us' then Some (wall_of y' m' d' h' mi' s' us') else None.

Inductive hop2 :=
| HBase (op : hop)                                         (* every operation of Model/WallHistory.v *)
| HSetFields (oy om od oh omi os ous : option Z).          (* x.set(<subset>) / x.replace(<subset>) / x.at(h[, mi[, s[, us]]]) (omitted = 0) *)

Definition hstep2 (st : hst) (op : hop2) : result hst :=
  match op with
  | HBase o => hstep st o
  | HSetFields oy om od oh omi os ous =>
      match merge_fields (h_W st) oy om od oh omi os ous with
      | Some W' => build (h_tz st) W' (h_f st) false
      | None => Raise E_ValueError
      end
  end.

Fixpoint hfinal2 (st : hst) (ops : list hop2) : result hst :=
  match ops with
  | [] => Ok st
  | op :: r => match hstep2 st op with Ok st' => hfinal2 st' r | Raise e => Raise e end
  end.

Fixpoint htrace2 (st : hst) (ops : list hop2) (i : Z) : list hst * option (exn * Z) :=
  match ops with
  | [] => ([], None)
  | op :: r => match hstep2 st op with
               | Ok st' => let '(l, e) := htrace2 st' r (i + 1) in (st' :: l, e)
               | Raise e => ([], Some (e, i))
               end
  end.

(* wire format: 13 :: mask :: y :: m :: d :: h :: mi :: s :: us  (bit k of mask set = field k is passed; year is bit 0, microsecond bit 6);
   every other opcode is WallHistory.parse_op's *)
Definition opt_bit (mask k v : Z) : option Z := if Z.testbit mask k then Some v else None.

Definition parse_op2 (l : list Z) : option (hop2 * list Z) :=
  match l with
  | 13 :: mask :: y :: m :: d :: h :: mi :: s :: us :: rest =>
      Some (HSetFields (opt_bit mask 0 y) (opt_bit mask 1 m) (opt_bit mask 2 d) (opt_bit mask 3 h) (opt_bit mask 4 mi) (opt_bit mask 5 s)
                       (opt_bit mask 6 us), rest)
  | _ => match parse_op l with Some (op, rest) => Some (HBase op, rest) | None => None end
  end.

Fixpoint parse_ops2 (fuel : nat) (l : list Z) : option (list hop2) :=
  match l with
  | [] => Some []
  | _ => match fuel with
         | O => None
         | S k => match parse_op2 l with
                  | Some (op, rest) => match parse_ops2 k rest with Some ops => Some (op :: ops) | None => None end
                  | None => None
                  end
         end
  end.

(* [0; W1; f1; o1; ..; Wn; fn; on]  or  [1; exception; index of the step that raised] *)
Definition run_history2 (args : list Z) : list Z :=
  match parse_ops2 (length args) args with
  | None => [9]
  | Some ops =>
    match htrace2 hinit ops 0 with
    | (l, None) => 0 :: flat_map out_hst l
    | (_, Some (e, i)) => [1; exn_code e; i]
    end
  end.
