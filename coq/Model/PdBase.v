(* Model/PdBase.v — C06: the date/datetime operand record of precise_diff and the named model primitives that the
   translated code (Gen/PreciseDiff.v) calls for the datetime-object operations.  Executable definitions only.
   Meaning is given on Spec/Cal.v (wall_of / fields_of_wall).  Tied to CPython's datetime by the correspondence run. *)
From Coq Require Import ZArith List Bool.
From PV Require Import Lib.PyBase Spec.Cal.
Import ListNotations.
Open Scope Z_scope.

(* one operand: the wall fields, the UTC offset in seconds (0 when naive or a date), whether it carries a tzinfo,
   the id of the tz *name* found by _get_tzinfo_name (0 = no key/name/zone attribute), the identity of the tzinfo object
   (CPython compares wall fields when both operands share the tzinfo object), and whether it is a datetime at all. *)
Record pdt := mkpdt {
  p_year : Z; p_month : Z; p_day : Z; p_hour : Z; p_minute : Z; p_second : Z; p_microsecond : Z;
  p_offset : Z; p_has_tz : bool; p_tzname : Z; p_tzobj : Z; p_is_dt : bool }.

Record pdiff := mkPD {
  pd_years : Z; pd_months : Z; pd_days : Z; pd_hours : Z; pd_minutes : Z; pd_seconds : Z; pd_microseconds : Z; pd_total_days : Z }.

Definition p_wall (d : pdt) : Z :=
  wall_of (p_year d) (p_month d) (p_day d) (p_hour d) (p_minute d) (p_second d) (p_microsecond d).
Definition p_instant (d : pdt) : Z := p_wall d - p_offset d * 1000000.
Definition p_date_ord (d : pdt) : Z := ymd2ord (p_year d) (p_month d) (p_day d).

(* which number CPython compares: dates by ordinal; datetimes sharing the tzinfo object (or naive) by wall fields,
   aware datetimes with different tzinfo objects by instant *)
Definition p_aware (d : pdt) : bool := p_is_dt d && p_has_tz d.
Definition p_key (d1 d2 d : pdt) : Z :=
  if negb (p_is_dt d) then p_date_ord d
  else if p_aware d1 && p_aware d2 && negb (p_tzobj d1 =? p_tzobj d2) then p_instant d
  else p_wall d.
(* operands that CPython can order: same kind (date/date, naive/naive, aware/aware) *)
Definition p_comparable (d1 d2 : pdt) : bool :=
  Bool.eqb (p_is_dt d1) (p_is_dt d2) && Bool.eqb (p_aware d1) (p_aware d2).

(* d1 == d2 (False for operands of different kinds) *)
Definition p_eqb (d1 d2 : pdt) : bool := p_comparable d1 d2 && (p_key d1 d2 d1 =? p_key d1 d2 d2).
(* d1 > d2 (TypeError for operands of different kinds is produced by the dispatch wrapper) *)
Definition p_gtb (d1 d2 : pdt) : bool := p_key d1 d2 d1 >? p_key d1 d2 d2.

(* tzinfo of an operand: (present?, name id) *)
Definition tzi := (bool * Z)%type.
Definition tzname := Z.
Definition tzinfo_of (d : pdt) : tzi := (p_aware d, p_tzname d).      (* d.tzinfo if isinstance(d, datetime) else None *)
Definition tz_is_none (t : tzi) : bool := negb (fst t).
Definition tz_truthy (t : tzi) : bool := fst t.
Definition tz_name_of (t : tzi) : tzname := if fst t then snd t else 0.  (* _get_tzinfo_name; 0 = None *)
Definition tzname_none : tzname := 0.
Definition tzname_same (a b : tzname) : bool := (a =? b) && negb (a =? 0).   (* tz1 == tz2 and tz1 is not None *)

Definition p_utcoffset (d : pdt) : Z := if p_aware d then p_offset d else 0.  (* seconds; None and timedelta(0) are both falsy *)

(* d - timedelta(seconds=off): the wall fields move, tzinfo stays (the offset is not consulted again) *)
Definition p_of_wall (d : pdt) (w : Z) : pdt :=
  let '(y, m, dd, hh, mm, ss, us) := fields_of_wall w in
  mkpdt y m dd hh mm ss us (p_offset d) (p_has_tz d) (p_tzname d) (p_tzobj d) (p_is_dt d).
Definition p_shift (d : pdt) (off : Z) : pdt := p_of_wall d (p_wall d - off * 1000000).

(* ---- helpers.add_duration primitives ---- *)
Definition py_sign (x : Z) : Z := if x <? 0 then -1 else 1.       (* int(copysign(1, x)) on an integer *)
(* dt.replace(year=, month=, day=): ValueError when the date is impossible or the year is outside 1..9999 *)
Definition p_replace_ymd (d : pdt) (y m dd : Z) : result pdt :=
  if (1 <=? y) && (y <=? 9999) && valid_dateb y m dd then
    Ok (mkpdt y m dd (p_hour d) (p_minute d) (p_second d) (p_microsecond d) (p_offset d) (p_has_tz d) (p_tzname d) (p_tzobj d) (p_is_dt d))
  else Raise E_ValueError.
Definition td_total_us (days hours minutes seconds us : Z) : Z :=
  (((days * 24 + hours) * 60 + minutes) * 60 + seconds) * 1000000 + us.
(* dt + timedelta(days=, hours=, minutes=, seconds=, microseconds=) with integer arguments: exact; OverflowError outside
   years 1..9999 or |days| > 999999999; a date uses only the whole days of the normalised timedelta *)
Definition p_add_td (d : pdt) (days hours minutes seconds us : Z) : result pdt :=
  let total := td_total_us days hours minutes seconds us in
  if (total / us_per_day <? -999999999) || (999999999 <? total / us_per_day) then Raise E_OverflowError else
  let w := if p_is_dt d then p_wall d + total else p_wall d + (total / us_per_day) * us_per_day in
  if wall_in_range w then Ok (p_of_wall d w) else Raise E_OverflowError.
(* is the value a representable date/datetime (years 1..9999, valid date)? *)
Definition p_valid (d : pdt) : bool :=
  (1 <=? p_year d) && (p_year d <=? 9999) && valid_dateb (p_year d) (p_month d) (p_day d).
