(* Model/LocaleSession.v (C18) — the process-wide default locale as a small state machine.

   Hand model of
     pendulum.set_locale / get_locale / locale         (src/pendulum/helpers.py),
     Locale.load / Locale.normalize_locale             (src/pendulum/locales/locale.py; names restricted to ASCII),
   and of the `locale is None -> pendulum.get_locale()` defaults of helpers.format_diff, Duration.in_words / Interval.in_words
   and Formatter.format: an operation that is given no locale renders with the locale loaded from the CONFIGURED name.

   The state is the configured name exactly as it was passed to the last set_locale call that RETURNED (get_locale() reports it
   unnormalised); a set_locale call whose name cannot be loaded raises ValueError and leaves the state untouched; Locale.load
   is a transparent cache (a pure function of the normalised name); rendering operations never change the state.
   The correspondence run (stream `session` of tools/props/C18.py) executes whole operation sequences in one process and
   compares every output of the sequence with `run`.  No proofs here (Proofs/C18Session.v). *)
From Coq Require Import ZArith List Bool String.
From PV Require Import Lib.PyBase Model.LocaleBase Gen.Locales Model.DiffFormat.
Import ListNotations.
Open Scope list_scope.
Open Scope Z_scope.

(* ------------------------------------------------------------------ Locale.normalize_locale on ASCII names *)
Definition is_az (c : Z) : bool := ((65 <=? c) && (c <=? 90)) || ((97 <=? c) && (c <=? 122)).
Definition lower1 (c : Z) : Z := if (65 <=? c) && (c <=? 90) then c + 32 else c.
Definition lower (s : pstr) : pstr := map lower1 s.

(* m = re.match("([a-z]{2})[-_]([a-z]{2})", locale, re.I): a match at the START is enough (whatever follows is dropped);
   f"{m.group(1).lower()}_{m.group(2).lower()}" if m else locale.lower() *)
Definition normalize_locale (s : pstr) : pstr :=
  match s with
  | a :: b :: sp :: c :: d :: _ =>
    if is_az a && is_az b && ((sp =? 45) || (sp =? 95)) && is_az c && is_az d
    then [lower1 a; lower1 b; 95; lower1 c; lower1 d]
    else lower s
  | _ => lower s
  end.

Fixpoint pstr_eqb (a b : pstr) : bool :=
  match a, b with
  | [], [] => true
  | x :: a', y :: b' => (x =? y) && pstr_eqb a' b'
  | _, _ => false
  end.

(* ------------------------------------------------------------------ Locale.load *)
(* the shipped locale whose directory is called n (the `while not locale_path.exists()` loop raises in its first iteration,
   so there is no fallback from xx_yy to xx: a name loads iff its normal form is a shipped directory) *)
Definition find_locale (n : pstr) : option locale :=
  find (fun L => pstr_eqb (pstr_of_string (l_name L)) n) all_locales.

Definition load (name : pstr) : result locale :=
  match find_locale (normalize_locale name) with
  | Some L => Ok L
  | None => Raise E_ValueError
  end.

(* ------------------------------------------------------------------ operations of a session *)
Inductive sop :=
| SSet (name : pstr)                                            (* pendulum.set_locale(name) *)
| SGet                                                          (* pendulum.get_locale() *)
| SLoad (name : pstr)                                           (* pendulum.locale(name)._locale: fills Locale._cache *)
| SFmt (loc : option pstr) (d : comp) (is_now absolute invert : bool)   (* pendulum.format_diff(diff, is_now, absolute[, loc]) *)
| SWords (loc : option pstr) (d : comp) (us : Z) (sep : pstr)   (* Duration.in_words / Interval.in_words([loc], sep) *)
| STok (loc : option pstr) (tok month dow day hour : Z).        (* dt.format(token[, locale=loc]) *)

(* the default locale of the process when it starts: pendulum._LOCALE = "en" *)
Definition initial : pstr := [101; 110].

(* the name an operation renders with: its own argument, else the configured one *)
Definition eff (st : pstr) (loc : option pstr) : pstr := match loc with Some n => n | None => st end.

(* one operation: (state afterwards, what the call returned or raised); set_locale returns None, rendered as "" *)
Definition step (st : pstr) (o : sop) : pstr * result pstr :=
  match o with
  | SSet n => match load n with Ok _ => (n, Ok []) | Raise e => (st, Raise e) end
  | SGet => (st, Ok st)
  | SLoad n => (st, bind (load n) (fun L => Ok (pstr_of_string (l_name L))))
  | SFmt loc d is_now absolute invert => (st, bind (load (eff st loc)) (fun L => format L d is_now absolute invert))
  | SWords loc d us sep => (st, bind (load (eff st loc)) (fun L => in_words L d us sep))
  | STok loc tok month dow day hour => (st, bind (load (eff st loc)) (fun L => token L tok month dow day hour))
  end.

Fixpoint run (st : pstr) (ops : list sop) : list (result pstr) :=
  match ops with
  | [] => []
  | o :: r => let '(st', out) := step st o in out :: run st' r
  end.

Fixpoint final (st : pstr) (ops : list sop) : pstr :=
  match ops with
  | [] => st
  | o :: r => final (fst (step st o)) r
  end.

(* what the state SHOULD be, said without the machine: the name of the last set_locale of the history whose name loads *)
Definition loads (n : pstr) : bool := match load n with Ok _ => true | Raise _ => false end.
Fixpoint last_good_set (ops : list sop) (acc : pstr) : pstr :=
  match ops with
  | [] => acc
  | SSet n :: r => last_good_set r (if loads n then n else acc)
  | _ :: r => last_good_set r acc
  end.
