(* Model/DispatchC12.v — entry point for running the C12 models on integer argument lists.
   A zone is passed as  init :: n :: t1 :: o1 :: ... (Model/TzDispatch.v parse_zone), then the arguments.
   A DateTime result is the group [code; W; fold; utcoffset] (code 0) or [1; exn code; 0; 0]. *)
From Coq Require Import ZArith List Bool.
From PV Require Import Lib.PyBase Spec.Cal Spec.Zone Model.TzConvert Model.TzDispatch Model.StartEndBase Model.StartEnd.
Import ListNotations.
Open Scope Z_scope.

Definition grp (v : dtv) (r : result (Z * bool)) : list Z :=
  match r with
  | Ok (W, f) => [0; W; Z.b2z f; if v_kind v =? 0 then 0 else off_local (v_zone v) (W / MEG) f]
  | Raise e => [1; exn_code e; 0; 0]
  end.
(* op applied to the result of op (idempotence probe) *)
Definition twice (op : dtv -> result (Z * bool)) (v : dtv) : result (Z * bool) :=
  match op v with Ok r => op (upd v r) | Raise e => Raise e end.
(* a DateTime-valued intermediate result (previous()/next()) as a group *)
Definition grpv (v : dtv) (r : result dtv) : list Z :=
  match r with Ok v' => grp v (Ok (v_W v', v_fold v')) | Raise e => grp v (Raise e) end.
Definition grpd (r : result Z) : list Z := match r with Ok n => [0; n] | Raise e => [1; exn_code e] end.
Definition twiced (op : Z -> result Z) (n : Z) : result Z := match op n with Ok r => op r | Raise e => Raise e end.

Definition dispatch (fn : Z) (args : list Z) : list Z :=
  match parse_zone args with
  | None => [9]
  | Some (z, rest) =>
    match fn, rest with
    | 1 (* dt_start_end *), [kind; W; f; u; ws; we] =>
        let v := mkdtv z kind W (zb f) in
        0 :: grp v (dt_start_of ws u v) ++ grp v (dt_end_of we u v)
          ++ grp v (twice (dt_start_of ws u) v) ++ grp v (twice (dt_end_of we u) v)
    | 2 (* date_start_end *), [n; u; ws; we] =>
        0 :: grpd (date_start_of ws u n) ++ grpd (date_end_of we u n)
          ++ grpd (twiced (date_start_of ws u) n) ++ grpd (twiced (date_end_of we u) n)
    | 3 (* unit_id *), [u; ws; W] => [0; unit_id u ws W]
    | 4 (* render *), [U] => let '(W, f) := render z U in [0; W; Z.b2z f]
    | 5 (* dt_week_walk *), [kind; W; f; ws; we] =>
        (* the walks under start_of('week') / end_of('week') observed on their own: previous(ws) and next(we), keep_time=False *)
        let v := mkdtv z kind W (zb f) in
        0 :: grpv v (dt_previous v ws) ++ grpv v (dt_next v we)
    | _, _ => [9]
    end
  end.
