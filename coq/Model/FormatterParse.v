(* Model/FormatterParse.v — executable model of Formatter.parse (from_format): re.escape, tokenisation of the escaped
   format by _FROM_FORMAT_RE, _replace_tokens (pattern assembly), a backtracking regex matcher for the assembled pattern
   (anchored re.search, then the un-anchored re.sub pass that calls _get_parsed_values on every match),
   _get_parsed_value / _get_parsed_locale_value and _check_parsed.
   `Raise E_OutOfFuel` means "outside the modelled fragment" (dispatch answers [2]); the harness never sends such inputs.
   Assumptions (listed in tools/props/C08.py): \d is ASCII [0-9]; int() gets ASCII digits; non-ASCII lower-casing (token a)
   is not modelled.  The timestamp tokens X / x are modelled for integer text below 10^15 in absolute value (what format()
   renders): float(text) is exact there and str() of the float has the digits of text/1 resp. text/1000, see ts_of_text;
   X with a fraction part is outside the fragment.  The broken-down time comes from helpers.local_time — the translated
   pure-Python function (Gen/Helpers.v py_local_time) or the hand model of the compiled one (Model/RustHelpers.v
   rs_local_time), selected by the backend flag.  No proofs here. *)
From Coq Require Import ZArith List Bool.
From PV Require Import Lib.PyBase Spec.Cal Gen.RustConstants Model.FormatterBase Gen.FormatterTables Gen.LocaleTables Model.Formatter.
From PV Require Import Gen.Helpers Model.RustHelpers.
Import ListNotations.
Open Scope Z_scope.

Definition Unsupported {A} : result A := Raise E_OutOfFuel.

Definition memZ (c : Z) (l : list Z) : bool := existsb (Z.eqb c) l.

(* ------------------------------------------------------------------ re.escape *)
(* _special_chars_map of CPython's re module: ()[]{}?*+-|^$\.&~# \t\n\r\v\f *)
Definition re_special : list Z := [40;41;91;93;123;125;63;42;43;45;124;94;36;92;46;38;126;35;32;9;10;13;11;12].
Definition re_escape (s : str) : str := flat_map (fun c => if memZ c re_special then [92; c] else [c]) s.

(* ------------------------------------------------------------------ _FROM_FORMAT_RE over the escaped format
   r"(?<!\\\[)" + _TOKENS + r"(?!\\\])".  Alternation binds weakest, so the look-behind guards only the first alternative
   (the [..] escape) and the look-ahead only the last one (the token letters): a token may not be followed by "\]";
   a failed look-ahead makes the matcher backtrack to the next token candidate in priority order. *)
Definition starts_esc_rb (s : str) : bool := match s with 92 :: 93 :: _ => true | _ => false end.

Fixpoint first_token_la (toks : list str) (s : str) : option (str * str) :=
  match toks with
  | [] => None
  | t :: rest => match strip_prefix t s with
                 | Some r => if starts_esc_rb r then first_token_la rest s else Some (t, r)
                 | None => first_token_la rest s
                 end
  end.

Inductive fpiece := FBracket (body : str) | FEsc (c : Z) | FTok (t : str) | FLit (c : Z).

(* before = the text already scanned, reversed (for the look-behind) *)
Fixpoint ff_tokenize (fuel : nat) (before s : str) : list fpiece :=
  match fuel with
  | O => []
  | S f =>
    match s with
    | [] => []
    | c :: t =>
      let blocked := match before with 91 :: 92 :: _ => true | _ => false end in
      match (if (c =? 91) && negb blocked then bracket_body t else None) with
      | Some (body, rest) => FBracket body :: ff_tokenize f (93 :: rev body ++ c :: before) rest
      | None =>
        match escape_at s with
        | Some (e, rest) => FEsc e :: ff_tokenize f (e :: c :: before) rest
        | None =>
          match first_token_la format_tokens s with
          | Some (tok, rest) => FTok tok :: ff_tokenize f (rev tok ++ before) rest
          | None => FLit c :: ff_tokenize f (c :: before) t
          end
        end
      end
    end
  end.

(* ------------------------------------------------------------------ _replace_tokens: pattern assembly *)
Inductive pel := PLitC (c : Z) | PGroup (tok : str) (r : re).

Definition is_alnum (c : Z) : bool :=
  ((48 <=? c) && (c <=? 57)) || ((65 <=? c) && (c <=? 90)) || ((97 <=? c) && (c <=? 122)) || (c =? 95) || (127 <? c).
(* characters that mean something in a regex when they appear unescaped *)
Definition regex_meta : list Z := [40;41;91;93;123;125;63;42;43;124;94;36;92;46].

(* a locale word spliced into the pattern without escaping: '.' is the only metacharacter that occurs (generator checks) *)
Definition word_re (w : str) : re := fold_right (fun c acc => Seq (if c =? 46 then Any else Chr c) acc) Eps w.
Fixpoint alt_of (l : list re) : option re :=
  match l with
  | [] => None
  | [r] => Some r
  | r :: t => match alt_of t with Some a => Some (Alt r a) | None => Some r end
  end.

Definition ascii_lower (c : Z) : Z := if (65 <=? c) && (c <=? 90) then c + 32 else c.
Definition all_ascii (s : str) : bool := forallb (fun c => c <? 128) s.

Definition digit : re := Cls false [(48, 57)].

Definition translation_table (loc : locale_data) (key : str) : option (list (Z * str)) :=
  if str_eqb key [109;111;110;116;104;115;46;119;105;100;101] then l_months_wide loc                                   (* months.wide *)
  else if str_eqb key [109;111;110;116;104;115;46;97;98;98;114;101;118;105;97;116;101;100] then l_months_abbr loc       (* months.abbreviated *)
  else if str_eqb key [100;97;121;115;46;119;105;100;101] then l_days_wide loc                                          (* days.wide *)
  else if str_eqb key [100;97;121;115;46;97;98;98;114;101;118;105;97;116;101;100] then l_days_abbr loc                  (* days.abbreviated *)
  else if str_eqb key [100;97;121;115;46;115;104;111;114;116] then l_days_short loc                                     (* days.short *)
  else None.

(* the candidates of a localizable token *)
Definition localizable_candidates (loc : locale_data) (k : lkind) : result (list re) :=
  match k with
  | LNone => Raise E_AttributeError                        (* locale.translation(None) is None; None.values() *)
  | LKey key => match translation_table loc key with
                | None => Raise E_AttributeError
                | Some tbl => Ok (map (fun kv => word_re (snd kv)) tbl)
                end
  | LDoOrdinal => match l_ordinal_tbl loc with
                  | None => Raise E_AttributeError
                  | Some tbl => Ok (map (fun kv => Seq digit (Seq (Star digit) (word_re (snd kv)))) tbl)
                  end
  | LAmPm => match l_am loc, l_pm loc with
             | Some a, Some p => Ok [word_re a; word_re p]
             | _, _ => Raise E_TypeError
             end
  | LAmPmLower => match l_am loc, l_pm loc with
                  | Some a, Some p => if all_ascii a && all_ascii p then Ok [word_re (map ascii_lower a); word_re (map ascii_lower p)]
                                      else Unsupported
                  | _, _ => Raise E_AttributeError
                  end
  end.

Definition replace_token (loc : locale_data) (p : fpiece) : result (list pel) :=
  match p with
  | FLit c => if memZ c regex_meta then Unsupported else Ok [PLitC c]
  | FBracket _ => Unsupported                               (* the raw body would be spliced into the pattern *)
  | FEsc c => if (c =? 91) || (c =? 93) then Ok []
              else if is_alnum c then Unsupported else Ok [PLitC c]
  | FTok tok =>
    match assoc tok localizable_tokens with
    | Some k =>
      bind (localizable_candidates loc k) (fun cands =>
        match alt_of cands with None => Raise E_ValueError | Some r => Ok [PGroup tok r] end)
    | None =>
      if negb (mem_str tok regex_token_keys) then Raise E_ValueError      (* Unsupported token *)
      else match assoc tok regex_tokens with
           | Some (Some r) => Ok [PGroup tok r]
           | _ => Raise E_ValueError
           end
    end
  end.

Fixpoint assemble (loc : locale_data) (ps : list fpiece) : result (list pel) :=
  match ps with
  | [] => Ok []
  | p :: rest => bind (replace_token loc p) (fun a => bind (assemble loc rest) (fun b => Ok (a ++ b)))
  end.

Definition pattern_re (els : list pel) : re :=
  fold_right (fun e acc => Seq (match e with PLitC c => Chr c | PGroup tok r => Grp tok r end) acc) Eps els.

Fixpoint group_names (els : list pel) : list str :=
  match els with [] => [] | PLitC _ :: t => group_names t | PGroup tok _ :: t => tok :: group_names t end.

Fixpoint has_dup (l : list str) : bool :=
  match l with [] => false | x :: t => mem_str x t || has_dup t end.

(* ------------------------------------------------------------------ backtracking matcher (continuation passing) *)
Definition caps := list (str * str).

Definition in_ranges (c : Z) (rs : list (Z * Z)) : bool := existsb (fun r => (fst r <=? c) && (c <=? snd r)) rs.

Section Matcher.
  Context {A : Type}.

  Fixpoint mre (r : re) (s : str) (cs : caps) (k : str -> caps -> option A) {struct r} : option A :=
    match r with
    | Eps => k s cs
    | Chr c => match s with x :: t => if x =? c then k t cs else None | [] => None end
    | Any => match s with x :: t => if x =? 10 then None else k t cs | [] => None end
    | Cls neg rs => match s with x :: t => if xorb neg (in_ranges x rs) then k t cs else None | [] => None end
    | Seq a b => mre a s cs (fun s' cs' => mre b s' cs' k)
    | Alt a b => match mre a s cs k with Some x => Some x | None => mre b s cs k end
    | Rep r' lo hi =>
      (fix rep (lo hi : nat) (s : str) (cs : caps) {struct hi} : option A :=
         match hi with
         | O => k s cs
         | S hi' =>
           match mre r' s cs (fun s' cs' => rep (Nat.pred lo) hi' s' cs') with
           | Some x => Some x
           | None => match lo with O => k s cs | S _ => None end
           end
         end) lo hi s cs
    | Star r' =>
      (fix star (n : nat) (s : str) (cs : caps) {struct n} : option A :=
         match n with
         | O => k s cs
         | S n' =>
           match mre r' s cs (fun s' cs' => if (length s' <? length s)%nat then star n' s' cs' else None) with
           | Some x => Some x
           | None => k s cs
           end
         end) (length s) s cs
    | Grp name r' => mre r' s cs (fun s' cs' => k s' ((name, firstn (length s - length s')%nat s) :: cs'))
    end.
End Matcher.

(* re.search("^" + pattern + "$", time): '$' matches at the end or before a final newline *)
Definition at_end (s : str) : bool := match s with [] => true | [10] => true | _ => false end.
Definition search_anchored (r : re) (s : str) : bool :=
  match mre r s [] (fun s' _ => if at_end s' then Some tt else None) with Some _ => true | None => false end.

(* re.sub(pattern, callback, time): successive leftmost non-overlapping matches; every match's groups are handed to _get_parsed_values *)
Fixpoint sub_matches (fuel : nat) (r : re) (s : str) : option (list caps) :=
  match fuel with
  | O => Some []
  | S f =>
    match mre r s [] (fun s' cs => Some (s', cs)) with
    | Some (s', cs) =>
      if (length s' <? length s)%nat then
        match sub_matches f r s' with Some l => Some (cs :: l) | None => None end
      else None                                   (* an empty match: outside the modelled fragment *)
    | None => match s with [] => Some [] | _ :: t => sub_matches f r t end
    end
  end.

(* ------------------------------------------------------------------ parsed values *)
Inductive tzv := TzFixed (off : Z) | TzNamed (name : str).

Record parsed := mkparsed {
  p_year : option Z; p_month : option Z; p_day : option Z; p_hour : option Z; p_minute : option Z; p_second : option Z;
  p_micro : option Z; p_tz : option tzv; p_quarter : option Z; p_dow : option Z; p_doy : option Z; p_pm : option bool;
  (* parsed["timestamp"], a float in the code: kept as (math.floor(ts), the microseconds _check_parsed reads off str(ts)) *)
  p_ts : option (Z * Z) }.

Definition parsed0 : parsed := mkparsed None None None None None None None None None None None None None.

Definition set_year v p := mkparsed v (p_month p) (p_day p) (p_hour p) (p_minute p) (p_second p) (p_micro p) (p_tz p) (p_quarter p) (p_dow p) (p_doy p) (p_pm p) (p_ts p).
Definition set_month v p := mkparsed (p_year p) v (p_day p) (p_hour p) (p_minute p) (p_second p) (p_micro p) (p_tz p) (p_quarter p) (p_dow p) (p_doy p) (p_pm p) (p_ts p).
Definition set_day v p := mkparsed (p_year p) (p_month p) v (p_hour p) (p_minute p) (p_second p) (p_micro p) (p_tz p) (p_quarter p) (p_dow p) (p_doy p) (p_pm p) (p_ts p).
Definition set_hour v p := mkparsed (p_year p) (p_month p) (p_day p) v (p_minute p) (p_second p) (p_micro p) (p_tz p) (p_quarter p) (p_dow p) (p_doy p) (p_pm p) (p_ts p).
Definition set_minute v p := mkparsed (p_year p) (p_month p) (p_day p) (p_hour p) v (p_second p) (p_micro p) (p_tz p) (p_quarter p) (p_dow p) (p_doy p) (p_pm p) (p_ts p).
Definition set_second v p := mkparsed (p_year p) (p_month p) (p_day p) (p_hour p) (p_minute p) v (p_micro p) (p_tz p) (p_quarter p) (p_dow p) (p_doy p) (p_pm p) (p_ts p).
Definition set_micro v p := mkparsed (p_year p) (p_month p) (p_day p) (p_hour p) (p_minute p) (p_second p) v (p_tz p) (p_quarter p) (p_dow p) (p_doy p) (p_pm p) (p_ts p).
Definition set_tz v p := mkparsed (p_year p) (p_month p) (p_day p) (p_hour p) (p_minute p) (p_second p) (p_micro p) v (p_quarter p) (p_dow p) (p_doy p) (p_pm p) (p_ts p).
Definition set_quarter v p := mkparsed (p_year p) (p_month p) (p_day p) (p_hour p) (p_minute p) (p_second p) (p_micro p) (p_tz p) v (p_dow p) (p_doy p) (p_pm p) (p_ts p).
Definition set_dow v p := mkparsed (p_year p) (p_month p) (p_day p) (p_hour p) (p_minute p) (p_second p) (p_micro p) (p_tz p) (p_quarter p) v (p_doy p) (p_pm p) (p_ts p).
Definition set_doy v p := mkparsed (p_year p) (p_month p) (p_day p) (p_hour p) (p_minute p) (p_second p) (p_micro p) (p_tz p) (p_quarter p) (p_dow p) v (p_pm p) (p_ts p).
Definition set_pm v p := mkparsed (p_year p) (p_month p) (p_day p) (p_hour p) (p_minute p) (p_second p) (p_micro p) (p_tz p) (p_quarter p) (p_dow p) (p_doy p) v (p_ts p).
Definition set_ts v p := mkparsed (p_year p) (p_month p) (p_day p) (p_hour p) (p_minute p) (p_second p) (p_micro p) (p_tz p) (p_quarter p) (p_dow p) (p_doy p) (p_pm p) v.

(* int(s) for ASCII input: surrounding blanks, optional sign, at least one digit *)
Definition is_digit (c : Z) : bool := (48 <=? c) && (c <=? 57).
Definition value_of_digits (s : str) : Z := fold_left (fun a c => a * 10 + (c - 48)) s 0.
Fixpoint drop_blanks (s : str) : str := match s with 32 :: t => drop_blanks t | _ => s end.
Definition py_int (s : str) : option Z :=
  let s1 := rev (drop_blanks (rev (drop_blanks s))) in
  let '(neg, ds) := match s1 with 45 :: t => (true, t) | 43 :: t => (false, t) | _ => (false, s1) end in
  match ds with
  | [] => None
  | _ => if forallb is_digit ds then Some (if neg then - value_of_digits ds else value_of_digits ds) else None
  end.

Definition contains (c : Z) (s : str) : bool := memZ c s.

Fixpoint split_colon (s : str) : list str :=
  match s with
  | [] => [[]]
  | c :: t => if c =? 58 then [] :: split_colon t
              else match split_colon t with h :: r => (c :: h) :: r | [] => [[c]] end
  end.

(* the "ZZ"/"Z" branch of _get_parsed_value *)
Definition parse_offset (value : str) : result Z :=
  let negative := match value with 45 :: _ => true | _ => false end in
  let tz := skipn 1 value in
  let hm : result (str * str) :=
    if negb (contains 58 tz) then
      let tz' := if (length tz =? 2)%nat then tz ++ [48; 48] else tz in
      Ok (firstn 2 tz', firstn 2 (skipn 2 tz'))
    else match split_colon tz with [h; m] => Ok (h, m) | _ => Raise E_ValueError end in
  bind hm (fun '(h, m) =>
    match py_int h, py_int m with
    | Some hh, Some mm => let off := (hh * 60 + mm) * 60 in Ok (if negative then -1 * off else off)
    | _, _ => Raise E_ValueError
    end).

(* the timestamp tokens.  parsed["timestamp"] = float(text) / d (d = 1 for X, 1000 for x); _check_parsed then computes
     str_us = str(parsed["timestamp"]); microseconds = int(str_us.split(".")[1].ljust(6, "0")) if "." in str_us else 0
   and hands the float to helpers.local_time, which starts with math.floor.  For integer text n with |n| < 10^15:
   float(n) = n exactly (|n| < 2^53); n / 1e3 is the double nearest to the decimal n/1000, which has at most 15 significant
   digits, so repr() prints exactly that decimal (DBL_DIG = 15; fixed notation since 1e-4 < 0.001 <= |n/1000| < 1e16, or "0.0"):
   the text after the point is the three digits of |n| mod 1000 without trailing zeros (or "0"), i.e. microseconds =
   (|n| mod 1000) * 1000 — read off the ABSOLUTE value — while math.floor gives n // 1000.  The correspondence run compares
   this with the implementation on every timestamp the streams render. *)
Definition ts_limit : Z := 1000000000000000.
Definition ts_of_text (d : Z) (value : str) : option (Z * Z) :=
  if contains 46 value then None                                   (* X with a fraction part: not modelled *)
  else match py_int value with
       | Some n =>
         if Z.abs n <? ts_limit then
           if d =? 1 then Some (n, 0)
           else if d =? 1000 then Some (n / 1000, (Z.abs n mod 1000) * 1000)
           else None
         else None
       | None => None
       end.

(* Formatter._get_parsed_value; zones = the members of pendulum.timezones() that the harness supplies *)
Definition get_parsed_value (zones : list str) (tok value : str) (p : parsed) : result parsed :=
  match assoc tok parse_tokens with
  | None => Raise E_KeyError
  | Some (PFloat d) =>
    (* "X": float(ts), "x": float(ts) / 1e3.  None of the earlier branches of the elif chain applies to these two tokens
       ("Y", "D", "H", "m", "s", "S" do not occur in them), so the value lands in parsed["timestamp"] *)
    if str_eqb tok [88] || str_eqb tok [120] then
      match ts_of_text d value with Some ts => Ok (set_ts (Some ts) p) | None => Unsupported end
    else Unsupported
  | Some pk =>
    let num : result Z := match pk with
                          | PInt k c => match py_int value with Some v => Ok (v * k + c) | None => Raise E_ValueError end
                          | _ => Unsupported end in
    if contains 89 tok then                                                     (* "Y" in token *)
      bind num (fun v => let v := if str_eqb tok [89; 89] then (if v <=? 68 then v + 2000 else v + 1900) else v in
                         Ok (set_year (Some v) p))
    else if str_eqb tok [81] then bind num (fun v => Ok (set_quarter (Some v) p))
    else if str_eqb tok [77; 77] || str_eqb tok [77] then bind num (fun v => Ok (set_month (Some v) p))
    else if str_eqb tok [68; 68; 68; 68] || str_eqb tok [68; 68; 68] then bind num (fun v => Ok (set_doy (Some v) p))
    else if contains 68 tok then bind num (fun v => Ok (set_day (Some v) p))
    else if contains 72 tok then bind num (fun v => Ok (set_hour (Some v) p))
    else if str_eqb tok [104; 104] || str_eqb tok [104] then
      bind num (fun v => if 12 <? v then Raise E_ValueError else Ok (set_hour (Some v) p))
    else if contains 109 tok then bind num (fun v => Ok (set_minute (Some v) p))
    else if contains 115 tok then bind num (fun v => Ok (set_second (Some v) p))
    else if contains 83 tok then bind num (fun v => Ok (set_micro (Some v) p))
    else if str_eqb tok [100] || str_eqb tok [69] then bind num (fun v => Ok (set_dow (Some v) p))
    else if str_eqb tok T_ZZ || str_eqb tok T_Z then
      match pk with PStr => bind (parse_offset value) (fun off => Ok (set_tz (Some (TzFixed off)) p)) | _ => Unsupported end
    else if str_eqb tok [122] then
      if mem_str value zones then Ok (set_tz (Some (TzNamed value)) p) else Raise E_ValueError
    else Ok p
  end.

(* Locale.match_translation: {v: k for k, v in translations.items()}[value] — the LAST key carrying the value *)
Definition match_translation (tbl : option (list (Z * str))) (value : str) : result (option Z) :=
  match tbl with
  | None => Raise E_AttributeError
  | Some l => Ok (fold_left (fun acc kv => if str_eqb (snd kv) value then Some (fst kv) else acc) l None)
  end.

Fixpoint leading_digits (s : str) : str :=
  match s with c :: t => if is_digit c then c :: leading_digits t else [] | [] => [] end.

(* Formatter._get_parsed_locale_value *)
Definition get_parsed_locale_value (loc : locale_data) (tok value : str) (p : parsed) : result parsed :=
  if str_eqb tok T_MMMM then bind (match_translation (l_months_wide loc) value) (fun v => Ok (set_month v p))
  else if str_eqb tok T_MMM then bind (match_translation (l_months_abbr loc) value) (fun v => Ok (set_month v p))
  else if str_eqb tok T_Do then
    match leading_digits value with [] => Raise E_AttributeError | ds => Ok (set_day (Some (value_of_digits ds)) p) end
  else if str_eqb tok T_dddd then bind (match_translation (l_days_wide loc) value) (fun v => Ok (set_dow v p))
  else if str_eqb tok T_ddd then bind (match_translation (l_days_abbr loc) value) (fun v => Ok (set_dow v p))
  else if str_eqb tok T_dd then bind (match_translation (l_days_short loc) value) (fun v => Ok (set_dow v p))
  else if str_eqb tok T_a || str_eqb tok T_A then
    match l_am loc, l_pm loc with
    | Some am, Some pm =>
      let lower := str_eqb tok T_a in
      if lower && negb (all_ascii am && all_ascii pm && all_ascii value) then Unsupported
      else
        let f := if lower then map ascii_lower else (fun s => s) in
        if str_eqb (f value) (f am) then Ok (set_pm (Some false) p)
        else if str_eqb (f value) (f pm) then Ok (set_pm (Some true) p)
        else Raise E_ValueError
    | _, _ => Unsupported
    end
  else Raise E_ValueError.

(* Formatter._get_parsed_values: the groups in definition order *)
Fixpoint get_parsed_values (zones : list str) (loc : locale_data) (names : list str) (cs : caps) (p : parsed) : result parsed :=
  match names with
  | [] => Ok p
  | tok :: rest =>
    match assoc tok cs with
    | None => Unsupported                                  (* a group that did not take part in the match *)
    | Some value =>
      bind (if existsb (fun kv => str_eqb tok (fst kv)) localizable_tokens
            then get_parsed_locale_value loc tok value p else get_parsed_value zones tok value p)
           (get_parsed_values zones loc rest cs)
    end
  end.

Fixpoint fold_matches (zones : list str) (loc : locale_data) (names : list str) (ms : list caps) (p : parsed) : result parsed :=
  match ms with
  | [] => Ok p
  | cs :: rest => bind (get_parsed_values zones loc names cs p) (fold_matches zones loc names rest)
  end.

(* ------------------------------------------------------------------ _check_parsed *)
Record pnow := mknow { n_year : Z; n_month : Z; n_day : Z }.

(* the result dictionary: year month day hour minute second microsecond tz *)
Definition validated := (Z * Z * Z * Z * Z * Z * Z * option tzv)%type.

(* pendulum.datetime(y, m, d): ValueError outside 1..9999 or for an impossible date *)
Definition date_ok (y m d : Z) : bool := (1 <=? y) && (y <=? 9999) && valid_dateb y m d.

(* pendulum.parse(f"{year}-{doy:>03d}") — the ISO ordinal date.  Python parser: day of year within the year;
   Rust parser (rust/src/parsing.rs ordinal_to_ymd): the loop over MONTHS_OFFSETS with `ord <= MONTHS_OFFSETS[leap][i]`
   (finding rs-ordinal-month-end repaired; with the former `<` the last day of every month came out as day 0 of the
   following month, which was rejected). *)
Definition doy_to_md_py (y doy : Z) : result (Z * Z) :=
  if (1 <=? doy) && (doy <=? days_in_year y) then Ok (md_of_yday y doy) else Raise E_ParserError.

Fixpoint rs_ord_loop (fuel : nat) (offs : list Z) (i ord : Z) : option (Z * Z) :=
  match fuel with
  | O => None
  | S f => if ord <=? tidx offs i then Some (i - 1, ord - tidx offs (i - 1)) else rs_ord_loop f offs (i + 1) ord
  end.
Definition doy_to_md_rs (y doy : Z) : result (Z * Z) :=
  if (1 <=? doy) && (doy <=? days_in_year y) then
    match rs_ord_loop 13 (tidx2 RS_MONTHS_OFFSETS (Z.b2z (is_leap y))) 1 doy with
    | Some (m, d) => if valid_dateb y m d then Ok (m, d) else Raise E_ParserError
    | None => Raise E_ParserError
    end
  else Raise E_ParserError.

Definition or_else (o : option Z) (d : Z) : Z := match o with Some v => if v =? 0 then d else v | None => d end.

(* tuple comparison (hour, minute, second, microsecond) >= (13, 0, 0, 0) with None members: the first unequal pair decides *)
Fixpoint tuple_ge (a : list (option Z)) (b : list Z) : result bool :=
  match a, b with
  | x :: a', y :: b' =>
    match x with
    | Some v => if v =? y then tuple_ge a' b' else Ok (y <? v)
    | None => Raise E_TypeError
    end
  | _, _ => Ok true
  end.

(* the part of _check_parsed after the timestamp test *)
Definition check_parsed_fields (rs : bool) (p : parsed) (now : pnow) : result validated :=
  (* quarter *)
  bind (match p_quarter p with
        | None => Ok (p_year p, p_month p, p_day p)
        | Some q =>
          let y := match p_year p with Some y => y | None => n_year now end in
          if negb (date_ok y 1 1) then (match p_year p with Some _ => Raise E_ValueError | None => Unsupported end)
          else if (1 <=? q) && (q <=? 4) then Ok (Some y, Some (3 * (q - 1) + 1), Some 1)
          else Unsupported                       (* the `while dt.quarter != q` loop runs off the calendar *)
        end) (fun '(vy, vm, vd) =>
  let year := match vy with Some y => y | None => n_year now end in
  (* day of year *)
  bind (match p_doy p with
        | None => Ok (vm, vd)
        | Some doy =>
          if (1000 <=? year) && (year <=? 9999) && (0 <=? doy) then
            bind ((if rs then doy_to_md_rs else doy_to_md_py) year doy) (fun '(m, d) => Ok (Some m, Some d))
          else Unsupported
        end) (fun '(vm, vd) =>
  (* day of week *)
  bind (match p_dow p with
        | None => Ok (year, vm, vd)
        | Some dow =>
          let m := or_else vm (n_month now) in
          let d := or_else vd (n_day now) in
          if negb (date_ok year m d) then Raise E_ValueError
          else if (dow <? 0) || (6 <? dow) then Raise E_ValueError
          else
            let n := ymd2ord year m d in
            let target := n - weekday0 n + dow in
            if (target <? 1) || (3652059 <? target) then Unsupported
            else let '(y', m', d') := ord2ymd target in Ok (y', Some m', Some d')
        end) (fun '(year, vm, vd) =>
  (* meridiem *)
  bind (match p_pm p with
        | None => Ok (p_hour p)
        | Some pm =>
          match p_hour p with
          | None => Raise E_ValueError
          | Some h =>
            bind (tuple_ge [Some h; p_minute p; p_second p; p_micro p] [13; 0; 0; 0]) (fun ge =>
              if ge then Raise E_ValueError else Ok (Some (h mod 12 + (if pm then 12 else 0))))
          end
        end) (fun vh =>
  let month := match vm with
               | Some m => m
               | None => match p_year p with Some _ => or_else (p_month p) 1 | None => or_else (p_month p) (n_month now) end
               end in
  let day := match vd with
             | Some d => d
             | None => match p_year p, p_month p with
                       | None, None => or_else (p_day p) (n_day now)
                       | _, _ => or_else (p_day p) 1
                       end
             end in
  let dflt o := match o with Some v => v | None => 0 end in
  Ok (year, month, day, dflt vh, dflt (p_minute p), dflt (p_second p), dflt (p_micro p), p_tz p))))).

(* "If timestamp has been specified we use it and don't go any further": the broken-down UTC time of
   helpers.local_time(parsed["timestamp"], 0, microseconds) and tz = None, whatever the other tokens said.
   Seconds outside 0001-01-01T00:00:00 .. 9999-12-31T23:59:59 are outside the modelled fragment (the compiled function
   computes the year in usize). *)
Definition ts_min : Z := -62135596800.
Definition ts_max : Z := 253402300799.
Definition local_time_of (rs : bool) (secs us : Z) : option (Z * Z * Z * Z * Z * Z * Z) :=
  if rs then rs_local_time secs 0 us else py_local_time secs 0 us.

Definition check_parsed (rs : bool) (p : parsed) (now : pnow) : result validated :=
  match p_ts p with
  | Some (secs, us) =>
    if (ts_min <=? secs) && (secs <=? ts_max) then
      match local_time_of rs secs us with
      | Some (y, m, d, hh, mi, ss, u) => Ok (y, m, d, hh, mi, ss, u, None)
      | None => Unsupported
      end
    else Unsupported
  | None => check_parsed_fields rs p now
  end.

(* ------------------------------------------------------------------ Formatter.parse *)
(* what happens after the pattern matched: re.sub hands every match to _get_parsed_values, then _check_parsed *)
Definition parse_finish (rs : bool) (zones : list str) (loc : locale_data) (names : list str) (ms : list caps) (now : pnow) : result validated :=
  bind (fold_matches zones loc names ms parsed0) (fun p => check_parsed rs p now).

(* the assembled pattern of a format in a locale: group names in order and the regex *)
Definition parse_pattern (loc : locale_data) (fmt : str) : result (list str * re) :=
  let escaped := re_escape fmt in
  bind (assemble loc (ff_tokenize (S (length escaped)) [] escaped)) (fun els => Ok (group_names els, pattern_re els)).

Definition parse (rs : bool) (zones : list str) (lname : str) (now : pnow) (time fmt : str) : result validated :=
  let escaped := re_escape fmt in
  let pieces := ff_tokenize (S (length escaped)) [] escaped in
  if forallb (fun p => match p with FLit _ => true | _ => false end) pieces then Raise E_ValueError   (* if not tokens *)
  else
    match find_locale lname with
    | None => Raise E_ValueError
    | Some loc =>
      bind (assemble loc pieces) (fun els =>
        let names := group_names els in
        if has_dup names then Raise E_Exception                      (* re.error: redefinition of group name *)
        else
          let r := pattern_re els in
          if negb (search_anchored r time) then Raise E_ValueError
          else
            match sub_matches (S (length time)) r time with
            | None => Unsupported
            | Some ms => parse_finish rs zones loc names ms now
            end)
    end.
