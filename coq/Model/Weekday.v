(* Model/Weekday.v — executable model of pendulum's weekday navigation (property C16):
   Date.next/previous/first_of/last_of/nth_of and the _first_of_*/_last_of_*/_nth_of_* helpers (src/pendulum/date.py),
   and the DateTime variants (src/pendulum/datetime.py) for naive / UTC / fixed-offset instances, where
   DateTime.create attaches the zone without changing a field.  No proofs here (Proofs/C16Facts.v).
   The bodies follow the Python statement by statement; every primitive names the Python expression it stands for.
   Tied to /repo by the correspondence run of tools/props/C16.py (both backends) and, for the loop skeletons of
   next/previous and the unit arithmetic, by the translation Gen/WeekdayNav.v (Proofs/C16Gen.v proves them equal). *)
From Coq Require Import ZArith List Bool.
From PV Require Import Lib.PyBase Spec.Cal Gen.DateGetters.
Import ListNotations.
Open Scope Z_scope.

(* ------------------------------------------------------------------ stdlib primitives *)
Definition MAXORD : Z := 3652059.              (* date(9999, 12, 31).toordinal() *)

(* datetime.date(y, m, d): ValueError outside year 1..9999, month 1..12, day 1..dim *)
Definition date_new (y m d : Z) : result pdate :=
  if (1 <=? y) && (y <=? 9999) && valid_dateb y m d then Ok (mkdate y m d) else Raise E_ValueError.

Definition date_ord (p : pdate) : Z := ymd2ord (d_year p) (d_month p) (d_day p).

Definition pdate_of3 (t : Z * Z * Z) : pdate := let '(y, m, d) := t in mkdate y m d.

(* date.fromordinal-style result of `date + timedelta`: OverflowError("date value out of range") outside 1..MAXORD *)
Definition date_of_ord (n : Z) : result pdate :=
  if (1 <=? n) && (n <=? MAXORD) then Ok (pdate_of3 (ord2ymd n)) else Raise E_OverflowError.

(* Date.add(days=k): add_duration(date(y,m,d), days=k) = date.replace(same fields) + timedelta(days=k) *)
Definition date_add_days (p : pdate) (k : Z) : result pdate := date_of_ord (date_ord p + k).

(* Date.day_of_week = WeekDay(self.weekday()): Monday = 0 .. Sunday = 6 *)
Definition dow (p : pdate) : Z := weekday0 (date_ord p).

(* Date.days_in_month = calendar.monthrange(year, month)[1] *)
Definition days_in_month (p : pdate) : Z := dim (d_year p) (d_month p).

(* Date.set / Date.replace with some fields given *)
Definition date_set_day (p : pdate) (d : Z) : result pdate := date_new (d_year p) (d_month p) d.
Definition date_set_month (p : pdate) (m : Z) : result pdate := date_new (d_year p) m (d_day p).
Definition date_set_ymd (p : pdate) (y m d : Z) : result pdate := date_new y m d.

(* calendar.Calendar(calendar.MONDAY).monthdayscalendar(y, m) — what the month helpers read: list of week rows laid out from
   Monday, 0 outside the month (= calendar.monthcalendar(y, m) under the default calendar.firstweekday(); the helpers are
   modelled under every other process-wide setting in Model/WeekdayZone.v (B), proved equal in Proofs/C16FirstWeekday.v) *)
Definition mc_first (y m : Z) : Z := weekday0 (ymd2ord y m 1).
Definition mc_rows (y m : Z) : Z := (mc_first y m + dim y m + 6) / 7.
Definition mc_cell (y m row col : Z) : Z :=
  let v := row * 7 + col - mc_first y m + 1 in
  if (1 <=? v) && (v <=? dim y m) then v else 0.
(* month[i][c] with Python's index rules on both levels (negative counts from the end, IndexError outside) *)
Definition mc_get (y m i c : Z) : result Z :=
  let n := mc_rows y m in
  let r := if i <? 0 then i + n else i in
  let cc := if c <? 0 then c + 7 else c in
  if (r <? 0) || (n <=? r) || (cc <? 0) || (7 <=? cc) then Raise E_IndexError else Ok (mc_cell y m r cc).

(* dt.format("YYYY-MM") == check  (Date)  and  dt.format("%Y-%M") == check  (DateTime; the formatter renders
   "%" + year + "-%" + month, unpadded): both string equalities hold iff year and month are equal — validated by the
   `format-check` stream of the harness *)
Definition same_year_month (a b : pdate) : bool := (d_year a =? d_year b) && (d_month a =? d_month b).

(* units *)
Definition U_MONTH : Z := 0.
Definition U_QUARTER : Z := 1.
Definition U_YEAR : Z := 2.

(* `if day_of_week < WeekDay.MONDAY or day_of_week > WeekDay.SUNDAY: raise ValueError` *)
Definition wd_invalid (wd : Z) : bool := (wd <? 0) || (wd >? 6).

(* ------------------------------------------------------------------ Date *)
(* while dt.day_of_week != day_of_week: dt = dt.add(days=1)   — fuel counts evaluations of the loop test *)
Fixpoint d_next_loop (fuel : nat) (wd : Z) (dt : pdate) : result pdate :=
  match fuel with
  | O => Raise E_OutOfFuel
  | S f => if negb (dow dt =? wd) then bind (date_add_days dt 1) (d_next_loop f wd) else Ok dt
  end.

Definition d_next (self : pdate) (wd : option Z) : result pdate :=
  let w := match wd with None => dow self | Some w => w end in
  if wd_invalid w then Raise E_ValueError else
  bind (date_add_days self 1) (d_next_loop 7 w).

Fixpoint d_prev_loop (fuel : nat) (wd : Z) (dt : pdate) : result pdate :=
  match fuel with
  | O => Raise E_OutOfFuel
  | S f => if negb (dow dt =? wd) then bind (date_add_days dt (-1)) (d_prev_loop f wd) else Ok dt
  end.

Definition d_previous (self : pdate) (wd : option Z) : result pdate :=
  let w := match wd with None => dow self | Some w => w end in
  if wd_invalid w then Raise E_ValueError else
  bind (date_add_days self (-1)) (d_prev_loop 7 w).

Definition d_first_of_month (self : pdate) (wd : option Z) : result pdate :=
  match wd with
  | None => date_set_day self 1
  | Some w =>
    let y := d_year self in let m := d_month self in
    bind (mc_get y m 0 w) (fun c0 =>
    if c0 >? 0 then date_set_day self c0
    else bind (mc_get y m 1 w) (fun c1 => date_set_day self c1))
  end.

Definition d_last_of_month (self : pdate) (wd : option Z) : result pdate :=
  match wd with
  | None => date_set_day self (days_in_month self)
  | Some w =>
    let y := d_year self in let m := d_month self in
    bind (mc_get y m (-1) w) (fun c0 =>
    if c0 >? 0 then date_set_day self c0
    else bind (mc_get y m (-2) w) (fun c1 => date_set_day self c1))
  end.

Definition d_first_of_quarter (self : pdate) (wd : option Z) : result pdate :=
  bind (date_set_ymd self (d_year self) (py_Date_quarter self * 3 - 2) 1) (fun x => d_first_of_month x wd).
Definition d_last_of_quarter (self : pdate) (wd : option Z) : result pdate :=
  bind (date_set_ymd self (d_year self) (py_Date_quarter self * 3) 1) (fun x => d_last_of_month x wd).
Definition d_first_of_year (self : pdate) (wd : option Z) : result pdate :=
  bind (date_set_month self 1) (fun x => d_first_of_month x wd).
Definition d_last_of_year (self : pdate) (wd : option Z) : result pdate :=
  bind (date_set_month self 12) (fun x => d_last_of_month x wd).

Definition d_first_of (u : Z) (self : pdate) (wd : option Z) : result pdate :=
  if u =? U_MONTH then d_first_of_month self wd
  else if u =? U_QUARTER then d_first_of_quarter self wd
  else if u =? U_YEAR then d_first_of_year self wd
  else Raise E_ValueError.
Definition d_last_of (u : Z) (self : pdate) (wd : option Z) : result pdate :=
  if u =? U_MONTH then d_last_of_month self wd
  else if u =? U_QUARTER then d_last_of_quarter self wd
  else if u =? U_YEAR then d_last_of_year self wd
  else Raise E_ValueError.

(* for _ in range(k): dt = dt.next(day_of_week) *)
Fixpoint d_iter_next (k : nat) (wd : Z) (dt : pdate) : result pdate :=
  match k with
  | O => Ok dt
  | S k' => bind (d_next dt (Some wd)) (d_iter_next k' wd)
  end.
(* range(nth - (1 if dt.day_of_week == day_of_week else 0)): number of iterations (range of a negative number is empty) *)
Definition nth_iters (nth wd : Z) (dt : pdate) : nat :=
  Z.to_nat (nth - (if dow dt =? wd then 1 else 0)).

(* the _nth_of_* helpers return Self | None *)
Definition d_nth_of_month (self : pdate) (nth wd : Z) : result (option pdate) :=
  if nth =? 1 then bind (d_first_of U_MONTH self (Some wd)) (fun r => Ok (Some r)) else
  bind (d_first_of U_MONTH self None) (fun dt0 =>
  bind (d_iter_next (nth_iters nth wd dt0) wd dt0) (fun dt =>
  if same_year_month dt dt0 then bind (date_set_day self (d_day dt)) (fun r => Ok (Some r)) else Ok None)).

Definition d_nth_of_quarter (self : pdate) (nth wd : Z) : result (option pdate) :=
  if nth =? 1 then bind (d_first_of U_QUARTER self (Some wd)) (fun r => Ok (Some r)) else
  bind (date_set_ymd self (d_year self) (py_Date_quarter self * 3) 1) (fun dtq =>
  let last_month := d_month dtq in
  let year := d_year dtq in
  bind (d_first_of U_QUARTER dtq None) (fun dt0 =>
  bind (d_iter_next (nth_iters nth wd dt0) wd dt0) (fun dt =>
  if (last_month <? d_month dt) || negb (year =? d_year dt) then Ok None
  else bind (date_set_ymd self (d_year self) (d_month dt) (d_day dt)) (fun r => Ok (Some r))))).

Definition d_nth_of_year (self : pdate) (nth wd : Z) : result (option pdate) :=
  if nth =? 1 then bind (d_first_of U_YEAR self (Some wd)) (fun r => Ok (Some r)) else
  bind (d_first_of U_YEAR self None) (fun dt0 =>
  let year := d_year dt0 in
  bind (d_iter_next (nth_iters nth wd dt0) wd dt0) (fun dt =>
  if negb (year =? d_year dt) then Ok None
  else bind (date_set_ymd self (d_year self) (d_month dt) (d_day dt)) (fun r => Ok (Some r)))).

(* nth_of:
     try: dt = getattr(self, f"_nth_of_{unit}")(nth, day_of_week)
     except OverflowError: dt = None        # the loop walked past 9999-12-31: no such occurrence in the unit
   every other exception of the helper propagates; the unit test (`raise ValueError`) stands before the `try` and the
   helpers never raise OverflowError for an unknown unit, so it may be modelled inside *)
Definition overflow_to_none {A : Type} (r : result (option A)) : result (option A) :=
  match r with Raise E_OverflowError => Ok None | _ => r end.

(* `if not dt: raise PendulumException` (a date object is always truthy) *)
Definition d_nth_of (u : Z) (self : pdate) (nth wd : Z) : result pdate :=
  let r := if u =? U_MONTH then overflow_to_none (d_nth_of_month self nth wd)
           else if u =? U_QUARTER then overflow_to_none (d_nth_of_quarter self nth wd)
           else if u =? U_YEAR then overflow_to_none (d_nth_of_year self nth wd)
           else Raise E_ValueError in
  bind r (fun o => match o with Some d => Ok d | None => Raise E_PendulumException end).

(* ------------------------------------------------------------------ DateTime (naive, UTC, fixed offsets) *)
(* fields: the date, the time of day in microseconds (hour, minute, second, microsecond), an opaque zone identifier *)
Record pdt := mkdt { t_date : pdate; t_tod : Z; t_zone : Z }.

(* DateTime.create(y, m, d, time, tz=zone): datetime.datetime(...) validates; tz.convert of a naive value in a zone
   without transitions only attaches the zone *)
Definition t_create (y m d tod zone : Z) : result pdt :=
  bind (date_new y m d) (fun p => Ok (mkdt p tod zone)).

(* start_of("day") = at(0,0,0,0) = set(hour=0,...) *)
Definition t_start_of_day (x : pdt) : result pdt :=
  t_create (d_year (t_date x)) (d_month (t_date x)) (d_day (t_date x)) 0 (t_zone x).

(* add(days=k): naive datetime + timedelta(days=k) (OverflowError outside the date range), then create(..., tz=self.tz) *)
Definition t_add_days (x : pdt) (k : Z) : result pdt :=
  bind (date_add_days (t_date x) k) (fun p => t_create (d_year p) (d_month p) (d_day p) (t_tod x) (t_zone x)).

Definition t_set_day (x : pdt) (d : Z) : result pdt :=
  t_create (d_year (t_date x)) (d_month (t_date x)) d (t_tod x) (t_zone x).
Definition t_set_month (x : pdt) (m : Z) : result pdt :=
  t_create (d_year (t_date x)) m (d_day (t_date x)) (t_tod x) (t_zone x).
(* on(y, m, d) = set(year=, month=, day=) ; set(day=1, month=m) *)
Definition t_on (x : pdt) (y m d : Z) : result pdt := t_create y m d (t_tod x) (t_zone x).

Fixpoint t_next_loop (fuel : nat) (wd : Z) (dt : pdt) : result pdt :=
  match fuel with
  | O => Raise E_OutOfFuel
  | S f => if negb (dow (t_date dt) =? wd) then bind (t_add_days dt 1) (t_next_loop f wd) else Ok dt
  end.

Definition t_next (self : pdt) (wd : option Z) (keep_time : bool) : result pdt :=
  let w := match wd with None => dow (t_date self) | Some w => w end in
  if wd_invalid w then Raise E_ValueError else
  bind (if keep_time then Ok self else t_start_of_day self) (fun dt =>
  bind (t_add_days dt 1) (t_next_loop 7 w)).

Fixpoint t_prev_loop (fuel : nat) (wd : Z) (dt : pdt) : result pdt :=
  match fuel with
  | O => Raise E_OutOfFuel
  | S f => if negb (dow (t_date dt) =? wd) then bind (t_add_days dt (-1)) (t_prev_loop f wd) else Ok dt
  end.

Definition t_previous (self : pdt) (wd : option Z) (keep_time : bool) : result pdt :=
  let w := match wd with None => dow (t_date self) | Some w => w end in
  if wd_invalid w then Raise E_ValueError else
  bind (if keep_time then Ok self else t_start_of_day self) (fun dt =>
  bind (t_add_days dt (-1)) (t_prev_loop 7 w)).

Definition t_first_of_month (self : pdt) (wd : option Z) : result pdt :=
  bind (t_start_of_day self) (fun dt =>
  match wd with
  | None => t_set_day dt 1
  | Some w =>
    let y := d_year (t_date dt) in let m := d_month (t_date dt) in
    bind (mc_get y m 0 w) (fun c0 =>
    if c0 >? 0 then t_set_day dt c0
    else bind (mc_get y m 1 w) (fun c1 => t_set_day dt c1))
  end).

Definition t_last_of_month (self : pdt) (wd : option Z) : result pdt :=
  bind (t_start_of_day self) (fun dt =>
  match wd with
  | None => t_set_day dt (days_in_month (t_date self))
  | Some w =>
    let y := d_year (t_date dt) in let m := d_month (t_date dt) in
    bind (mc_get y m (-1) w) (fun c0 =>
    if c0 >? 0 then t_set_day dt c0
    else bind (mc_get y m (-2) w) (fun c1 => t_set_day dt c1))
  end).

Definition t_first_of_quarter (self : pdt) (wd : option Z) : result pdt :=
  bind (t_on self (d_year (t_date self)) (py_Date_quarter (t_date self) * 3 - 2) 1) (fun x => t_first_of_month x wd).
Definition t_last_of_quarter (self : pdt) (wd : option Z) : result pdt :=
  bind (t_on self (d_year (t_date self)) (py_Date_quarter (t_date self) * 3) 1) (fun x => t_last_of_month x wd).
Definition t_first_of_year (self : pdt) (wd : option Z) : result pdt :=
  bind (t_set_month self 1) (fun x => t_first_of_month x wd).
Definition t_last_of_year (self : pdt) (wd : option Z) : result pdt :=
  bind (t_set_month self 12) (fun x => t_last_of_month x wd).

Definition t_first_of (u : Z) (self : pdt) (wd : option Z) : result pdt :=
  if u =? U_MONTH then t_first_of_month self wd
  else if u =? U_QUARTER then t_first_of_quarter self wd
  else if u =? U_YEAR then t_first_of_year self wd
  else Raise E_ValueError.
Definition t_last_of (u : Z) (self : pdt) (wd : option Z) : result pdt :=
  if u =? U_MONTH then t_last_of_month self wd
  else if u =? U_QUARTER then t_last_of_quarter self wd
  else if u =? U_YEAR then t_last_of_year self wd
  else Raise E_ValueError.

(* for _ in range(k): dt = dt.next(day_of_week)      (keep_time defaults to False) *)
Fixpoint t_iter_next (k : nat) (wd : Z) (dt : pdt) : result pdt :=
  match k with
  | O => Ok dt
  | S k' => bind (t_next dt (Some wd) false) (t_iter_next k' wd)
  end.

Definition t_nth_of_month (self : pdt) (nth wd : Z) : result (option pdt) :=
  if nth =? 1 then bind (t_first_of U_MONTH self (Some wd)) (fun r => Ok (Some r)) else
  bind (t_first_of U_MONTH self None) (fun dt0 =>
  bind (t_iter_next (nth_iters nth wd (t_date dt0)) wd dt0) (fun dt =>
  if same_year_month (t_date dt) (t_date dt0)
  then bind (t_set_day self (d_day (t_date dt))) (fun r => bind (t_start_of_day r) (fun r' => Ok (Some r')))
  else Ok None)).

Definition t_nth_of_quarter (self : pdt) (nth wd : Z) : result (option pdt) :=
  if nth =? 1 then bind (t_first_of U_QUARTER self (Some wd)) (fun r => Ok (Some r)) else
  (* dt = self.set(day=1, month=self.quarter * 3) *)
  bind (t_on self (d_year (t_date self)) (py_Date_quarter (t_date self) * 3) 1) (fun dtq =>
  let last_month := d_month (t_date dtq) in
  let year := d_year (t_date dtq) in
  bind (t_first_of U_QUARTER dtq None) (fun dt0 =>
  bind (t_iter_next (nth_iters nth wd (t_date dt0)) wd dt0) (fun dt =>
  if (last_month <? d_month (t_date dt)) || negb (year =? d_year (t_date dt)) then Ok None
  else bind (t_on self (d_year (t_date self)) (d_month (t_date dt)) (d_day (t_date dt))) (fun r =>
       bind (t_start_of_day r) (fun r' => Ok (Some r')))))).

Definition t_nth_of_year (self : pdt) (nth wd : Z) : result (option pdt) :=
  if nth =? 1 then bind (t_first_of U_YEAR self (Some wd)) (fun r => Ok (Some r)) else
  bind (t_first_of U_YEAR self None) (fun dt0 =>
  let year := d_year (t_date dt0) in
  bind (t_iter_next (nth_iters nth wd (t_date dt0)) wd dt0) (fun dt =>
  if negb (year =? d_year (t_date dt)) then Ok None
  else bind (t_on self (d_year (t_date self)) (d_month (t_date dt)) (d_day (t_date dt))) (fun r =>
       bind (t_start_of_day r) (fun r' => Ok (Some r'))))).

(* the same `try … except OverflowError: dt = None`, then `if not dt: raise PendulumException` (a datetime object is always truthy) *)
Definition t_nth_of (u : Z) (self : pdt) (nth wd : Z) : result pdt :=
  let r := if u =? U_MONTH then overflow_to_none (t_nth_of_month self nth wd)
           else if u =? U_QUARTER then overflow_to_none (t_nth_of_quarter self nth wd)
           else if u =? U_YEAR then overflow_to_none (t_nth_of_year self nth wd)
           else Raise E_ValueError in
  bind r (fun o => match o with Some d => Ok d | None => Raise E_PendulumException end).
