(* Model/DurParsePrims.v — C13: two CPython primitives in the result monad, over the binary64 layer of Model/DurParse.v, as the TRANSLATED
   post-match code of _parse_iso8601_duration (Gen/DurParsePy.v) uses them.  No proofs here.
     py_int_truediv_c a b   int / int (long_true_divide) for a >= 0 and b > 0 — the only shape the translator emits it for
                            (int(<digit string>) / <positive constant>): OverflowError when the quotient is not a finite double
     py_float_of_int_c n    int -> float conversion inside a float operation: OverflowError when it does not fit *)
From Coq Require Import ZArith List Bool Floats.SpecFloat.
From PV Require Import Lib.PyBase Model.DurParse.
Open Scope Z_scope.

Definition py_int_truediv_c (a b : Z) : result spec_float :=
  match int_truediv a b with
  | S754_infinity _ | S754_nan => Raise E_OverflowError
  | q => Ok q
  end.

Definition py_float_of_int_c (n : Z) : result spec_float :=
  let x := f_of_Z n in if f_is_finite x then Ok x else Raise E_OverflowError.
