(* Model/LocalTzConfig.v — C03: the process-wide LOCAL-TIMEZONE configuration from which the zone of a DateTime can come (tz="local",
   pendulum.local(), pendulum.now(), tz=None in _safe_timezone).  Transcribed from tz/local_timezone.py:
     _mock_local_timezone, _local_timezone (module globals, both None at import)
     get_local_timezone(): the mock if one is set; otherwise the system zone, read ONCE (_get_system_timezone()) and cached
     set_local_timezone(mock=None): sets / clears the mock, the cache is untouched
     test_local_timezone(mock): set_local_timezone(mock); yield; set_local_timezone()   (clears: a mock set earlier is NOT restored)
   A zone is named by an integer (the harness maps the integers to tz objects: named zones, file-loaded zones without key, fixed offsets);
   `sys` is what the system lookup (TZ=<path>, /etc/localtime) would answer at that moment.  Tied to /repo by the localtz-config stream of C03.
   No proofs here. *)
From Coq Require Import ZArith List Bool.
Import ListNotations.
Open Scope Z_scope.

Record ltz := mkltz { l_mock : option Z; l_cache : option Z }.

Definition ltz_init : ltz := mkltz None None.

Definition ltz_set (m : option Z) (s : ltz) : ltz := mkltz m (l_cache s).

Definition ltz_get (sys : Z) (s : ltz) : Z * ltz :=
  match l_mock s with
  | Some m => (m, s)
  | None => match l_cache s with
            | Some c => (c, s)
            | None => (sys, mkltz None (Some sys))
            end
  end.

(* a history: pairs (code, argument)
     0 m   set_local_timezone(zone m)
     1 _   set_local_timezone()
     2 sys get_local_timezone() while the system lookup would answer sys          -> output: the zone returned
     3 m   with test_local_timezone(zone m): get_local_timezone()                 -> output: the zone returned inside the block *)
Fixpoint ltz_run (s : ltz) (ops : list Z) : list Z :=
  match ops with
  | 0 :: m :: rest => ltz_run (ltz_set (Some m) s) rest
  | 1 :: _ :: rest => ltz_run (ltz_set None s) rest
  | 2 :: sys :: rest => let '(z, s') := ltz_get sys s in z :: ltz_run s' rest
  | 3 :: m :: rest => let '(z, s') := ltz_get 0 (ltz_set (Some m) s) in z :: ltz_run (ltz_set None s') rest
  | _ => []
  end.
