(* Model/DispatchC14.v — entry point of the executable model of C14 (Model/Pickle.v).
   Encodings.  route: 0..5 pickle protocol, 6 copy.copy, 7 copy.deepcopy, 8 = no copy (observe the original).
   tzspec: [0] None | 1 :: key :: zone window (init :: n :: t1 :: o1 ...) Timezone | 2 :: offset :: len :: name chars FixedTimezone(offset, name)
           | 3 :: offset  FixedTimezone(offset) built by the model constructor (default name)
           | 4 :: offset  datetime.timezone(timedelta(seconds=offset)) | 5 :: key :: zone window  zoneinfo.ZoneInfo(key)  (standard-library tzinfos).
   endpoint: 0 :: ordinal (Date) | 1 :: W :: fold :: tzspec (DateTime).
   hist (Model/PickleHistory.v): route :: kind (1 dt | 3 time | 6 tz) :: n :: n history calls :: value body as in the entry `kind` :: m :: m later calls;
           a call: 1 :: off  pendulum.timezone(off) | 2 :: key  pendulum.timezone("<key>") | 3 :: tzspec  constructed directly | 4 :: route :: tzspec  copied
           | 5  another value copied (no output);  result 0 :: length-prefixed segments: one per history call, the original, the copy, one per later call.
   native endpoint (entry ivn, Model/PickleNative.v): 2 :: W :: fold :: tzspec  a standard-library datetime.datetime | 3 :: ordinal  a datetime.date; 0 / 1 as above.
   ivn: route :: utc_key :: pre :: absolute :: endpoint :: endpoint   (pre = 1: native operands converted by DateTime.instance BEFORE Interval is called: b - a, a.diff(b))
   dti: route :: utc_key :: W :: fold :: tzspec   pendulum.instance(datetime.datetime(fields, tzinfo=tzspec, fold=fold)), then copied.
   Results: 0 :: observation, [1; exn code], [9] bad call. *)
From Coq Require Import ZArith List Bool String.
From PV Require Import Lib.PyBase Spec.Cal Spec.Zone Spec.TdFloat Model.Duration Model.TzDispatch Gen.Reduce Model.Pickle Model.PickleHistory Model.PickleNative.
Import ListNotations.
Open Scope Z_scope.

Definition route_of (r : Z) : route := if r <? 6 then RPickle r else if r =? 6 then RCopy else RDeep.

Definition parse_tz (l : list Z) : option (tzv * zone * list Z) :=
  match l with
  | 0 :: r => Some (TzNone, fixed_zone 0, r)
  | 1 :: k :: r => match parse_zone r with Some (z, rest) => Some (TzNamed k, z, rest) | None => None end
  | 2 :: o :: n :: r => Some (TzFixed o (firstn (Z.to_nat n) r), fixed_zone o, skipn (Z.to_nat n) r)
  | 3 :: o :: r => match fixed_new [AInt o] [] with Ok t => Some (t, fixed_zone o, r) | Raise _ => None end
  | 4 :: o :: r => Some (TzForeign (StdOffset o), fixed_zone o, r)
  | 5 :: k :: r => match parse_zone r with Some (z, rest) => Some (TzForeign (StdZone k), z, rest) | None => None end
  | _ => None
  end.

Definition parse_ep (l : list Z) : option (ep * option (Z * zone) * list Z) :=
  match l with
  | 0 :: n :: r => Some (EpDate n, None, r)
  | 1 :: W :: f :: r =>
      match parse_tz r with
      | Some (t, z, rest) => Some (EpDt (mkdt W (zb f) t), match t with TzNamed k | TzForeign (StdZone k) => Some (k, z) | _ => None end, rest)
      | None => None
      end
  | _ => None
  end.

(* an endpoint that may be a standard-library value: (is_native, endpoint) *)
Definition parse_nep (l : list Z) : option ((bool * ep) * option (Z * zone) * list Z) :=
  match l with
  | 2 :: r => match parse_ep (1 :: r) with Some (e, z, rest) => Some ((true, e), z, rest) | None => None end
  | 3 :: r => match parse_ep (0 :: r) with Some (e, z, rest) => Some ((true, e), z, rest) | None => None end
  | _ => match parse_ep l with Some (e, z, rest) => Some ((false, e), z, rest) | None => None end
  end.
(* the tz database of one call: the windows that came with the endpoints; any other key (UTC) is the zone without transitions *)
Definition zdb_of (z1 z2 : option (Z * zone)) (k : Z) : zone :=
  let second := match z2 with Some (k2, w2) => if k =? k2 then w2 else fixed_zone 0 | None => fixed_zone 0 end in
  match z1 with Some (k1, w1) => if k =? k1 then w1 else second | None => second end.

Definition parse_op (l : list Z) : option (hop * list Z) :=
  match l with
  | 1 :: off :: r => Some (HTimezoneInt off, r)
  | 2 :: k :: r => Some (HTimezoneName k, r)
  | 3 :: r => match parse_tz r with Some (t, _, rest) => Some (HMakeTz t, rest) | None => None end
  | 4 :: rt :: r => match parse_tz r with Some (t, _, rest) => Some (HCopyTz (route_of rt) t, rest) | None => None end
  | 5 :: r => Some (HOther, r)
  | _ => None
  end.
Fixpoint parse_ops (n : nat) (l : list Z) : option (list hop * list Z) :=
  match n with
  | O => Some ([], l)
  | S k => match parse_op l with
           | Some (o, rest) => match parse_ops k rest with Some (os, rest') => Some (o :: os, rest') | None => None end
           | None => None
           end
  end.
(* the value of a hist call: what is copied, the zone behind its tzinfo, the remaining integers *)
Definition parse_hval (kind : Z) (l : list Z) : option (hval * zone * list Z) :=
  match kind, l with
  | 1, W :: f :: tzs => match parse_tz tzs with Some (t, z, rest) => Some (HvDt (mkdt W (zb f) t), z, rest) | None => None end
  | 3, T :: f :: tzs => match parse_tz tzs with Some (t, z, rest) => Some (HvTm (mktm T (zb f) t), z, rest) | None => None end
  | 6, tzs => match parse_tz tzs with Some (t, z, rest) => Some (HvTz t, z, rest) | None => None end
  | _, _ => None
  end.

Definition out {A} (obs : A -> list Z) (r : result A) : list Z :=
  match r with Ok v => 0 :: obs v | Raise e => [1; exn_code e] end.

Definition class_tables (c : Z) : list Z :=
  match c with
  | 0 => table_codes Date_mro Date_resolve | 1 => table_codes DateTime_mro DateTime_resolve
  | 2 => table_codes Time_mro Time_resolve | 3 => table_codes Duration_mro Duration_resolve
  | 4 => table_codes AbsoluteDuration_mro AbsoluteDuration_resolve | 5 => table_codes Interval_mro Interval_resolve
  | 6 => table_codes Timezone_mro Timezone_resolve | 7 => table_codes FixedTimezone_mro FixedTimezone_resolve
  | _ => []
  end.

Definition dispatch (fn : Z) (args : list Z) : list Z :=
  match fn, args with
  | 1 (* dt *), r :: W :: f :: tzs =>
      match parse_tz tzs with
      | Some (t, z, []) =>
          let v := mkdt W (zb f) t in
          out (dt_obs (fun _ => z)) (if r =? 8 then Ok v else dt_rebuild (route_of r) v)
      | _ => [9]
      end
  | 2 (* date *), [r; n] => out date_obs (if r =? 8 then Ok n else date_rebuild (route_of r) n)
  | 3 (* time *), r :: T :: f :: tzs =>
      match parse_tz tzs with
      | Some (t, _, []) => let v := mktm T (zb f) t in out tm_obs (if r =? 8 then Ok v else tm_rebuild (route_of r) v)
      | _ => [9]
      end
  | 4 (* dur *), [r; a; d; s; us; ms; mi; h; w; y; mo] =>
      out dur_public (bind (if zb a then absolute_duration_new d s us ms mi h w y mo else duration_new d s us ms mi h w y mo)
                           (fun x => if r =? 8 then Ok x else dur_rebuild (route_of r) x))
  | 5 (* iv *), r :: a :: eps =>
      match parse_ep eps with
      | Some (e1, z1, rest) =>
          match parse_ep rest with
          | Some (e2, z2, []) =>
              let zdb := fun k => match z1, z2 with
                                  | Some (k1, w1), Some (k2, w2) => if k =? k1 then w1 else w2
                                  | Some (_, w1), None => w1
                                  | None, Some (_, w2) => w2
                                  | None, None => fixed_zone 0
                                  end in
              out (iv_obs zdb) (bind (interval_new zdb e1 e2 (zb a)) (fun x => if r =? 8 then Ok x else iv_rebuild zdb (route_of r) x))
          | _ => [9]
          end
      | None => [9]
      end
  | 6 (* tz *), r :: tzs =>
      match parse_tz tzs with
      | Some (t, _, []) => out tz_obs (if r =? 8 then Ok t else tz_rebuild (route_of r) t)
      | _ => [9]
      end
  | 7 (* tables *), [c] => 0 :: class_tables c
  | 8 (* hist *), r :: kind :: nb :: rest =>
      match parse_ops (Z.to_nat nb) rest with
      | Some (before, rest1) =>
          match parse_hval kind rest1 with
          | Some (v, z, na :: rest2) =>
              match parse_ops (Z.to_nat na) rest2 with
              | Some (after, []) => 0 :: hres_codes (hist_run (fun _ => z) before (route_of r) v after)
              | _ => [9]
              end
          | _ => [9]
          end
      | None => [9]
      end
  | 9 (* ivn *), r :: utc :: pre :: a :: eps =>
      match parse_nep eps with
      | Some (e1, z1, rest) =>
          match parse_nep rest with
          | Some (e2, z2, []) =>
              let zdb := zdb_of z1 z2 in
              out (iv_obs zdb) (bind (interval_new_native zdb utc (zb pre) e1 e2 (zb a)) (fun x => if r =? 8 then Ok x else iv_rebuild zdb (route_of r) x))
          | _ => [9]
          end
      | None => [9]
      end
  | 10 (* dti *), r :: utc :: W :: f :: tzs =>
      match parse_tz tzs with
      | Some (t, z, []) =>
          let zdb := zdb_of (match t with TzNamed k | TzForeign (StdZone k) => Some (k, z) | _ => None end) None in
          out (dt_obs zdb) (bind (dt_instance zdb utc (mkdt W (zb f) t)) (fun v => if r =? 8 then Ok v else dt_rebuild (route_of r) v))
      | _ => [9]
      end
  | _, _ => [9]
  end.
