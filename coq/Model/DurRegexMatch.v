(* Model/DurRegexMatch.v — C13: the pure-Python duration parser with the regular expression EXECUTED instead of hand-matched.
   Gen/DurRegexAst.v is the AST of ISO8601_DURATION generated from /repo's pattern string through CPython's own pattern parser
   (unbounded repetitions bounded by a parameter, instantiated here with the length of the input); it is run by the span-tracking
   backtracking matcher of Model/RegexSpan.v (`re_match_sp`, the twin of Model/C07Regex.v's `re_match`).  The match object is
   converted to the record `dmatch` that Model/DurParse.v's post-match code `py_args` consumes: a group's text without its
   designator, split at the decimal separator, and its start index (m.start(name)).  No proofs here.
   Proofs/C13Regex.v proves `match_duration_re s = match_duration s` for EVERY string s (the hand-written matcher of
   Model/DurParse.v, which the correspondence run of ./check C13 exercises, IS the regular expression). *)
From Coq Require Import ZArith List Bool.
From PV Require Import Lib.PyBase Model.C07Regex Model.RegexSpan Gen.DurRegexAst Model.DurParse.
Import ListNotations.
Open Scope Z_scope.

(* a token group  \d+(?:[.,]\d+)?X  at span (start, len): integer digits, optional fraction digits, start index *)
Definition tok_of (s : list Z) (o : option span) : option tok :=
  match o with
  | None => None
  | Some (st, len) =>
      let txt := firstn (len - 1) (skipn st s) in
      let '(ds, r) := span_digits txt in
      Some (mk_tok ds (match r with [] => None | _ :: fs => Some fs end) (Z.of_nat st))
  end.

Definition dmatch_of (s : list Z) (sc : scaps) : dmatch :=
  mk_dmatch (tok_of s (nth G_DUR_weeks sc None)) (tok_of s (nth G_DUR_years sc None)) (tok_of s (nth G_DUR_months sc None))
            (tok_of s (nth G_DUR_days sc None))
            (match nth G_DUR_hms sc None with Some _ => true | None => false end)
            (tok_of s (nth G_DUR_hours sc None)) (tok_of s (nth G_DUR_minutes sc None)) (tok_of s (nth G_DUR_seconds sc None)).

(* ISO8601_DURATION.match(text), by running the generated regex *)
Definition match_duration_re (s : list Z) : option dmatch :=
  option_map (dmatch_of s) (re_match_sp (DUR_RE (length s)) DUR_NGROUPS s).

Definition py_native_re (s : list Z) : result (Z * durobs) :=
  match match_duration_re s with
  | None => Raise E_ValueError
  | Some m => bind (py_args m) (fun a =>
      duration_native (a_years a) (a_months a) (a_weeks a) (a_days a) (a_hours a) (a_minutes a) (a_seconds a) (a_us a))
  end.
Definition py_dur_re (s : list Z) : result durobs := bind (py_native_re s) (fun xo => Ok (snd xo)).
