(* Model/TzGlueObj.v — HAND-WRITTEN object model and NATIVE primitives for the machine translation of pendulum's own timezone glue
   (Gen/TzGlue.v, translated from /repo on every run by tools/vlib/gens/g15_tz_glue.py).  Executable definitions only, no proofs.
   The primitives are the native (CPython) operations the glue code calls; each names the theorem that ties it to CPython's own source:

   * a pendulum timezone object (gtz): identity tag, class (Timezone = a zoneinfo.ZoneInfo with the table gz_zone / FixedTimezone with the
     offset gz_off seconds, gz_zone = fixed_zone gz_off);
   * a datetime object, native or pendulum (gdt): wall microseconds since 0001-01-01 (Spec/Cal.v), fold (0/1), tzinfo; its fields
     dt.year .. dt.microsecond are fields_of_wall of the wall value;  THE CLASS OF THE OBJECT IS NOT MODELLED (native datetime vs DateTime);
   * a timedelta is its integer microsecond count (C11 spec_is_stdlib_timedelta_new: td_norm); .days / .seconds are td_norm's components;
   * zi_utcoffset     ZoneInfo.utcoffset(dt) = off_local at dt's wall second and fold        (C02 spec_is_stdlib_utcoffset)
   * zi_fromutc       ZoneInfo.fromutc(dt) = Spec/Zone.v render, OverflowError outside 1..9999 (C02 spec_is_stdlib_fromutc; microseconds carried)
   * nat_add          datetime + timedelta: wall + us, fold RESET to 0, tzinfo kept, OverflowError outside years 1..9999
                                                                                               (C11 spec_is_stdlib_datetime_add)
   * nat_new          datetime(y, m, d, h, mi, s, us, tzinfo, fold=): ValueError unless a valid date/time and fold in {0,1}
                                                                                               (C11: translated datetime.__new__)
   * g_set_fold / g_set_tz   dt.replace(fold=k) / dt.replace(tzinfo=tz) on an existing object (the field checks cannot fail)
   * g_add_duration   pendulum.helpers.add_duration = the TRANSLATION Gen/AddDuration.v on the naive value (result: naive, fold 0)
   * nat_utcfromtimestamp   datetime.utcfromtimestamp(n) for an integer n (ValueError outside years 1..9999; the platform-dependent
                      OverflowError/OSError for huge arguments is not modelled)
   The compositions that need pendulum's own methods (tzinfo.utcoffset / fromutc dispatch, datetime.utcoffset(), astimezone, a - b) are
   defined in the GENERATED file after the methods they dispatch to. *)
From Coq Require Import ZArith List Bool.
From PV Require Import Lib.PyBase Spec.Cal Spec.Zone Spec.NativeDT Gen.AddDuration.
Import ListNotations.
Open Scope Z_scope.

Record gtz := mkgtz { gz_id : Z; gz_fixed : bool; gz_off : Z; gz_zone : zone }.
Record gdt := mkgdt { g_wall : Z; g_fold : Z; g_tz : option gtz }.

(* pendulum.tz.UTC = Timezone("UTC"): a ZoneInfo without transitions at offset 0 (identity tag 0 is reserved for it) *)
Definition g_UTC : gtz := mkgtz 0 false 0 (fixed_zone 0).

Definition g_foldb (d : gdt) : bool := negb (g_fold d =? 0).
Definition g_year (d : gdt) : Z := let '(y, _, _, _, _, _, _) := fields_of_wall (g_wall d) in y.
Definition g_month (d : gdt) : Z := let '(_, m, _, _, _, _, _) := fields_of_wall (g_wall d) in m.
Definition g_day (d : gdt) : Z := let '(_, _, dd, _, _, _, _) := fields_of_wall (g_wall d) in dd.
Definition g_hour (d : gdt) : Z := let '(_, _, _, h, _, _, _) := fields_of_wall (g_wall d) in h.
Definition g_minute (d : gdt) : Z := let '(_, _, _, _, mi, _, _) := fields_of_wall (g_wall d) in mi.
Definition g_second (d : gdt) : Z := let '(_, _, _, _, _, s, _) := fields_of_wall (g_wall d) in s.
Definition g_microsecond (d : gdt) : Z := let '(_, _, _, _, _, _, us) := fields_of_wall (g_wall d) in us.

Definition g_set_fold (d : gdt) (k : Z) : gdt := mkgdt (g_wall d) k (g_tz d).
Definition g_set_tz (d : gdt) (tz : option gtz) : gdt := mkgdt (g_wall d) (g_fold d) tz.

Definition zi_utcoffset (tz : gtz) (d : gdt) : Z := MEG * off_local (gz_zone tz) (g_wall d / MEG) (g_foldb d).
Definition zi_fromutc (tz : gtz) (d : gdt) : result gdt :=
  let '(W', f') := render (gz_zone tz) (g_wall d) in
  if wall_in_range W' then Ok (mkgdt W' (Z.b2z f') (Some tz)) else Raise E_OverflowError.

Definition nat_add (d : gdt) (us : Z) : result gdt :=
  if wall_in_range (g_wall d + us) then Ok (mkgdt (g_wall d + us) 0 (g_tz d)) else Raise E_OverflowError.
(* datetime - x where x is None or a timedelta (None: TypeError) *)
Definition nat_sub_opt_td (d : gdt) (o : option Z) : result gdt :=
  match o with Some us => nat_add d (- us) | None => Raise E_TypeError end.

Definition nat_new (y m d h mi s us : Z) (tz : option gtz) (fold : Z) : result gdt :=
  if (1 <=? y) && (y <=? 9999) && valid_dateb y m d && (0 <=? h) && (h <=? 23) && (0 <=? mi) && (mi <=? 59) && (0 <=? s) && (s <=? 59)
     && (0 <=? us) && (us <=? 999999) && ((fold =? 0) || (fold =? 1))
  then Ok (mkgdt (wall_of y m d h mi s us) fold tz) else Raise E_ValueError.

Definition g_add_duration (d : gdt) (years months weeks days hours minutes seconds us : Z) : result gdt :=
  match py_add_duration (mkndt (g_wall d) true) years months weeks days hours minutes seconds us with
  | Ok r => Ok (mkgdt (n_wall r) 0 None)
  | Raise e => Raise e
  end.

Definition EPOCH_US_g : Z := 62135596800 * MEG.
Definition nat_utcfromtimestamp (n : Z) : result gdt :=
  let U := EPOCH_US_g + n * MEG in if wall_in_range U then Ok (mkgdt U 0 None) else Raise E_ValueError.
Definition g_EPOCH : gdt := mkgdt EPOCH_US_g 0 (Some g_UTC).      (* DateTime._EPOCH = datetime(1970, 1, 1, tzinfo=UTC) *)

Definition td_days_us (n : Z) : Z := n / us_per_day.
Definition td_seconds_us (n : Z) : Z := n mod us_per_day / MEG.
Definition opt_tz_truth (t : option gtz) : bool := match t with None => false | Some _ => true end.
Definition opt_td_truth (t : option Z) : bool := match t with None => false | Some o => negb (o =? 0) end.
Definition gtz_is (a b : gtz) : bool := gz_id a =? gz_id b.
Definition gz_utcoffset_us (tz : gtz) : Z := MEG * gz_off tz.     (* FixedTimezone._utcoffset = timedelta(seconds=offset) *)
Definition opt_tz_or (a b : option gtz) : option gtz := match a with Some _ => a | None => b end.   (* `a or b` on None / timezone objects *)

(* ---- operands of + / - and Date objects (DateTime / Date arithmetic entry points) ----
   gop: the right operand of `+` / `-`: its class (0 = a plain datetime.timedelta, 1 = a pendulum.Duration that is not an Interval,
   2 = a pendulum.Interval), its native timedelta value in microseconds, the VALUES its accessors years, months, weeks, remaining_days, hours,
   minutes, remaining_seconds, microseconds return (Model/Duration.v defines them for a Duration), and `_signature` as the list of the eight
   keyword values it was built with ([] when the attribute is missing: AbsoluteDuration).  delta.days of a timedelta = td_norm's days.
   gdate: a pendulum Date (or a native date) = the wall value of its midnight; date(y, m, d) / Date(y, m, d) = nat_date_new. *)
Record gop := mkgop { op_kind : Z; op_us : Z; op_years : Z; op_months : Z; op_weeks : Z; op_rdays : Z; op_hours : Z; op_minutes : Z;
                      op_rsecs : Z; op_micro : Z; op_sig : list Z }.
Definition op_days (o : gop) : Z := op_us o / us_per_day.
Record gdate := mkgdate { gd_wall : Z }.
Definition gd_year (d : gdate) : Z := let '(y, _, _, _, _, _, _) := fields_of_wall (gd_wall d) in y.
Definition gd_month (d : gdate) : Z := let '(_, m, _, _, _, _, _) := fields_of_wall (gd_wall d) in m.
Definition gd_day (d : gdate) : Z := let '(_, _, dd, _, _, _, _) := fields_of_wall (gd_wall d) in dd.
Definition nat_date_new (y m d : Z) : result gdate :=
  if (1 <=? y) && (y <=? 9999) && valid_dateb y m d then Ok (mkgdate ((ymd2ord y m d - 1) * us_per_day)) else Raise E_ValueError.
(* add_duration on a date: the TRANSLATION Gen/AddDuration.v with n_isdt = false *)
Definition g_add_duration_date (d : gdate) (years months weeks days : Z) : result gdate :=
  match py_add_duration (mkndt (gd_wall d) false) years months weeks days 0 0 0 0 with
  | Ok r => Ok (mkgdate (n_wall r))
  | Raise e => Raise e
  end.

(* ---- the tz ARGUMENT of _safe_timezone / DateTime.instance in all the kinds the code distinguishes (gtzarg) ----
   ta_kind: 0 a pendulum Timezone / FixedTimezone object (ta_tz); 3 a string naming a zone (ta_named = the cached object pendulum.timezone(name)
   returns); 4 an int number of hours (ta_hours); 5 a FOREIGN datetime.tzinfo object, described by what the code asks of it: hasattr(obj, "key")
   and the cached Timezone for obj.key, hasattr(obj, "localize") and the cached Timezone for obj.zone, obj.tzname(None) == "UTC", obj.utcoffset(dt)
   (None or microseconds); 6 / 7: the intermediate values the function rebinds obj to (a name taken from .key / .zone; an int offset in seconds).
   None and the string "local" (system local timezone) are OUT OF SCOPE.  pendulum.timezone(int) returns the FixedTimezone cached for that
   offset: g_fixed_tz (identity tag an injective function of the offset). *)
Record gtzarg := mkgtzarg { ta_kind : Z; ta_tz : gtz; ta_named : gtz; ta_hours : Z; ta_has_key : bool; ta_key_named : gtz;
                            ta_has_localize : bool; ta_zone_named : gtz; ta_tzname_utc : bool; ta_utcoffset : option Z; ta_offset : Z }.
Definition ta_name_spec (named : gtz) (o : gtzarg) : gtzarg :=
  mkgtzarg 6 (ta_tz o) named 0 false (ta_key_named o) false (ta_zone_named o) false None 0.
Definition ta_key (o : gtzarg) : gtzarg := ta_name_spec (ta_key_named o) o.
Definition ta_zone (o : gtzarg) : gtzarg := ta_name_spec (ta_zone_named o) o.
Definition ta_of_offset (secs : Z) (o : gtzarg) : gtzarg :=
  mkgtzarg 7 (ta_tz o) (ta_named o) 0 false (ta_key_named o) false (ta_zone_named o) false None secs.
Definition g_fixed_tz (off : Z) : gtz := mkgtz (1000000 + off) true off (fixed_zone off).
(* pendulum.timezone(name | int) on the value _safe_timezone ends with *)
Definition g_timezone (o : gtzarg) : gtz := if ta_kind o =? 7 then g_fixed_tz (ta_offset o) else ta_named o.
