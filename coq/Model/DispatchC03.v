(* Model/DispatchC03.v — the entries of Model/TzDispatch.v (same numbers and argument layout; repeated here because the extracted
   entry point must be the only function named `dispatch`) plus the float route of `dt +/- timedelta` (Model/FloatRoutes.v).
   A zone is passed as  init :: n :: t1 :: o1 :: ... ; a float as (tag, mantissa, exponent) = TdFloat.sf_code. *)
From Coq Require Import ZArith List Bool.
From Coq Require Import Floats.SpecFloat.
From PV Require Import Lib.PyBase Spec.Cal Spec.Zone Spec.NativeDT Spec.TdFloat Gen.AddDuration Model.TzConvert Model.TzDispatch Model.FloatRoutes Model.LocalTzConfig.
Import ListNotations.
Open Scope Z_scope.

Definition out_naive (r : result (Z * bool)) : list Z :=
  match r with Ok (W', f') => [0; W'; Z.b2z f'] | Raise e => [1; exn_code e] end.

Definition dispatch (fn : Z) (args : list Z) : list Z :=
  match parse_zone args with
  | None => [9]
  | Some (z, rest) =>
    match fn, rest with
    | 1 (* zone_probe *), [u; w] =>
        [0; off_utc z u; Z.b2z (fold_utc z u); off_local z w false; off_local z w true; Z.b2z (wf_zone z); Z.b2z (wf2_zone z)]
    | 2 (* create *), [fixed; W; f; r] => out_dt z (create z (zb fixed) W (zb f) (zb r))
    | 4 (* add_fixed *), [W; f; h; m; s; us] => out_dt z (add_fixed z W (zb f) h m s us)
    | 5 (* add_naive *), [W; f; y; mo; wk; d; h; m; s; us] =>
        match add_naive W (zb f) y mo wk d h m s us with Ok (W', f') => [0; W'; Z.b2z f'] | Raise e => [1; exn_code e] end
    | 6 (* add_calendar *), [fixed; W; y; mo; wk; d; h; m; s; us] => out_dt z (add_calendar z (zb fixed) W y mo wk d h m s us)
    | 7 (* int_timestamp *), [W; f] => [0; int_timestamp z W (zb f)]
    | 8 (* from_timestamp_int *), [isutc; n] => out_dt z (from_timestamp_int z (zb isutc) n)
    | 9 (* add_duration *), [W; isdt; y; mo; wk; d; h; m; s; us] =>
        match py_add_duration (mkndt W (zb isdt)) y mo wk d h m s us with Ok d' => [0; n_wall d'] | Raise e => [1; exn_code e] end
    | 3 (* in_tz *), _ =>
        match parse_zone rest with
        | Some (z2, [same; W; f]) => out_dt z2 (in_tz (zb same) z z2 W (zb f))
        | _ => [9]
        end
    | 20 (* add_timedelta *), [W; f; N] => out_dt z (add_timedelta z W (zb f) N)
    | 21 (* sub_timedelta *), [W; f; N] => out_dt z (sub_timedelta z W (zb f) N)
    | 22 (* add_timedelta_naive *), [W; f; N] => out_naive (add_timedelta_naive W (zb f) N)
    | 23 (* sub_timedelta_naive *), [W; f; N] => out_naive (sub_timedelta_naive W (zb f) N)
    | 24 (* float_route_us *), [t; m; e] =>
        match float_route_us (sf_decode t m e) with Ok n => [0; n] | Raise ex => [1; exn_code ex] end
    | 25 (* add_duration_float *), [W; t; m; e] =>
        match add_duration_float (mkndt W true) (sf_decode t m e) with Ok d => [0; n_wall d] | Raise ex => [1; exn_code ex] end
    | 26 (* add_seconds_float *), [W; f; t; m; e] => out_dt z (add_seconds_float z W (zb f) (sf_decode t m e))
    | 30 (* localtz_run *), ops => 0 :: ltz_run ltz_init ops
    | _, _ => [9]
    end
  end.
