(* Model/DiffHumansNative.v (C18) — differences whose operands are handed in as NATIVE values (stdlib datetime.datetime carrying a
   zoneinfo.ZoneInfo / datetime.timezone tzinfo, stdlib naive datetime, stdlib date):
     DateTime.diff_for_humans(native) / DateTime.diff(native)      = Interval(self, native, absolute=True)
     Date.diff_for_humans(native_date)                             = Interval(self, Date(y, m, d), absolute=True)
     pendulum.interval(x, y, absolute)                             = Interval(x, y, absolute), either endpoint native
   Interval sees such a pair TWICE (src/pendulum/interval.py):
     __new__   works on the values AS GIVEN (a0, b0): `absolute and start > end` swaps them and the elapsed Duration is end - start.
               A native value carries its own tzinfo object (never pendulum's), so CPython orders a pendulum value and a native one
               by INSTANT even when both are in one zone;
     __init__  replaces a native value by pendulum.instance(x) (a, b): a pendulum.DateTime — a SUBCLASS of datetime — whose tzinfo is
               pendulum's cached Timezone / FixedTimezone of the same name or offset (UTC for a naive value: instance(x, tz=UTC)), and
               hands THAT object to precise_diff (a pendulum operand is rebuilt as a plain datetime); `start > end` is evaluated again
               on (a, b): TypeError when one is naive and the other aware (a naive pendulum DateTime against a naive native one),
               wall-clock order when both now share one tzinfo object.
   So invert and the operands of precise_diff come from (a, b), the elapsed Duration (remaining_days' sign, remaining_seconds,
   microseconds) from (a0, b0).  The harness passes both views of each operand; they differ in has_tz / tz object id only.
   precise_diff is the C06 model of either backend: an operand that is a datetime SUBCLASS instance is a datetime (p_is_dt) for the
   compiled helper's get_tz_name / get_offset / field extraction alike.  No proofs here. *)
From Coq Require Import ZArith List Bool String.
From PV Require Import Lib.PyBase Spec.Cal Gen.Constants Gen.Helpers Model.PdBase Gen.PreciseDiff Model.RustPreciseDiff Model.PdInterval.
From PV Require Import Model.LocaleBase Gen.Locales Model.DiffFormat Model.DiffHumans.
Import ListNotations.
Open Scope Z_scope.

(* Interval(x, y, absolute) with x, y as given = (a0, b0) and as Interval.__init__ keeps them = (a, b): (components, invert) *)
Definition interval_native (rs absolute : bool) (a0 b0 a b : pdt) : result (ivc * bool) :=
  if negb (p_comparable a b) then Raise E_TypeError else
  let sw0 := absolute && p_gtb a0 b0 in
  let elapsed := if sw0 then iv_elapsed b0 a0 else iv_elapsed a0 b0 in
  let inv := p_gtb a b in
  let sw := absolute && inv in
  let s := if sw then b else a in
  let e := if sw then a else b in
  bind (pd_backend rs s e) (fun d => Ok (iv_components d elapsed, inv)).

Definition comp_of_ivc (c : ivc) : comp :=
  mkcomp (iv_years c) (iv_months c) (iv_weeks c) (iv_remaining_days c) (iv_hours c) (iv_minutes c) (iv_remaining_seconds c).

Definition diff_comps_native (rs absolute : bool) (a0 b0 a b : pdt) : result (comp * bool) :=
  bind (interval_native rs absolute a0 b0 a b) (fun ci => Ok (comp_of_ivc (fst ci), snd ci)).

(* pendulum.format_diff(Interval(x, y, iv_abs), False, absolute, locale); x.diff_for_humans(y, absolute, locale) is iv_abs = true *)
Definition format_diff_native (L : locale) (rs iv_abs : bool) (a0 b0 a b : pdt) (absolute : bool) : result pstr :=
  bind (diff_comps_native rs iv_abs a0 b0 a b) (fun ci => format L (fst ci) false absolute (snd ci)).

(* Interval(x, y, iv_abs).in_words(locale, separator) *)
Definition in_words_native (L : locale) (rs iv_abs : bool) (a0 b0 a b : pdt) (sep : pstr) : result pstr :=
  bind (interval_native rs iv_abs a0 b0 a b) (fun ci => in_words L (comp_of_ivc (fst ci)) (iv_microseconds (fst ci)) sep).

(* the view Interval.__new__ has of an operand whose __init__ view is d: its own tzinfo (present or not) and tzinfo object *)
Definition as_given (d : pdt) (has_tz : bool) (tzobj : Z) : pdt :=
  mkpdt (p_year d) (p_month d) (p_day d) (p_hour d) (p_minute d) (p_second d) (p_microsecond d) (p_offset d) has_tz (p_tzname d) tzobj (p_is_dt d).
