(* Model/PdForeign.v — C06: DateTime.add / a + Interval when the START carries a tzinfo that is NOT a pendulum Timezone / FixedTimezone
   (a zoneinfo.ZoneInfo, a pytz tzinfo, a hand-written tzinfo: what the class constructor DateTime(..., tzinfo=) and astimezone() leave on a
   pendulum DateTime).  For such a value `self.tz` is None although utcoffset() answers, and DateTime.add (src/pendulum/datetime.py) then
     - still moves to UTC first when no unit of variable length is given (offset = self.utcoffset(); current_dt - offset),
     - but returns through `if units_of_variable_length or self.tz is None: return create(..., tz=self.tz)`, i.e. WITHOUT moving back and
       without a timezone: a naive value whose fields are those add_duration left.
   (finding add-foreign-tzinfo-time-units of known_findings/C06.json).  Executable definitions only; entries py_rebuild_fs / rs_rebuild_fs of
   Model/DispatchC06.v; compared with the implementation by the interval-tzclass stream of tools/props/C06.py. *)
From Coq Require Import ZArith List Bool.
From PV Require Import Lib.PyBase Spec.Cal Gen.Constants Gen.Helpers Model.PdBase Gen.PreciseDiff Model.PdInterval Model.PdHistory.
Import ListNotations.
Open Scope Z_scope.

Definition dt_add_foreign (a : pdt) (years months weeks days hours minutes seconds us : Z) : result pdt :=
  let varlen := negb (years =? 0) || negb (months =? 0) || negb (weeks =? 0) || negb (days =? 0) in
  let off := p_utcoffset a in
  let w0 := if varlen then p_wall a else p_wall a - off * 1000000 in
  if negb (wall_in_range w0) then Raise E_OverflowError else
  pd_add_duration (as_naive a w0) years months weeks days hours minutes seconds us.

Definition dt_add_ivc_foreign (a : pdt) (c : ivc) : result pdt :=
  dt_add_foreign a (iv_years c) (iv_months c) (iv_weeks c) (iv_remaining_days c) (iv_hours c) (iv_minutes c) (iv_remaining_seconds c) (iv_microseconds c).

Definition rebuild_of_foreign (pd : result pdiff) (a b : pdt) : result pdt :=
  match interval_of pd a b with Raise e => Raise e | Ok c => dt_add_ivc_foreign a c end.

(* the same operand with another tzinfo OBJECT (another class answering the same name): everything but the identity *)
Definition retag (d : pdt) (i : Z) : pdt :=
  mkpdt (p_year d) (p_month d) (p_day d) (p_hour d) (p_minute d) (p_second d) (p_microsecond d) (p_offset d) (p_has_tz d) (p_tzname d) i (p_is_dt d).
