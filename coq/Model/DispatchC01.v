(* Model/DispatchC01.v — the entries of Model/TzDispatch.v (same numbers and argument layout; repeated here because the extracted
   entry point must be the only function named `dispatch`) plus the float route of from_timestamp(<float>) / timestamp() (Model/FloatRoutes.v).
   A zone is passed as  init :: n :: t1 :: o1 :: ... ; a float as (tag, mantissa, exponent) = TdFloat.sf_code. *)
From Coq Require Import ZArith List Bool.
From Coq Require Import Floats.SpecFloat.
From PV Require Import Lib.PyBase Spec.Cal Spec.Zone Spec.NativeDT Spec.TdFloat Gen.AddDuration Model.TzConvert Model.TzDispatch Model.FloatRoutes.
Import ListNotations.
Open Scope Z_scope.

Definition dispatch (fn : Z) (args : list Z) : list Z :=
  match parse_zone args with
  | None => [9]
  | Some (z, rest) =>
    match fn, rest with
    | 1 (* zone_probe *), [u; w] =>
        [0; off_utc z u; Z.b2z (fold_utc z u); off_local z w false; off_local z w true; Z.b2z (wf_zone z); Z.b2z (wf2_zone z)]
    | 2 (* create *), [fixed; W; f; r] => out_dt z (create z (zb fixed) W (zb f) (zb r))
    | 4 (* add_fixed *), [W; f; h; m; s; us] => out_dt z (add_fixed z W (zb f) h m s us)
    | 5 (* add_naive *), [W; f; y; mo; wk; d; h; m; s; us] =>
        match add_naive W (zb f) y mo wk d h m s us with Ok (W', f') => [0; W'; Z.b2z f'] | Raise e => [1; exn_code e] end
    | 6 (* add_calendar *), [fixed; W; y; mo; wk; d; h; m; s; us] => out_dt z (add_calendar z (zb fixed) W y mo wk d h m s us)
    | 7 (* int_timestamp *), [W; f] => [0; int_timestamp z W (zb f)]
    | 8 (* from_timestamp_int *), [isutc; n] => out_dt z (from_timestamp_int z (zb isutc) n)
    | 9 (* add_duration *), [W; isdt; y; mo; wk; d; h; m; s; us] =>
        match py_add_duration (mkndt W (zb isdt)) y mo wk d h m s us with Ok d' => [0; n_wall d'] | Raise e => [1; exn_code e] end
    | 3 (* in_tz *), _ =>
        match parse_zone rest with
        | Some (z2, [same; W; f]) => out_dt z2 (in_tz (zb same) z z2 W (zb f))
        | _ => [9]
        end
    | 20 (* from_timestamp_float *), [isutc; t; m; e] =>
        (* the DateTime, then its timestamp() *)
        match from_timestamp_float z (zb isutc) (sf_decode t m e) with
        | Ok (W, f) => [0; W; Z.b2z f; off_local z (W / MEG) f] ++ sf_code (timestamp_float z W f)
        | Raise ex => [1; exn_code ex]
        end
    | 21 (* timestamp_float *), [W; f] => 0 :: sf_code (timestamp_float z W (zb f))
    | 22 (* utcfromtimestamp_float_us *), [t; m; e] =>
        match utcfromtimestamp_float_us (sf_decode t m e) with Ok n => [0; n] | Raise ex => [1; exn_code ex] end
    | _, _ => [9]
    end
  end.
