(* Model/DateGlueObj.v — hand-written primitives of the translated Date navigation (Gen/DateGlue.v, tools/vlib/gens/g82_weekday_glue.py) on the
   object model gdate of Model/TzGlueObj.v (a Date = the wall value of its midnight).  Each names the Python expression it stands for:
     gd_day_of_week d    Date.day_of_week = WeekDay(self.weekday())                      (Monday = 0 .. Sunday = 6; native date.weekday)
     gd_days_in_month d  Date.days_in_month = calendar.monthrange(self.year, self.month)[1]
     gd_quarter d        Date.quarter = math.ceil(self.month / 3): the TRANSLATED py_Date_quarter of Gen/DateGetters.v on the fields
     gd_same_ym a b      a.format("YYYY-MM") == b.format("YYYY-MM"): the two renderings are equal iff year and month are (Model/Weekday.v
                         same_year_month; validated by the format-check stream of tools/props/C16.py)
   and calendar.Calendar(calendar.MONDAY).monthdayscalendar(y, m)[i][c] is mc_get of Model/Weekday.v (a NATIVE primitive of the stdlib). *)
From Coq Require Import ZArith Bool.
From PV Require Import Lib.PyBase Spec.Cal Gen.DateGetters Model.TzGlueObj.
Open Scope Z_scope.

Definition gd_day_of_week (d : gdate) : Z := weekday0 (gd_wall d / us_per_day + 1).
Definition gd_days_in_month (d : gdate) : Z := dim (gd_year d) (gd_month d).
Definition gd_pdate (d : gdate) : pdate := mkdate (gd_year d) (gd_month d) (gd_day d).
Definition gd_quarter (d : gdate) : Z := py_Date_quarter (gd_pdate d).
Definition gd_same_ym (a b : gdate) : bool := (gd_year a =? gd_year b) && (gd_month a =? gd_month b).
