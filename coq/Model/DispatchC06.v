(* Model/DispatchC06.v — entry points of the C06 models for the OCaml driver and the vm_compute cross-check.
   An operand is 12 integers: year month day hour minute second microsecond offset has_tz tzname tzobj is_datetime.
   A history (entries 9 / 10) is 25 integers per step: tag (1 Interval, 2 direct helper call) and two operands; its result is 0 followed by
   every list a step reports, each preceded by its length (Model/PdHistory.v).
   Result encoding: 0 :: values, [1; exn code], [3] = outside the model's domain (the UTC instant of an aware operand is not
   representable: CPython raises OverflowError when it shifts), [9] bad call. *)
From Coq Require Import ZArith List Bool.
From PV Require Import Lib.PyBase Spec.Cal Gen.Constants Gen.Helpers Model.PdBase Gen.PreciseDiff Model.RustPreciseDiff Model.PdInterval Model.PdHistory Model.PdForeign.
Import ListNotations.
Open Scope Z_scope.

(* zb, of_pd / of_dt / of_ivc, py_pd / rs_pd, in_domain / guard, interval_of / rebuild_of and the history entry point are in Model/PdHistory.v *)

Definition dispatch (fn : Z) (args : list Z) : list Z :=
  match fn, args with
  | 1 (* py_precise_diff *), [y1;m1;d1;h1;i1;s1;u1;o1;t1;n1;b1;k1; y2;m2;d2;h2;i2;s2;u2;o2;t2;n2;b2;k2] =>
      let a := mkpdt y1 m1 d1 h1 i1 s1 u1 o1 (zb t1) n1 b1 (zb k1) in let b := mkpdt y2 m2 d2 h2 i2 s2 u2 o2 (zb t2) n2 b2 (zb k2) in
      guard a b (of_pd (py_pd a b))
  | 2 (* rs_precise_diff *), [y1;m1;d1;h1;i1;s1;u1;o1;t1;n1;b1;k1; y2;m2;d2;h2;i2;s2;u2;o2;t2;n2;b2;k2] =>
      let a := mkpdt y1 m1 d1 h1 i1 s1 u1 o1 (zb t1) n1 b1 (zb k1) in let b := mkpdt y2 m2 d2 h2 i2 s2 u2 o2 (zb t2) n2 b2 (zb k2) in
      guard a b (of_pd (rs_pd a b))
  | 3 (* py_interval *), [y1;m1;d1;h1;i1;s1;u1;o1;t1;n1;b1;k1; y2;m2;d2;h2;i2;s2;u2;o2;t2;n2;b2;k2] =>
      let a := mkpdt y1 m1 d1 h1 i1 s1 u1 o1 (zb t1) n1 b1 (zb k1) in let b := mkpdt y2 m2 d2 h2 i2 s2 u2 o2 (zb t2) n2 b2 (zb k2) in
      guard a b (of_ivc (interval_of (py_pd a b) a b))
  | 4 (* rs_interval *), [y1;m1;d1;h1;i1;s1;u1;o1;t1;n1;b1;k1; y2;m2;d2;h2;i2;s2;u2;o2;t2;n2;b2;k2] =>
      let a := mkpdt y1 m1 d1 h1 i1 s1 u1 o1 (zb t1) n1 b1 (zb k1) in let b := mkpdt y2 m2 d2 h2 i2 s2 u2 o2 (zb t2) n2 b2 (zb k2) in
      guard a b (of_ivc (interval_of (rs_pd a b) a b))
  | 5 (* py_rebuild *), [y1;m1;d1;h1;i1;s1;u1;o1;t1;n1;b1;k1; y2;m2;d2;h2;i2;s2;u2;o2;t2;n2;b2;k2] =>
      let a := mkpdt y1 m1 d1 h1 i1 s1 u1 o1 (zb t1) n1 b1 (zb k1) in let b := mkpdt y2 m2 d2 h2 i2 s2 u2 o2 (zb t2) n2 b2 (zb k2) in
      guard a b (of_dt (rebuild_of (py_pd a b) a b))
  | 6 (* rs_rebuild *), [y1;m1;d1;h1;i1;s1;u1;o1;t1;n1;b1;k1; y2;m2;d2;h2;i2;s2;u2;o2;t2;n2;b2;k2] =>
      let a := mkpdt y1 m1 d1 h1 i1 s1 u1 o1 (zb t1) n1 b1 (zb k1) in let b := mkpdt y2 m2 d2 h2 i2 s2 u2 o2 (zb t2) n2 b2 (zb k2) in
      guard a b (of_dt (rebuild_of (rs_pd a b) a b))
  | 7 (* dt_add *), [y1;m1;d1;h1;i1;s1;u1;o1;t1;n1;b1;k1; yy;mo;ww;dd;hh;mi;ss;us] =>
      let a := mkpdt y1 m1 d1 h1 i1 s1 u1 o1 (zb t1) n1 b1 (zb k1) in
      of_dt (dt_add a yy mo ww dd hh mi ss us)
  | 8 (* add_duration *), [y1;m1;d1;h1;i1;s1;u1;o1;t1;n1;b1;k1; yy;mo;ww;dd;hh;mi;ss;us] =>
      let a := mkpdt y1 m1 d1 h1 i1 s1 u1 o1 (zb t1) n1 b1 (zb k1) in
      of_dt (pd_add_duration a yy mo ww dd hh mi ss us)
  | 9 (* py_history *), a => dispatch_history false a
  | 10 (* rs_history *), a => dispatch_history true a
  | 11 (* py_rebuild_fs *), [y1;m1;d1;h1;i1;s1;u1;o1;t1;n1;b1;k1; y2;m2;d2;h2;i2;s2;u2;o2;t2;n2;b2;k2] =>
      (* a + (b - a) when the start carries a tzinfo that is not a pendulum class (Model/PdForeign.v) *)
      let a := mkpdt y1 m1 d1 h1 i1 s1 u1 o1 (zb t1) n1 b1 (zb k1) in let b := mkpdt y2 m2 d2 h2 i2 s2 u2 o2 (zb t2) n2 b2 (zb k2) in
      guard a b (of_dt (rebuild_of_foreign (py_pd a b) a b))
  | 12 (* rs_rebuild_fs *), [y1;m1;d1;h1;i1;s1;u1;o1;t1;n1;b1;k1; y2;m2;d2;h2;i2;s2;u2;o2;t2;n2;b2;k2] =>
      let a := mkpdt y1 m1 d1 h1 i1 s1 u1 o1 (zb t1) n1 b1 (zb k1) in let b := mkpdt y2 m2 d2 h2 i2 s2 u2 o2 (zb t2) n2 b2 (zb k2) in
      guard a b (of_dt (rebuild_of_foreign (rs_pd a b) a b))
  | _, _ => [9]
  end.
