(* Model/DispatchC06.v — entry points of the C06 models for the OCaml driver and the vm_compute cross-check.
   An operand is 12 integers: year month day hour minute second microsecond offset has_tz tzname tzobj is_datetime.
   Result encoding: 0 :: values, [1; exn code], [3] = outside the model's domain (the UTC instant of an aware operand is not
   representable: CPython raises OverflowError when it shifts), [9] bad call. *)
From Coq Require Import ZArith List Bool.
From PV Require Import Lib.PyBase Spec.Cal Gen.Constants Gen.Helpers Model.PdBase Gen.PreciseDiff Model.RustPreciseDiff Model.PdInterval.
Import ListNotations.
Open Scope Z_scope.

Definition zb (z : Z) : bool := negb (z =? 0).
Definition of_pd (r : result pdiff) : list Z :=
  match r with
  | Ok p => [0; pd_years p; pd_months p; pd_days p; pd_hours p; pd_minutes p; pd_seconds p; pd_microseconds p; pd_total_days p]
  | Raise e => [1; exn_code e]
  end.
Definition of_dt (r : result pdt) : list Z :=
  match r with
  | Ok d => [0; p_year d; p_month d; p_day d; p_hour d; p_minute d; p_second d; p_microsecond d]
  | Raise e => [1; exn_code e]
  end.
Definition of_ivc (r : result ivc) : list Z :=
  match r with
  | Ok c => [0; iv_years c; iv_months c; iv_weeks c; iv_remaining_days c; iv_hours c; iv_minutes c; iv_remaining_seconds c;
             iv_microseconds c; iv_in_months c; iv_in_days c]
  | Raise e => [1; exn_code e]
  end.

(* the Python function with the TypeError of `d1 > d2` on operands of different kinds (raised after the ValueError test) *)
Definition py_pd (a b : pdt) : result pdiff :=
  match py_precise_diff a b with
  | Raise e => Raise e
  | Ok r => if p_eqb a b then Ok r else if negb (p_comparable a b) then Raise E_TypeError else Ok r
  end.
Definition rs_pd (a b : pdt) : result pdiff := Ok (rs_precise_diff a b).

Definition in_domain (a : pdt) : bool := negb (p_aware a) || wall_in_range (p_instant a).

Definition interval_of (pd : result pdiff) (a b : pdt) : result ivc :=
  match pd with Raise e => Raise e | Ok d => Ok (iv_components d (iv_elapsed a b)) end.
Definition rebuild_of (pd : result pdiff) (a b : pdt) : result pdt :=
  match interval_of pd a b with Raise e => Raise e | Ok c => dt_add_ivc a c end.

Definition guard (a b : pdt) (r : list Z) : list Z := if in_domain a && in_domain b then r else [3].

Definition dispatch (fn : Z) (args : list Z) : list Z :=
  match fn, args with
  | 1 (* py_precise_diff *), [y1;m1;d1;h1;i1;s1;u1;o1;t1;n1;b1;k1; y2;m2;d2;h2;i2;s2;u2;o2;t2;n2;b2;k2] =>
      let a := mkpdt y1 m1 d1 h1 i1 s1 u1 o1 (zb t1) n1 b1 (zb k1) in let b := mkpdt y2 m2 d2 h2 i2 s2 u2 o2 (zb t2) n2 b2 (zb k2) in
      guard a b (of_pd (py_pd a b))
  | 2 (* rs_precise_diff *), [y1;m1;d1;h1;i1;s1;u1;o1;t1;n1;b1;k1; y2;m2;d2;h2;i2;s2;u2;o2;t2;n2;b2;k2] =>
      let a := mkpdt y1 m1 d1 h1 i1 s1 u1 o1 (zb t1) n1 b1 (zb k1) in let b := mkpdt y2 m2 d2 h2 i2 s2 u2 o2 (zb t2) n2 b2 (zb k2) in
      guard a b (of_pd (rs_pd a b))
  | 3 (* py_interval *), [y1;m1;d1;h1;i1;s1;u1;o1;t1;n1;b1;k1; y2;m2;d2;h2;i2;s2;u2;o2;t2;n2;b2;k2] =>
      let a := mkpdt y1 m1 d1 h1 i1 s1 u1 o1 (zb t1) n1 b1 (zb k1) in let b := mkpdt y2 m2 d2 h2 i2 s2 u2 o2 (zb t2) n2 b2 (zb k2) in
      guard a b (of_ivc (interval_of (py_pd a b) a b))
  | 4 (* rs_interval *), [y1;m1;d1;h1;i1;s1;u1;o1;t1;n1;b1;k1; y2;m2;d2;h2;i2;s2;u2;o2;t2;n2;b2;k2] =>
      let a := mkpdt y1 m1 d1 h1 i1 s1 u1 o1 (zb t1) n1 b1 (zb k1) in let b := mkpdt y2 m2 d2 h2 i2 s2 u2 o2 (zb t2) n2 b2 (zb k2) in
      guard a b (of_ivc (interval_of (rs_pd a b) a b))
  | 5 (* py_rebuild *), [y1;m1;d1;h1;i1;s1;u1;o1;t1;n1;b1;k1; y2;m2;d2;h2;i2;s2;u2;o2;t2;n2;b2;k2] =>
      let a := mkpdt y1 m1 d1 h1 i1 s1 u1 o1 (zb t1) n1 b1 (zb k1) in let b := mkpdt y2 m2 d2 h2 i2 s2 u2 o2 (zb t2) n2 b2 (zb k2) in
      guard a b (of_dt (rebuild_of (py_pd a b) a b))
  | 6 (* rs_rebuild *), [y1;m1;d1;h1;i1;s1;u1;o1;t1;n1;b1;k1; y2;m2;d2;h2;i2;s2;u2;o2;t2;n2;b2;k2] =>
      let a := mkpdt y1 m1 d1 h1 i1 s1 u1 o1 (zb t1) n1 b1 (zb k1) in let b := mkpdt y2 m2 d2 h2 i2 s2 u2 o2 (zb t2) n2 b2 (zb k2) in
      guard a b (of_dt (rebuild_of (rs_pd a b) a b))
  | 7 (* dt_add *), [y1;m1;d1;h1;i1;s1;u1;o1;t1;n1;b1;k1; yy;mo;ww;dd;hh;mi;ss;us] =>
      let a := mkpdt y1 m1 d1 h1 i1 s1 u1 o1 (zb t1) n1 b1 (zb k1) in
      of_dt (dt_add a yy mo ww dd hh mi ss us)
  | 8 (* add_duration *), [y1;m1;d1;h1;i1;s1;u1;o1;t1;n1;b1;k1; yy;mo;ww;dd;hh;mi;ss;us] =>
      let a := mkpdt y1 m1 d1 h1 i1 s1 u1 o1 (zb t1) n1 b1 (zb k1) in
      of_dt (pd_add_duration a yy mo ww dd hh mi ss us)
  | _, _ => [9]
  end.
