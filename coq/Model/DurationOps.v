(* Model/DurationOps.v — executable model of the arithmetic of src/pendulum/duration.py (C10) and of the delegation of
   src/pendulum/interval.py to as_duration().  Built on the shared layer of C09: Spec/TdFloat.v (timedelta as integer microseconds,
   floats as SpecFloat), Model/Duration.v (Duration.__new__), and on the TRANSLATED integer parts in Gen/DurationOps.v
   (`py_divide_and_round`, `py_Duration_to_microseconds`, `py_timedelta_to_microseconds_duration / _plain` = the divisor of
   // / % divmod for a Duration / a plain timedelta operand, the integer constructor arguments of every operator branch).
   Hand-written here: the float expressions (total_seconds() sums, `_total * k`, int / int, divmod(int, float), as_integer_ratio),
   the construction `Duration(seconds=<float>, years=, months=)`, Python's binary-operator protocol (NotImplemented -> reflected
   method -> TypeError; a right operand whose class is a subclass of the left one is asked first) and the operators a Duration
   INHERITS from timedelta (abs, +x, the reflected - // / % divmod, comparisons, hash).  No proofs here.
   Last part: a PROCESS (run_history: several operator calls one after the other, results handed on as operands) and the divisor
   conversion divisor_us with its memoised counter-model.
   Tied to /repo by the C10 correspondence run (both backends). *)
From Coq Require Import ZArith List Bool.
From Coq Require Import Floats.SpecFloat.
From PV Require Import Lib.PyBase Spec.TdFloat Gen.Constants Model.Duration Gen.DurationOps.
Import ListNotations.
Open Scope Z_scope.

(* ------------------------------------------------------------------ values and results *)
Inductive value :=
| VInt (k : Z) | VFloat (x : sf)
| VDur (d : dur)        (* a pendulum Duration *)
| VTd (N : Z)           (* a plain datetime.timedelta of N microseconds *)
| VIvl (d : dur).       (* a pendulum Interval: a Duration subclass whose arithmetic goes through as_duration() *)

Inductive opres :=
| RDur (d : dur) | RInt (z : Z) | RFloat (x : sf) | RPair (q : Z) (d : dur)
| RTd (N : Z) | RPairTd (q : Z) (N : Z) | RBool (b : bool) | RTriple (a b c : Z) | RNotImpl.

(* ------------------------------------------------------------------ construction with a float `seconds` *)
(* Duration(seconds=x, years=y, months=mo): timedelta.__new__ accumulates the integer days (365 y + 30 mo) exactly and the float
   seconds through accum(); days * 86400 * 10^6 is even, so the final round-half-even of the left-over sees the parity that
   td_us_of_float_seconds uses.  Then the range check, then Duration's own float normalisation (Model/Duration.float_pipeline). *)
Definition duration_new_fsec (x : sf) (years months : Z) : result dur :=
  let ym := years * DAYS_PER_Y + months * DAYS_PER_M in
  bind (td_us_of_float_seconds x) (fun n0 =>
  let N := n0 + ym * US_PER_DAY in
  if td_in_range N then
    bind (float_pipeline N (ym * C_SECONDS_PER_DAY)) (fun '(total, (m, micro, it)) =>
    let secs := Z.abs it mod C_SECONDS_PER_DAY * m in
    let ds := Z.abs it / C_SECONDS_PER_DAY * m in
    Ok (mkdur N false total years months (Z.abs ds / 7 * m) ds (Z.abs ds mod 7 * m) secs micro []))
  else Raise E_OverflowError).

Definition dur_of_fsec (x : sf) : result dur := duration_new_fsec x 0 0.            (* self.__class__(seconds=x) *)
Definition dur_of_us (u : Z) : result dur := duration_new 0 0 u 0 0 0 0 0 0.        (* self.__class__(0, 0, u) *)

(* Interval.__new__ ends in Duration.__new__(cls, seconds=delta.total_seconds()) for delta = end - start (native datetimes) *)
Definition interval_new (delta : Z) : result dur := dur_of_fsec (total_seconds delta).
(* Interval.as_duration(): Duration(seconds=self.total_seconds()) *)
Definition as_duration (i : dur) : result dur := dur_of_fsec (total_seconds (d_N i)).

(* ------------------------------------------------------------------ float helpers *)
(* float.as_integer_ratio(): (numerator, denominator), denominator a power of two, lowest terms *)
Fixpoint strip2 (m : positive) (k : Z) : positive * Z :=
  match m with xO m' => if 0 <? k then strip2 m' (k - 1) else (m, k) | _ => (m, k) end.

Definition py_as_integer_ratio (x : sf) : result (Z * Z) :=
  match x with
  | S754_zero _ => Ok (0, 1)
  | S754_finite s m e =>
      if 0 <=? e then Ok (cond_neg s (Zpos m * 2 ^ e), 1)
      else let '(m', k) := strip2 m (- e) in Ok (cond_neg s (Zpos m'), 2 ^ k)
  | S754_infinity _ => Raise E_OverflowError
  | S754_nan => Raise E_ValueError
  end.

(* int / int (long_true_divide): correctly rounded; 0 / negative is -0.0 *)
Definition py_int_truediv (a b : Z) : result sf :=
  match b with
  | Z0 => Raise E_ZeroDivisionError
  | Zpos p => let r := match a with Z0 => S754_zero false | _ => sf_of_ratio a p end in
              if sf_is_finite r then Ok r else Raise E_OverflowError
  | Zneg p => let r := match a with Z0 => S754_zero true | _ => sf_of_ratio (- a) p end in
              if sf_is_finite r then Ok r else Raise E_OverflowError
  end.

(* _divide_and_round(a, y) for an int a and a FLOAT y (the months argument of the float branch of __truediv__):
   q, r = divmod(a, y) on floats; q = int(q); r *= 2; the comparisons are float comparisons *)
Definition f_two : sf := sf_of_Z 2.
Definition divide_and_round_float (a : Z) (y : sf) : result Z :=
  bind (py_float_of_int a) (fun fa =>
  bind (py_float_divmod fa y) (fun '(q, r) =>
  bind (py_int_trunc q) (fun qi =>
  let r2 := fmul r f_two in
  let gth := if flt f_zero y then flt y r2 else flt r2 y in
  Ok (if gth || (feq r2 y && (qi mod 2 =? 1)) then qi + 1 else qi)))).

(* ------------------------------------------------------------------ the operator methods of Duration *)
Definition M_ADD : Z := 1.  Definition M_SUB : Z := 2.  Definition M_NEG : Z := 3.  Definition M_MUL : Z := 4.
Definition M_FLOORDIV : Z := 5.  Definition M_TRUEDIV : Z := 6.  Definition M_MOD : Z := 7.  Definition M_DIVMOD : Z := 8.

(* self.total_seconds() for the timedelta-like operands (timedelta's own method) *)
Definition other_total_seconds (o : value) : option sf :=
  match o with VDur d | VIvl d => Some (total_seconds (d_N d)) | VTd n => Some (total_seconds n) | _ => None end.

Definition dur_add (d : dur) (o : value) : result opres :=
  match other_total_seconds o with
  | Some y => bind (dur_of_fsec (fadd (total_seconds (d_N d)) y)) (fun r => Ok (RDur r))
  | None => Ok RNotImpl
  end.

Definition dur_sub (d : dur) (o : value) : result opres :=
  match other_total_seconds o with
  | Some y => bind (dur_of_fsec (fsub (total_seconds (d_N d)) y)) (fun r => Ok (RDur r))
  | None => Ok RNotImpl
  end.

Definition dur_neg (d : dur) : result dur :=
  duration_new (py_Duration_neg_self_days d) (py_Duration_neg_self_seconds d) (py_Duration_neg_self_microseconds d) 0 0 0
               (py_Duration_neg_self_weeks d) (py_Duration_neg_self_years d) (py_Duration_neg_self_months d).

Definition dur_mul (d : dur) (o : value) : result opres :=
  match o with
  | VInt k =>
      (* years=self._years * k, months=self._months * k, seconds=self._total * k  (float * int) *)
      bind (py_float_of_int k) (fun fk =>
      bind (duration_new_fsec (fmul (d_total d) fk) (py_Duration_mul_int_years d k) (py_Duration_mul_int_months d k))
           (fun r => Ok (RDur r)))
  | VFloat x =>
      bind (py_as_integer_ratio x) (fun '(a, b) =>
      bind (dur_of_us (py_Duration_mul_float_microseconds d a b)) (fun r => Ok (RDur r)))
  | _ => Ok RNotImpl
  end.

(* // / % divmod by another timedelta divide by `_timedelta_to_microseconds(other)` (translated): a Duration (or Interval) operand
   reports its own `_to_microseconds()`, a PLAIN datetime.timedelta its public (days, seconds, microseconds), i.e. the normal form of
   the microseconds it holds.  A zero divisor is Python's ZeroDivisionError of the integer // % divmod. *)
Definition plain_td (n : Z) : ptd := td_norm n.

Definition dur_floordiv (d : dur) (o : value) : result opres :=
  match o with
  | VInt k =>
      if k =? 0 then Raise E_ZeroDivisionError else
      bind (duration_new 0 0 (py_Duration_floordiv_int_microseconds d k) 0 0 0 0
                         (py_Duration_floordiv_int_years d k) (py_Duration_floordiv_int_months d k)) (fun r => Ok (RDur r))
  | VDur d2 | VIvl d2 =>
      if py_timedelta_to_microseconds_duration d2 =? 0 then Raise E_ZeroDivisionError
      else Ok (RInt (py_Duration_floordiv_duration_value d d2))
  | VTd n =>
      if py_timedelta_to_microseconds_plain (plain_td n) =? 0 then Raise E_ZeroDivisionError
      else Ok (RInt (py_Duration_floordiv_timedelta_value d (plain_td n)))
  | VFloat _ => Ok RNotImpl
  end.

Definition dur_truediv (d : dur) (o : value) : result opres :=
  match o with
  | VInt k =>
      if k =? 0 then Raise E_ZeroDivisionError else
      bind (duration_new 0 0 (py_Duration_truediv_int_microseconds d k) 0 0 0 0
                         (py_Duration_truediv_int_years d k) (py_Duration_truediv_int_months d k)) (fun r => Ok (RDur r))
  | VFloat x =>
      bind (py_as_integer_ratio x) (fun '(a, b) =>
      if a =? 0 then Raise E_ZeroDivisionError else
      bind (divide_and_round_float (d_months d) x) (fun mo =>
      bind (duration_new 0 0 (py_Duration_truediv_float_microseconds d a b) 0 0 0 0
                         (py_Duration_truediv_float_years d a b) mo) (fun r => Ok (RDur r))))
  (* usec / _timedelta_to_microseconds(other): int / int true division (hand-modelled) of the translated operands *)
  | VDur d2 | VIvl d2 =>
      bind (py_int_truediv (py_Duration_to_microseconds d) (py_timedelta_to_microseconds_duration d2)) (fun x => Ok (RFloat x))
  | VTd n =>
      bind (py_int_truediv (py_Duration_to_microseconds d) (py_timedelta_to_microseconds_plain (plain_td n))) (fun x => Ok (RFloat x))
  end.

Definition dur_mod (d : dur) (o : value) : result opres :=
  match o with
  | VDur d2 | VIvl d2 =>
      if py_timedelta_to_microseconds_duration d2 =? 0 then Raise E_ZeroDivisionError
      else bind (dur_of_us (py_Duration_mod_duration_microseconds d d2)) (fun r => Ok (RDur r))
  | VTd n =>
      if py_timedelta_to_microseconds_plain (plain_td n) =? 0 then Raise E_ZeroDivisionError
      else bind (dur_of_us (py_Duration_mod_timedelta_microseconds d (plain_td n))) (fun r => Ok (RDur r))
  | _ => Ok RNotImpl
  end.

Definition dur_divmod (d : dur) (o : value) : result opres :=
  match o with
  | VDur d2 | VIvl d2 =>
      if py_timedelta_to_microseconds_duration d2 =? 0 then Raise E_ZeroDivisionError
      else bind (dur_of_us (py_Duration_divmod_duration_microseconds d d2))
                (fun r => Ok (RPair (py_Duration_divmod_duration_quotient d d2) r))
  | VTd n =>
      if py_timedelta_to_microseconds_plain (plain_td n) =? 0 then Raise E_ZeroDivisionError
      else bind (dur_of_us (py_Duration_divmod_timedelta_microseconds d (plain_td n)))
                (fun r => Ok (RPair (py_Duration_divmod_timedelta_quotient d (plain_td n)) r))
  | _ => Ok RNotImpl
  end.

Definition dur_method (m : Z) (d : dur) (o : value) : result opres :=
  match m with
  | 1 => dur_add d o | 2 => dur_sub d o | 4 => dur_mul d o | 5 => dur_floordiv d o
  | 6 => dur_truediv d o | 7 => dur_mod d o | 8 => dur_divmod d o
  | _ => Ok RNotImpl
  end.

(* ------------------------------------------------------------------ what a Duration inherits from timedelta *)
Definition td_checked (n : Z) : result opres := if td_in_range n then Ok (RTd n) else Raise E_OverflowError.

(* datetime.timedelta's own binary operators on two native values (left n, right N): results are PLAIN timedeltas / numbers *)
Definition td_binop (m : Z) (n N : Z) : result opres :=
  match m with
  | 1 => td_checked (n + N)
  | 2 => td_checked (n - N)
  | 5 => if N =? 0 then Raise E_ZeroDivisionError else Ok (RInt (n / N))
  | 6 => bind (py_int_truediv n N) (fun x => Ok (RFloat x))
  | 7 => if N =? 0 then Raise E_ZeroDivisionError else Ok (RTd (n mod N))
  | 8 => if N =? 0 then Raise E_ZeroDivisionError else Ok (RPairTd (n / N) (n mod N))
  | _ => Ok RNotImpl
  end.

(* comparison operators 10 == , 11 != , 12 < , 13 <= , 14 > , 15 >=  on native values *)
Definition td_compare (m : Z) (n N : Z) : opres :=
  match m with
  | 10 => RBool (n =? N) | 11 => RBool (negb (n =? N)) | 12 => RBool (n <? N) | 13 => RBool (n <=? N)
  | 14 => RBool (N <? n) | 15 => RBool (N <=? n) | _ => RNotImpl
  end.

Definition is_cmp (m : Z) : bool := (10 <=? m) && (m <=? 15).
Definition is_arith (m : Z) : bool := (m =? 1) || (m =? 2) || ((4 <=? m) && (m <=? 8)).

Definition not_impl_to_type_error (r : result opres) : result opres :=
  match r with Ok RNotImpl => Raise E_TypeError | _ => r end.

Definition native_of (v : value) : option Z :=
  match v with VDur d => Some (d_N d) | VTd n => Some n | _ => None end.

(* comparisons are inherited from timedelta: on two timedelta-likes they compare the native values; against a number
   == is False, != is True and the orderings raise TypeError *)
Definition cmp_op (m : Z) (l r : value) : result opres :=
  match native_of l, native_of r with
  | Some a, Some b => Ok (td_compare m a b)
  | _, _ => if m =? 10 then Ok (RBool false) else if m =? 11 then Ok (RBool true) else Raise E_TypeError
  end.

Definition delegated (m : Z) : bool := existsb (Z.eqb m) py_interval_delegates.

(* the arithmetic method of a Duration-like left/reflected operand: an Interval goes through as_duration() *)
Definition durlike_method (m : Z) (ivl : bool) (d : dur) (o : value) : result opres :=
  if ivl then (if delegated m then bind (as_duration d) (fun d' => dur_method m d' o) else Ok RNotImpl)
  else dur_method m d o.

(* `l <op> r` as Python evaluates it (binary_op1 + the slot wrappers of a heap subclass of timedelta):
   - Duration-like on the left: its own method; NotImplemented -> the right operand's reflected slot, which for int / float /
     timedelta / Duration also answers NotImplemented -> TypeError;
   - plain timedelta on the left, Duration-like on the right: the right operand's class is a subclass, so its reflected method is
     asked first: __radd__ is Duration.__add__; __rsub__ __rfloordiv__ __rtruediv__ __rmod__ __rdivmod__ are INHERITED from
     timedelta, i.e. plain timedelta arithmetic on the native values; __rmul__ (Duration.__mul__) answers NotImplemented;
   - int / float on the left: only __rmul__ (= __mul__) succeeds. *)
Definition arith_op (m : Z) (l r : value) : result opres :=
  match l with
  | VDur d => not_impl_to_type_error (durlike_method m false d r)
  | VIvl d => not_impl_to_type_error (durlike_method m true d r)
  | VTd n =>
      match r with
      | VDur d => if m =? 1 then not_impl_to_type_error (durlike_method 1 false d l)
                  else if m =? 4 then Raise E_TypeError else not_impl_to_type_error (td_binop m n (d_N d))
      | VIvl d => if m =? 1 then not_impl_to_type_error (durlike_method 1 true d l)
                  else if m =? 4 then Raise E_TypeError else not_impl_to_type_error (td_binop m n (d_N d))
      | _ => Raise E_TypeError
      end
  | VInt _ | VFloat _ =>
      match r with
      | VDur d => if m =? 4 then not_impl_to_type_error (durlike_method 4 false d l) else Raise E_TypeError
      | VIvl d => if m =? 4 then not_impl_to_type_error (durlike_method 4 true d l) else Raise E_TypeError
      | _ => Raise E_TypeError
      end
  end.

Definition binop (m : Z) (l r : value) : result opres :=
  if is_cmp m then cmp_op m l r else if is_arith m then arith_op m l r else Ok RNotImpl.

(* unary: 3 -x (Duration.__neg__), 9 abs(x), 16 +x, 17 hash(x) (a function of the normal form), 18 bool(x) — the last four inherited *)
Definition unop (m : Z) (v : value) : result opres :=
  match v with
  | VDur d =>
      match m with
      | 3 => bind (dur_neg d) (fun r => Ok (RDur r))
      | 9 => Ok (RTd (Z.abs (d_N d)))
      | 16 => Ok (RTd (d_N d))
      | 17 => let '(a, b, c) := td_norm (d_N d) in Ok (RTriple a b c)
      | 18 => Ok (RBool (negb (d_N d =? 0)))
      | _ => Ok RNotImpl
      end
  | _ => Ok RNotImpl
  end.

(* what the correspondence observes of a Duration result *)
Definition dur_obs (d : dur) : list Z :=
  let '(nd, ns, nu) := td_norm (d_N d) in
  [nd; ns; nu] ++ sf_code (d_total d) ++ [d_years d; d_months d; d_weeks d; d_days d; d_rdays d; d_seconds d; d_micro d].

(* ------------------------------------------------------------------ a process: a history of operator calls *)
(* duration.py / interval.py keep NO state between two operator calls (no module-level cache, no configuration, operands are never
   written to): a process that evaluates several calls one after the other is the straight-line program below.  The only thing a
   later call can see of an earlier one is the OBJECT it returned (`ORef i`: the result of step i, handed on as an operand).
   The correspondence runs whole histories in one interpreter (the history streams), so a hidden dependence on what ran before
   - a memo keyed by ==/hash, a value half-set by a call that raised, an accessor that rewrites a field - shows up as a difference. *)
Inductive operand :=
| OLit (v : result value)      (* an operand constructed for this call (the construction itself may raise) *)
| ORef (i : Z).                (* the object returned by step i of the same history *)

Inductive hstep :=
| HBin (m : Z) (l r : operand)
| HUn (m : Z) (v : operand).

(* what a returned object is when used as an operand: a Duration stays the very record (all private fields), numbers and plain
   timedeltas their value; tuples, bools, hashes and raised calls cannot be referred to *)
Definition value_of_outcome (r : result opres) : option value :=
  match r with
  | Ok (RDur d) => Some (VDur d) | Ok (RInt z) => Some (VInt z) | Ok (RFloat x) => Some (VFloat x) | Ok (RTd n) => Some (VTd n)
  | _ => None
  end.

Definition fetch (env : list (result opres)) (o : operand) : result value :=
  match o with
  | OLit v => v
  | ORef i =>
      if i <? 0 then Raise E_Exception else
      match nth_error env (Z.to_nat i) with
      | Some r => match value_of_outcome r with Some v => Ok v | None => Raise E_Exception end
      | None => Raise E_Exception
      end
  end.

Definition is_pendulum (v : value) : bool := match v with VDur _ | VIvl _ => true | _ => false end.

(* 19: `touch` — every public accessor of the object is read (years .. microseconds, invert, total_*(), in_*(), repr, hash, bool) and the
   SAME object is handed on: reading never changes it *)
Definition M_TOUCH : Z := 19.
Definition hist_unop (m : Z) (v : value) : result opres :=
  match v with
  | VDur d => if m =? M_TOUCH then Ok (RDur d) else unop m v
  | _ => unop m v
  end.

(* operands are evaluated left to right; a call without a pendulum operand is not an operation of this library (RNotImpl marks it) *)
Definition eval_step (env : list (result opres)) (s : hstep) : result opres :=
  match s with
  | HBin m l r => bind (fetch env l) (fun a => bind (fetch env r) (fun b =>
                  if is_pendulum a || is_pendulum b then binop m a b else Ok RNotImpl))
  | HUn m v => bind (fetch env v) (fun a => if is_pendulum a then hist_unop m a else Ok RNotImpl)
  end.

(* the state of the process is exactly the list of objects returned so far *)
Fixpoint run_from (env : list (result opres)) (h : list hstep) : list (result opres) :=
  match h with
  | [] => []
  | s :: t => let r := eval_step env s in r :: run_from (env ++ [r]) t
  end.

Definition run_history (h : list hstep) : list (result opres) := run_from [] h.

(* ------------------------------------------------------------------ the divisor of // / % divmod *)
(* `_timedelta_to_microseconds(other)` on a model value (the translated function, one translation per class of `other`) *)
Definition divisor_us (o : value) : option Z :=
  match o with
  | VDur d | VIvl d => Some (py_timedelta_to_microseconds_duration d)
  | VTd n => Some (py_timedelta_to_microseconds_plain (plain_td n))
  | _ => None
  end.

(* COUNTER-MODEL (not the code): the same conversion behind a memo whose key is what timedelta.__eq__ / __hash__ see of the operand,
   its native length (an Interval compares and hashes by its end points: never looked up).  Proofs/C10History.v shows that this memo is
   transparent exactly while no Duration with years / months ever reaches it, which a process cannot promise: the reason why the
   correspondence and the oracle run histories and not only single calls. *)
Definition td_key (o : value) : option Z := match o with VDur d => Some (d_N d) | VTd n => Some n | _ => None end.

Fixpoint assoc (k : Z) (c : list (Z * Z)) : option Z :=
  match c with [] => None | (k', u) :: t => if k =? k' then Some u else assoc k t end.

Fixpoint memo_divisors (c : list (Z * Z)) (os : list value) : list (option Z) :=
  match os with
  | [] => []
  | o :: t =>
      match td_key o, divisor_us o with
      | Some k, Some u => match assoc k c with
                          | Some u' => Some u' :: memo_divisors c t
                          | None => Some u :: memo_divisors ((k, u) :: c) t
                          end
      | _, r => r :: memo_divisors c t
      end
  end.

(* ------------------------------------------------------------------ Interval: the absolute flag, -i, abs(i) *)
(* Interval(start, end, absolute): `if absolute and start > end: end, start = start, end` (in __new__ and in __init__), then
   Duration.__new__(seconds=(end - start).total_seconds()).  delta = end - start of the end points AS GIVEN. *)
Definition ivl_eff (delta : Z) (absolute : bool) : Z := if absolute && (delta <? 0) then - delta else delta.
Definition interval_new_abs (delta : Z) (absolute : bool) : result dur := interval_new (ivl_eff delta absolute).
(* Interval.__neg__: self.__class__(self.end, self.start, self._absolute) on the STORED end points (end - start = ivl_eff):
   an absolute Interval swaps them back, so its negation is itself *)
Definition interval_neg (delta : Z) (absolute : bool) : result dur := interval_new_abs (- ivl_eff delta absolute) absolute.
(* Interval.__abs__: self.__class__(self.start, self.end, absolute=True) *)
Definition interval_abs (delta : Z) (absolute : bool) : result dur := interval_new_abs (ivl_eff delta absolute) true.
