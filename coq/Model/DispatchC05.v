(* Model/DispatchC05.v — entry point of the executable model of C05 (length of an Interval).
   Arguments: zone A ++ zone B ++ [dtA; nativeA; objA; canonA; fixedA; WA; foldA;  dtB; nativeB; objB; canonB; fixedB; WB; foldB; flag]
   (a zone is init :: n :: t1 :: o1 :: ..., times in seconds since 0001-01-01T00:00:00Z).
   Result: 0 :: [native microseconds; in_seconds; in_minutes; in_hours; invert]  |  1 :: [exn code]  |  [9]. *)
From Coq Require Import ZArith List Bool.
From PV Require Import Lib.PyBase Spec.Zone Spec.TdFloat Model.Duration Model.TzConvert Model.TzDispatch Model.IntervalLen.
Import ListNotations.
Open Scope Z_scope.

Definition out_ival (r : result ival) : list Z :=
  match bind r ival_observe with Ok l => 0 :: l | Raise e => [1; exn_code e] end.

Definition dispatch (fn : Z) (args : list Z) : list Z :=
  match parse_zone args with
  | None => [9]
  | Some (za, rest) =>
    match parse_zone rest with
    | Some (zb_, [dta; na; oa; ca; fa; wa; fda; dtb; nb; ob; cb; fb; wb; fdb; flag]) =>
      let a := mkep (zb dta) (zb na) oa ca (zb fa) za wa (zb fda) in
      let b := mkep (zb dtb) (zb nb) ob cb (zb fb) zb_ wb (zb fdb) in
      match fn with
      | 1 (* interval *) => out_ival (interval_make a b (zb flag))
      | 2 (* sub *) => out_ival (dt_sub a b)
      | 3 (* rsub *) => out_ival (dt_rsub a b)
      | 4 (* abs_sub *) => out_ival (bind (dt_sub a b) ival_abs)
      | 5 (* neg_sub *) => out_ival (bind (dt_sub a b) ival_neg)
      | 6 (* delta *) => match interval_new_delta a b (zb flag) with Ok d => [0; d] | Raise e => [1; exn_code e] end
      | 7 (* roundtrip *) => match td_of_float_seconds (total_seconds wa) with Ok z => [0; z] | Raise e => [1; exn_code e] end
      | _ => [9]
      end
    | _ => [9]
    end
  end.
