(* Model/StartEnd.v — executable model of DateTime.start_of/end_of and Date.start_of/end_of (property C12).
   month / year / decade / century bodies are the TRANSLATED ones (Gen/StartEnd.v); the rest follows the Python statement by
   statement (their text is pinned by tools/vlib/gens/g80_start_end.py): second/minute/hour/day through set()/at() with keyword
   arguments, week through previous()/next() — an object loop of add(days=±1) — then start_of('day')/end_of('day').
   Units: 0 second, 1 minute, 2 hour, 3 day, 4 week, 5 month, 6 year, 7 decade, 8 century.
   ws / we are pendulum._WEEK_STARTS_AT / _WEEK_ENDS_AT (process-wide state).  No proofs here. *)
From Coq Require Import ZArith List Bool.
From PV Require Import Lib.PyBase Spec.Cal Spec.Zone Model.TzConvert Model.StartEndBase Gen.StartEnd.
Import ListNotations.
Open Scope Z_scope.

(* ---------------------------------------------------------------- DateTime *)
(* self.set(microsecond=..) etc.: the fields that are not given are the instance's *)
Definition set_from (v : dtv) (lvl : Z) (start : bool) : result (Z * bool) :=
  let W := v_W v in
  let pick (l : Z) (cur lo hi : Z) := if lvl <=? l then cur else if start then lo else hi in
  dt_set v (f_year W) (f_month W) (f_day W)
    (pick 2 (f_hour W) 0 23) (pick 1 (f_minute W) 0 59) (pick 0 (f_second W) 0 59) (if start then 0 else 999999).
(* lvl 0: _start_of_second/_end_of_second = set(microsecond=)
   lvl 1: minute = set(second=, microsecond=);  lvl 2: hour = set(minute=, second=, microsecond=)
   lvl 3: day = at(h, m, s, us) = set(hour=, minute=, second=, microsecond=) *)

Definition dt_start_of_day (v : dtv) : result (Z * bool) := set_from v 3 true.
Definition dt_end_of_day (v : dtv) : result (Z * bool) := set_from v 3 false.

(* `while dt.day_of_week != day_of_week: dt = dt.add(days=k)` ; fuel counts evaluations of the loop test.
   The real loop has no bound: running out of fuel here corresponds to a loop that does not terminate (see the finding
   week-walk-never-terminates: a whole calendar day skipped by the zone). *)
Fixpoint dt_walk (fuel : nat) (k wd : Z) (v : dtv) : result dtv :=
  match fuel with
  | O => Raise E_OutOfFuel
  | S f => if negb (wall_dow (v_W v) =? wd) then bind (step_day v k) (fun r => dt_walk f k wd (upd v r)) else Ok v
  end.
Definition WALK_FUEL : nat := 24%nat.

(* previous(wd) / next(wd) with keep_time=False and a valid weekday *)
Definition dt_previous (v : dtv) (wd : Z) : result dtv :=
  bind (dt_start_of_day v) (fun r => let v1 := upd v r in
  bind (step_day v1 (-1)) (fun r2 => dt_walk WALK_FUEL (-1) wd (upd v1 r2))).
Definition dt_next (v : dtv) (wd : Z) : result dtv :=
  bind (dt_start_of_day v) (fun r => let v1 := upd v r in
  bind (step_day v1 1) (fun r2 => dt_walk WALK_FUEL 1 wd (upd v1 r2))).

Definition dt_start_of_week (ws : Z) (v : dtv) : result (Z * bool) :=
  if negb (wall_dow (v_W v) =? ws) then bind (dt_previous v ws) dt_start_of_day else dt_start_of_day v.
Definition dt_end_of_week (we : Z) (v : dtv) : result (Z * bool) :=
  if negb (wall_dow (v_W v) =? we) then bind (dt_next v we) dt_end_of_day else dt_end_of_day v.

Definition dt_start_of (ws : Z) (u : Z) (v : dtv) : result (Z * bool) :=
  match u with
  | 0 => set_from v 0 true | 1 => set_from v 1 true | 2 => set_from v 2 true | 3 => dt_start_of_day v
  | 4 => dt_start_of_week ws v
  | 5 => py_dt_start_of_month v | 6 => py_dt_start_of_year v | 7 => py_dt_start_of_decade v | 8 => py_dt_start_of_century v
  | _ => Raise E_ValueError
  end.
Definition dt_end_of (we : Z) (u : Z) (v : dtv) : result (Z * bool) :=
  match u with
  | 0 => set_from v 0 false | 1 => set_from v 1 false | 2 => set_from v 2 false | 3 => dt_end_of_day v
  | 4 => dt_end_of_week we v
  | 5 => py_dt_end_of_month v | 6 => py_dt_end_of_year v | 7 => py_dt_end_of_decade v | 8 => py_dt_end_of_century v
  | _ => Raise E_ValueError
  end.

(* ---------------------------------------------------------------- Date (ordinals) *)
Fixpoint date_walk (fuel : nat) (k wd : Z) (n : Z) : result Z :=
  match fuel with
  | O => Raise E_OutOfFuel
  | S f => if negb (weekday0 n =? wd) then bind (date_step n k) (date_walk f k wd) else Ok n
  end.
Definition date_previous (n wd : Z) : result Z := bind (date_step n (-1)) (date_walk 7 (-1) wd).
Definition date_next (n wd : Z) : result Z := bind (date_step n 1) (date_walk 7 1 wd).

Definition date_start_of (ws : Z) (u : Z) (n : Z) : result Z :=
  let v := mkdv n in
  match u with
  | 3 => Ok n
  | 4 => if negb (weekday0 n =? ws) then date_previous n ws else Ok n
  | 5 => py_date_start_of_month v | 6 => py_date_start_of_year v | 7 => py_date_start_of_decade v | 8 => py_date_start_of_century v
  | _ => Raise E_ValueError
  end.
Definition date_end_of (we : Z) (u : Z) (n : Z) : result Z :=
  let v := mkdv n in
  match u with
  | 3 => Ok n
  | 4 => if negb (weekday0 n =? we) then date_next n we else Ok n
  | 5 => py_date_end_of_month v | 6 => py_date_end_of_year v | 7 => py_date_end_of_decade v | 8 => py_date_end_of_century v
  | _ => Raise E_ValueError
  end.

(* ---------------------------------------------------------------- the calendar unit that contains a wall value (specification side) *)
(* identifier of the unit of kind u containing the wall microsecond W; weeks begin on weekday ws (Monday = 0) *)
Definition unit_id (u ws W : Z) : Z :=
  let k := W / us_per_day in            (* day index: ordinal - 1; its weekday is k mod 7 *)
  match u with
  | 0 => W / 1000000
  | 1 => W / 60000000
  | 2 => W / 3600000000
  | 3 => k
  | 4 => (k - ws) / 7
  | 5 => f_year W * 12 + (f_month W - 1)
  | 6 => f_year W
  | 7 => f_year W / 10
  | _ => (f_year W - 1) / 100
  end.
Definition valid_unit (u : Z) : Prop := 0 <= u <= 8.
Definition date_unit (u : Z) : Prop := 3 <= u <= 8.
Definition wall_of_ord (n : Z) : Z := (n - 1) * us_per_day.

(* first and last wall microsecond of that unit (closed forms; years are unbounded here, representability is a separate question) *)
Definition unit_lo (u ws W : Z) : Z :=
  let k := W / us_per_day in
  let y := f_year W in
  match u with
  | 0 => W - W mod 1000000
  | 1 => W - W mod 60000000
  | 2 => W - W mod 3600000000
  | 3 => k * us_per_day
  | 4 => (k - (k - ws) mod 7) * us_per_day
  | 5 => wall_of y (f_month W) 1 0 0 0 0
  | 6 => wall_of y 1 1 0 0 0 0
  | 7 => wall_of (y - y mod 10) 1 1 0 0 0 0
  | _ => wall_of (y - 1 - (y - 1) mod 100 + 1) 1 1 0 0 0 0
  end.
Definition unit_hi (u ws W : Z) : Z :=
  let k := W / us_per_day in
  let y := f_year W in
  match u with
  | 0 => W - W mod 1000000 + 999999
  | 1 => W - W mod 60000000 + 59999999
  | 2 => W - W mod 3600000000 + 3599999999
  | 3 => k * us_per_day + (us_per_day - 1)
  | 4 => (k - (k - ws) mod 7 + 7) * us_per_day - 1
  | 5 => wall_of y (f_month W) (dim y (f_month W)) 23 59 59 999999
  | 6 => wall_of y 12 31 23 59 59 999999
  | 7 => wall_of (y - y mod 10 + 9) 12 31 23 59 59 999999
  | _ => wall_of (y - 1 - (y - 1) mod 100 + 100) 12 31 23 59 59 999999
  end.
