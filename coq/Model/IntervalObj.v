(* Model/IntervalObj.v — HAND-WRITTEN object model for the translation of pendulum's Interval construction and of the `-` / diff entry points
   (Gen/IntervalGlue.v, translated from /repo on every run by tools/vlib/gens/g17_interval_glue.py).  Executable definitions only.

   gobj: a date or datetime object WITH ITS CLASS: o_kind = 0 native datetime.date, 1 native datetime.datetime, 2 pendulum Date,
   3 pendulum DateTime; wall microseconds since 0001-01-01 (a date: its midnight), fold (0/1), tzinfo (None or a pendulum timezone object of
   Model/TzGlueObj.v; dates carry None).  isinstance(x, datetime) = kind 1 or 3, isinstance(x, pendulum.Date) = kind 2 or 3 (DateTime is a Date),
   isinstance(x, pendulum.DateTime) = kind 3, isinstance(x, date) = always.
   NATIVE primitives (each names the theorem tying it to CPython's source):
   * obj_gt      a > b: dates by wall value; datetimes: one naive one aware -> TypeError, the same tzinfo OBJECT (or both None) -> wall order
                 (fold ignored), else the order of the instants                                   (C11 spec_is_stdlib_datetime_cmp)
   * o_sub       a - b (both dates, or both datetimes): microseconds; same rules              (C11 spec_is_stdlib_datetime_sub / _date_sub)
   * o_sub_opt_td  datetime - timedelta: wall - us, fold 0, OverflowError outside years 1..9999 (C11 spec_is_stdlib_datetime_add)
   * o_utcoffset datetime.utcoffset(): tzinfo.utcoffset(self) (Gen/TzGlue.v tz_utcoffset: ZoneInfo's off_local or FixedTimezone's translated method)
   * o_dt_new / o_date_new   the native constructors datetime(...) / date(...) (field checks as nat_new / nat_date_new) producing kind 1 / 0;
     o_pdt_new / o_pdate_new  the same for pendulum's DateTime(...) / Date(...) (kind 3 / 2: neither class defines __new__)
   * o_replace_tz  x.replace(tzinfo=tz) on a native datetime *)
From Coq Require Import ZArith List Bool.
From PV Require Import Lib.PyBase Spec.Cal Spec.Zone Model.TzGlueObj Gen.TzGlue.
Import ListNotations.
Open Scope Z_scope.

Record gobj := mkgobj { o_kind : Z; o_wall : Z; o_fold : Z; o_tz : option gtz }.

Definition is_dt (o : gobj) : bool := (o_kind o =? 1) || (o_kind o =? 3).
Definition is_pdate (o : gobj) : bool := (o_kind o =? 2) || (o_kind o =? 3).
Definition is_pdt (o : gobj) : bool := o_kind o =? 3.
Definition o_gdt (o : gobj) : gdt := mkgdt (o_wall o) (o_fold o) (o_tz o).
Definition o_year (o : gobj) : Z := g_year (o_gdt o).
Definition o_month (o : gobj) : Z := g_month (o_gdt o).
Definition o_day (o : gobj) : Z := g_day (o_gdt o).
Definition o_hour (o : gobj) : Z := g_hour (o_gdt o).
Definition o_minute (o : gobj) : Z := g_minute (o_gdt o).
Definition o_second (o : gobj) : Z := g_second (o_gdt o).
Definition o_microsecond (o : gobj) : Z := g_microsecond (o_gdt o).

Definition opt_gtz_is (a b : option gtz) : bool :=
  match a, b with None, None => true | Some x, Some y => gz_id x =? gz_id y | _, _ => false end.
Definition o_aware (o : gobj) : bool := match o_tz o with Some _ => true | None => false end.
Definition o_utcoffset (o : gobj) : option Z := match o_tz o with Some t => Some (tz_utcoffset t (o_gdt o)) | None => None end.
Definition o_instant (o : gobj) : Z := match o_utcoffset o with Some us => o_wall o - us | None => o_wall o end.

Definition obj_gt (a b : gobj) : result bool :=
  if negb (is_dt a) then Ok (o_wall a >? o_wall b)
  else if xorb (o_aware a) (o_aware b) then Raise E_TypeError
  else if opt_gtz_is (o_tz a) (o_tz b) then Ok (o_wall a >? o_wall b)
  else Ok (o_instant a >? o_instant b).
Definition o_sub (a b : gobj) : result Z :=
  if negb (is_dt a) then Ok (o_wall a - o_wall b)
  else if xorb (o_aware a) (o_aware b) then Raise E_TypeError
  else if opt_gtz_is (o_tz a) (o_tz b) then Ok (o_wall a - o_wall b)
  else Ok (o_instant a - o_instant b).
Definition o_sub_opt_td (a : gobj) (o : option Z) : result gobj :=
  match o with
  | None => Raise E_TypeError
  | Some us => if wall_in_range (o_wall a - us) then Ok (mkgobj 1 (o_wall a - us) 0 (o_tz a)) else Raise E_OverflowError
  end.
Definition o_replace_tz (a : gobj) (tz : option gtz) : gobj := mkgobj (o_kind a) (o_wall a) (o_fold a) tz.

Definition o_of_gdt (k : Z) (r : result gdt) : result gobj :=
  match r with Ok d => Ok (mkgobj k (g_wall d) (g_fold d) (g_tz d)) | Raise e => Raise e end.
Definition o_dt_new (y m d h mi s us : Z) (tz : option gtz) (fold : Z) : result gobj := o_of_gdt 1 (nat_new y m d h mi s us tz fold).
Definition o_pdt_new (y m d h mi s us : Z) (tz : option gtz) (fold : Z) : result gobj := o_of_gdt 3 (nat_new y m d h mi s us tz fold).
Definition o_of_gdate (k : Z) (r : result gdate) : result gobj :=
  match r with Ok d => Ok (mkgobj k (gd_wall d) 0 None) | Raise e => Raise e end.
Definition o_date_new (y m d : Z) : result gobj := o_of_gdate 0 (nat_date_new y m d).
Definition o_pdate_new (y m d : Z) : result gobj := o_of_gdate 2 (nat_date_new y m d).
