(* Model/WallHistory.v — C02: a wall-clock construction AFTER a history.
   set()/on()/at()/replace() funnel into DateTime.create() with the fold of the INSTANCE, so what an earlier construction left on the
   instance (fold, tzinfo) decides the later one.  A history is a list of operations; the state is the value a pendulum DateTime holds that
   is visible to the next construction: tzinfo (None for a naive value), wall microseconds, fold.
   Transcribed from datetime.py (create, instance, set, on, at, replace, naive, in_timezone, add), __init__.py (datetime, naive,
   from_timestamp), parser.py (_parse), tz/timezone.py.  Tied to /repo by the history-* streams of C02.  No proofs here. *)
From Coq Require Import ZArith List Bool.
From PV Require Import Lib.PyBase Spec.Cal Spec.Zone Spec.NativeDT Gen.AddDuration Model.TzConvert Model.TzDispatch.
Import ListNotations.
Open Scope Z_scope.

(* tzinfo of the value: None, or a zone and whether it is a FixedTimezone (true) or a named Timezone (false; UTC is a named Timezone) *)
Record hst := mkhst { h_tz : option (zone * bool); h_W : Z; h_f : bool }.

Inductive hop :=
| OCreate (z : zone) (fixed : bool) (W : Z) (f r : bool)  (* pendulum.datetime(.., tz, fold, raise) / parse(text[, tz]) (f = 1) / instance(native) (f = native fold) *)
| ONaive (W : Z) (f : bool)                               (* pendulum.naive(.., fold=f): DateTime(.., fold=f), no tzinfo *)
| OFromTs (z : zone) (fixed : bool) (is_utc : bool) (n : Z) (* pendulum.from_timestamp(n, tz) *)
| OSetTz (z : zone) (fixed : bool)                        (* x.set(tz=z) / x.replace(tzinfo=z): the same fields read in another zone, fold of x *)
| OSetWall (W : Z)                                        (* x.set(y, m, d, h, mi, s, us) / x.replace(year=.., ..): other fields, zone and fold of x *)
| OOn (days : Z)                                          (* x.on(y, m, d): days = ordinal - 1 of the new date *)
| OAt (t : Z)                                             (* x.at(h, mi, s, us): t = microseconds since midnight *)
| OSetFold (f : bool)                                     (* x.replace(fold=f) *)
| OInTz (z : zone) (fixed : bool) (same_obj : bool)       (* x.in_timezone(z) of an aware x: same instant, fold of the instant *)
| OAddFixed (h m s us : Z)                                (* x.add(hours=, minutes=, seconds=, microseconds=) of an aware x *)
| ODropTz                                                 (* x.naive(): DateTime(fields) -- the fold is NOT forwarded *)
| OReplaceNoTz.                                           (* x.replace(tzinfo=None): create(tz=None, fold=x.fold) *)

Definition day_us : Z := 86400 * MEG.

(* DateTime.create(fields, tz, fold, raise): tz None builds the value as is *)
Definition build (tz : option (zone * bool)) (W : Z) (f r : bool) : result hst :=
  match tz with
  | None => Ok (mkhst None W f)
  | Some (z, fx) => match create z fx W f r with Ok (W', f') => Ok (mkhst tz W' f') | Raise e => Raise e end
  end.

Definition retag (tz : option (zone * bool)) (r : result (Z * bool)) : result hst :=
  match r with Ok (W', f') => Ok (mkhst tz W' f') | Raise e => Raise e end.

Definition hstep (st : hst) (op : hop) : result hst :=
  match op with
  | OCreate z fx W f r => build (Some (z, fx)) W f r
  | ONaive W f => Ok (mkhst None W f)
  | OFromTs z fx is_utc n => retag (Some (z, fx)) (from_timestamp_int z is_utc n)
  | OSetTz z fx => build (Some (z, fx)) (h_W st) (h_f st) false
  | OSetWall W => build (h_tz st) W (h_f st) false
  | OOn d => build (h_tz st) (d * day_us + (h_W st) mod day_us) (h_f st) false
  | OAt t => build (h_tz st) ((h_W st / day_us) * day_us + t) (h_f st) false
  | OSetFold f => build (h_tz st) (h_W st) f false
  | OInTz z fx same =>
      match h_tz st with
      | Some (z1, _) => retag (Some (z, fx)) (in_tz same z1 z (h_W st) (h_f st))
      | None => Raise E_TypeError      (* not generated: in_timezone of a naive value is C01's *)
      end
  | OAddFixed h m s us =>
      match h_tz st with
      | Some (z1, _) => retag (h_tz st) (add_fixed z1 (h_W st) (h_f st) h m s us)
      | None => Raise E_TypeError      (* not generated *)
      end
  | ODropTz => Ok (mkhst None (h_W st) false)
  | OReplaceNoTz => Ok (mkhst None (h_W st) (h_f st))
  end.

Definition hinit : hst := mkhst None 0 false.

(* the value after the whole history *)
Fixpoint hfinal (st : hst) (ops : list hop) : result hst :=
  match ops with
  | [] => Ok st
  | op :: r => match hstep st op with Ok st' => hfinal st' r | Raise e => Raise e end
  end.

(* every intermediate value, for the correspondence run: Ok [s1; ..; sn] or the exception with the index of the step that raised *)
Fixpoint htrace (st : hst) (ops : list hop) (i : Z) : list hst * option (exn * Z) :=
  match ops with
  | [] => ([], None)
  | op :: r => match hstep st op with
               | Ok st' => let '(l, e) := htrace st' r (i + 1) in (st' :: l, e)
               | Raise e => ([], Some (e, i))
               end
  end.

(* ------------------------------------------------------------------ wire format (Model/DispatchC02.v) *)
(* zones travel as in Model/TzDispatch.v: parse_zone reads  init :: n :: t1 :: o1 :: ..  *)
(* one operation: opcode, then (for the operations that name a zone) the zone window  init :: n :: t1 :: o1 :: ..,  then the scalars *)
Definition parse_op (l : list Z) : option (hop * list Z) :=
  match l with
  | 1 :: r => match parse_zone r with Some (z, fx :: W :: f :: rz :: rest) => Some (OCreate z (zb fx) W (zb f) (zb rz), rest) | _ => None end
  | 2 :: W :: f :: rest => Some (ONaive W (zb f), rest)
  | 3 :: r => match parse_zone r with Some (z, fx :: u :: n :: rest) => Some (OFromTs z (zb fx) (zb u) n, rest) | _ => None end
  | 4 :: r => match parse_zone r with Some (z, fx :: rest) => Some (OSetTz z (zb fx), rest) | _ => None end
  | 5 :: W :: rest => Some (OSetWall W, rest)
  | 6 :: d :: rest => Some (OOn d, rest)
  | 7 :: t :: rest => Some (OAt t, rest)
  | 8 :: f :: rest => Some (OSetFold (zb f), rest)
  | 9 :: r => match parse_zone r with Some (z, fx :: same :: rest) => Some (OInTz z (zb fx) (zb same), rest) | _ => None end
  | 10 :: h :: m :: s :: us :: rest => Some (OAddFixed h m s us, rest)
  | 11 :: rest => Some (ODropTz, rest)
  | 12 :: rest => Some (OReplaceNoTz, rest)
  | _ => None
  end.

Fixpoint parse_ops (fuel : nat) (l : list Z) : option (list hop) :=
  match l with
  | [] => Some []
  | _ => match fuel with
         | O => None
         | S k => match parse_op l with
                  | Some (op, rest) => match parse_ops k rest with Some ops => Some (op :: ops) | None => None end
                  | None => None
                  end
         end
  end.

Definition NO_OFFSET : Z := 1000000.   (* utcoffset() of a naive value *)

Definition out_hst (s : hst) : list Z :=
  [h_W s; Z.b2z (h_f s); match h_tz s with Some (z, _) => off_local z (h_W s / MEG) (h_f s) | None => NO_OFFSET end].

(* [0; W1; f1; o1; ..; Wn; fn; on]  or  [1; exception; index of the step that raised] *)
Definition run_history (args : list Z) : list Z :=
  match parse_ops (length args) args with
  | None => [9]
  | Some ops =>
    match htrace hinit ops 0 with
    | (l, None) => 0 :: flat_map out_hst l
    | (_, Some (e, i)) => [1; exn_code e; i]
    end
  end.
