(* Model/TimeOperand.v — C20: a timedelta SUBCLASS handed to Time.add_timedelta / subtract_timedelta / + / -.
   pendulum.Duration, AbsoluteDuration and Interval are datetime.timedelta subclasses that override some of the three
   accessors the Time methods read (delta.days, delta.seconds, delta.microseconds):
     Duration / AbsoluteDuration (CPython): days is the NATIVE slot (normal form of the timedelta value, years * 365 + months * 30
        included for Duration); seconds = _seconds and microseconds = _microseconds are the class's own sign-magnitude components
        of  total = native - (years, months part)  (for AbsoluteDuration of |native|);
     Interval: additionally overrides days = _days (sign-magnitude whole days of the span).
   The objects themselves are C09's / C10's models (Model/Duration.v duration_new / absolute_duration_new — proved equal to the
   translated duration.py — and Model/DurationOps.v interval_new = Duration.__new__(cls, seconds=delta.total_seconds()));
   this file only says which fields Time reads, and hands them to the (translated) guards of Model/TimeOfDay.v.
   No proofs here (Proofs/C20OperandFacts.v). *)
From Coq Require Import ZArith List Bool.
From PV Require Import Lib.PyBase Spec.TdFloat Model.Duration Model.DurationOps Model.TimeBase Model.TimeOfDay.
Import ListNotations.
Open Scope Z_scope.

(* kind 0: Duration(days, seconds, microseconds, milliseconds, minutes, hours, weeks, years, months)
   kind 1: AbsoluteDuration(the same nine)
   kind 2: Interval whose native span end - start is `days` microseconds (the other eight are ignored) *)
Definition operand_new (kind : Z) (days seconds us ms minutes hours weeks years months : Z) : result dur :=
  if kind =? 0 then duration_new days seconds us ms minutes hours weeks years months
  else if kind =? 1 then absolute_duration_new days seconds us ms minutes hours weeks years months
  else interval_new days.

(* the native normal form of the timedelta value: what timedelta.days.__get__(x) etc. return *)
Definition native_ptd (x : dur) : ptd := let '(d, s, u) := td_norm (d_N x) in mkTd d s u.

(* what x.days, x.seconds, x.microseconds return for an object of that class *)
Definition operand_present (kind : Z) (x : dur) : ptd :=
  mkTd (if kind =? 2 then d_days x else td_days (native_ptd x)) (d_seconds x) (d_micro x).

Definition time_add_operand (t : ptime) (kind : Z) (days seconds us ms minutes hours weeks years months : Z) : result ptime :=
  bind (operand_new kind days seconds us ms minutes hours weeks years months) (fun x =>
  time_add_timedelta t (operand_present kind x)).

Definition time_subtract_operand (t : ptime) (kind : Z) (days seconds us ms minutes hours weeks years months : Z) : result ptime :=
  bind (operand_new kind days seconds us ms minutes hours weeks years months) (fun x =>
  time_subtract_timedelta t (operand_present kind x)).

(* the six accessor values: presented days / seconds / microseconds, native days / seconds / microseconds *)
Definition operand_observe (kind : Z) (days seconds us ms minutes hours weeks years months : Z) : result (list Z) :=
  bind (operand_new kind days seconds us ms minutes hours weeks years months) (fun x =>
  let p := operand_present kind x in
  let n := native_ptd x in
  Ok [td_days p; td_seconds p; td_microseconds p; td_days n; td_seconds n; td_microseconds n]).
