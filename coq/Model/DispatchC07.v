(* Model/DispatchC07.v — entry point of the C07 models for the OCaml driver and the vm_compute cross-check.
   Strings are passed as their code points.  Result encoding: 0 :: values, [1; exn code], [9] bad call/unsupported input.
   A parsed value is encoded as  kind y m d H M S us hasoff off. *)
From Coq Require Import ZArith List Bool.
From PV Require Import Lib.PyBase Spec.Cal Model.C07Regex Gen.IsoRegex Gen.IsoPost Model.IsoParse Model.IsoRender.
Import ListNotations.
Open Scope Z_scope.

Definition enc_pval (r : result pval) : list Z :=
  match r with
  | Ok p => [0; p_kind p; p_y p; p_m p; p_d p; p_H p; p_M p; p_S p; p_us p;
             match p_off p with Some _ => 1 | None => 0 end; match p_off p with Some o => o | None => 0 end]
  | Raise e => [1; exn_code e]
  end.

(* groups 1..n: -1 for a group that did not participate, else its length followed by its characters *)
Definition enc_caps (o : option caps) : list Z :=
  match o with
  | None => [0; 0]
  | Some c => 0 :: 1 :: flat_map (fun g => match g with None => [-1] | Some l => Z.of_nat (length l) :: l end) (tl c)
  end.

Definition enc_md (r : result (Z * Z)) : list Z := match r with Ok (a, b) => [0; a; b] | Raise e => [1; exn_code e] end.
Definition enc_ymd (r : result (Z * Z * Z)) : list Z := match r with Ok (a, b, c) => [0; a; b; c] | Raise e => [1; exn_code e] end.
Definition enc_oymd (r : option (Z * Z * Z)) : list Z := match r with Some (a, b, c) => [0; a; b; c] | None => [1; 1] end.

(* a whole year in one date form: every day of year y is rendered by Model/IsoRender.v and parsed; results as y*10000+m*100+d,
   -1 for a raise, -2 for a non-date (used by the exhaustive tier: one call per year and form) *)
Definition enc_date (r : result pval) : Z :=
  match r with Ok p => if p_kind p =? 2 then p_y p * 10000 + p_m p * 100 + p_d p else -2 | Raise _ => -1 end.
Definition year_form (rs : bool) (y form : Z) : list Z :=
  map (fun k => let '(yy, mm, dd) := ord2ymd (ymd2ord y 1 1 + Z.of_nat k) in
                enc_date ((if rs then rs_parse_iso else py_parse_iso) (render_date form yy mm dd)))
      (seq 0 (Z.to_nat (days_in_year y))).

Definition dispatch (fn : Z) (args : list Z) : list Z :=
  match fn, args with
  | 1 (* py_parse_iso *), s => if cur s =? ch_P then [9] else enc_pval (py_parse_iso s)
  | 2 (* rs_parse_iso *), s => if (cur s =? ch_P) || existsb (fun c => c =? ch_slash) s then [9] else enc_pval (rs_parse_iso s)
  | 3 (* py_parse_top *), exact :: tzf :: tzo :: ny :: nm :: nd :: s =>
      if supported s then enc_pval (parse_top false (negb (exact =? 0)) (if tzf =? 0 then None else Some tzo) (ny, nm, nd) s) else [9]
  | 4 (* rs_parse_top *), exact :: tzf :: tzo :: ny :: nm :: nd :: s =>
      if supported s then enc_pval (parse_top true (negb (exact =? 0)) (if tzf =? 0 then None else Some tzo) (ny, nm, nd) s) else [9]
  | 5 (* iso_groups *), s => enc_caps (re_match ISO_RE ISO_NGROUPS s)
  | 6 (* common_groups *), s => enc_caps (re_match COMMON_RE COMMON_NGROUPS s)
  | 7 (* py_ordinal_md *), [y; n] => enc_md (py_iso_ordinal_md y n)
  | 8 (* rs_ordinal_to_ymd *), [y; n; allow] => enc_oymd (rs_ordinal_to_ymd y n (negb (allow =? 0)))
  | 9 (* py_get_week *), [y; w; wd] => enc_ymd (py_get_week y w (if wd <? 0 then None else Some wd))
  | 10 (* rs_iso_to_ymd *), [y; w; wd] => enc_oymd (rs_iso_to_ymd y w wd)
  | 11 (* cal_ord2ymd *), [n] => let '(a, b, c) := ord2ymd n in [0; a; b; c]
  | 12 (* cal_fromiso *), [y; w; wd] => let '(a, b, c) := ord2ymd (fromisocalendar_ord y w wd) in [0; a; b; c; iso_weeks_in_year y]
  | 20 (* py_year_form *), [y; form] => 0 :: year_form false y form
  | 21 (* rs_year_form *), [y; form] => 0 :: year_form true y form
  | _, _ => [9]
  end.
