(* Model/FormatterSession.v (C08) — format() / from_format() inside a process HISTORY: the process-wide default locale as a
   small state machine, and Formatter.format / Formatter.parse called with or without a locale argument.

   Hand model of
     pendulum.set_locale / get_locale                  (src/pendulum/helpers.py: `locale(name)` first, i.e. Locale.load(name), then
                                                        pendulum._LOCALE = name — a name that does not load raises ValueError BEFORE the assignment),
     Locale.load / Locale.normalize_locale             (src/pendulum/locales/locale.py; ASCII names),
     the defaults  `Locale.load(locale or pendulum.get_locale())`  of Formatter.format  and
                   `if not locale: locale = pendulum.get_locale()` of Formatter.parse.

   The state is the configured name exactly as it was passed to the last set_locale call that RETURNED.  Locale.load is a
   transparent cache (a pure function of the normalised name), format and parse never change the state and keep nothing from one
   call to the next: the output of an operation is a function of its own arguments and of the configured name only.
   The correspondence run (stream `session` of tools/props/C08.py) executes whole operation sequences in ONE process and compares
   every output of the sequence with `run`.  No proofs here (Proofs/C08Session.v). *)
From Coq Require Import ZArith List Bool.
From PV Require Import Lib.PyBase Spec.Cal Model.FormatterBase Gen.FormatterTables Gen.LocaleTables Model.Formatter Model.FormatterParse.
Import ListNotations.
Open Scope Z_scope.

(* ------------------------------------------------------------------ Locale.normalize_locale on ASCII names
   m = re.match("([a-z]{2})[-_]([a-z]{2})", locale, re.I): a match at the START is enough (whatever follows is dropped);
   f"{m.group(1).lower()}_{m.group(2).lower()}" if m else locale.lower() *)
Definition is_az (c : Z) : bool := ((65 <=? c) && (c <=? 90)) || ((97 <=? c) && (c <=? 122)).
Definition normalize_locale (s : str) : str :=
  match s with
  | a :: b :: sp :: c :: d :: _ =>
    if is_az a && is_az b && ((sp =? 45) || (sp =? 95)) && is_az c && is_az d
    then [ascii_lower a; ascii_lower b; 95; ascii_lower c; ascii_lower d]
    else map ascii_lower s
  | _ => map ascii_lower s
  end.

(* Locale.load(name): the shipped locale whose directory is the normal form of the name (the existence loop raises in its first
   iteration, so there is no fallback from xx_yy to xx) *)
Definition load (name : str) : result locale_data :=
  match find_locale (normalize_locale name) with
  | Some l => Ok l
  | None => Raise E_ValueError
  end.
Definition loads (name : str) : bool := match load name with Ok _ => true | Raise _ => false end.

(* ------------------------------------------------------------------ operations of a session *)
Inductive fop :=
| FSet (name : str)                                                   (* pendulum.set_locale(name) *)
| FGet                                                                (* pendulum.get_locale() *)
| FFormat (loc : option str) (t : pdt) (fmt : str)                    (* dt.format(fmt[, locale=loc]) *)
| FRound (loc : option str) (zones : list str) (t : pdt) (fmt : str)  (* Formatter.parse(dt.format(fmt[, locale=loc]), fmt, now[, loc]) *)
| FParse (loc : option str) (zones : list str) (time fmt : str).      (* Formatter.parse(time, fmt, now[, loc]) *)

Inductive fout :=
| OUnit (r : result unit)                               (* set_locale *)
| OStr (r : result str)                                 (* get_locale, format *)
| OVal (r : result validated)                           (* parse *)
| ORound (r : result (str * result validated)).         (* the rendered text and what parse made of it *)

(* the default locale of the process when it starts: pendulum._LOCALE = "en" *)
Definition initial : str := default_locale.

(* the name an operation works with: its own argument (`locale or ...` / `if not locale`: an empty string counts as absent), else the configured one *)
Definition eff (st : str) (loc : option str) : str :=
  match loc with
  | Some (c :: n) => c :: n
  | _ => st
  end.

Definition roundtrip_in (rs : bool) (now : pnow) (name : str) (zones : list str) (t : pdt) (fmt : str) : result (str * result validated) :=
  bind (format name t fmt) (fun s => Ok (s, parse rs zones name now s fmt)).

(* one operation: (state afterwards, what the call returned or raised) *)
Definition step (rs : bool) (now : pnow) (st : str) (o : fop) : str * fout :=
  match o with
  | FSet n => if loads n then (n, OUnit (Ok tt)) else (st, OUnit (Raise E_ValueError))
  | FGet => (st, OStr (Ok st))
  | FFormat loc t fmt => (st, OStr (format (normalize_locale (eff st loc)) t fmt))
  | FRound loc zones t fmt => (st, ORound (roundtrip_in rs now (normalize_locale (eff st loc)) zones t fmt))
  | FParse loc zones time fmt => (st, OVal (parse rs zones (normalize_locale (eff st loc)) now time fmt))
  end.

Fixpoint run (rs : bool) (now : pnow) (st : str) (ops : list fop) : list fout :=
  match ops with
  | [] => []
  | o :: r => let '(st', out) := step rs now st o in out :: run rs now st' r
  end.

Fixpoint final (rs : bool) (now : pnow) (st : str) (ops : list fop) : str :=
  match ops with
  | [] => st
  | o :: r => final rs now (fst (step rs now st o)) r
  end.

(* what the state SHOULD be, said without the machine: the name of the last set_locale of the history whose name loads *)
Fixpoint last_good_set (ops : list fop) (acc : str) : str :=
  match ops with
  | [] => acc
  | FSet n :: r => last_good_set r (if loads n then n else acc)
  | _ :: r => last_good_set r acc
  end.
