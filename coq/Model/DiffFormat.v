(* Model/DiffFormat.v (C18) — hand model of
     DifferenceFormatter.format            (src/pendulum/formatting/difference_formatter.py; its unit-selection chain is the
                                            TRANSLATED Gen.Locales.gen_pick, the key construction below is pinned to the source
                                            text by the generator and tied by correspondence),
     Duration.in_words / Interval.in_words (src/pendulum/duration.py, interval.py),
     Locale.ordinalize and the locale-dependent tokens of Formatter._format_localizable_token.
   No proofs here. *)
From Coq Require Import ZArith List Bool String Ascii.
From Coq Require Import Floats.SpecFloat.
From PV Require Import Lib.PyBase Model.LocaleBase Gen.Locales.
Import ListNotations.
Open Scope string_scope.
Open Scope list_scope.
Open Scope Z_scope.

Definition fmt_count (o : option node) (count : Z) : result pstr := node_format o (str_of_Z count).

(* trans[cls].format(count) for a truthy trans *)
Definition subscript_format (trans : option node) (cls : string) (arg : pstr) : result pstr :=
  match trans with
  | Some (NDict l) => match assoc (KS cls) l with Some n => node_format (Some n) arg | None => Raise E_KeyError end
  | _ => Raise E_TypeError
  end.

Definition fp (invert : bool) : string := if invert then "future" else "past".
Definition ab (invert : bool) : string := if invert then "after" else "before".
Definition dir_key (is_now invert : bool) : string :=
  if is_now then (if invert then "from_now" else "ago") else ab invert.

(* everything after `if count == 0: count = 1`, as a function of cls = locale.plural(count) and arg = str(count)
   (the code uses count only through these two) *)
Definition inner_time (L : locale) (unit cls : string) (arg : pstr) (invert : bool) : result pstr :=
  bind (lget L ["custom"; "units_relative"; unit; fp invert]) (fun trans =>
  if truthy trans then subscript_format trans cls arg
  else bind (lget L ["translations"; "units"; unit; cls]) (fun o => node_format o arg)).

Definition tail_with (L : locale) (unit cls : string) (arg : pstr) (is_now absolute invert : bool) : result pstr :=
  if absolute then
    bind (lget L ["translations"; "units"; unit; cls]) (fun o => node_format o arg)
  else if is_now then
    bind (lget L ["translations"; "relative"; unit; fp invert; cls]) (fun o => node_format o arg)
  else
    bind (inner_time L unit cls arg invert) (fun time =>
    bind (lget L ["custom"; ab invert]) (fun o => node_format o time)).

Definition norm_count (count0 : Z) : Z := if count0 =? 0 then 1 else count0.

Definition tail (L : locale) (unit : string) (count0 : Z) (is_now absolute invert : bool) : result pstr :=
  let count := norm_count count0 in
  tail_with L unit (lplural L count) (str_of_Z count) is_now absolute invert.

(* the branch `if time is not None` of the final else (time = custom.units.few_second) *)
Definition few_branch (L : locale) (time : option node) (is_now absolute invert : bool) : result pstr :=
  if absolute then node_str time
  else bind (lget L ["custom"; dir_key is_now invert]) (fun o =>
       match o with
       | Some (NStr _ _) => bind (node_str time) (fun ts => node_format o ts)
       | _ => Raise E_AttributeError
       end).

Definition few_path : list string := ["custom"; "units"; "few_second"].

Definition format (L : locale) (d : comp) (is_now absolute invert : bool) : result pstr :=
  match gen_pick d with
  | Some (u, c) => tail L u c is_now absolute invert
  | None =>
    bind (lget L few_path) (fun time =>
    match time with
    | Some _ => few_branch L time is_now absolute invert
    | None => tail L "second" (c_rsecs d) is_now absolute invert
    end)
  end.

(* ------------------------------------------------------------------ f"{abs(us) / 1e6:.2f}" for 0 < |us| < 10^6 *)
(* the double abs(us)/1e6 (correctly rounded division, binary64), then its exact value rounded half-even to hundredths *)
Definition hundredths (us : Z) : Z :=
  match Z.abs us with
  | Zpos p =>
    match SFdiv 53 1024 (S754_finite false p 0) (S754_finite false 1000000 0) with
    | S754_finite _ m e =>
      let num := Zpos m * 100 in
      if 0 <=? e then num * 2 ^ e
      else let den := 2 ^ (- e) in
           let q := num / den in let r := num mod den in
           if den <? 2 * r then q + 1 else if (2 * r =? den) then q + q mod 2 else q
    | _ => 0
    end
  | _ => 0
  end.

Definition two_digits (n : Z) : pstr := [48 + n / 10; 48 + n mod 10].
Definition fmt2 (us : Z) : pstr := let h := hundredths us in str_of_Z (h / 100) ++ [46] ++ two_digits (h mod 100).

(* ------------------------------------------------------------------ in_words *)
Definition unit_counts (d : comp) : list (string * Z) :=
  [("year", c_years d); ("month", c_months d); ("week", c_weeks d); ("day", c_rdays d);
   ("hour", c_hours d); ("minute", c_minutes d); ("second", c_rsecs d)].

Fixpoint words_parts (L : locale) (l : list (string * Z)) : result (list pstr) :=
  match l with
  | [] => Ok []
  | (u, c) :: r =>
    if 0 <? Z.abs c then
      bind (lget L ["translations"; "units"; u; lplural L (Z.abs c)]) (fun o =>
      bind (fmt_count o c) (fun s =>
      bind (words_parts L r) (fun rest => Ok (s :: rest))))
    else words_parts L r
  end.

Fixpoint join (sep : pstr) (l : list pstr) : pstr :=
  match l with
  | [] => []
  | [x] => x
  | x :: r => x ++ sep ++ join sep r
  end.

Definition in_words (L : locale) (d : comp) (us : Z) (sep : pstr) : result pstr :=
  bind (words_parts L (unit_counts d)) (fun parts =>
  match parts with
  | [] =>
    if 0 <? Z.abs us then
      bind (lget L ["translations"; "units"; "second"; lplural L 1]) (fun o => node_format o (fmt2 us))
    else
      bind (lget L ["translations"; "units"; "microsecond"; lplural L 0]) (fun o => fmt_count o 0)
  | _ => Ok (join sep parts)
  end).

(* ------------------------------------------------------------------ ordinalize and locale-dependent tokens *)
Definition ordinalize_with (L : locale) (cls : string) (num : pstr) : result pstr :=
  bind (lget L ["custom"; "ordinal"; cls]) (fun o =>
  if truthy o then bind (node_str o) (fun s => Ok (num ++ s)) else Ok num).

Definition ordinalize (L : locale) (n : Z) : result pstr := ordinalize_with L (lordinal L n) (str_of_Z n).

(* locale.get(path)[i] with an int index, used as a str *)
Definition get_idx (L : locale) (path : list string) (i : Z) : result pstr :=
  bind (lget L path) (fun o =>
  match o with
  | None => Raise E_TypeError                  (* None[...] *)
  | Some (NDict l) => match assoc (KI i) l with Some n => node_str (Some n) | None => Raise E_KeyError end
  | Some (NStr _ _) => Raise E_NotImplemented  (* indexing a str: not modelled *)
  | Some _ => Raise E_TypeError
  end).

Definition first_day (L : locale) : result Z :=
  bind (lget L ["translations"; "week_data"; "first_day"]) (fun o =>
  match o with
  | Some (NInt z) => Ok z
  | _ => Raise E_TypeError                     (* int - None / int - str *)
  end).

(* token ids: 0 MMM, 1 MMMM, 2 dd, 3 ddd, 4 dddd, 5 e, 6 Do, 7 do, 8 Mo, 9 eo, 10 A *)
Definition token (L : locale) (tok month dow day hour : Z) : result pstr :=
  match tok with
  | 0 => get_idx L ["translations"; "months"; "abbreviated"] month
  | 1 => get_idx L ["translations"; "months"; "wide"] month
  | 2 => get_idx L ["translations"; "days"; "short"] dow
  | 3 => get_idx L ["translations"; "days"; "abbreviated"] dow
  | 4 => get_idx L ["translations"; "days"; "wide"] dow
  | 5 => bind (first_day L) (fun fd => Ok (str_of_Z ((dow mod 7 - fd) mod 7)))
  | 6 => ordinalize L day
  | 7 => ordinalize L ((dow + 1) mod 7)
  | 8 => ordinalize L month
  | 9 => bind (first_day L) (fun fd => ordinalize L ((dow mod 7 - fd) mod 7 + 1))
  | 10 => bind (lget L ["translations"; "day_periods"; if 12 <=? hour then "pm" else "am"]) (fun o =>
          match o with Some (NStr raw _) => Ok raw | None => Raise E_TypeError | _ => Raise E_TypeError end)
  | _ => Raise E_NotImplemented
  end.

(* the localized format behind LTS LT L LL LLL LLLL: Some raw, or None = Formatter._DEFAULT_DATE_FORMATS is used *)
Definition date_format_names : list string := ["LTS"; "LT"; "L"; "LL"; "LLL"; "LLLL"].
Definition date_format (L : locale) (i : Z) : result (option pstr) :=
  bind (lget L ["custom"; "date_formats"; nth (Z.to_nat i) date_format_names ""]) (fun o =>
  match o with
  | None => Ok None
  | Some (NStr raw _) => Ok (Some raw)
  | Some _ => Raise E_NotImplemented
  end).

(* ------------------------------------------------------------------ helpers for the dispatcher *)
Definition pstr_of_string (s : string) : pstr := map (fun a => Z.of_N (N_of_ascii a)) (list_ascii_of_string s).
Definition nth_locale (i : Z) : option locale := if i <? 0 then None else nth_error all_locales (Z.to_nat i).
