(* Model/DispatchC09.v — entry point of the executable models of C09 (Duration normalisation) and of the shared
   float / timedelta foundation Spec/TdFloat.v.
   Result encoding: 0 :: values (normal), 1 :: [exn code] (raise), 9 :: [] (bad call).
   A float travels as three integers (tag, mantissa, exponent), see TdFloat.sf_code. *)
From Coq Require Import ZArith List Bool.
From Coq Require Import Floats.SpecFloat.
From PV Require Import Lib.PyBase Spec.TdFloat Gen.Constants Model.Duration.
Import ListNotations.
Open Scope Z_scope.

Definition ok (l : list Z) : list Z := 0 :: l.
Definition of_res (r : result (list Z)) : list Z :=
  match r with Ok l => 0 :: l | Raise e => [1; exn_code e] end.
Definition of_resZ (r : result Z) : list Z :=
  match r with Ok z => [0; z] | Raise e => [1; exn_code e] end.
Definition of_resF (r : result sf) : list Z :=
  match r with Ok x => 0 :: sf_code x | Raise e => [1; exn_code e] end.
Definition of3 (t : Z*Z*Z) : list Z := let '(a,b,c) := t in [0;a;b;c].

Definition dispatch (fn : Z) (args : list Z) : list Z :=
  match fn, args with
  | 1 (* dur_new *), [d;s;us;ms;mi;h;w;y;mo] => of_res (bind (duration_new d s us ms mi h w y mo) dur_observe)
  | 2 (* absdur_new *), [d;s;us;ms;mi;h;w;y;mo] => of_res (bind (absolute_duration_new d s us ms mi h w y mo) dur_observe)
  | 3 (* dur_rebuild *), [d;s;us;ms;mi;h;w;y;mo] =>
      of_res (bind (duration_new d s us ms mi h w y mo) (fun x => bind (duration_rebuild x) dur_observe))
  | 10 (* td_norm *), [n] => of3 (td_norm n)
  | 11 (* td_of_int_args *), [d;s;us;ms;mi;h;w] => of_resZ (td_of_int_args d s us ms mi h w)
  | 12 (* total_seconds *), [n] => ok (sf_code (total_seconds n))
  | 13 (* td_of_float_seconds *), [t;m;e] => of_resZ (td_of_float_seconds (sf_decode t m e))
  | 14 (* sf_of_Z *), [n] => of_resF (py_float_of_int n)
  | 15 (* py_int_trunc *), [t;m;e] => of_resZ (py_int_trunc (sf_decode t m e))
  | 16 (* py_round *), [t;m;e] => of_resZ (py_round_half_even (sf_decode t m e))
  | 17 (* py_float_mod *), [t;m;e;t2;m2;e2] => of_resF (py_float_mod (sf_decode t m e) (sf_decode t2 m2 e2))
  | 18 (* py_float_divmod *), [t;m;e;t2;m2;e2] =>
      match py_float_divmod (sf_decode t m e) (sf_decode t2 m2 e2) with
      | Ok (q, r) => 0 :: sf_code q ++ sf_code r
      | Raise ex => [1; exn_code ex]
      end
  | 19 (* fadd *), [t;m;e;t2;m2;e2] => ok (sf_code (fadd (sf_decode t m e) (sf_decode t2 m2 e2)))
  | 20 (* fsub *), [t;m;e;t2;m2;e2] => ok (sf_code (fsub (sf_decode t m e) (sf_decode t2 m2 e2)))
  | 21 (* fmul *), [t;m;e;t2;m2;e2] => ok (sf_code (fmul (sf_decode t m e) (sf_decode t2 m2 e2)))
  | 22 (* fdiv *), [t;m;e;t2;m2;e2] => ok (sf_code (fdiv (sf_decode t m e) (sf_decode t2 m2 e2)))
  | 23 (* flt *), [t;m;e;t2;m2;e2] => ok [Z.b2z (flt (sf_decode t m e) (sf_decode t2 m2 e2)); Z.b2z (feq (sf_decode t m e) (sf_decode t2 m2 e2))]
  | 24 (* sf_of_ratio *), [a;b] => match b with Zpos p => ok (sf_code (sf_of_ratio a p)) | _ => [9] end
  | 25 (* roundtrip *), [n] =>
      let x := total_seconds n in
      match td_of_float_seconds x with Ok z => 0 :: sf_code x ++ [z] | Raise ex => [1; exn_code ex] end
  | _, _ => [9]
  end.
