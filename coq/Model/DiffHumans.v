(* Model/DiffHumans.v (C18) — DateTime.diff_for_humans(other) / DateTime.diff(other) on two aware datetimes, end to end:
     DateTime.diff(other)               = Interval(self, other, absolute=True)        (src/pendulum/datetime.py)
     Interval.__new__/__init__          invert = start > end (CPython's comparison: wall fields when both carry the same tzinfo
                                        object, instants otherwise); absolute => the operands are swapped so that start <= end;
                                        _delta = precise_diff(start, end); the elapsed Duration end - start   (interval.py)
     the component properties           years months weeks remaining_days hours minutes remaining_seconds        (PdInterval.iv_components)
     pendulum.format_diff(diff, False, absolute, locale)                                                          (DiffFormat.format)
   precise_diff is the TRANSLATED pure-Python helper (Gen/PreciseDiff.v) or the hand model of the compiled one
   (Model/RustPreciseDiff.v, with its manual UTC shift exactly as written), both shared with C06.  An operand is a PdBase.pdt:
   wall fields, UTC offset, tz name id, tzinfo object id.  No proofs here. *)
From Coq Require Import ZArith List Bool String.
From PV Require Import Lib.PyBase Spec.Cal Gen.Constants Gen.Helpers Model.PdBase Gen.PreciseDiff Model.RustPreciseDiff Model.PdInterval.
From PV Require Import Model.LocaleBase Gen.Locales Model.DiffFormat.
Import ListNotations.
Open Scope Z_scope.

(* helpers.precise_diff as called by Interval: pure Python (rs = false) or compiled (rs = true; Interval passes native
   datetime objects) *)
Definition pd_backend (rs : bool) (s e : pdt) : result pdiff :=
  if rs then Ok (rs_precise_diff s e) else py_precise_diff s e.

(* what Interval.__init__ hands to precise_diff: datetime(year, ..., microsecond, tzinfo=x.tzinfo) — WITHOUT fold=, so the native
   value reads its wall time with fold 0: its utcoffset() is off0, the offset of the first occurrence (= the true offset unless
   the operand is the second occurrence of a repeated wall time) *)
Definition refolded (d : pdt) (off0 : Z) : pdt :=
  mkpdt (p_year d) (p_month d) (p_day d) (p_hour d) (p_minute d) (p_second d) (p_microsecond d) off0
        (p_has_tz d) (p_tzname d) (p_tzobj d) (p_is_dt d).

(* self.diff(other): (components, invert).  a, b carry their true offsets (start > end and the elapsed Duration of
   Interval.__new__, which does pass fold=, are computed from them); oa, ob are the fold-0 offsets *)
Definition diff_comps (rs : bool) (a b : pdt) (oa ob : Z) : result (comp * bool) :=
  let inv := p_gtb a b in
  let s := if inv then b else a in
  let e := if inv then a else b in
  let s0 := if inv then refolded b ob else refolded a oa in
  let e0 := if inv then refolded a oa else refolded b ob in
  bind (pd_backend rs s0 e0) (fun d =>
  let c := iv_components d (iv_elapsed s e) in
  Ok (mkcomp (iv_years c) (iv_months c) (iv_weeks c) (iv_remaining_days c) (iv_hours c) (iv_minutes c) (iv_remaining_seconds c), inv)).

(* self.diff_for_humans(other, absolute, locale) *)
Definition diff_for_humans (L : locale) (rs : bool) (a b : pdt) (oa ob : Z) (absolute : bool) : result pstr :=
  bind (diff_comps rs a b oa ob) (fun ci => format L (fst ci) false absolute (snd ci)).

(* the UTC instants of both operands are representable (CPython raises OverflowError when it shifts otherwise) *)
Definition dh_in_domain (a b : pdt) (oa ob : Z) : bool :=
  wall_in_range (p_instant a) && wall_in_range (p_instant b) &&
  wall_in_range (p_instant (refolded a oa)) && wall_in_range (p_instant (refolded b ob)).
