(* Model/DiffHumans.v (C18) — DateTime.diff_for_humans(other) / DateTime.diff(other) on two aware datetimes, end to end:
     DateTime.diff(other)               = Interval(self, other, absolute=True)        (src/pendulum/datetime.py)
     Interval.__new__/__init__          invert = start > end (CPython's comparison: wall fields when both carry the same tzinfo
                                        object, instants otherwise); absolute => the operands are swapped so that start <= end;
                                        _delta = precise_diff(start, end); the elapsed Duration end - start   (interval.py)
     the component properties           years months weeks remaining_days hours minutes remaining_seconds        (PdInterval.iv_components)
     pendulum.format_diff(diff, False, absolute, locale)                                                          (DiffFormat.format)
   precise_diff is the TRANSLATED pure-Python helper (Gen/PreciseDiff.v) or the hand model of the compiled one
   (Model/RustPreciseDiff.v, with its manual UTC shift exactly as written), both shared with C06.  An operand is a PdBase.pdt:
   wall fields, UTC offset (the one its fold selects), tz name id, tzinfo object id.  No proofs here. *)
From Coq Require Import ZArith List Bool String.
From PV Require Import Lib.PyBase Spec.Cal Gen.Constants Gen.Helpers Model.PdBase Gen.PreciseDiff Model.RustPreciseDiff Model.PdInterval.
From PV Require Import Model.LocaleBase Gen.Locales Model.DiffFormat.
Import ListNotations.
Open Scope Z_scope.

(* helpers.precise_diff as called by Interval: pure Python (rs = false) or compiled (rs = true; Interval passes native
   datetime objects) *)
Definition pd_backend (rs : bool) (s e : pdt) : result pdiff :=
  if rs then Ok (rs_precise_diff s e) else py_precise_diff s e.

(* self.diff(other): (components, invert).  Interval.__init__ hands precise_diff the native values
   datetime(year, ..., microsecond, tzinfo=x.tzinfo, fold=x.fold): the same wall fields read with the same fold, hence with the same
   utcoffset() — the operands themselves, whichever occurrence of a repeated wall time they are (since the repair of finding
   interval-init-drops-fold; before it the natives were rebuilt without fold= and a second occurrence was read as the first).
   `start > end` and the elapsed Duration of Interval.__new__ are computed from the same values. *)
Definition diff_comps (rs : bool) (a b : pdt) : result (comp * bool) :=
  let inv := p_gtb a b in
  let s := if inv then b else a in
  let e := if inv then a else b in
  bind (pd_backend rs s e) (fun d =>
  let c := iv_components d (iv_elapsed s e) in
  Ok (mkcomp (iv_years c) (iv_months c) (iv_weeks c) (iv_remaining_days c) (iv_hours c) (iv_minutes c) (iv_remaining_seconds c), inv)).

(* self.diff_for_humans(other, absolute, locale) *)
Definition diff_for_humans (L : locale) (rs : bool) (a b : pdt) (absolute : bool) : result pstr :=
  bind (diff_comps rs a b) (fun ci => format L (fst ci) false absolute (snd ci)).

(* the UTC instants of both operands are representable (CPython raises OverflowError when it shifts otherwise) *)
Definition dh_in_domain (a b : pdt) : bool :=
  wall_in_range (p_instant a) && wall_in_range (p_instant b).
