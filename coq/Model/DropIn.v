(* Model/DropIn.v — C11: DateTime / Date / Time as drop-in replacements of the native classes.
   Part 1 (native_X functions): the slice of CPython's Modules/_datetimemodule.c that the property talks about, as functions of the fields
     (wall microseconds, fold, tzinfo object identity + zone table):  toordinal/weekday/isoweekday/isocalendar/timetuple (Spec/Cal.v),
     utcoffset (Spec/Zone.v off_local), timestamp/instant, utctimetuple, datetime_richcompare incl. the PEP 495 inter-zone exception
     (pep495_eq_exception), datetime_hash (fold reset), datetime_subtract, astimezone (Model/TzConvert.v astz), date()/time()/timetz().
   Part 2 (pd_X functions): hand transcription of the overrides in /repo (src/pendulum/datetime.py date time astimezone __sub__ __rsub__ replace
     instance fromtimestamp fromordinal combine strptime, interval.py Interval.__new__, date.py __sub__, time.py __sub__/diff), pinned to the
     source text by Gen/Classes.v pinned_sources.
   Part 3: the dispatch model: Gen/Classes.v (generated from the class bodies) says who answers a name; an inherited name means the native
     function on the same fields (CPython's inheritance: trusted), an overridden one means the pd_X model.
   No proofs here.  Tied to /repo and to CPython by the C11 correspondence/oracle run. *)
From Coq Require Import ZArith List Bool String.
From PV Require Import Lib.PyBase Spec.Cal Spec.Zone Spec.NativeDT Spec.TdFloat Model.TzConvert Gen.Classes.
Import ListNotations.
Open Scope Z_scope.

(* ------------------------------------------------------------------------------------------------ values *)
(* a tzinfo object: its identity (two values carry the same object iff the ids are equal), whether it is a fixed offset
   (FixedTimezone / datetime.timezone) and the table zoneinfo presents *)
Record tzi := mktzi { tz_id : Z; tz_fixed : bool; tz_zone : zone }.
(* the fields of a datetime object, pendulum or native: wall clock, fold, tzinfo *)
Record dtv := mkdtv { v_wall : Z; v_fold : bool; v_tz : option tzi }.
(* type tags of results *)
Inductive tytag := TyDateTime | TyDate | TyTime | TyInterval | TyDuration | Ty_datetime | Ty_date | Ty_time | Ty_timedelta.
Definition is_pendulum_type (t : tytag) : bool :=
  match t with TyDateTime | TyDate | TyTime | TyInterval | TyDuration => true | _ => false end.

Definition aware (x : dtv) : bool := match v_tz x with Some _ => true | None => false end.

(* ------------------------------------------------------------------------------------------------ part 1: native *)
Definition v_off (x : dtv) (f : bool) : option Z :=
  match v_tz x with Some t => Some (off_local (tz_zone t) (sec (v_wall x)) f) | None => None end.
Definition native_utcoffset (x : dtv) : option Z := v_off x (v_fold x).
(* UTC microseconds (the wall value itself for a naive object) *)
Definition instant (x : dtv) : Z := match native_utcoffset x with Some o => v_wall x - MEG * o | None => v_wall x end.

Definition native_toordinal (x : dtv) : Z := v_wall x / us_per_day + 1.
Definition native_weekday (x : dtv) : Z := weekday0 (native_toordinal x).
Definition native_isoweekday (x : dtv) : Z := iso_weekday (native_toordinal x).
Definition native_isocalendar (x : dtv) : Z * Z * Z :=
  let '(y, m, d) := ord2ymd (native_toordinal x) in isocalendar y m d.
(* timetuple without the dst flag: y m d H M S weekday yday *)
Definition tt_of_wall (w : Z) : list Z :=
  let '(y, m, d, hh, mi, ss, _) := fields_of_wall w in
  [y; m; d; hh; mi; ss; weekday0 (w / us_per_day + 1); days_before_month y m + d].
Definition native_timetuple8 (x : dtv) : list Z := tt_of_wall (v_wall x).
(* utctimetuple: self - utcoffset, OverflowError outside years 1..9999 *)
Definition native_utctimetuple8 (x : dtv) : result (list Z) :=
  let U := instant x in if wall_in_range U then Ok (tt_of_wall U) else Raise E_OverflowError.
(* timestamp() of an aware value, in microseconds since 1970 (the float is total_seconds of this) *)
Definition native_timestamp_us (x : dtv) : Z := instant x - EPOCH_US.
(* date() / time() / timetz(): fields (time() drops tzinfo and KEEPS fold; timetz() keeps both) *)
Definition date_fields_of (w : Z) : Z * Z * Z := ord2ymd (w / us_per_day + 1).
Definition time_fields_of (w : Z) : Z * Z * Z * Z :=
  let t := w mod us_per_day in let s := t / 1000000 in (s / 3600, (s / 60) mod 60, s mod 60, t mod 1000000).
Definition native_date (x : dtv) : tytag * (Z * Z * Z) := (Ty_date, date_fields_of (v_wall x)).
Definition native_time (x : dtv) : tytag * (Z * Z * Z * Z) * bool := (Ty_time, time_fields_of (v_wall x), v_fold x).
Definition native_timetz (x : dtv) : tytag * (Z * Z * Z * Z) * bool * option tzi := (Ty_time, time_fields_of (v_wall x), v_fold x, v_tz x).

(* tzinfo identity: `GET_DT_TZINFO(self) == GET_DT_TZINFO(other)` (None is None) *)
Definition same_tzobj (x y : dtv) : bool :=
  match v_tz x, v_tz y with
  | None, None => true
  | Some a, Some b => tz_id a =? tz_id b
  | _, _ => false
  end.
(* pep495_eq_exception: utcoffset depends on fold *)
Definition problem_time (x : dtv) : bool :=
  match v_off x false, v_off x true with Some a, Some b => negb (a =? b) | _, _ => false end.
(* the two integers whose order decides the comparison; None: one naive, one aware *)
Definition cmp_key (x y : dtv) : option (Z * Z) :=
  if same_tzobj x y then Some (v_wall x, v_wall y)
  else match v_tz x, v_tz y with
       | Some _, Some _ => Some (instant x, instant y)
       | _, _ => None
       end.
Definition native_eq (x y : dtv) : bool :=
  match cmp_key x y with
  | None => false
  | Some (a, b) => (a =? b) && (same_tzobj x y || negb (problem_time x || problem_time y))
  end.
Definition native_ord (op : Z -> Z -> bool) (x y : dtv) : result bool :=
  match cmp_key x y with None => Raise E_TypeError | Some (a, b) => Ok (op a b) end.
Definition native_lt := native_ord Z.ltb.
Definition native_le := native_ord Z.leb.
Definition native_gt := native_ord Z.gtb.
Definition native_ge := native_ord Z.geb.
(* datetime_hash: fold reset to 0, then hash(timedelta(wall) - utcoffset) for an aware value, hash of the state bytes for a naive one.
   Two hashes are equal iff the keys are (up to collisions of CPython's tuple hash, which the harness would report). *)
Definition native_hash_key (x : dtv) : bool * Z :=
  match v_off x false with Some o => (true, v_wall x - MEG * o) | None => (false, v_wall x) end.
Definition hash_eq (x y : dtv) : bool :=
  Bool.eqb (fst (native_hash_key x)) (fst (native_hash_key y)) && (snd (native_hash_key x) =? snd (native_hash_key y)).
(* datetime_subtract(datetime, datetime): microseconds *)
Definition native_sub (x y : dtv) : result Z :=
  if same_tzobj x y then Ok (v_wall x - v_wall y)
  else match v_tz x, v_tz y with
       | Some _, Some _ => Ok (instant x - instant y)
       | _, _ => Raise E_TypeError
       end.
(* astimezone(tz) of an aware value; returns self when tz is self.tzinfo *)
Definition native_astimezone (x : dtv) (tz : tzi) : result dtv :=
  match v_tz x with
  | None => Raise E_NotImplemented        (* naive: system local time, not modelled *)
  | Some t =>
    match in_tz (tz_id t =? tz_id tz) (tz_zone t) (tz_zone tz) (v_wall x) (v_fold x) with
    | Ok (W, f) => Ok (mkdtv W f (Some tz))
    | Raise e => Raise e
    end
  end.

(* ------------------------------------------------------------------------------------------------ part 2: pendulum overrides *)
(* DateTime.date(): Date(self.year, self.month, self.day) ; DateTime.time(): Time(hour, minute, second, microsecond, fold=self.fold) ;
   DateTime.timetz(): Time(hour, minute, second, microsecond, tzinfo=self.tzinfo, fold=self.fold)  (Time has no __new__: the native constructor) *)
Definition pd_date (x : dtv) : tytag * (Z * Z * Z) := (TyDate, date_fields_of (v_wall x)).
Definition pd_time (x : dtv) : tytag * (Z * Z * Z * Z) * bool := (TyTime, time_fields_of (v_wall x), v_fold x).
Definition pd_timetz (x : dtv) : tytag * (Z * Z * Z * Z) * bool * option tzi := (TyTime, time_fields_of (v_wall x), v_fold x, v_tz x).

(* DateTime.create(fields, tz, fold): Model/TzConvert.v create ; naive when tz is None *)
Definition pd_create (tz : option tzi) (W : Z) (f : bool) : result dtv :=
  match tz with
  | None => Ok (mkdtv W f None)
  | Some t => match create (tz_zone t) (tz_fixed t) W f false with
              | Ok (W', f') => Ok (mkdtv W' f' (Some t))
              | Raise e => Raise e
              end
  end.
(* DateTime.replace(all fields, fold): create with tz = self.tzinfo *)
Definition pd_replace (x : dtv) (W : Z) (f : bool) : result dtv := pd_create (v_tz x) W f.

(* DateTime.astimezone(tz): super().astimezone(tz), rebuilt as a DateTime.  Inside the C astimezone, ZoneInfo.fromutc() calls
   `.replace(fold=1)` on the subclass instance when the result is the second occurrence of a repeated time: that is DateTime.replace,
   i.e. create() with the pendulum timezone of the same key (so a stdlib ZoneInfo argument is replaced by pendulum's object: keeps_obj = false). *)
Definition pd_astimezone (x : dtv) (tz : tzi) (tz_is_pendulum : bool) : result (tytag * dtv * bool) :=
  match native_astimezone x tz with
  | Raise e => Raise e
  | Ok r =>
    if v_fold r && negb (match v_tz x with Some t => tz_id t =? tz_id tz | None => false end) then
      match pd_create (Some tz) (v_wall r) true with
      | Ok r' => Ok (TyDateTime, r', tz_is_pendulum)
      | Raise e => Raise e
      end
    else Ok (TyDateTime, r, true)
  end.

(* DateTime.instance(native): create(fields, tz = pendulum's timezone object for native.tzinfo, fold = native.fold) *)
Definition pd_instance (y : dtv) (pid : Z) : result dtv :=
  match v_tz y with
  | None => Ok (mkdtv (v_wall y) (v_fold y) None)                              (* create(..., tz=None, fold=dt.fold): the fold of a naive value is kept *)
  | Some t => pd_create (Some (mktzi pid (tz_fixed t) (tz_zone t))) (v_wall y) (v_fold y)
  end.

(* Interval.__new__(start, end, absolute=False): the native timedelta value of the Interval, microseconds *)
Definition interval_length (st en : dtv) : result Z :=
  if negb (Bool.eqb (aware st) (aware en)) then Raise E_TypeError else
  bind (if same_tzobj st en && aware st then
          (* "Fixing issues with datetime.__sub__() not handling offsets if the tzinfo is the same": both made naive UTC *)
          if negb (wall_in_range (instant st)) || negb (wall_in_range (instant en)) then Raise E_OverflowError
          else Ok (instant en - instant st)
        else native_sub en st)
       (fun D => td_of_float_seconds (total_seconds D)).     (* super().__new__(cls, seconds=delta.total_seconds()) *)

(* an operand of a binary operator: pendulum object or native one; pid = identity of pendulum's timezone object for its zone *)
Record operand := mkop { o_val : dtv; o_is_pendulum : bool; o_pid : Z }.
Definition as_pendulum (o : operand) : result dtv := if o_is_pendulum o then Ok (o_val o) else pd_instance (o_val o) (o_pid o).

(* x - y with x a DateTime:  other.diff(self, False) = Interval(other, self) ; y - x through DateTime.__rsub__: self.diff(other, False) = Interval(self, other) *)
Definition pd_sub (x y : operand) : result (tytag * Z) :=
  bind (as_pendulum x) (fun x' => bind (as_pendulum y) (fun y' =>
  bind (interval_length y' x') (fun N => Ok (TyInterval, N)))).

(* DateTime._cmp (PyPy only): rebuilds the native value with tzinfo = self.tz and compares natively *)
Definition pd_cmp (x y : dtv) : result Z :=
  if native_eq x y then Ok 0 else bind (native_gt x y) (fun g => Ok (if g then 1 else -1)).

(* constructors: all go through instance() *)
Definition pd_fromtimestamp_us (tz : tzi) (t_us : Z) : result dtv :=      (* datetime.fromtimestamp(t, tz) then instance *)
  let U := EPOCH_US + t_us in
  if negb (wall_in_range U) then Raise E_ValueError else
  let '(W, f) := render (tz_zone tz) U in
  if wall_in_range W then pd_create (Some tz) W f else Raise E_ValueError.
Definition pd_fromordinal (n : Z) : result dtv :=
  if (1 <=? n) && (n <=? 3652059) then Ok (mkdtv ((n - 1) * us_per_day) false None) else Raise E_ValueError.

(* Date.__sub__(date): Interval(Date(other), self): days ; the length goes through float seconds as well *)
Definition pd_date_sub (n1 n2 : Z) : result (tytag * Z) :=
  bind (td_of_float_seconds (total_seconds ((n1 - n2) * us_per_day))) (fun N => Ok (TyInterval, N)).
(* Time.__sub__(time) = other.diff(self, False): us1/us2 are (hour*3600 + minute*60 + second) * 1e6 + microsecond (fix f98403b) *)
Definition pd_time_sub (h1 m1 s1 us1 h2 m2 s2 us2 : Z) : tytag * Z :=
  (TyDuration, ((h1 * 3600 + m1 * 60 + s1) * 1000000 + us1) - ((h2 * 3600 + m2 * 60 + s2) * 1000000 + us2)).

(* FixedTimezone.utcoffset / dst / fromutc *)
Definition fixed_utcoffset (offset : Z) : Z := offset.
Definition fixed_dst (offset : Z) : Z := 0.
Definition fixed_fromutc (offset W : Z) : result Z :=
  let W' := W + MEG * offset in if wall_in_range W' then Ok W' else Raise E_OverflowError.

(* ------------------------------------------------------------------------------------------------ strings: isoformat and __str__ *)
Definition dg (n : Z) : Z := 48 + n.
Definition r2 (n : Z) : list Z := [dg (n / 10); dg (n mod 10)].
Definition r4 (n : Z) : list Z := r2 (n / 100) ++ r2 (n mod 100).
Definition r6 (n : Z) : list Z := r2 (n / 10000) ++ r2 ((n / 100) mod 100) ++ r2 (n mod 100).
(* utcoffset as +HH:MM[:SS] (whole seconds: tz database offsets) *)
Definition iso_offset (off : Z) : list Z :=
  let a := Z.abs off in
  (if off <? 0 then 45 else 43) :: r2 (a / 3600) ++ [58] ++ r2 ((a / 60) mod 60) ++ (if a mod 60 =? 0 then [] else 58 :: r2 (a mod 60)).
(* datetime.isoformat(sep): YYYY-MM-DD<sep>HH:MM:SS[.ffffff][+HH:MM[:SS]] as character codes *)
Definition native_isoformat (sep : Z) (x : dtv) : list Z :=
  let '(y, m, d, hh, mi, ss, us) := fields_of_wall (v_wall x) in
  r4 y ++ [45] ++ r2 m ++ [45] ++ r2 d ++ [sep] ++ r2 hh ++ [58] ++ r2 mi ++ [58] ++ r2 ss ++ (if us =? 0 then [] else 46 :: r6 us)
  ++ match native_utcoffset x with Some o => iso_offset o | None => [] end.
(* DateTime.__str__: self.isoformat(" ") ; FormattableMixin.for_json: self.isoformat() ; FormattableMixin.__format__(""): str(self) *)
Definition pd_str (x : dtv) : list Z := native_isoformat 32 x.
Definition pd_for_json (x : dtv) : list Z := native_isoformat 84 x.
Definition pd_format_empty (x : dtv) : list Z := pd_str x.

(* ------------------------------------------------------------------------------------------------ part 3: who answers *)
Local Open Scope string_scope.
Definition std_lookup (cls name : string) : option (Z * string) :=
  match find (fun e : string * string * Z * string => let '(c, n, _, _) := e in String.eqb c cls && String.eqb n name) std_table with
  | Some (_, _, k, o) => Some (k, o)
  | None => None
  end.

(* the overrides for which this file (or a referenced property) has a model / which are outside the accessor list of the property *)
Inductive coverage := Modelled (where_ : string) | Referenced (prop : string) | OutOfScope (why : string).
Definition override_coverage (cls name owner : string) : option coverage :=
  let is s := String.eqb name s in
  if String.eqb cls "DateTime" then
    if is "date" then Some (Modelled "pd_date")
    else if is "time" then Some (Modelled "pd_time")
    else if is "timetz" then Some (Modelled "pd_timetz")
    else if is "astimezone" then Some (Modelled "pd_astimezone")
    else if is "__sub__" || is "__rsub__" then Some (Modelled "pd_sub")
    else if is "__add__" || is "__radd__" then Some (Referenced "C03/C04: DateTime.add via _add_timedelta_")
    else if is "replace" then Some (Modelled "pd_replace")
    else if is "__str__" then Some (Modelled "str = isoformat(' ') (compared as strings)")
    else if is "__format__" then Some (Modelled "FormattableMixin.__format__ (compared as strings)")
    else if is "fromtimestamp" || is "utcfromtimestamp" then Some (Modelled "pd_fromtimestamp_us")
    else if is "fromordinal" then Some (Modelled "pd_fromordinal")
    else if is "combine" || is "strptime" then Some (Modelled "pd_instance")
    else if is "now" || is "today" || is "utcnow" then Some (OutOfScope "reads the clock")
    else if is "__repr__" then Some (OutOfScope "repr is not a standard accessor of the property")
    else if is "__reduce__" || is "__reduce_ex__" then Some (Referenced "C14: pickling")
    else if is "min" || is "max" then Some (OutOfScope "class constants")
    else None
  else if String.eqb cls "Date" then
    if is "__sub__" then Some (Modelled "pd_date_sub")
    else if is "__add__" then Some (Referenced "C04: Date.add")
    else if is "replace" || is "fromordinal" || is "fromtimestamp" then Some (Modelled "same fields, type Date")
    else if is "__str__" || is "__format__" then Some (Modelled "FormattableMixin (compared as strings)")
    else if is "today" then Some (OutOfScope "reads the clock")
    else if is "__repr__" then Some (OutOfScope "repr")
    else None
  else if String.eqb cls "Time" then
    if is "replace" then Some (Modelled "same fields, type Time")
    else if is "__sub__" || is "__rsub__" then Some (Modelled "pd_time_sub (extension: the native time has no subtraction)")
    else if is "__add__" then Some (Referenced "C20: Time.add (extension: the native time has no addition)")
    else if is "__str__" || is "__format__" then Some (Modelled "FormattableMixin (compared as strings)")
    else if is "__reduce__" || is "__reduce_ex__" then Some (Referenced "C14: pickling")
    else if is "__repr__" then Some (OutOfScope "repr")
    else if is "min" || is "max" || is "resolution" then Some (OutOfScope "class constants")
    else None
  else None.

Definition all_overrides_covered : bool :=
  forallb (fun e : string * string * string => let '(c, n, o) := e in match override_coverage c n o with Some _ => true | None => false end) shadow_table
  && forallb (fun e : string * string * Z * string => let '(c, n, k, o) := e in if (k =? 0)%Z then match override_coverage c n o with Some _ => true | None => false end else true) std_table.

(* the integer-valued standard accessors of a DateTime *)
Inductive acc := A_toordinal | A_weekday | A_isoweekday | A_isocalendar | A_timetuple | A_utctimetuple | A_utcoffset | A_timestamp
               | A_date | A_time | A_timetz | A_hash.
Definition acc_name (a : acc) : string :=
  match a with
  | A_toordinal => "toordinal" | A_weekday => "weekday" | A_isoweekday => "isoweekday" | A_isocalendar => "isocalendar"
  | A_timetuple => "timetuple" | A_utctimetuple => "utctimetuple" | A_utcoffset => "utcoffset" | A_timestamp => "timestamp"
  | A_date => "date" | A_time => "time" | A_timetz => "timetz" | A_hash => "__hash__"
  end.
Definition NONE : Z := 999999999999.
(* observation of a result as integers (type tag of an object-valued result first: 1 = pendulum type, 0 = native type) *)
Definition tag_code (t : tytag) : Z := Z.b2z (is_pendulum_type t).
(* the tzinfo object carried by a result: its identity, NONE for None *)
Definition tz_code (tz : option tzi) : Z := match tz with Some t => tz_id t | None => NONE end.
Definition native_acc (a : acc) (x : dtv) : result (list Z) :=
  match a with
  | A_toordinal => Ok [native_toordinal x]
  | A_weekday => Ok [native_weekday x]
  | A_isoweekday => Ok [native_isoweekday x]
  | A_isocalendar => let '(y, w, d) := native_isocalendar x in Ok [y; w; d]
  | A_timetuple => Ok (native_timetuple8 x)
  | A_utctimetuple => native_utctimetuple8 x
  | A_utcoffset => Ok [match native_utcoffset x with Some o => o | None => NONE end]
  | A_timestamp => Ok [native_timestamp_us x]
  | A_date => let '(t, (y, m, d)) := native_date x in Ok [tag_code t; y; m; d]
  | A_time => let '(t, (h, mi, s, us), f) := native_time x in Ok [tag_code t; h; mi; s; us; Z.b2z f]
  | A_timetz => let '(t, (h, mi, s, us), f, tz) := native_timetz x in Ok [tag_code t; h; mi; s; us; Z.b2z f; tz_code tz]
  | A_hash => Ok [snd (native_hash_key x)]
  end.
Definition pendulum_acc (a : acc) (x : dtv) : option (result (list Z)) :=
  match a with
  | A_date => let '(t, (y, m, d)) := pd_date x in Some (Ok [tag_code t; y; m; d])
  | A_time => let '(t, (h, mi, s, us), f) := pd_time x in Some (Ok [tag_code t; h; mi; s; us; Z.b2z f])
  | A_timetz => let '(t, (h, mi, s, us), f, tz) := pd_timetz x in Some (Ok [tag_code t; h; mi; s; us; Z.b2z f; tz_code tz])
  | _ => None
  end.
(* what a DateTime answers: by the generated table, the native slot (inherited) or the override's model.
   None: the table names an override for which there is no model (the theorems then fail to build). *)
Definition dispatch_model (a : acc) (x : dtv) : option (result (list Z)) :=
  match std_lookup "DateTime" (acc_name a) with
  | Some (1, _) => Some (native_acc a x)
  | Some (0, _) => pendulum_acc a x
  | _ => None
  end.
