(* Model/TimeBase.v — C20: the data of a time of day and of a native timedelta, as integers.
   Executable definitions only.  Imported by the generated Gen/TimeArith.v and by Model/TimeOfDay.v. *)
From Coq Require Import ZArith List Bool.
Import ListNotations.
Open Scope Z_scope.

(* the four fields of a datetime.time / pendulum.Time (tzinfo and fold play no role in the arithmetic) *)
Record ptime := mkT { t_hour : Z; t_minute : Z; t_second : Z; t_microsecond : Z }.

(* the normal form of a native datetime.timedelta: 0 <= seconds < 86400, 0 <= microseconds < 10^6, days of either sign *)
Record ptd := mkTd { td_days : Z; td_seconds : Z; td_microseconds : Z }.

Definition us_day : Z := 86400000000.

(* microsecond of the day *)
Definition tod (t : ptime) : Z :=
  ((t_hour t * 60 + t_minute t) * 60 + t_second t) * 1000000 + t_microsecond t.

Definition time_of_tod (x : Z) : ptime :=
  let s := x / 1000000 in
  mkT (s / 3600) ((s / 60) mod 60) (s mod 60) (x mod 1000000).

Definition valid_time (t : ptime) : bool :=
  (0 <=? t_hour t) && (t_hour t <=? 23) && (0 <=? t_minute t) && (t_minute t <=? 59) &&
  (0 <=? t_second t) && (t_second t <=? 59) && (0 <=? t_microsecond t) && (t_microsecond t <=? 999999).

(* helpers._sign(x) = int(copysign(1, x)): +1 for 0 (float +0.0), never 0 *)
Definition py_sign (x : Z) : Z := if x <? 0 then -1 else 1.

(* CPython's timedelta(days=d, seconds=s, microseconds=us) on integers: exact total, then floor normalisation *)
Definition td_of_total (u : Z) : ptd := mkTd (u / us_day) ((u mod us_day) / 1000000) (u mod 1000000).
Definition td_make (days seconds microseconds : Z) : ptd :=
  td_of_total ((days * 86400 + seconds) * 1000000 + microseconds).
Definition td_total (d : ptd) : Z := (td_days d * 86400 + td_seconds d) * 1000000 + td_microseconds d.
