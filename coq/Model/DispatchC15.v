(* Model/Dispatch.v — one entry point for running every executable model on integer argument lists.
   Used by the OCaml driver (extraction) and by the in-kernel vm_compute cross-check.
   Result encoding: 0 :: values (normal), 1 :: [exn code] (raise), 2 :: [] (out of fuel / None), 9 :: [] (bad call).
   Lines of the form  | N (* name *)  are parsed by tools/vlib/model.py to number the functions. *)
From Coq Require Import ZArith List Bool.
From PV Require Import Lib.PyBase Spec.Cal Gen.Constants Gen.Helpers Gen.DateGetters Gen.RustConstants Model.RustHelpers.
Import ListNotations.
Open Scope Z_scope.

Definition ok (l : list Z) : list Z := 0 :: l.
Definition okb (b : bool) : list Z := [0; Z.b2z b].
Definition of_opt7 (o : option (Z*Z*Z*Z*Z*Z*Z)) : list Z :=
  match o with Some (a,b,c,d,e,f,g) => [0;a;b;c;d;e;f;g] | None => [2] end.
Definition of3 (t : Z*Z*Z) : list Z := let '(a,b,c) := t in [0;a;b;c].

Definition dispatch (fn : Z) (args : list Z) : list Z :=
  match fn, args with
  | 1 (* cal_ymd2ord *), [y;m;d] => ok [ymd2ord y m d]
  | 2 (* cal_ord2ymd *), [n] => of3 (ord2ymd n)
  | 3 (* cal_isocalendar *), [y;m;d] => of3 (isocalendar y m d)
  | 4 (* cal_is_leap *), [y] => okb (is_leap y)
  | 5 (* cal_dim *), [y;m] => ok [dim y m]
  | 6 (* cal_iso_weeks_in_year *), [y] => ok [iso_weeks_in_year y]
  | 10 (* py_is_leap *), [y] => okb (py_is_leap y)
  | 11 (* py_is_long_year *), [y] => okb (py_is_long_year y)
  | 12 (* py_week_day *), [y;m;d] => ok [py_week_day y m d]
  | 13 (* py_days_in_year *), [y] => ok [py_days_in_year y]
  | 14 (* py_day_number *), [y;m;d] => ok [py_day_number y m d]
  | 15 (* py_local_time *), [t;o;u] => of_opt7 (py_local_time t o u)
  | 16 (* py_day_of_year *), [y;m;d] => ok [py_Date_day_of_year (mkdate y m d)]
  | 17 (* py_quarter *), [y;m;d] => ok [py_Date_quarter (mkdate y m d)]
  | 18 (* py_week_of_month *), [y;m;d] => ok [py_Date_week_of_month (mkdate y m d)]
  | 20 (* rs_is_leap *), [y] => okb (rs_is_leap y)
  | 21 (* rs_is_long_year *), [y] => okb (rs_is_long_year y)
  | 22 (* rs_week_day *), [y;m;d] => ok [rs_week_day y m d]
  | 23 (* rs_days_in_year *), [y] => ok [rs_days_in_year y]
  | 24 (* rs_day_number *), [y;m;d] => ok [rs_day_number y m d]
  | 25 (* rs_local_time *), [t;o;u] => of_opt7 (rs_local_time t o u)
  | _, _ => [9]
  end.
