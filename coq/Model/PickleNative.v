(* Model/PickleNative.v — C14: pendulum values BUILT FROM STANDARD-LIBRARY ("native") inputs, the values the copy routes of Model/Pickle.v then rebuild
   from pendulum ones.
     pendulum.instance(<datetime.datetime>)  (DateTime.instance): tz = dt.tzinfo or UTC; _safe_timezone: a pendulum zone is kept, zoneinfo.ZoneInfo(key) ->
         pendulum.timezone(key), a tzinfo whose tzname(None) is "UTC" (datetime.timezone.utc) -> UTC, any other tzinfo -> pendulum.timezone(<offset seconds>) =
         FixedTimezone(offset) with its default name; then DateTime.create(fields, tz=tz, fold=dt.fold) = Timezone.convert / FixedTimezone.convert of the naive
         fields (Model/TzConvert.create: a skipped wall time is moved by the width of the gap, a fixed zone forces fold 0).
     Interval(start, end, absolute) with standard-library endpoints: __new__ works on the endpoints AS GIVEN (type checks, `absolute and start > end`, the
         timedelta value), __init__ converts each non-pendulum endpoint with pendulum.instance / pendulum.date and decides _invert (and the absolute swap)
         on the CONVERTED ones.  An endpoint that already is a pendulum value is used as it is (mixed Intervals: DateTime.diff(<native>)).
     `b - a` / `a.diff(b)` with a native operand convert it first (DateTime.instance) and build the Interval from pendulum values: `pre = true` below.
   utc_key is the index of "UTC" in the tz database (pendulum.UTC = Timezone("UTC")).  An endpoint is (is_native, ep).
   No proofs here.  Tied to /repo by the ivn-* / dti-* correspondence streams of tools/props/C14.py (both backends). *)
From Coq Require Import ZArith List Bool String.
From PV Require Import Lib.PyBase Spec.Cal Spec.Zone Spec.TdFloat Model.Duration Model.TzConvert Gen.Reduce Model.Pickle.
Import ListNotations.
Open Scope Z_scope.

Section WithZones.
Variable zdb : Z -> zone.
Variable utc_key : Z.

(* pendulum._safe_timezone(dt.tzinfo or UTC) *)
Definition tz_instance (t : tzv) : result tzv :=
  match t with
  | TzNone => Ok (TzNamed utc_key)
  | TzForeign (StdZone k) => Ok (TzNamed k)
  | TzForeign (StdOffset o) => if o =? 0 then Ok (TzNamed utc_key) else fixed_new [AInt o] []
  | other => Ok other
  end.

(* DateTime.instance(dt) *)
Definition dt_instance (v : dtv) : result dtv :=
  bind (tz_instance (dt_tz v)) (fun t =>
  match t with
  | TzNamed k => bind (create (zdb k) false (dt_W v) (dt_fold v) false) (fun '(W, f) => Ok (mkdt W f t))
  | TzFixed o _ => bind (create (fixed_zone o) true (dt_W v) (dt_fold v) false) (fun '(W, f) => Ok (mkdt W f t))
  | _ => Raise E_TypeError
  end).

Definition ep_instance (e : bool * ep) : result ep :=
  match e with
  | (false, x) => Ok x
  | (true, EpDate n) => Ok (EpDate n)
  | (true, EpDt d) => bind (dt_instance d) (fun d' => Ok (EpDt d'))
  end.

(* Interval(start, end, absolute) / pendulum.interval(start, end, absolute) whose endpoints may be standard-library values *)
Definition interval_new_native (pre : bool) (s e : bool * ep) (absolute : bool) : result ivv :=
  if negb Interval_ctor_shape then Raise E_NotImplemented else
  bind (ep_instance s) (fun s1 => bind (ep_instance e) (fun e1 =>
  if pre then interval_new zdb s1 e1 absolute else
  (* __new__ on the endpoints as given *)
  bind (ep_gt zdb (snd s) (snd e)) (fun gt0 =>
  let '(s0, e0) := if absolute && gt0 then (snd e, snd s) else (snd s, snd e) in
  bind (td_of_float_seconds (total_seconds (ep_elapsed zdb s0 e0))) (fun N =>
  (* __init__ on the converted ones *)
  bind (ep_gt zdb s1 e1) (fun gt1 =>
  let '(s', e') := if absolute && gt1 then (e1, s1) else (s1, e1) in
  Ok (mkiv s' e' absolute gt1 N)))))).
End WithZones.
