(* Model/IntervalRange.v — hand-written part of the model of pendulum.Interval iteration (C19):
   the values an interval ranges over (Date / naive DateTime / aware DateTime in a zone), Python's ordering on them,
   Date.add / DateTime.add / .subtract with one keyword unit (built from the translated add_duration and Model/TzConvert.v),
   the part of Interval.__init__ that fixes start / end / _invert / _absolute, and the result type of a generator.
   Interval.range / __iter__ / __contains__ themselves are TRANSLATED from /repo into Gen/IntervalRange.v on every run.
   Tied to /repo by the correspondence run of C19.  No proofs here. *)
From Coq Require Import ZArith List Bool.
From PV Require Import Lib.PyBase Spec.Cal Spec.Zone Spec.NativeDT Gen.AddDuration Model.TzConvert.
Import ListNotations.
Open Scope Z_scope.

Definition K_DATE : Z := 0.    (* pendulum.Date *)
Definition K_NAIVE : Z := 1.   (* pendulum.DateTime with tzinfo None *)
Definition K_AWARE : Z := 2.   (* pendulum.DateTime in a zone *)

(* a value: kind, the zone it lives in (aware only), whether the tzinfo is a FixedTimezone, the identity of the tzinfo object,
   wall microseconds since 0001-01-01 (a Date is its midnight) and the fold flag *)
Record dtv := mkdtv { dv_kind : Z; dv_zone : zone; dv_fixed : bool; dv_tzid : Z; dv_W : Z; dv_f : bool }.

Definition with_wall (s : dtv) (W : Z) (f : bool) : dtv := mkdtv (dv_kind s) (dv_zone s) (dv_fixed s) (dv_tzid s) W f.

(* the instant of an aware value (microseconds since 0001-01-01T00:00Z): wall minus utcoffset() *)
Definition dv_inst (a : dtv) : Z := inst (dv_zone a) (dv_W a) (dv_f a).

(* CPython's date/datetime ordering between two values of the same kind:
   dates and naive datetimes compare their fields; aware datetimes with the SAME tzinfo object compare their fields too
   (fold and offset are ignored), otherwise the utcoffsets are subtracted first *)
Definition same_clock (a b : dtv) : bool := negb (dv_kind a =? K_AWARE) || (dv_tzid a =? dv_tzid b).
Definition dt_le (a b : dtv) : bool := if same_clock a b then dv_W a <=? dv_W b else dv_inst a <=? dv_inst b.
Definition dt_lt (a b : dtv) : bool := if same_clock a b then dv_W a <? dv_W b else dv_inst a <? dv_inst b.
Definition dt_ge (a b : dtv) : bool := dt_le b a.
Definition dt_gt (a b : dtv) : bool := dt_lt b a.

(* keyword units of add()/subtract() *)
Definition U_years : Z := 0.
Definition U_months : Z := 1.
Definition U_weeks : Z := 2.
Definition U_days : Z := 3.
Definition U_hours : Z := 4.
Definition U_minutes : Z := 5.
Definition U_seconds : Z := 6.
Definition U_microseconds : Z := 7.

(* s.add with the single keyword argument unit=a :
   Date: add_duration on the date, TypeError for the keywords Date.add does not have;
   naive DateTime: add_duration on the wall clock, then create(tz=None) whose default fold is 1;
   aware DateTime: years/months/weeks/days on the wall clock followed by create(tz=self.tz) (C02 normalisation),
                   hours/minutes/seconds/microseconds through UTC (Model/TzConvert.add_fixed) *)
Definition shift (s : dtv) (unit a : Z) : result dtv :=
  let sel := fun u : Z => if unit =? u then a else 0 in
  if (unit <? 0) || (7 <? unit) then Raise E_TypeError else
  if dv_kind s =? K_DATE then
    if unit <=? 3 then
      match py_add_duration (mkndt (dv_W s) false) (sel 0) (sel 1) (sel 2) (sel 3) 0 0 0 0 with
      | Ok d => Ok (with_wall s (n_wall d) false)
      | Raise e => Raise e
      end
    else Raise E_TypeError
  else if dv_kind s =? K_NAIVE then
    match py_add_duration (mkndt (dv_W s) true) (sel 0) (sel 1) (sel 2) (sel 3) (sel 4) (sel 5) (sel 6) (sel 7) with
    | Ok d => Ok (with_wall s (n_wall d) true)
    | Raise e => Raise e
    end
  else if unit <=? 3 then
    match add_calendar (dv_zone s) (dv_fixed s) (dv_W s) (sel 0) (sel 1) (sel 2) (sel 3) 0 0 0 0 with
    | Ok (W', f') => Ok (with_wall s W' f')
    | Raise e => Raise e
    end
  else
    match add_fixed (dv_zone s) (dv_W s) (dv_f s) (sel 4) (sel 5) (sel 6) (sel 7) with
    | Ok (W', f') => Ok (with_wall s W' f')
    | Raise e => Raise e
    end.

(* getattr(s, method) called with the keyword unit=i, method "add" or "subtract" (subtract negates every argument) *)
Definition meth := Z.
Definition M_add : meth := 0.
Definition M_subtract : meth := 1.
Definition call_method (s : dtv) (m : meth) (unit i : Z) : result dtv := shift s unit (if m =? M_subtract then - i else i).

(* operator.le / operator.ge held in a local variable *)
Definition cmpop := Z.
Definition OP_le : cmpop := 0.
Definition OP_ge : cmpop := 1.
Definition apply_op (op : cmpop) (a b : dtv) : bool := if op =? OP_ge then dt_ge a b else dt_le a b.

(* Interval.__init__ : _invert = start > end; an absolute interval is stored with its ends in order *)
Record interval := mkiv { iv_start : dtv; iv_end : dtv; iv_absolute : bool; iv_invert : bool }.
Definition mk_interval (s e : dtv) (absolute : bool) : interval :=
  let inv := dt_gt s e in
  if inv && absolute then mkiv e s absolute inv else mkiv s e absolute inv.

(* what consuming a generator produces: the yielded values and how it ended *)
Inductive gstat := GDone | GRaise (e : exn) | GFuel.
Definition gen_out := (list dtv * gstat)%type.
Definition gcons (v : dtv) (r : gen_out) : gen_out := (v :: fst r, snd r).
