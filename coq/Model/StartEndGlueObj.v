(* Model/StartEndGlueObj.v — HAND-WRITTEN native primitives under the machine translation of DateTime's start_of / end_of family
   (Gen/StartEndGlue.v, translated from /repo on every run by tools/vlib/gens/g81_start_end_glue.py) and of Date's family.  No proofs.
   * g_days_in_month   self.days_in_month = calendar.monthrange(self.year, self.month)[1]: the number of days of the month (Spec/Cal.v dim)
   * g_day_of_week     self.day_of_week = WeekDay(self.weekday()): Monday = 0 (Spec/Cal.v weekday0 of the proleptic ordinal)
   The generator checks that the two property bodies are these one-liners. *)
From Coq Require Import ZArith List Bool.
From PV Require Import Lib.PyBase Spec.Cal Model.TzGlueObj.
Import ListNotations.
Open Scope Z_scope.

Definition g_days_in_month (d : gdt) : Z := dim (g_year d) (g_month d).
Definition g_day_of_week (d : gdt) : Z := weekday0 (g_wall d / us_per_day + 1).
