(* Props/C03.v — adding fixed-length units moves the instant by exactly that elapsed time.
   py_add_duration is regenerated from /repo/src/pendulum/helpers.py on every run (Gen/AddDuration.v). *)
From Coq Require Import ZArith Bool List.
From PV Require Import Lib.PyBase Spec.Cal Spec.Zone Spec.NativeDT Proofs.ZoneFacts Proofs.AddDurationFacts Proofs.C03Facts.
From PV Require Import Gen.AddDuration Model.TzConvert.
From PV Require Import Spec.TdFloat Model.FloatRoutes Proofs.FloatRoutesFacts Proofs.FloatRoutesFlocq.
Open Scope Z_scope.

(* the sign-aware carry normalisation of add_duration preserves the total, for all integers *)
Theorem add_duration_normalisation_total : forall weeks days hours minutes seconds us,
  let '(d, h, m, s, u) := norm_parts weeks days hours minutes seconds us in
  td_total_us d h m s u = td_total_us (days + weeks * 7) hours minutes seconds us.
Proof. exact norm_parts_total. Qed.
Print Assumptions add_duration_normalisation_total.

(* the translated function is exactly: guard, normalisation, year/month step with clamping, native addition *)
Theorem add_duration_structure : forall d years months weeks days hours minutes seconds us,
  py_add_duration d years months weeks days hours minutes seconds us =
  add_duration_spec d years months weeks days hours minutes seconds us.
Proof. exact py_add_duration_unfold. Qed.
Print Assumptions add_duration_structure.

Theorem add_duration_fixed_units_exact : forall U hours minutes seconds us, wall_in_range U = true ->
  let total := td_total_us 0 hours minutes seconds us in
  -999999999 <= total / us_per_day <= 999999999 ->
  py_add_duration (mkndt U true) 0 0 0 0 hours minutes seconds us =
  if wall_in_range (U + total) then Ok (mkndt (U + total) true) else Raise E_OverflowError.
Proof. exact add_duration_fixed. Qed.
Print Assumptions add_duration_fixed_units_exact.

Theorem add_moves_instant_exactly : forall z, wf_zone z = true -> forall W f hours minutes seconds us W' f',
  let total := td_total_us 0 hours minutes seconds us in
  -999999999 <= total / us_per_day <= 999999999 ->
  add_fixed z W f hours minutes seconds us = Ok (W', f') ->
  (W', f') = render z (inst z W f + total) /\ inst z W' f' = inst z W f + total.
Proof. exact add_fixed_spec. Qed.
Print Assumptions add_moves_instant_exactly.

Theorem subtract_undoes_add : forall z, wf_zone z = true -> forall W f hours minutes seconds us W' f',
  let total := td_total_us 0 hours minutes seconds us in
  -999999999 <= total / us_per_day <= 999999999 -> -999999999 <= (- total) / us_per_day <= 999999999 ->
  wall_in_range (fst (render z (inst z W f))) = true ->
  add_fixed z W f hours minutes seconds us = Ok (W', f') ->
  add_fixed z W' f' (- hours) (- minutes) (- seconds) (- us) = Ok (render z (inst z W f)).
Proof. exact sub_undoes_add. Qed.
Print Assumptions subtract_undoes_add.

Theorem naive_shifted_on_its_own_clock : forall W f hours minutes seconds us, wall_in_range W = true ->
  let total := td_total_us 0 hours minutes seconds us in
  -999999999 <= total / us_per_day <= 999999999 ->
  add_naive W f 0 0 0 0 hours minutes seconds us =
  if wall_in_range (W + total) then Ok (W + total, true) else Raise E_OverflowError.
Proof. exact add_naive_fixed. Qed.
Print Assumptions naive_shifted_on_its_own_clock.

(* ------------------------------------------------------------------ the FLOAT route: dt + td, dt - td, td + dt with a plain datetime.timedelta
   (Model/FloatRoutes.v: _add_timedelta_ / _subtract_timedelta -> add(seconds=td.total_seconds()) -> add_duration's float carry chain ->
   timedelta(days=<float>, hours=<float>, minutes=<float>, seconds=<float>)).  N is the timedelta in integer microseconds, any sign.
   The float premises are proved with Flocq (Proofs/FloatRoutesFlocq.v); the axioms listed are those of Coq's real numbers. *)

(* the whole float computation (total_seconds, three float divmod carries, CPython's accum/modf/round-half-even) returns exactly N below 2^33 s *)
Theorem float_carry_chain_exact : forall N, Z.abs N < 2 ^ 33 * 10 ^ 6 -> float_route_us (total_seconds N) = Ok N.
Proof. exact float_chain_exact_proved. Qed.
Print Assumptions float_carry_chain_exact.

Theorem add_timedelta_moves_instant_exactly : forall z, wf_zone z = true -> forall W f N W' f', Z.abs N < 2 ^ 33 * 10 ^ 6 ->
  add_timedelta z W f N = Ok (W', f') ->
  (W', f') = render z (inst z W f + N) /\ inst z W' f' = inst z W f + N.
Proof. exact add_timedelta_spec_proved. Qed.
Print Assumptions add_timedelta_moves_instant_exactly.

Theorem sub_timedelta_moves_instant_exactly : forall z, wf_zone z = true -> forall W f N W' f', Z.abs N < 2 ^ 33 * 10 ^ 6 ->
  sub_timedelta z W f N = Ok (W', f') ->
  (W', f') = render z (inst z W f - N) /\ inst z W' f' = inst z W f - N.
Proof. exact sub_timedelta_spec_proved. Qed.
Print Assumptions sub_timedelta_moves_instant_exactly.

(* same result AND same exceptions as the integer route add(microseconds=N) *)
Theorem add_timedelta_is_add_microseconds : forall z W f N, Z.abs N < 2 ^ 33 * 10 ^ 6 ->
  add_timedelta z W f N = add_fixed z W f 0 0 0 N /\ sub_timedelta z W f N = add_fixed z W f 0 0 0 (- N).
Proof. exact timedelta_is_add_microseconds_proved. Qed.
Print Assumptions add_timedelta_is_add_microseconds.

Theorem sub_timedelta_undoes_add_timedelta : forall z, wf_zone z = true -> forall W f N W' f', Z.abs N < 2 ^ 33 * 10 ^ 6 ->
  wall_in_range (fst (render z (inst z W f))) = true ->
  add_timedelta z W f N = Ok (W', f') -> sub_timedelta z W' f' N = Ok (render z (inst z W f)).
Proof. exact sub_undoes_add_timedelta_proved. Qed.
Print Assumptions sub_timedelta_undoes_add_timedelta.

Theorem naive_plus_timedelta_shifted_on_its_own_clock : forall W f N, wall_in_range W = true -> Z.abs N < 2 ^ 33 * 10 ^ 6 ->
  add_timedelta_naive W f N = (if wall_in_range (W + N) then Ok (W + N, true) else Raise E_OverflowError) /\
  sub_timedelta_naive W f N = (if wall_in_range (W - N) then Ok (W - N, true) else Raise E_OverflowError).
Proof. exact naive_timedelta_proved. Qed.
Print Assumptions naive_plus_timedelta_shifted_on_its_own_clock.

(* known finding: at |td| >= 2^33 s the float route is off by a microsecond while add(microseconds=N) is exact
   (UTC, 2000-01-01T00:00:00 + timedelta(microseconds=8589934592000001); replayed on the implementation by the td-beyond-2-33 stream) *)
Theorem add_timedelta_beyond_2_33_refuted :
  let z := fixed_zone 0 in let N := 8589934592000001 in
  exists W' f', wf_zone z = true /\ Z.abs N >= 2 ^ 33 * 10 ^ 6 /\ add_timedelta z W_2000 false N = Ok (W', f') /\
    inst z W' f' = inst z W_2000 false + N + 1 /\ add_fixed z W_2000 false 0 0 0 N = Ok (W_2000 + N, false).
Proof. exact add_timedelta_beyond_refuted. Qed.
Print Assumptions add_timedelta_beyond_2_33_refuted.

(* kernel evaluation of the float chain on the boundary family +-(2^k s +- j us), k <= 33, and the carries at 59/60/3599/3600/86399/86400 s ... *)
Theorem float_carry_chain_boundary_family : forallb route_exactb boundary_family = true /\ (length boundary_family >= 1400)%nat.
Proof. exact chain_boundary_family_evaluated. Qed.
Print Assumptions float_carry_chain_boundary_family.

(* ---- the MODEL side itself: the hand-written Model/TzConvert.v EQUALS the machine translation of pendulum's own code (Gen/TzGlue.v:
   src/pendulum/tz/timezone.py and src/pendulum/datetime.py translated from /repo on every run, tools/vlib/gens/g15_tz_glue.py), so a
   semantic change of the code breaks one of these proofs, not only a source pin.  Bridge (Proofs/TzGlueFacts.v): dt_of W f tz = the datetime
   object with wall W, fold f, tzinfo tz; res_of (Some tz) r = the object a model result (W', f') denotes in the zone of the timezone object tz;
   gtz_ok t = a FixedTimezone's table is fixed_zone of its offset; same_obj a b = equal identity tags mean the same object.  The native
   operations the code calls are the primitives of Model/TzGlueObj.v, each tied to CPython's source by a spec_is_stdlib_* theorem (C02, C11). ---- *)
From PV Require Import Spec.NativeDT Gen.AddDuration Model.TzGlueObj Gen.TzGlue Proofs.TzGlueFacts.

(* DateTime.add(hours=, minutes=, seconds=, microseconds=) on an aware value = add_fixed: subtract the utcoffset, add_duration (translated),
   re-attach UTC, tz.convert, rebuild *)
Theorem model_is_code_add_fixed : forall t W f hours minutes seconds us, gtz_ok t -> same_obj g_UTC t -> wall_in_range W = true ->
  let total := td_total_us 0 hours minutes seconds us in
  -999999999 <= total / us_per_day <= 999999999 ->
  glue_DateTime_add (dt_of W f (Some t)) 0 0 0 0 hours minutes seconds us = res_of (Some t) (add_fixed (gz_zone t) W f hours minutes seconds us).
Proof. exact glue_add_fixed. Qed.
Print Assumptions model_is_code_add_fixed.

(* DateTime.add on a naive value = add_naive (the result of add_duration is rebuilt field by field, which needs it inside years 1..9999:
   hypothesis on the result of the translated add_duration) *)
Theorem model_is_code_add_naive : forall W f years months weeks days hours minutes seconds us, wall_in_range W = true ->
  (forall r, py_add_duration (mkndt W true) years months weeks days hours minutes seconds us = Ok r -> wall_in_range (n_wall r) = true) ->
  glue_DateTime_add (dt_of W f None) years months weeks days hours minutes seconds us =
  res_of None (add_naive W f years months weeks days hours minutes seconds us).
Proof. exact glue_add_naive. Qed.
Print Assumptions model_is_code_add_naive.

(* DateTime.add with calendar units on an aware value = add_calendar (wall-clock add_duration, then create with the default fold 1) *)
Theorem model_is_code_add_calendar : forall t W f years months weeks days hours minutes seconds us, wall_in_range W = true ->
  var_units years months weeks days = true ->
  (forall r, py_add_duration (mkndt W true) years months weeks days hours minutes seconds us = Ok r -> wall_in_range (n_wall r) = true) ->
  glue_DateTime_add (dt_of W f (Some t)) years months weeks days hours minutes seconds us =
  res_of (Some t) (add_calendar (gz_zone t) (gz_fixed t) W years months weeks days hours minutes seconds us).
Proof. exact glue_add_calendar. Qed.
Print Assumptions model_is_code_add_calendar.

(* DateTime.add / subtract as a whole = dt_add / dt_subtract (Model/CalendarArith.v): the naive, calendar-unit and fixed-unit branches together.
   tzo_ok: a FixedTimezone's table is fixed_zone of its offset and identity tag 0 is pendulum.UTC; add_side: the timedelta of the fixed part
   exists and add_duration's own result lies in years 1..9999 *)
From PV Require Import Spec.TdFloat Model.Duration Model.CalendarArith.
Theorem model_is_code_datetime_add : forall tzo W f y mo wk d h m s us, wall_in_range W = true -> tzo_ok tzo -> add_side W y mo wk d h m s us ->
  glue_DateTime_add (dt_of W f tzo) y mo wk d h m s us = res_of tzo (dt_add (tzk_of tzo) W f y mo wk d h m s us).
Proof. exact glue_dt_add. Qed.
Print Assumptions model_is_code_datetime_add.

Theorem model_is_code_datetime_subtract : forall tzo W f y mo wk d h m s us, wall_in_range W = true -> tzo_ok tzo ->
  add_side W (- y) (- mo) (- wk) (- d) (- h) (- m) (- s) (- us) ->
  glue_DateTime_subtract (dt_of W f tzo) y mo wk d h m s us = res_of tzo (dt_subtract (tzk_of tzo) W f y mo wk d h m s us).
Proof. exact glue_dt_subtract. Qed.
Print Assumptions model_is_code_datetime_subtract.

(* DateTime.__add__(other): the stack inspection `traceback.extract_stack(limit=2)[0].name == "astimezone"` is the explicit parameter `called`:
   True exactly when the calling frame is a function named astimezone (datetime.astimezone's chain) -> the NATIVE addition; every other caller
   (the + operator, __radd__) passes False -> _add_timedelta_ *)
Theorem model_is_code_datetime_dunder_add : forall dt o called,
  glue_DateTime___add__ dt o called = if called then nat_add dt (op_us o) else g_add_timedelta dt o.
Proof. exact glue_dunder_add. Qed.
Print Assumptions model_is_code_datetime_dunder_add.

Theorem model_is_code_datetime_dunder_radd : forall dt o, glue_DateTime___radd__ dt o = g_add_timedelta dt o.
Proof. exact glue_dunder_radd. Qed.
Print Assumptions model_is_code_datetime_dunder_radd.

(* ---- THE MODEL IS THE CODE (float path of helpers.add_duration).  Gen/FloatRoutesGen.v is translated from /repo's src/pendulum/helpers.py on every
   run (tools/vlib/pyfloat2gallina.py + gens/g54_float_routes.py): add_duration(dt, seconds=<float>) with every other argument the int 0 — the route
   of DateTime.add(seconds=<float>) and of dt +- <plain timedelta> — with every path statically typed (minutes / hours / days are the int 0 until a
   carry makes them floats), CPython's conversion points, the carry constants, _sign = int(copysign(1, x)), the month-end clamp, dt.replace and
   dt + timedelta(...).  The hand model Model/FloatRoutes.add_duration_float (carry_step / float_carry over the int-or-float `pynum`), about which
   the timedelta theorems above speak, EQUALS that translation for every datetime and every double: its `pynum` dispatch layer is proved, not trusted.
   (Gen/AddDuration.v is the INTEGER typing of the same source.) *)
From PV Require Import Gen.FloatRoutesGen Proofs.FloatRoutesGenFacts.

Theorem model_is_code_add_duration_float : forall d x, gen_add_duration_float d x = add_duration_float d x.
Proof. exact gen_add_duration_float_eq. Qed.
Print Assumptions model_is_code_add_duration_float.

Theorem model_is_code_sign_float : forall x, gen_sign_float x = Ok (if sf_sign x then -1 else 1).
Proof. exact gen_sign_float_eq. Qed.
Print Assumptions model_is_code_sign_float.

(* ---- dt + <plain timedelta> / dt - <plain timedelta>: the plain branch of DateTime._add_timedelta_ / _subtract_timedelta (and DateTime.subtract
   under a float `seconds`) translated from /repo on every run (Gen/FloatGlueGen.v, gens/g55_float_glue.py) onto the object model of the translated
   glue (Model/TzGlueObj.v; dt_of W f tz: the DateTime of wall value W, fold f, timezone object tz) equal add_timedelta / sub_timedelta of
   Model/FloatRoutes.v, about which the timedelta theorems above speak.  How the pieces compose:
     _add_timedelta_(delta) [translated]  ->  self.add(seconds=delta.total_seconds())
     DateTime.add(seconds=<float>)        =   the NAMED primitive Model/FloatGlue.g_add_seconds_float = FloatRoutes.add_seconds_float (hand: instant,
                                              range checks, render - the structure of the integer DateTime.add that Gen/TzGlue.glue_DateTime_add
                                              translates; g_add_timedelta there answers E_NotImplemented for a plain operand: this is that case)
     its core helpers.add_duration(dt, seconds=<float>)  =  add_duration_float, PROVED equal to the translation (model_is_code_add_duration_float). *)
From PV Require Import Model.TzGlueObj Model.FloatGlue Gen.FloatGlueGen Proofs.TzGlueFacts Proofs.FloatGlueFacts.

Theorem model_is_code_add_plain_timedelta : forall t W f N,
  gen_add_timedelta_plain (dt_of W f (Some t)) N = res_of (Some t) (add_timedelta (gz_zone t) W f N).
Proof. exact gen_add_timedelta_plain_eq. Qed.
Print Assumptions model_is_code_add_plain_timedelta.

Theorem model_is_code_sub_plain_timedelta : forall t W f N,
  gen_subtract_timedelta_plain (dt_of W f (Some t)) N = res_of (Some t) (sub_timedelta (gz_zone t) W f N).
Proof. exact gen_subtract_timedelta_plain_eq. Qed.
Print Assumptions model_is_code_sub_plain_timedelta.

Theorem model_is_code_plain_timedelta_naive : forall W f N,
  gen_add_timedelta_plain (dt_of W f None) N = res_of None (add_timedelta_naive W f N) /\
  gen_subtract_timedelta_plain (dt_of W f None) N = res_of None (sub_timedelta_naive W f N).
Proof. exact gen_add_timedelta_plain_naive_eq. Qed.
Print Assumptions model_is_code_plain_timedelta_naive.

(* ------------------------------------------------------------------ the zone of a DateTime may come from the process-wide LOCAL-TIMEZONE
   configuration (tz="local", pendulum.local(), _safe_timezone(None)): Model/LocalTzConfig.v, tied to /repo by the localtz-config stream.
   Whatever object that configuration hands out (a named zone, a zone loaded from a TZif file that has no key, a fixed offset), fixed units
   added to a value in it move the instant exactly. *)
From PV Require Import Model.LocalTzConfig Proofs.C03LocalTz.

Theorem local_zone_is_the_last_configured_one : forall s m sys, ltz_get sys (ltz_set (Some m) s) = (m, ltz_set (Some m) s).
Proof. exact ltz_get_after_set. Qed.
Print Assumptions local_zone_is_the_last_configured_one.

Theorem local_zone_after_clear_is_the_system_zone_read_once : forall s sys sys',
  fst (ltz_get sys (ltz_set None s)) = match l_cache s with Some c => c | None => sys end /\
  (l_mock s = None -> fst (ltz_get sys' (snd (ltz_get sys s))) = fst (ltz_get sys s)).
Proof. intros s sys sys'. split. exact (ltz_get_after_clear s sys). exact (ltz_system_read_once s sys sys'). Qed.
Print Assumptions local_zone_after_clear_is_the_system_zone_read_once.

Theorem test_local_timezone_context : forall s m,
  let '(z, s') := ltz_get 0 (ltz_set (Some m) s) in
  z = m /\ l_mock (ltz_set None s') = None /\ l_cache (ltz_set None s') = l_cache s.
Proof. exact ltz_test_context. Qed.
Print Assumptions test_local_timezone_context.

Theorem add_in_the_local_zone_moves_instant_exactly : forall (zs : Z -> zone), (forall i, wf_zone (zs i) = true) ->
  forall s sys W f hours minutes seconds us W' f',
  let z := zs (fst (ltz_get sys s)) in
  let total := td_total_us 0 hours minutes seconds us in
  -999999999 <= total / us_per_day <= 999999999 ->
  add_fixed z W f hours minutes seconds us = Ok (W', f') ->
  (W', f') = render z (inst z W f + total) /\ inst z W' f' = inst z W f + total.
Proof. exact add_in_local_zone_exact. Qed.
Print Assumptions add_in_the_local_zone_moves_instant_exactly.
