(* Props/C03.v — adding fixed-length units moves the instant by exactly that elapsed time.
   py_add_duration is regenerated from /repo/src/pendulum/helpers.py on every run (Gen/AddDuration.v). *)
From Coq Require Import ZArith Bool.
From PV Require Import Lib.PyBase Spec.Cal Spec.Zone Spec.NativeDT Proofs.ZoneFacts Proofs.AddDurationFacts Proofs.C03Facts.
From PV Require Import Gen.AddDuration Model.TzConvert.
Open Scope Z_scope.

(* the sign-aware carry normalisation of add_duration preserves the total, for all integers *)
Theorem add_duration_normalisation_total : forall weeks days hours minutes seconds us,
  let '(d, h, m, s, u) := norm_parts weeks days hours minutes seconds us in
  td_total_us d h m s u = td_total_us (days + weeks * 7) hours minutes seconds us.
Proof. exact norm_parts_total. Qed.
Print Assumptions add_duration_normalisation_total.

(* the translated function is exactly: guard, normalisation, year/month step with clamping, native addition *)
Theorem add_duration_structure : forall d years months weeks days hours minutes seconds us,
  py_add_duration d years months weeks days hours minutes seconds us =
  add_duration_spec d years months weeks days hours minutes seconds us.
Proof. exact py_add_duration_unfold. Qed.
Print Assumptions add_duration_structure.

Theorem add_duration_fixed_units_exact : forall U hours minutes seconds us, wall_in_range U = true ->
  let total := td_total_us 0 hours minutes seconds us in
  -999999999 <= total / us_per_day <= 999999999 ->
  py_add_duration (mkndt U true) 0 0 0 0 hours minutes seconds us =
  if wall_in_range (U + total) then Ok (mkndt (U + total) true) else Raise E_OverflowError.
Proof. exact add_duration_fixed. Qed.
Print Assumptions add_duration_fixed_units_exact.

Theorem add_moves_instant_exactly : forall z, wf_zone z = true -> forall W f hours minutes seconds us W' f',
  let total := td_total_us 0 hours minutes seconds us in
  -999999999 <= total / us_per_day <= 999999999 ->
  add_fixed z W f hours minutes seconds us = Ok (W', f') ->
  (W', f') = render z (inst z W f + total) /\ inst z W' f' = inst z W f + total.
Proof. exact add_fixed_spec. Qed.
Print Assumptions add_moves_instant_exactly.

Theorem subtract_undoes_add : forall z, wf_zone z = true -> forall W f hours minutes seconds us W' f',
  let total := td_total_us 0 hours minutes seconds us in
  -999999999 <= total / us_per_day <= 999999999 -> -999999999 <= (- total) / us_per_day <= 999999999 ->
  wall_in_range (fst (render z (inst z W f))) = true ->
  add_fixed z W f hours minutes seconds us = Ok (W', f') ->
  add_fixed z W' f' (- hours) (- minutes) (- seconds) (- us) = Ok (render z (inst z W f)).
Proof. exact sub_undoes_add. Qed.
Print Assumptions subtract_undoes_add.

Theorem naive_shifted_on_its_own_clock : forall W f hours minutes seconds us, wall_in_range W = true ->
  let total := td_total_us 0 hours minutes seconds us in
  -999999999 <= total / us_per_day <= 999999999 ->
  add_naive W f 0 0 0 0 hours minutes seconds us =
  if wall_in_range (W + total) then Ok (W + total, true) else Raise E_OverflowError.
Proof. exact add_naive_fixed. Qed.
Print Assumptions naive_shifted_on_its_own_clock.
