(* Props/C19.v — Interval.range() steps from the start without drift and stays inside.
   py_range / py_iter / py_contains are regenerated from /repo/src/pendulum/interval.py on every run (Gen/IntervalRange.v, a generator function
   translated to "list of yielded values + how it ended" on explicit fuel); values, ordering, add/subtract and Interval.__init__ are the hand
   model Model/IntervalRange.v over the translated add_duration and Model/TzConvert.v.  seq_at iv u n k is "start.add(unit = k*n)" computed from the start. *)
From Coq Require Import ZArith List Bool.
From PV Require Import Lib.PyBase Spec.Cal Spec.Zone Spec.NativeDT Proofs.ZoneFacts Model.TzConvert Model.IntervalRange Gen.IntervalRange.
From PV Require Import Proofs.C19Facts Proofs.C19Mono Proofs.C19Zone Proofs.C19Witness Proofs.C19Mixed Proofs.C19Calendar.
Import ListNotations.
Open Scope Z_scope.

(* 1. drift-free (loop invariant): the k-th yielded value is the start shifted by k*n units in ONE step from the start — every interval, unit, step, fuel *)
Theorem range_kth : forall fuel iv u n k x,
  nth_error (fst (py_range fuel iv u n)) k = Some x -> seq_at iv u n k = Ok x.
Proof. exact range_kth_l. Qed.
Print Assumptions range_kth.

(* 2. a finished run yields exactly the prefix of that sequence that is not beyond the end; the next element is beyond it, or it is outside the
   supported range of dates (computing it raises OverflowError / ValueError: limit_exn), which can only happen after at least one value *)
Theorem range_prefix : forall fuel iv u n l,
  py_range fuel iv u n = (l, GDone) ->
  (forall j, (j < length l)%nat -> exists x, nth_error l j = Some x /\ seq_at iv u n j = Ok x /\ within iv x = true) /\
  ((exists y, seq_at iv u n (length l) = Ok y /\ within iv y = false) \/
   (exists e, seq_at iv u n (length l) = Raise e /\ limit_exn e = true /\ (1 <= length l)%nat)).
Proof. exact range_prefix_l. Qed.
Print Assumptions range_prefix.

(* 3. the only other way a run ends: computing the next element raised something else than OverflowError / ValueError (after at least one value),
   e.g. TypeError from Date.add(hours=...) *)
Theorem range_raise_end : forall fuel iv u n l e,
  py_range fuel iv u n = (l, GRaise e) -> seq_at iv u n (length l) = Raise e /\ limit_exn e = false /\ (1 <= length l)%nat.
Proof. exact range_raise_l. Qed.
Print Assumptions range_raise_end.

(* 4. the result does not depend on the fuel once the run has finished; out of fuel means `fuel` values were produced *)
Theorem range_fuel_irrelevant : forall fuel fuel' iv u n,
  snd (py_range fuel iv u n) <> GFuel -> (fuel <= fuel')%nat -> py_range fuel' iv u n = py_range fuel iv u n.
Proof. exact range_fuel_mono_l. Qed.
Print Assumptions range_fuel_irrelevant.

(* 5. every yielded value is not beyond the end (Python's <= / >= on the values, the comparison range() itself uses) *)
Theorem range_not_beyond_end : forall fuel iv u n k x,
  nth_error (fst (py_range fuel iv u n)) k = Some x -> within iv x = true.
Proof. exact range_within_l. Qed.
Print Assumptions range_not_beyond_end.

(* 6. the end is yielded iff it is reachable: some k with start.add(k*n) = end, all earlier elements being not beyond the end *)
Theorem end_yielded_if_reachable : forall iv u n fuel k,
  (k < fuel)%nat -> seq_at iv u n k = Ok (iv_end iv) ->
  (forall i, (i <= k)%nat -> exists y, seq_at iv u n i = Ok y /\ within iv y = true) ->
  nth_error (fst (py_range fuel iv u n)) k = Some (iv_end iv).
Proof. exact end_yielded_if_reachable_l. Qed.
Print Assumptions end_yielded_if_reachable.

Theorem end_yielded_only_if_reachable : forall iv u n fuel,
  In (iv_end iv) (fst (py_range fuel iv u n)) ->
  exists k, seq_at iv u n k = Ok (iv_end iv) /\ forall i, (i <= k)%nat -> exists y, seq_at iv u n i = Ok y /\ within iv y = true.
Proof. exact end_yielded_only_if_reachable_l. Qed.
Print Assumptions end_yielded_only_if_reachable.

(* 7. iterating the interval directly is the daily range; `x in interval` is lo <= x <= hi, the two ends taken in ascending order
   (an inverted, non-absolute interval stores start > end), with Python's <= on the values — forward, absolute and inverted intervals *)
Theorem iter_is_daily_range : forall fuel iv, py_iter fuel iv = py_range fuel iv U_days 1.
Proof. exact iter_is_range_days. Qed.
Print Assumptions iter_is_daily_range.

Theorem contains_spec : forall iv x, py_contains iv x =
  if range_down iv then dt_le (iv_end iv) x && dt_le x (iv_start iv) else dt_le (iv_start iv) x && dt_le x (iv_end iv).
Proof. exact contains_spec_l. Qed.
Print Assumptions contains_spec.

(* on a constructed interval: min(start, end) <= x <= max(start, end) whichever way round the ends were given, absolute or not *)
Theorem contains_min_max : forall s e ab x, py_contains (mk_interval s e ab) x = dt_le (lo_end s e) x && dt_le x (hi_end s e).
Proof. exact contains_min_max_l. Qed.
Print Assumptions contains_min_max.

(* 8. Interval.__init__: direction of the iteration *)
Theorem range_direction : forall s e ab, range_down (mk_interval s e ab) = negb ab && dt_gt s e.
Proof. exact range_down_mk. Qed.
Print Assumptions range_direction.

(* 9. moving the wall clock by a units is strictly increasing in a for all 8 units — for months/years this is the
   end-of-month clamping being strictly monotone in the month count *)
Theorem shift_strictly_monotone : forall W u a b, wall_in_range W = true -> a < b -> nshift W u a < nshift W u b.
Proof. exact nshift_lt. Qed.
Print Assumptions shift_strictly_monotone.

Theorem shift_plain_spec : forall s u a x, wall_in_range (dv_W s) = true -> plain s -> shift s u a = Ok x ->
  dv_W x = nshift (dv_W s) u a /\ wall_in_range (dv_W x) = true /\
  dv_kind x = dv_kind s /\ dv_zone x = dv_zone s /\ dv_tzid x = dv_tzid s /\ dv_fixed x = dv_fixed s.
Proof. exact shift_plain. Qed.
Print Assumptions shift_plain_spec.

(* 10. Date, naive DateTime, UTC and fixed offsets, all 8 units, every step >= 1: strictly monotone in the direction of the interval.
   (partial: the statement for every zone is false, see range_mono_refuted) *)
Theorem range_strict_mono_partial_plain : forall fuel iv u n j k x y,
  wall_in_range (dv_W (iv_start iv)) = true -> plain (iv_start iv) -> 1 <= n -> (j < k)%nat ->
  nth_error (fst (py_range fuel iv u n)) j = Some x -> nth_error (fst (py_range fuel iv u n)) k = Some y ->
  if range_down iv then dv_W y < dv_W x /\ dt_gt x y = true else dv_W x < dv_W y /\ dt_lt x y = true.
Proof. exact range_strict_mono_plain_l. Qed.
Print Assumptions range_strict_mono_partial_plain.

(* 11. same domain: the iteration is finite (some fuel finishes the run) and every value lies between the two ends *)
Theorem range_finite_partial_plain : forall iv u n,
  wall_in_range (dv_W (iv_start iv)) = true -> plain (iv_start iv) -> compat (iv_start iv) (iv_end iv) -> 1 <= n ->
  exists fuel, snd (py_range fuel iv u n) <> GFuel.
Proof. exact range_finite_plain_l. Qed.
Print Assumptions range_finite_partial_plain.

Theorem range_contained_partial_plain : forall iv u n,
  wall_in_range (dv_W (iv_start iv)) = true -> plain (iv_start iv) -> 1 <= n -> forall fuel k x,
  nth_error (fst (py_range fuel iv u n)) k = Some x ->
  if range_down iv then dt_le (iv_end iv) x = true /\ dt_le x (iv_start iv) = true
  else dt_le (iv_start iv) x = true /\ dt_le x (iv_end iv) = true.
Proof. exact range_contained_plain_l. Qed.
Print Assumptions range_contained_partial_plain.

(* same domain: every yielded value is `in` the interval that yielded it — inverted intervals included
   (partial: plain values; inside a repeated hour of a zone `in` compares wall clocks, see range_contained_instants_refuted) *)
Theorem range_values_are_members_partial_plain : forall iv u n,
  wall_in_range (dv_W (iv_start iv)) = true -> plain (iv_start iv) -> 1 <= n -> forall fuel k x,
  nth_error (fst (py_range fuel iv u n)) k = Some x -> py_contains iv x = true.
Proof. exact range_members_plain_l. Qed.
Print Assumptions range_values_are_members_partial_plain.

(* 12. every well-formed zone, hours/minutes/seconds/microseconds: the k-th value is at start instant +- k*n units exactly, hence strictly monotone *)
Theorem range_fixed_units_instants : forall fuel iv u n k x,
  wf_zone (dv_zone (iv_start iv)) = true -> dv_kind (iv_start iv) = K_AWARE -> 4 <= u <= 7 ->
  nth_error (fst (py_range fuel iv u n)) k = Some x ->
  dv_inst x = dv_inst (iv_start iv) + amount_at iv n k * unit_len u /\ dv_zone x = dv_zone (iv_start iv) /\ dv_tzid x = dv_tzid (iv_start iv).
Proof. exact range_fixed_units_instants_l. Qed.
Print Assumptions range_fixed_units_instants.

Theorem range_strict_mono_partial_fixed_units : forall fuel iv u n j k x y,
  wf_zone (dv_zone (iv_start iv)) = true -> dv_kind (iv_start iv) = K_AWARE -> 4 <= u <= 7 -> 1 <= n -> (j < k)%nat ->
  nth_error (fst (py_range fuel iv u n)) j = Some x -> nth_error (fst (py_range fuel iv u n)) k = Some y ->
  if range_down iv then dv_inst y < dv_inst x else dv_inst x < dv_inst y.
Proof. exact range_fixed_units_mono_l. Qed.
Print Assumptions range_strict_mono_partial_fixed_units.

Theorem range_finite_partial_fixed_units : forall iv u n,
  wf_zone (dv_zone (iv_start iv)) = true -> dv_kind (iv_start iv) = K_AWARE -> 4 <= u <= 7 -> 1 <= n ->
  exists fuel, snd (py_range fuel iv u n) <> GFuel.
Proof. exact range_finite_fixed_units_l. Qed.
Print Assumptions range_finite_partial_fixed_units.

(* 13. every zone, years/months/weeks/days: the k-th value is the naive step pushed forward by the gap it lands in (C02 rule), and the range is
   strictly monotone on the wall clock (= Python's < for values of one zone) provided no step lands in a gap at least as long as the step *)
Theorem range_wall_units_value : forall s u a x, wall_in_range (dv_W s) = true -> dv_kind s = K_AWARE -> 0 <= u <= 3 -> shift s u a = Ok x ->
  let A := nshift (dv_W s) u a in
  dv_W x = A + MEG * gap_at (dv_zone s) (dv_fixed s) A /\ dv_kind x = dv_kind s /\ dv_zone x = dv_zone s /\ dv_tzid x = dv_tzid s.
Proof. exact shift_calendar_units. Qed.
Print Assumptions range_wall_units_value.

Theorem range_strict_mono_partial_wall_units : forall iv u n,
  wall_in_range (dv_W (iv_start iv)) = true -> dv_kind (iv_start iv) = K_AWARE -> 0 <= u <= 3 -> 1 <= n ->
  forall fuel j k x y, short_gaps iv u n -> (j < k)%nat ->
  nth_error (fst (py_range fuel iv u n)) j = Some x -> nth_error (fst (py_range fuel iv u n)) k = Some y ->
  if range_down iv then dv_W y < dv_W x /\ dt_gt x y = true else dv_W x < dv_W y /\ dt_lt x y = true.
Proof. exact range_wall_units_mono_l. Qed.
Print Assumptions range_strict_mono_partial_wall_units.

(* 14. CURRENT CODE: a daily range over a skipped day (Pacific/Kiritimati, 1994-12-31) yields the same value twice *)
Theorem range_mono_refuted :
  exists iv fuel j x y,
    wf2_zone (dv_zone (iv_start iv)) = true /\ dv_kind (iv_start iv) = K_AWARE /\ wall_in_range (dv_W (iv_start iv)) = true /\
    range_down iv = false /\ snd (py_range fuel iv U_days 1) = GDone /\
    nth_error (fst (py_range fuel iv U_days 1)) j = Some x /\ nth_error (fst (py_range fuel iv U_days 1)) (S j) = Some y /\
    dv_W x = dv_W y /\ dv_inst x = dv_inst y /\ dt_lt x y = false.
Proof. exact range_mono_refuted_l. Qed.
Print Assumptions range_mono_refuted.

(* 15. CURRENT CODE: with the end inside a repeated hour (fold 0) an hourly range yields a value whose instant is after the end,
   and `in` agrees that it is inside: values of one zone are compared on the wall clock *)
Theorem range_contained_instants_refuted :
  exists iv fuel x,
    wf2_zone (dv_zone (iv_start iv)) = true /\ range_down iv = false /\ snd (py_range fuel iv U_hours 1) = GDone /\
    In x (fst (py_range fuel iv U_hours 1)) /\ py_contains iv x = true /\ dv_inst (iv_end iv) < dv_inst x.
Proof. exact range_contained_instants_refuted_l. Qed.
Print Assumptions range_contained_instants_refuted.

(* 16. an inverted interval (2020-01-10 down to 2020-01-05): the six values it yields, its own ends among them, are `in` it; the days next to its ends are not *)
Theorem contains_inverted_witness :
  let iv := mk_interval (d 737433) (d 737428) false in
  range_down iv = true /\ snd (py_range 10 iv U_days 1) = GDone /\ length (fst (py_range 10 iv U_days 1)) = 6%nat /\
  forallb (py_contains iv) (fst (py_range 10 iv U_days 1)) = true /\ py_contains iv (d 737434) = false /\ py_contains iv (d 737427) = false.
Proof. exact contains_inverted_witness_l. Qed.
Print Assumptions contains_inverted_witness.

(* 17. the limits of the calendar: the iteration never ends with OverflowError / ValueError, for every interval, unit, step and fuel; an interval
   ending on 9999-12-31 (or going down to 0001-01-01) is iterated to its end and then stops *)
Theorem range_stops_at_limit : forall fuel iv u n e, snd (py_range fuel iv u n) = GRaise e -> limit_exn e = false.
Proof. exact range_no_limit_exn_l. Qed.
Print Assumptions range_stops_at_limit.

Theorem range_at_limit_witness :
  py_range 10 (mk_interval (d 3652057) (d 3652058) false) U_days 1 = ([d 3652057; d 3652058], GDone) /\
  seq_at (mk_interval (d 3652057) (d 3652058) false) U_days 1 2 = Raise E_OverflowError /\
  py_range 10 (mk_interval (d 31) (d 0) false) U_months 1 = ([d 31; d 0], GDone) /\
  limit_exn E_OverflowError = true /\ limit_exn E_ValueError = true /\ limit_exn E_TypeError = false.
Proof. exact range_at_limit_witness_l. Qed.
Print Assumptions range_at_limit_witness.

(* 18. the two ends carry DIFFERENT tzinfo objects (start in a zone, end in UTC / a fixed offset / another zone), hours .. microseconds, every
   well-formed zone: Python orders such values by their instants, so the run yields EXACTLY the indices k whose instant  start +- k*n units  is not
   beyond the end's instant — also when the end lies inside a repeated hour of the start's zone (contrast range_contained_instants_refuted, where
   both ends share the tzinfo).  A change that re-expresses the end in the start's zone before the loop breaks this statement. *)
Theorem range_mixed_zones_stop_by_instant : forall iv u n,
  wf_zone (dv_zone (iv_start iv)) = true -> dv_kind (iv_start iv) = K_AWARE -> dv_kind (iv_end iv) = K_AWARE ->
  dv_tzid (iv_start iv) <> dv_tzid (iv_end iv) -> 4 <= u <= 7 -> forall fuel l,
  py_range fuel iv u n = (l, GDone) ->
  (forall j x, nth_error l j = Some x ->
     dv_inst x = inst_at iv u n j /\ inst_within iv (inst_at iv u n j) = true /\ dv_tzid x = dv_tzid (iv_start iv)) /\
  (inst_within iv (inst_at iv u n (length l)) = false \/ exists e, seq_at iv u n (length l) = Raise e /\ limit_exn e = true).
Proof. exact range_mixed_stop_l. Qed.
Print Assumptions range_mixed_zones_stop_by_instant.

Theorem range_mixed_zones_exact : forall iv u n,
  wf_zone (dv_zone (iv_start iv)) = true -> dv_kind (iv_start iv) = K_AWARE -> dv_kind (iv_end iv) = K_AWARE ->
  dv_tzid (iv_start iv) <> dv_tzid (iv_end iv) -> 4 <= u <= 7 -> forall fuel l, 1 <= n ->
  py_range fuel iv u n = (l, GDone) -> (exists y, seq_at iv u n (length l) = Ok y) ->
  forall k, (k < length l)%nat <-> inst_within iv (inst_at iv u n k) = true.
Proof. exact range_mixed_exact_l. Qed.
Print Assumptions range_mixed_zones_exact.

(* the end is yielded (as the last value) whenever its instant is on the grid start +- k*n units
   (in both statements `exists y, seq_at ... (length l) = Ok y` says the run did not stop at the limit of the calendar: see range_prefix) *)
Theorem range_mixed_zones_end_reached : forall iv u n,
  wf_zone (dv_zone (iv_start iv)) = true -> dv_kind (iv_start iv) = K_AWARE -> dv_kind (iv_end iv) = K_AWARE ->
  dv_tzid (iv_start iv) <> dv_tzid (iv_end iv) -> 4 <= u <= 7 -> forall fuel l k, 1 <= n ->
  py_range fuel iv u n = (l, GDone) -> (exists y, seq_at iv u n (length l) = Ok y) -> inst_at iv u n k = dv_inst (iv_end iv) ->
  exists x, nth_error l k = Some x /\ dv_inst x = dv_inst (iv_end iv) /\ length l = S k.
Proof. exact range_mixed_end_l. Qed.
Print Assumptions range_mixed_zones_end_reached.

(* 19. direction and membership of mixed-zone values are decided by the instants *)
Theorem interval_direction_mixed_zones : forall s e ab, dv_kind e = K_AWARE -> dv_tzid s <> dv_tzid e ->
  iv_invert (mk_interval s e ab) = (dv_inst e <? dv_inst s).
Proof. exact interval_direction_mixed_l. Qed.
Print Assumptions interval_direction_mixed_zones.

Theorem contains_mixed_zones : forall iv x, dv_kind (iv_start iv) = K_AWARE -> dv_kind (iv_end iv) = K_AWARE -> dv_kind x = K_AWARE ->
  dv_tzid (iv_start iv) <> dv_tzid x -> dv_tzid x <> dv_tzid (iv_end iv) ->
  py_contains iv x =
    if range_down iv then (dv_inst (iv_end iv) <=? dv_inst x) && (dv_inst x <=? dv_inst (iv_start iv))
    else (dv_inst (iv_start iv) <=? dv_inst x) && (dv_inst x <=? dv_inst (iv_end iv)).
Proof. exact contains_mixed_l. Qed.
Print Assumptions contains_mixed_zones.

(* 20. month / year stepping is never cut short inside the calendar.  range() ends the iteration normally when computing the next value raises
   OverflowError / ValueError (range_prefix, second disjunct), taking that to mean "outside 0001-01-01 .. 9999-12-31".  For dates, naive values and
   UTC / fixed offsets: start.add(years / months = a) succeeds whenever its target year is in 1 .. 9999 — the clamped day is always a real date, in
   February of every century year too — so a finished run by years / months stopped at the first value beyond the end, or at the limit of the calendar.
   (partial: plain values; for a zone with transitions the construction rule after the wall-clock step is not covered here) *)
Theorem month_year_step_total_partial_plain : forall s u a, wall_in_range (dv_W s) = true -> plain s -> 0 <= u <= 1 ->
  1 <= ym_target_year (dv_W s) u a <= 9999 -> exists x, shift s u a = Ok x.
Proof. exact shift_ym_total. Qed.
Print Assumptions month_year_step_total_partial_plain.

Theorem range_month_year_stops_only_outside_calendar_partial_plain : forall fuel iv u n l,
  wall_in_range (dv_W (iv_start iv)) = true -> plain (iv_start iv) -> 0 <= u <= 1 ->
  py_range fuel iv u n = (l, GDone) ->
  (exists y, seq_at iv u n (length l) = Ok y /\ within iv y = false) \/
  ((1 <= length l)%nat /\ ~ (1 <= ym_target_year (dv_W (iv_start iv)) u (amount_at iv n (length l)) <= 9999)).
Proof. exact range_ym_stop_only_outside_calendar_l. Qed.
Print Assumptions range_month_year_stops_only_outside_calendar_partial_plain.

(* 21. February of a century year: 2099-10-31 .. 2100-06-30 by months yields nine values (#4 = 2100-02-28) ending with the reachable end;
   2096-02-29 .. 2104-02-29 by 4 years passes 2100-02-28 in both directions; 1999-10-31 .. 2000-03-31 by months passes 2000-02-29 *)
Theorem range_century_february_witness :
  map dv_W (fst (py_range 20 (mk_interval (d 766582) (d 766824) false) U_months 1)) =
    map (fun n => n * us_per_day) [766582; 766612; 766643; 766674; 766702; 766733; 766763; 766794; 766824] /\
  snd (py_range 20 (mk_interval (d 766582) (d 766824) false) U_months 1) = GDone /\
  map dv_W (fst (py_range 20 (mk_interval (d 765242) (d 768163) false) U_years 4)) = map (fun n => n * us_per_day) [765242; 766702; 768163] /\
  map dv_W (fst (py_range 20 (mk_interval (d 768163) (d 765242) false) U_years 4)) = map (fun n => n * us_per_day) [768163; 766702; 765242] /\
  map dv_W (fst (py_range 20 (mk_interval (d 730057) (d 730209) false) U_months 1)) =
    map (fun n => n * us_per_day) [730057; 730087; 730118; 730149; 730178; 730209].
Proof. exact range_century_february_witness_l. Qed.
Print Assumptions range_century_february_witness.
