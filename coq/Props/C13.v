(* Props/C13.v — ISO 8601 durations and intervals parse to their exact value.  Statements only; every proof is `exact <lemma>`.
   py_dur_c / rs_dur_c / rs_raw are the executable models of Model/DurParse.v that the correspondence run of ./check C13 compares with
   pendulum.parse / parse_iso8601 in both backends (strings = lists of code points; floats = SpecFloat binary64); py_dur / rs_dur are the
   code inside the `try:` blocks whose `except OverflowError: raise ParserError` clause is the outermost step (dur_catch_outermost:
   py_dur_c = ov_to_ve o py_dur, rs_dur_c = ov_to_ve o rs_dur, where ov_to_ve only turns OverflowError into ValueError).
   render_dur y mo d t is the text P[nY][nM][nD] (t = None) or P[nY][nM][nD]T[nH][nM][nS] (t = Some (h, mi, s)) for optional digit strings;
   owf/twf: each present component is a non-empty string of ASCII digits (leading zeros allowed, any length); oval = its value. *)
From Coq Require Import ZArith List Bool.
From PV Require Import Lib.PyBase Gen.DurRegex Model.DurParse Model.DurSpec Proofs.C13Facts Proofs.C13Int Proofs.C13Py Proofs.C13Main Proofs.C13Rej Proofs.C13Catch.
Import ListNotations.
Open Scope Z_scope.

(* the hand-written matcher was written for exactly the regular expression that /repo contains now *)
Theorem regex_pinned : ISO8601_DURATION_PATTERN = expected_duration_pattern.
Proof. exact duration_pattern_pinned. Qed.
Print Assumptions regex_pinned.

(* dur_int_py: with integer components the pure-Python parser returns years, months and exactly the native value of the components,
   for every subset of components and every digit string (OverflowError when the total exceeds timedelta's 999999999 days) *)
Theorem dur_int_py : forall y mo d t, owf y -> owf mo -> owf d -> twf t ->
  py_dur (render_dur y mo d t) =
  native_of (oval y) (oval mo) (int_us (oval y) (oval mo) (oval d) (oval (t_h t)) (oval (t_mi t)) (oval (t_s t))).
Proof. exact py_int_all. Qed.
Print Assumptions dur_int_py.

(* dur_int_rs: the compiled parser returns the same with every component reduced modulo 2^32 (u32 accumulators, overflow checks off) *)
Theorem dur_int_rs : forall y mo d t, owf y -> owf mo -> owf d -> twf t -> nonbare y mo d t ->
  rs_dur (render_dur y mo d t) =
  native_of (u32 (oval y)) (u32 (oval mo))
            (int_us (u32 (oval y)) (u32 (oval mo)) (u32 (oval d)) (u32 (oval (t_h t))) (u32 (oval (t_mi t))) (u32 (oval (t_s t)))).
Proof. exact rs_int_all. Qed.
Print Assumptions dur_int_rs.

(* the raw _pendulum.Duration fields of the compiled parser *)
Theorem dur_int_rs_raw : forall y mo d h mi s, owf y -> owf mo -> owf d -> owf h -> owf mi -> owf s ->
  rs_raw (render_dur y mo d (Some (h, mi, s))) = Ok (rs_int_result y mo d h mi s).
Proof. exact rs_int_T. Qed.
Print Assumptions dur_int_rs_raw.

(* what native_of means: in range it is the exact value of the components (spec: exact rational, here an integer number of
   microseconds), years and months kept as given; out of range the constructor raises OverflowError INSIDE the try block — the
   callers' except clause turns it into the rejection the property asks for (dur_too_large_rejected below) *)
Theorem dur_int_exact : forall y mo d h mi s, 0 <= y -> 0 <= mo -> 0 <= d -> 0 <= h -> 0 <= mi -> 0 <= s ->
  let x := int_us y mo d h mi s in
  (x / US_PER_DAY <= 999999999 ->
     exists o, native_of y mo x = Ok o /\ exact_obs o y mo (spec_num 0 d h mi s 1 []) (spec_den []))
  /\ (999999999 < x / US_PER_DAY -> native_of y mo x = Raise E_OverflowError).
Proof. exact native_of_exact. Qed.
Print Assumptions dur_int_exact.

(* rs_eq_py on the region where both are right: integer components below 2^32 (any subset, not the bare "P") *)
Theorem rs_eq_py : forall y mo d t, owf y -> owf mo -> owf d -> twf t -> nonbare y mo d t ->
  small y -> small mo -> small d -> small (t_h t) -> small (t_mi t) -> small (t_s t) ->
  rs_dur (render_dur y mo d t) = py_dur (render_dur y mo d t).
Proof. exact rs_eq_py_int. Qed.
Print Assumptions rs_eq_py.

(* ---- refutations (witnesses evaluated in the kernel) *)
(* P4294967297D: 1 day in the compiled parser (wrap-around); the pure-Python parser rejects it (more days than a timedelta holds) *)
Theorem dur_rs_wrap_refuted : rs_dur_c s_wrap = Ok (0, 0, 1, 0, 0) /\ py_dur_c s_wrap = Raise E_ValueError.
Proof. split; apply too_large_rejected_witness. Qed.
Print Assumptions dur_rs_wrap_refuted.

(* P1.25D: the pure-Python parser returns 3 days 12 h, not a nearest microsecond of the exact value; the compiled parser is right *)
Theorem dur_frac_exact_refuted_py :
  py_dur s_125d = Ok (0, 0, 3, 43200, 0) /\ rs_dur s_125d = Ok (0, 0, 1, 21600, 0)
  /\ nearestb (obs_us (0, 0, 3, 43200, 0)) (spec_num 0 1 0 0 0 86400 [50; 53]) (spec_den [50; 53]) = false
  /\ nearestb (obs_us (0, 0, 1, 21600, 0)) (spec_num 0 1 0 0 0 86400 [50; 53]) (spec_den [50; 53]) = true.
Proof. exact py_125d_witness. Qed.
Print Assumptions dur_frac_exact_refuted_py.

(* PT1.00001H: the compiled parser rounds to whole seconds (3600 s, exact 3600.036 s) *)
Theorem dur_frac_exact_refuted_rs_hours :
  rs_dur s_100001h = Ok (0, 0, 0, 3600, 0) /\ py_dur s_100001h = Ok (0, 0, 0, 3960, 0)
  /\ nearestb (obs_us (0, 0, 0, 3600, 0)) (spec_num 0 0 1 0 0 3600 [48; 48; 48; 48; 49]) (spec_den [48; 48; 48; 48; 49]) = false
  /\ nearestb 3600036000 (spec_num 0 0 1 0 0 3600 [48; 48; 48; 48; 49]) (spec_den [48; 48; 48; 48; 49]) = true.
Proof. exact rs_100001h_witness. Qed.
Print Assumptions dur_frac_exact_refuted_rs_hours.

(* P0.0005D: the compiled parser rounds day (and week) fractions to whole minutes (60 s, exact 43.2 s) *)
Theorem dur_frac_exact_refuted_rs_days :
  rs_dur s_00005d = Ok (0, 0, 0, 60, 0)
  /\ nearestb (obs_us (0, 0, 0, 60, 0)) (spec_num 0 0 0 0 0 86400 [48; 48; 48; 53]) (spec_den [48; 48; 48; 53]) = false
  /\ nearestb 43200000 (spec_num 0 0 0 0 0 86400 [48; 48; 48; 53]) (spec_den [48; 48; 48; 53]) = true.
Proof. exact rs_00005d_witness. Qed.
Print Assumptions dur_frac_exact_refuted_rs_days.

(* dur_frac_1digit is false for weeks in the pure-Python parser: P1.1W -> 7 d 16 h (exact 7 d 16.8 h, which the compiled parser returns) *)
Theorem dur_frac_1digit_refuted_py_weeks :
  py_dur s_11w = Ok (0, 0, 7, 57600, 0) /\ rs_dur s_11w = Ok (0, 0, 7, 60480, 0)
  /\ nearestb (obs_us (0, 0, 7, 57600, 0)) (spec_num 1 0 0 0 0 604800 [49]) (spec_den [49]) = false
  /\ nearestb (obs_us (0, 0, 7, 60480, 0)) (spec_num 1 0 0 0 0 604800 [49]) (spec_den [49]) = true.
Proof. exact py_11w_witness. Qed.
Print Assumptions dur_frac_1digit_refuted_py_weeks.

(* PT1.9999999S: truncated to 1.999999 s by the pure-Python parser, rounded to 2 s by the compiled one *)
Theorem dur_sec_frac_refuted_py :
  py_dur s_19999999s = Ok (0, 0, 0, 1, 999999) /\ rs_dur s_19999999s = Ok (0, 0, 0, 2, 0)
  /\ nearestb (obs_us (0, 0, 0, 1, 999999)) (spec_num 0 0 0 0 1 1 [57; 57; 57; 57; 57; 57; 57]) (spec_den [57; 57; 57; 57; 57; 57; 57]) = false
  /\ nearestb (obs_us (0, 0, 0, 2, 0)) (spec_num 0 0 0 0 1 1 [57; 57; 57; 57; 57; 57; 57]) (spec_den [57; 57; 57; 57; 57; 57; 57]) = true.
Proof. exact py_19999999s_witness. Qed.
Print Assumptions dur_sec_frac_refuted_py.

(* ---- durations that do not fit a timedelta are rejected (the former finding too-large-overflowerror, repaired) *)
(* the except clause is the outermost step of both pipelines, on every string *)
Theorem dur_catch_outermost : forall s, py_dur_c s = ov_to_ve (py_dur s) /\ rs_dur_c s = ov_to_ve (rs_dur s).
Proof. intros s. split; [apply py_dur_c_eq|apply rs_dur_c_eq]. Qed.
Print Assumptions dur_catch_outermost.

(* every string, both backends: a duration parse never lets an OverflowError out *)
Theorem dur_never_overflowerror : forall s, py_dur_c s <> Raise E_OverflowError /\ rs_dur_c s <> Raise E_OverflowError.
Proof. exact dur_no_overflow. Qed.
Print Assumptions dur_never_overflowerror.

(* integer components of any length whose exact total exceeds timedelta's 999999999 days: ValueError (ParserError), pure Python on
   the values themselves, compiled parser on the values modulo 2^32; at or below the bound the pure-Python result is the exact value *)
Theorem dur_too_large_rejected : forall y mo d t, owf y -> owf mo -> owf d -> twf t ->
  (999999999 < int_us (oval y) (oval mo) (oval d) (oval (t_h t)) (oval (t_mi t)) (oval (t_s t)) / US_PER_DAY ->
     py_dur_c (render_dur y mo d t) = Raise E_ValueError) /\
  (int_us (oval y) (oval mo) (oval d) (oval (t_h t)) (oval (t_mi t)) (oval (t_s t)) / US_PER_DAY <= 999999999 ->
     exists o, py_dur_c (render_dur y mo d t) = Ok o /\
               exact_obs o (oval y) (oval mo) (spec_num 0 (oval d) (oval (t_h t)) (oval (t_mi t)) (oval (t_s t)) 1 []) (spec_den [])) /\
  (nonbare y mo d t ->
   999999999 < int_us (u32 (oval y)) (u32 (oval mo)) (u32 (oval d)) (u32 (oval (t_h t))) (u32 (oval (t_mi t))) (u32 (oval (t_s t))) / US_PER_DAY ->
     rs_dur_c (render_dur y mo d t) = Raise E_ValueError) /\
  (nonbare y mo d t ->
   int_us (u32 (oval y)) (u32 (oval mo)) (u32 (oval d)) (u32 (oval (t_h t))) (u32 (oval (t_mi t))) (u32 (oval (t_s t))) / US_PER_DAY <= 999999999 ->
     rs_dur_c (render_dur y mo d t) = rs_dur (render_dur y mo d t)).
Proof.
  intros y mo d t Hy Hmo Hd Ht. repeat split.
  - apply py_too_large_rejected; assumption.
  - apply py_in_range_exact; assumption.
  - intros Hnb. apply rs_too_large_rejected; assumption.
  - intros Hnb. apply rs_in_range_unchanged; assumption.
Qed.
Print Assumptions dur_too_large_rejected.

(* the former witnesses: P99999999999D is rejected by both backends *)
Theorem dur_too_large_witness_rejected : py_dur_c s_big = Raise E_ValueError /\ rs_dur_c s_big = Raise E_ValueError.
Proof. split; apply too_large_rejected_witness. Qed.
Print Assumptions dur_too_large_witness_rejected.

(* the hypotheses of dur_too_large_rejected are satisfiable on both sides of the bound (P1000000000D / P999999999D) *)
Example dur_too_large_hyps : let d := Some [49;48;48;48;48;48;48;48;48;48] in let d' := Some [57;57;57;57;57;57;57;57;57] in
  owf d /\ owf d' /\ twf None /\ nonbare None None d None /\
  999999999 < int_us 0 0 (oval d) 0 0 0 / US_PER_DAY /\ int_us 0 0 (oval d') 0 0 0 / US_PER_DAY <= 999999999.
Proof. exact too_large_hyps. Qed.

(* dur_order_rejected is false for the compiled parser: P0D1Y, PT1H1H, P2D1W are accepted (the pure-Python parser rejects them) *)
Theorem dur_order_rejected_refuted_rs :
  rs_dur s_0d1y = Ok (1, 0, 365, 0, 0) /\ py_dur s_0d1y = Raise E_ValueError
  /\ rs_dur s_1h1h = Ok (0, 0, 0, 7200, 0) /\ py_dur s_1h1h = Raise E_ValueError
  /\ rs_dur s_2d1w = Ok (0, 0, 9, 0, 0) /\ py_dur s_2d1w = Raise E_ValueError.
Proof. exact rs_order_witness. Qed.
Print Assumptions dur_order_rejected_refuted_rs.

(* dur_frac_ym_rejected: a decimal fraction on the year or (date) month designator is rejected by both parsers, whatever follows
   (ds, fs: non-empty ASCII digit strings of any length; sep: '.' or ',') *)
Theorem dur_frac_ym_rejected : forall ds sep fs c r, digits ds -> sepc sep -> digits fs -> c = c_Y \/ c = c_M ->
  py_dur (c_P :: ds ++ sep :: fs ++ c :: r) = Raise E_ValueError /\
  rs_dur (c_P :: ds ++ sep :: fs ++ c :: r) = Raise E_ValueError.
Proof. intros; split; [apply py_frac_ym|apply rs_frac_ym]; assumption. Qed.
Print Assumptions dur_frac_ym_rejected.

(* dur_frac_1digit_partial: one fraction digit (all ten digits, '.' and ',') is parsed to the exact value by the pure-Python parser on
   D, H, M, S and by the compiled parser on D, H, M, S, W — checked in the kernel for the integer parts of `ips` only
   (the universal forms over EVERY integer part are dur_frac_1digit_py / dur_frac_1digit_rs / dur_frac_1digit_ok_py / dur_frac_1digit_ok_rs /
   dur_frac_1digit_py_weeks_refuted_all at the end of this file; this finite kernel check is kept as it was) *)
Theorem dur_frac_1digit_partial :
  forallb (fun ip => one_digit_ok py_dur false c_D 86400 ip && one_digit_ok py_dur true c_H 3600 ip &&
                     one_digit_ok py_dur true c_M 60 ip && one_digit_ok py_dur true c_S 1 ip) ips = true /\
  forallb (fun ip => one_digit_ok rs_dur false c_D 86400 ip && one_digit_ok rs_dur true c_H 3600 ip &&
                     one_digit_ok rs_dur true c_M 60 ip && one_digit_ok rs_dur true c_S 1 ip &&
                     one_digit_ok rs_dur false c_W 604800 ip) ips = true /\
  forallb (fun ip => negb (one_digit_ok py_dur false c_W 604800 ip)) ips = true.
Proof. exact (conj one_digit_py (conj one_digit_rs one_digit_py_weeks_wrong)). Qed.
Print Assumptions dur_frac_1digit_partial.

(* ------------------------------------------------------------ the regular expression itself, executed *)
From PV Require Import Model.C07Regex Gen.DurRegexAst Proofs.RegexShape Model.DurRegexMatch Proofs.C13Regex Proofs.C13RegexLift.

(* closed form of ISO8601_DURATION.match on EVERY string: the AST generated from /repo's pattern through CPython's pattern parser
   (Gen/DurRegexAst.v; `\d+` bounded by the input length), run by the backtracking span matcher, does exactly the token scans
   try_tok of the hand-written matcher and never needs to backtrack over a token *)
Theorem dur_regex_is_hand_matcher : forall s, match_duration_re s = match_duration s.
Proof. exact match_duration_re_eq. Qed.
Print Assumptions dur_regex_is_hand_matcher.

(* hence the whole pure-Python pipeline with the regex executed (regex + _parse_iso8601_duration + Duration.__new__) equals the
   modelled one on every string: every statement about py_dur above is a statement about the generated regex *)
Theorem py_dur_regex_eq : forall s, py_dur_re s = py_dur s.
Proof. exact py_dur_re_eq. Qed.
Print Assumptions py_dur_regex_eq.

(* dur_int_py through the executed regex: for every list of digit strings per designator the pipeline returns the exact value *)
Theorem dur_int_py_regex : forall y mo d t, owf y -> owf mo -> owf d -> twf t ->
  py_dur_re (render_dur y mo d t) =
  native_of (oval y) (oval mo) (int_us (oval y) (oval mo) (oval d) (oval (t_h t)) (oval (t_mi t)) (oval (t_s t))).
Proof. exact py_int_all_re. Qed.
Print Assumptions dur_int_py_regex.

(* dur_frac_ym_rejected through the executed regex, whatever follows the designator *)
Theorem dur_frac_ym_rejected_regex : forall ds sep fs c r, digits ds -> sepc sep -> digits fs -> c = c_Y \/ c = c_M ->
  py_dur_re (c_P :: ds ++ sep :: fs ++ c :: r) = Raise E_ValueError.
Proof. exact py_frac_ym_re. Qed.
Print Assumptions dur_frac_ym_rejected_regex.

(* ------------------------------------------------------------ one fraction digit, for EVERY integer part (Proofs/C13Frac.v)
   Text one_digit_text time ip sep dg unit = P[T]<ip><sep><dg><unit>: ip any non-empty ASCII digit string (leading zeros allowed, any
   length), sep '.' or ',', dg one ASCII digit.  exact_us unit_secs v dg = (v + (dg-48)/10) * unit_secs seconds in microseconds (an integer).
   native_of 0 0 x: the exact x while x is inside timedelta's range (x / US_PER_DAY <= 999999999, see dur_int_exact), the constructor's
   OverflowError beyond (inside the try block; the callers see ValueError: dur_catch_outermost).  The integer part reaches the constructor
   as an integer argument in both parsers, so the float arithmetic acts on dg/10 alone: it is evaluated once per digit in the kernel and
   the integer part is PROVED to add exactly (no real-number axioms: closed under the global context). *)
From PV Require Import Proofs.C13Frac.

(* dur_frac_1digit_py: the pure-Python parser on D, H, M, S — the honest bound is timedelta's range only *)
Theorem dur_frac_1digit_py : forall ip sep dg, digits ip -> sepc sep -> is_digit dg = true ->
  py_dur (one_digit_text false ip sep dg c_D) = native_of 0 0 (exact_us 86400 (dval ip) dg) /\
  py_dur (one_digit_text true ip sep dg c_H) = native_of 0 0 (exact_us 3600 (dval ip) dg) /\
  py_dur (one_digit_text true ip sep dg c_M) = native_of 0 0 (exact_us 60 (dval ip) dg) /\
  py_dur (one_digit_text true ip sep dg c_S) = native_of 0 0 (exact_us 1 (dval ip) dg).
Proof. exact one_digit_py_all. Qed.
Print Assumptions dur_frac_1digit_py.

(* dur_frac_1digit_rs: the compiled parser on D, H, M, S and W — the integer part modulo 2^32 (its u32 field), then timedelta's range *)
Theorem dur_frac_1digit_rs : forall ip sep dg, digits ip -> sepc sep -> is_digit dg = true ->
  rs_dur (one_digit_text false ip sep dg c_D) = native_of 0 0 (exact_us 86400 (u32 (dval ip)) dg) /\
  rs_dur (one_digit_text true ip sep dg c_H) = native_of 0 0 (exact_us 3600 (u32 (dval ip)) dg) /\
  rs_dur (one_digit_text true ip sep dg c_M) = native_of 0 0 (exact_us 60 (u32 (dval ip)) dg) /\
  rs_dur (one_digit_text true ip sep dg c_S) = native_of 0 0 (exact_us 1 (u32 (dval ip)) dg) /\
  rs_dur (one_digit_text false ip sep dg c_W) = native_of 0 0 (exact_us 604800 (u32 (dval ip)) dg).
Proof. exact one_digit_rs_all. Qed.
Print Assumptions dur_frac_1digit_rs.

(* the same in the vocabulary of dur_frac_1digit_partial (one_digit_ok: all ten digits, both separators, result = THE exact value), now
   for every integer part: while the largest of the ten values (digit 9) fits a timedelta — and, compiled parser, ip < 2^32 *)
Theorem dur_frac_1digit_ok_py : forall ip, digits ip ->
  (exact_us 86400 (dval ip) 57 / US_PER_DAY <= 999999999 -> one_digit_ok py_dur false c_D 86400 ip = true) /\
  (exact_us 3600 (dval ip) 57 / US_PER_DAY <= 999999999 -> one_digit_ok py_dur true c_H 3600 ip = true) /\
  (exact_us 60 (dval ip) 57 / US_PER_DAY <= 999999999 -> one_digit_ok py_dur true c_M 60 ip = true) /\
  (exact_us 1 (dval ip) 57 / US_PER_DAY <= 999999999 -> one_digit_ok py_dur true c_S 1 ip = true).
Proof. exact one_digit_ok_py. Qed.
Print Assumptions dur_frac_1digit_ok_py.

Theorem dur_frac_1digit_ok_rs : forall ip, digits ip -> dval ip < 4294967296 ->
  (exact_us 86400 (dval ip) 57 / US_PER_DAY <= 999999999 -> one_digit_ok rs_dur false c_D 86400 ip = true) /\
  (exact_us 3600 (dval ip) 57 / US_PER_DAY <= 999999999 -> one_digit_ok rs_dur true c_H 3600 ip = true) /\
  (exact_us 60 (dval ip) 57 / US_PER_DAY <= 999999999 -> one_digit_ok rs_dur true c_M 60 ip = true) /\
  (exact_us 1 (dval ip) 57 / US_PER_DAY <= 999999999 -> one_digit_ok rs_dur true c_S 1 ip = true) /\
  (exact_us 604800 (dval ip) 57 / US_PER_DAY <= 999999999 -> one_digit_ok rs_dur false c_W 604800 ip = true).
Proof. exact one_digit_ok_rs. Qed.
Print Assumptions dur_frac_1digit_ok_rs.

(* CURRENT CODE: the week fraction of the pure-Python parser is wrong with one digit for EVERY integer part (P<ip>.1W is ip weeks 16 h,
   exact 16.8 h; outside timedelta's range it raises): the universal form of dur_frac_1digit_refuted_py_weeks *)
Theorem dur_frac_1digit_py_weeks_refuted_all : forall ip, digits ip -> one_digit_ok py_dur false c_W 604800 ip = false.
Proof. exact one_digit_py_weeks_all. Qed.
Print Assumptions dur_frac_1digit_py_weeks_refuted_all.

Theorem dur_frac_1digit_py_weeks_value : forall ip sep, digits ip -> sepc sep ->
  py_dur (one_digit_text false ip sep 49 c_W) = native_of 0 0 (dval ip * 604800000000 + 57600000000).
Proof. exact py_one_digit_W1. Qed.
Print Assumptions dur_frac_1digit_py_weeks_value.

(* the hypotheses are satisfiable ("P12.5D" = 12 d 12 h, "PT007,3H" = 7 h 18 min, compiled "P3.5W" = 24 d 12 h) ... *)
Example dur_frac_1digit_hyps :
  digits [49; 50] /\ sepc c_dot /\ sepc c_comma /\ is_digit 53 = true /\
  one_digit_text false [49; 50] c_dot 53 c_D = [80; 49; 50; 46; 53; 68] /\
  py_dur (one_digit_text false [49; 50] c_dot 53 c_D) = Ok (0, 0, 12, 43200, 0) /\
  py_dur (one_digit_text true [48; 48; 55] c_comma 51 c_H) = Ok (0, 0, 0, 26280, 0) /\
  rs_dur (one_digit_text false [51] c_dot 53 c_W) = Ok (0, 0, 24, 43200, 0) /\
  exact_us 86400 (dval [49; 50]) 57 / US_PER_DAY <= 999999999.
Proof. exact one_digit_sat. Qed.

(* ... and both bounds are sharp: P999999999.9D is the last value inside timedelta's range, P1000000000.0D raises inside the try block
   (both backends); PT4294967297.5S is 1.5 s in the compiled parser (u32 wrap-around, finding rs-u32-wrap) *)
Theorem dur_frac_1digit_bounds_sharp :
  (py_dur (one_digit_text false [57; 57; 57; 57; 57; 57; 57; 57; 57] c_dot 57 c_D) = Ok (0, 0, 999999999, 77760, 0) /\
   py_dur (one_digit_text false [49; 48; 48; 48; 48; 48; 48; 48; 48; 48] c_dot 48 c_D) = Raise E_OverflowError /\
   rs_dur (one_digit_text false [49; 48; 48; 48; 48; 48; 48; 48; 48; 48] c_dot 48 c_D) = Raise E_OverflowError) /\
  (rs_dur (one_digit_text true [52; 50; 57; 52; 57; 54; 55; 50; 57; 55] c_dot 53 c_S) = Ok (0, 0, 0, 1, 500000) /\
   py_dur (one_digit_text true [52; 50; 57; 52; 57; 54; 55; 50; 57; 55] c_dot 53 c_S) = Ok (0, 0, 49710, 23297, 500000)).
Proof. exact (conj one_digit_range_sharp one_digit_u32_sharp). Qed.
Print Assumptions dur_frac_1digit_bounds_sharp.

(* ------------------------------------------------------------ THE MODEL IS THE CODE (pure-Python duration parser)
   Gen/DurParsePy.v is translated from /repo's src/pendulum/parsing/iso8601.py on every run (tools/vlib/pyfloat2gallina.py +
   gens/g53_dur_parse_py.py): everything _parse_iso8601_duration does after `m = ISO8601_DURATION.match(text)` succeeded — the branches per
   designator, the order checks, the `fractional` flag, int(portion) / 10 * HOURS_PER_DAY etc. with CPython's int/float typing, the int-or-float
   accumulators (`num`), the microsecond padding, the final Duration(...) call — on the match record `dmatch` (what Model/DurRegexMatch.v builds
   from the executed regular expression, proved equal to the hand matcher above).  The hand model `py_args` + `duration_native`
   (= py_native after the match), about which the theorems above speak, EQUALS that translation for every match record whose weeks group
   carries no fraction.  For a fractional week the translation keeps CPython's float `// 1`, `% 1` and int() (Spec/TdFloat) where the hand
   model writes trunc and x - trunc x; that equality needs a rounding argument: NOT proved, hence the hypothesis (the branch is the known
   finding py-week-frac; checked on instances by kernel computation below and tied by the correspondence run). *)
From PV Require Import Model.DurParsePrims Gen.DurParsePy Proofs.DurParsePyFacts.

Theorem model_is_code_parse_iso8601_duration_partial : forall m, week_frac_free m ->
  gen_parse_iso8601_duration m =
  bind (py_args m) (fun a => duration_native (a_years a) (a_months a) (a_weeks a) (a_days a) (a_hours a) (a_minutes a) (a_seconds a) (a_us a)).
Proof. exact gen_parse_eq. Qed.
Print Assumptions model_is_code_parse_iso8601_duration_partial.

(* the whole pipeline inside the try block: regex match (hand matcher = executed regex), then the translated code *)
Theorem model_is_code_py_native_partial : forall s m, match_duration s = Some m -> week_frac_free m ->
  py_native s = gen_parse_iso8601_duration m.
Proof. exact py_native_is_code. Qed.
Print Assumptions model_is_code_py_native_partial.

(* fractional weeks: model = code on "P1.1W", "P0.5W", "P12,3W", "P1.25W", "P007.9W" (kernel computation) *)
Theorem model_is_code_week_fraction_instances :
  Forall (fun s => match_duration s <> None /\ ~ week_frac_free (the_match s)
                   /\ gen_parse_iso8601_duration (the_match s) = py_native_of_match (the_match s) /\ py_native s = py_native_of_match (the_match s))
         [[80; 49; 46; 49; 87]; [80; 48; 46; 53; 87]; [80; 49; 50; 44; 51; 87]; [80; 49; 46; 50; 53; 87]; [80; 48; 48; 55; 46; 57; 87]].
Proof. exact week_fraction_instances. Qed.
Print Assumptions model_is_code_week_fraction_instances.

(* the hypothesis is satisfiable: "P1Y2M3DT4H5M6.5S", "P1.5D", "PT0,25H", "P3W" match and carry no week fraction *)
Example model_is_code_parse_hyps :
  Forall (fun s => match_duration s <> None /\ week_frac_free (the_match s))
         [[80; 49; 89; 50; 77; 51; 68; 84; 52; 72; 53; 77; 54; 46; 53; 83]; [80; 49; 46; 53; 68]; [80; 84; 48; 44; 50; 53; 72]; [80; 51; 87]].
Proof. exact week_frac_free_instances. Qed.

(* ---- the fractional week closed (Proofs/DurParseWeekCarry.v, through Flocq): for x = int(portion) / 10 * 7 CPython's float `x // 1`, `x % 1`
   and int() agree with the hand model's trunc x and x - trunc x (the floor of a non-negative double is its truncation; x % 1 is exact), so the
   hand model equals the translated code for EVERY match record — the only remaining side condition is that the fraction digits of the weeks
   group denote a number below 10^15 (at most 15 digits; the carry is proved below 2^50; nothing else is bounded).  Print Assumptions lists the
   standard real-number axioms Flocq rests on; model_is_code_parse_iso8601_duration_partial above (no week fraction) depends on nothing. *)
Theorem model_is_code_parse_iso8601_duration : forall m, week_frac_small m ->
  gen_parse_iso8601_duration m =
  bind (py_args m) (fun a => duration_native (a_years a) (a_months a) (a_weeks a) (a_days a) (a_hours a) (a_minutes a) (a_seconds a) (a_us a)).
Proof. exact gen_parse_eq_week. Qed.
Print Assumptions model_is_code_parse_iso8601_duration.

Theorem model_is_code_py_native : forall s m, match_duration s = Some m -> week_frac_small m ->
  py_native s = gen_parse_iso8601_duration m.
Proof. exact py_native_is_code_week. Qed.
Print Assumptions model_is_code_py_native.

(* week_frac_small m: the weeks group is absent, or has no fraction, or its fraction digits are worth less than 10^15 *)
Theorem week_frac_small_covers : forall m, week_frac_free m -> week_frac_small m.
Proof. exact week_frac_free_small. Qed.
Print Assumptions week_frac_small_covers.

(* ------------------------------------------------------------ a fraction is admitted on the LAST component only (Proofs/C13AfterFrac.v)
   "Fractional" is a property of the TEXT of a component (a '.' or ',' followed by digits), not of its value: `P1.0D…`, `PT2,000H…` carry
   a fraction like `P1.5D…` does (ds, fs: non-empty ASCII digit strings of any length, leading / trailing / only zeros included; sep '.' or ',';
   c any non-digit).  Together with dur_frac_ym_rejected (a fraction on Y or on the date M, whatever follows) this is the rejection clause
   of the property for fractions, for every digit string. *)
From PV Require Import Proofs.C13AfterFrac.

(* the state machine of the compiled parser's loop: once a component carried a fraction (last_had_fraction = true) the loop accepts
   nothing more than a lone trailing 'T', from every state and with every remaining input *)
Theorem dur_rs_after_fraction_only_T : forall f d gt l,
  rs_loop (S (S f)) d gt true l = Raise E_ValueError \/ (gt = false /\ l = [c_T]).
Proof. exact rs_loop_after_fraction. Qed.
Print Assumptions dur_rs_after_fraction_only_T.

(* compiled parser, P <integer date tokens> <ds sep fs c> r: rejected unless r is empty or the lone 'T' *)
Theorem dur_frac_nonfinal_rejected_rs_date : forall dts ds sep fs c r,
  Forall wf_tok dts -> digits ds -> sepc sep -> digits fs -> is_digit c = false -> r <> [] -> r <> [c_T] ->
  rs_dur (c_P :: render_toks dts ++ ds ++ sep :: fs ++ c :: r) = Raise E_ValueError /\
  rs_dur_c (c_P :: render_toks dts ++ ds ++ sep :: fs ++ c :: r) = Raise E_ValueError.
Proof. exact rs_frac_nonfinal_date. Qed.
Print Assumptions dur_frac_nonfinal_rejected_rs_date.

(* compiled parser, P <integer date tokens> T <integer time tokens> <ds sep fs c> r: rejected unless r is empty *)
Theorem dur_frac_nonfinal_rejected_rs_time : forall dts tts ds sep fs c r,
  Forall wf_tok dts -> Forall wf_tok tts -> digits ds -> sepc sep -> digits fs -> is_digit c = false -> r <> [] ->
  rs_dur (c_P :: render_toks dts ++ c_T :: render_toks tts ++ ds ++ sep :: fs ++ c :: r) = Raise E_ValueError /\
  rs_dur_c (c_P :: render_toks dts ++ c_T :: render_toks tts ++ ds ++ sep :: fs ++ c :: r) = Raise E_ValueError.
Proof. exact rs_frac_nonfinal_time. Qed.
Print Assumptions dur_frac_nonfinal_rejected_rs_time.

Example dur_frac_nonfinal_hyps :
  Forall wf_tok [([49], c_Y)] /\ digits [50] /\ sepc c_dot /\ digits [48] /\ is_digit c_D = false /\
  [c_T; 49; 50; c_H] <> [] /\ [c_T; 49; 50; c_H] <> [c_T].
Proof. exact frac_nonfinal_hyps. Qed.

(* pure Python, every string: if whatever the regular expression matches has a fractional days / hours / minutes group in front of a later
   time group (after_frac), the string is rejected; py_args never returns on such a match record *)
Theorem dur_frac_nonfinal_rejected_py : forall s, (forall m, match_duration s = Some m -> after_frac m = true) ->
  py_dur_c s = Raise E_ValueError.
Proof. exact py_frac_nonfinal. Qed.
Print Assumptions dur_frac_nonfinal_rejected_py.

Theorem dur_frac_nonfinal_py_args : forall m a, g_hms m = true -> py_args m = Ok a -> after_frac m = false.
Proof. exact py_args_ok_not_after_frac. Qed.
Print Assumptions dur_frac_nonfinal_py_args.

Example dur_frac_nonfinal_py_hyps :
  (exists m, match_duration s_pt1_0h30m = Some m /\ after_frac m = true) /\
  (exists m, match_duration s_p1_0dt12h = Some m /\ after_frac m = true).
Proof. exact after_frac_witness. Qed.

(* the degenerate fractions themselves, evaluated in the kernel on the three models (pure Python, compiled + glue, compiled raw):
   P1.0Y  P2,00M  P1Y2.0M3D  P1.000000000Y  PT1.0H30M  P1.0DT12H  PT1,00M30S  PT1.0H1.5M  P0.0W2D  are all rejected with a ValueError,
   while P1.0D and PT1,000S (the fraction on the last component) are 1 day and 1 second *)
Theorem dur_degenerate_fraction_witnesses :
  forallb (fun s => is_ve (py_dur_c s) && is_ve (rs_dur_c s) && is_ve (rs_raw s)) degenerate_rejected = true /\
  py_dur_c s_p1_0d = Ok (0, 0, 1, 0, 0) /\ rs_dur_c s_p1_0d = Ok (0, 0, 1, 0, 0) /\
  py_dur_c s_pt1_000s = Ok (0, 0, 0, 1, 0) /\ rs_dur_c s_pt1_000s = Ok (0, 0, 0, 1, 0).
Proof. exact (conj degenerate_rejected_all degenerate_final_ok). Qed.
Print Assumptions dur_degenerate_fraction_witnesses.
