(* Props/C17.v — C17: parse() is total: a supported value or a ValueError/ParserError, nothing else.
   Model: Model/ParseTotal.v (the whole chain of pendulum.parse, built on the C07/C13 parser models); `du` is the dateutil fallback,
   an arbitrary function (never an axiom).  Strings are lists of code points; theorems quantify over ALL strings. *)
From Coq Require Import ZArith List Bool.
From PV Require Import Lib.PyBase Model.C07Regex Model.IsoParse Model.DurParse Model.ParseTotal.
From PV Require Import Proofs.C13Int Proofs.C13Main Proofs.C17Facts Proofs.C17Total Proofs.C17Py Proofs.C17Trail.
Import ListNotations.
Open Scope Z_scope.

(* 1. parse_total, compiled backend, at full strength: EVERY string, EVERY option combination, any dateutil that itself only returns a
   datetime or raises ValueError or OverflowError (dateutil does raise OverflowError on long digit runs): pendulum.parse returns a
   supported value or raises ValueError/ParserError — nothing else.  No TypeError (COMMON's minute group is mandatory; an interval
   endpoint that is not a date or date-time is rejected, a date next to a duration is taken at midnight), no AttributeError, no
   OverflowError (a duration that does not fit a timedelta, interval arithmetic that leaves years 1..9999 and dateutil's own
   OverflowError are answered with ParserError), no out-of-fuel, no RuntimeError. *)
Theorem parse_total_rs : forall (du : list Z -> bool -> bool -> result pval),
  (forall s a b, match du s a b with Ok _ | Raise E_ValueError | Raise E_ParserError | Raise E_OverflowError => True | Raise _ => False end) ->
  forall o s, out_ok (parse_full du true o s).
Proof.
  intros du H o s. assert (H' : forall s a b, exn_in [E_ValueError; E_ParserError; E_OverflowError] (du s a b)).
  { intros s0 a b. specialize (H s0 a b). destruct (du s0 a b) as [|e]; [exact I|]. destruct e; try contradiction; simpl; auto. }
  pose proof (parse_total_rs_all du H' o s) as T. destruct (parse_full du true o s) as [|e]; [exact I|]. destruct e; exact T.
Qed.
Print Assumptions parse_total_rs.

(* the hypothesis on dateutil is satisfiable and the conclusion is not vacuous: with the OverflowError-raising oracle of theorem 8 *)
Example parse_total_rs_hyps :
  (forall s a b, match du_overflow s a b with Ok _ | Raise E_ValueError | Raise E_ParserError | Raise E_OverflowError => True | Raise _ => False end)
  /\ out_ok (parse_full du_overflow true opts_lax s_digits20).
Proof. split; [intros; exact I|]. rewrite (proj1 (w_dateutil true)). exact I. Qed.

(* 2. parse_iso8601 of the compiled backend (descent + pyo3 glue + duration loop with its fuel) on every string *)
Theorem rs_iso8601_total : forall s, out_ok (rs_iso8601 s).
Proof. intros s. pose proof (rs_iso8601_ve s) as H. destruct (rs_iso8601 s) as [|e]; [exact I|]. simpl in H. destruct H as [<-|[]]. exact I. Qed.
Print Assumptions rs_iso8601_total.

(* 3. the pure-Python date/time parser: generated ISO8601_DT AST run by the Coq matcher + the post-match code, on every string *)
Theorem py_datetime_total : forall s, out_ok (py_parse_iso s).
Proof. exact py_parse_iso_total. Qed.
Print Assumptions py_datetime_total.

(* 4. _parse_common (both backends, with day_first), every string: a value or a ValueError/ParserError.  The minute group of the
   COMMON pattern generated from /repo is mandatory whenever the time group matches (a capture-dependency theorem about the matcher,
   Proofs/C17Regex.v), so int(m.group("minute")) never sees None: the former TypeError region is empty and "2:" is a ParserError *)
Theorem common_total : forall df s, out_ok (common_parse_df df s).
Proof. exact common_total. Qed.
Print Assumptions common_total.

Theorem common_minute_never_absent : forall s, common_minute_absent s = false.
Proof. exact common_minute_absent_never. Qed.
Print Assumptions common_minute_never_absent.

Theorem minute_absent_rejected : forall du rs, parse_full du rs opts0 s_2colon = Raise E_ParserError.
Proof. intros du rs. apply (w_minute_absent du rs). Qed.
Print Assumptions minute_absent_rejected.

(* 5. interval endpoints, both backends, any dateutil: a date next to a duration is taken at midnight ("2021-01-01/P1D" is
   [2021-01-01T00:00 -> 2021-01-02T00:00], "P1D/2021-01-01" is [2020-12-31T00:00 -> 2021-01-01T00:00]); an endpoint that is a time or a
   duration is not an interval ("12:00/13:00", "P1D/P1D": ParserError).  These were the TypeError / AttributeError witnesses. *)
Theorem interval_endpoints_checked : forall du rs,
  parse_full du rs opts0 s_date_dur = Ok (V_ival 1 (mkp 1 2021 1 1 0 0 0 0 (Some 0)) (mkp 1 2021 1 2 0 0 0 0 (Some 0))) /\
  parse_full du rs opts0 s_dur_date = Ok (V_ival 1 (mkp 1 2020 12 31 0 0 0 0 (Some 0)) (mkp 1 2021 1 1 0 0 0 0 (Some 0))) /\
  parse_full du rs opts0 s_time_time = Raise E_ParserError /\ parse_full du rs opts0 s_dur_dur = Raise E_ParserError.
Proof. intros du rs. exact (w_interval_endpoints du rs). Qed.
Print Assumptions interval_endpoints_checked.

(* ... and in general, either backend, any parse_iso8601: every form _parse_iso8601_interval returns has date or date-time endpoints
   (start/end) or a date-time endpoint (next to a duration), which is what the assembly in parser.py requires *)
Theorem interval_forms_have_datetime_endpoints : forall iso s f, interval_parse iso s = Ok f -> all_dt f = true.
Proof. exact interval_parse_dt. Qed.
Print Assumptions interval_forms_have_datetime_endpoints.

(* 5b. values that do not fit are REJECTED, both backends, any dateutil: "P99999999999D" (more than timedelta's 999999999 days),
   "2021-01-01T00:00:00/P3000000D" (the computed end leaves year 9999), "0001-01-01T00:00:00+01:00/PT1H" (the UTC-shifted start
   leaves year 1) raise ParserError; in general see theorem 1 (no OverflowError on any string) and C13's dur_too_large_rejected *)
Theorem out_of_range_rejected : forall du rs,
  parse_full du rs opts0 s_big = Raise E_ParserError /\
  parse_full du rs opts0 s_iv_over = Raise E_ParserError /\ parse_full du rs opts0 s_iv_under = Raise E_ParserError.
Proof. intros du rs. destruct (w_interval_overflow du rs) as [G H]. repeat split; auto using w_too_large. Qed.
Print Assumptions out_of_range_rejected.

(* 6. no_wrapped_value: refuted by "P4294967297D" (one day with the compiled parser, also inside an interval) ... *)
Theorem no_wrapped_value_refuted : forall du,
  parse_full du true opts0 s_wrap = Ok (V_dur (0, 0, 1, 0, 0)) /\ parse_full du false opts0 s_wrap = Raise E_ParserError /\
  parse_full du true opts0 s_iv_wrap = Ok (V_ival 1 (mkp 1 2021 1 1 0 0 0 0 (Some 0)) (mkp 1 2021 1 2 0 0 0 0 (Some 0))).
Proof. exact w_wrap. Qed.
Print Assumptions no_wrapped_value_refuted.

(* ... and proved outside the wrap region: a digit run below 2^32 is read by parse_duration_number as its unbounded-integer value
   (in general: that value modulo 2^32; C13's rs_number_app) *)
Theorem no_wrapped_value_partial : forall ds r, digits ds -> nodigit_head r -> dval ds < 4294967296 ->
  rs_number (ds ++ r) = Ok (dval ds, r).
Proof.
  intros ds r Hd Hr Hs. rewrite (rs_number_app ds r Hd Hr). rewrite u32_small; [reflexivity|].
  split; [apply dval_nonneg; apply Hd|exact Hs].
Qed.
Print Assumptions no_wrapped_value_partial.
Example no_wrapped_value_hyps : digits [52; 50] /\ nodigit_head [68] /\ dval [52; 50] < 4294967296.
Proof. repeat split; try discriminate; reflexivity. Qed.

(* 7. strict=True never consults dateutil: the result does not depend on the oracle, i.e. the accepted language is that of the three
   recognisers of /repo (ISO 8601 parser, interval splitter, COMMON).  _partial: those recognisers are themselves more liberal than the
   three grammars (findings strict-lenient-...), which is established by the independent recognisers of the harness, not here. *)
Theorem strict_rejects_outside_forms_partial : forall du1 du2 rs o s, o_strict o = true ->
  reaches_oracle rs o s = false /\ parse_full du1 rs o s = parse_full du2 rs o s.
Proof. intros du1 du2 rs o s H. split; [apply strict_no_oracle, H|apply oracle_independent, strict_no_oracle, H]. Qed.
Print Assumptions strict_rejects_outside_forms_partial.

(* 8. when the fallback IS reached (strict=False) parse returns exactly what dateutil returns, unless that datetime carries a UTC offset
   of 24 h or more (dt.utcoffset() raises ValueError inside the try: ParserError); ValueError AND OverflowError become ParserError; any
   other exception kind would escape unchanged ... *)
Theorem oracle_delivery : forall du rs o s, reaches_oracle rs o s = true -> is_now s = false ->
  parse_full du rs o s = match du s (o_day_first o) (o_year_first o) with
                         | Ok p => if match p_off p with Some z => bad_off z | None => false end then Raise E_ParserError
                                   else finish rs o (normalize o (R_i (I_p p)))
                         | Raise E_ValueError | Raise E_ParserError | Raise E_OverflowError => Raise E_ParserError
                         | Raise e => Raise e
                         end.
Proof. exact oracle_reached. Qed.
Print Assumptions oracle_delivery.

(* ... so a dateutil that raises OverflowError (it does, on 20 digits) is answered with ParserError: the fallback is reached for the
   20-digit text under strict=False, and both option sets end in ParserError *)
Theorem dateutil_overflow_rejected : forall rs,
  parse_full du_overflow rs opts_lax s_digits20 = Raise E_ParserError /\ reaches_oracle rs opts_lax s_digits20 = true /\
  parse_full du_overflow rs opts0 s_digits20 = Raise E_ParserError.
Proof. exact w_dateutil. Qed.
Print Assumptions dateutil_overflow_rejected.

(* 9. offsets of 24 h and more are rejected: "-25:00" and "+24:00" raise ParserError with both backends, "-23:59" / "+23:59" are
   accepted ... *)
Theorem offset_out_of_range_rejected : forall du rs,
  parse_full du rs opts0 s_m25 = Raise E_ParserError /\ parse_full du rs opts0 s_p24 = Raise E_ParserError /\
  parse_full du rs opts0 (s_dt ++ [45;50;51;58;53;57]) = Ok (V_p (mkp 1 2021 1 1 0 0 0 0 (Some (-86340)))) /\
  parse_full du rs opts0 (s_dt ++ [43;50;51;58;53;57]) = Ok (V_p (mkp 1 2021 1 1 0 0 0 0 (Some 86340))) /\
  bad_off (-90000) = true /\ bad_off 86400 = true /\ bad_off 86340 = false /\ bad_off (-86340) = false.
Proof. exact w_offset. Qed.
Print Assumptions offset_out_of_range_rejected.

(* ... the compiled parser's offset recogniser, on EVERY text: an accepted offset is strictly between -24 h and +24 h ... *)
Theorem rs_offset_in_range : forall s o r, rs_offset s = Some (Some o, r) -> bad_off o = false.
Proof. exact rs_offset_in_range. Qed.
Print Assumptions rs_offset_in_range.

(* ... and a datetime handed over by dateutil with such a tzoffset is answered with ParserError (oracle_delivery, first case).
   _partial: the statement "every DateTime returned by parse has |utcoffset| < 24 h" for all strings is not assembled — missing: the
   propagation of rs_offset_in_range through the compiled descent (rs_parse_iso) and the same bound for the pure-Python py_tz_offset
   on the capture records of ISO8601_DT (digits only); both are exercised by the correspondence run and the offset oracle *)
Theorem offset_in_range_partial : forall rs, parse_full du_off24 rs opts_lax s_digits20 = Raise E_ParserError.
Proof. exact w_dateutil_offset. Qed.
Print Assumptions offset_in_range_partial.

(* 10. both backends accept "9999/0101" under strict=True and return different values (an interval of two years / a date) *)
Theorem backends_agree_when_both_accept_refuted : forall du,
  parse_full du false opts0 s_slash = Ok (V_ival 2 (mkp 2 9999 1 1 0 0 0 0 None) (mkp 2 101 1 1 0 0 0 0 None)) /\
  parse_full du true opts0 s_slash = Ok (V_p (mkp 1 9999 1 1 0 0 0 0 (Some 0))).
Proof. exact w_backends_differ. Qed.
Print Assumptions backends_agree_when_both_accept_refuted.

(* 11. _parse_common with day_first=False is C07's common_parse on the digit-folded text (the reuse link) *)
Theorem common_parse_reuses_c07 : forall s, common_parse_df false s = common_parse (fold_str s).
Proof. exact common_parse_df_false. Qed.
Print Assumptions common_parse_reuses_c07.

(* ------------------------------------------------------------ the pure-Python chain and offset_in_range (Proofs/C17PyTotal.v) *)
From PV Require Import Model.C07Regex Gen.IsoRegex Proofs.C17PyTotal.

(* 12. generic, any pattern: every group of a successful re.match holds a text accepted (declarative reading of the pattern) by the
   body of a group with that number — the "match_sound" lemma of DESIGN section 3.5 *)
Theorem regex_group_language : forall R ng s c, re_match R ng s = Some c ->
  forall g t, grp c g = Some t -> exists a, In a (bodies R g) /\ accepts a t.
Proof. exact re_match_group_lang. Qed.
Print Assumptions regex_group_language.

(* 13. ISO8601_DT never matches a text that starts with 'P' (so a half of an interval that starts with 'P' is a duration or an error) *)
Theorem iso_datetime_regex_rejects_P : forall t, re_match ISO_RE ISO_NGROUPS (80 :: t) = None.
Proof. exact iso_re_P. Qed.
Print Assumptions iso_datetime_regex_rejects_P.

(* 14. parse_total, pure-Python backend: EVERY string, EVERY option combination, the same assumption on dateutil as parse_total_rs:
   a supported value or ValueError/ParserError — no TypeError, AttributeError, OverflowError, RuntimeError (out of fuel), KeyError.
   _partial: one region of the MODEL is excluded, `py_parts_unmodelled s` = the text is an interval whose duration half has a negative
   float `total_seconds() - (years*365 + months*30)*86400`; the model marks that E_Exception ("outside the modelled fragment" of
   Duration's derived fields — it is NOT an exception of the real code, and NOT a listed finding).  The region is empty in reality
   (the components of a parsed duration are non-negative and rounding to nearest is monotone); proving it needs the real-number
   semantics of Model/DurParse.v int_truediv / fsub (not linked to Flocq), which is what is missing.  The predicate is decidable.
   SUPERSEDED by theorems 18-20: py_parts now computes the negative case of Duration.__new__ faithfully (no marker), the region is
   empty on every text and parse_total_py / parse_total are unconditional; this form is kept as stated. *)
Theorem parse_total_py_partial : forall (du : list Z -> bool -> bool -> result pval),
  (forall s a b, match du s a b with Ok _ | Raise E_ValueError | Raise E_ParserError | Raise E_OverflowError => True | Raise _ => False end) ->
  forall o s, py_parts_unmodelled s = false -> out_ok (parse_full du false o s).
Proof. exact parse_total_py_region. Qed.
Print Assumptions parse_total_py_partial.

(* ... unconditional on every text without '/' (no interval), and the region is empty on the interval witnesses *)
Theorem parse_total_py_no_interval : forall (du : list Z -> bool -> bool -> result pval),
  (forall s a b, match du s a b with Ok _ | Raise E_ValueError | Raise E_ParserError | Raise E_OverflowError => True | Raise _ => False end) ->
  forall o s, has_slash s = false -> out_ok (parse_full du false o s).
Proof. intros du H o s Hs. apply (parse_total_py_region du H o s). apply py_parts_unmodelled_noslash. exact Hs. Qed.
Print Assumptions parse_total_py_no_interval.

Theorem py_parts_region_empty_on_witnesses :
  py_parts_unmodelled [50;48;50;49;45;48;49;45;48;49;47;80;49;89;50;77;51;68;84;52;72;53;77;54;46;53;83] = false /\
  py_parts_unmodelled [80;49;89;47;50;48;50;49;45;48;49;45;48;49] = false /\
  py_parts_unmodelled [80;49;46;53;87;47;50;48;50;49;45;48;49;45;48;49] = false.
Proof. exact py_parts_region_examples. Qed.
Print Assumptions py_parts_region_empty_on_witnesses.

(* 15. the interval assembly of the pure-Python backend never sees a wrong kind of half: the forms _parse_iso8601_interval returns are
   (date-time, date-time), (date-time, Duration) or (Duration, date-time) — the TypeError / AttributeError branches are unreachable *)
Theorem interval_forms_py : forall s f, interval_parse py_iso8601 s = Ok f -> py_form f /\ all_dt f = true.
Proof. intros s f H. split; [exact (interval_parse_py_form s f H)|exact (interval_parse_dt _ _ _ H)]. Qed.
Print Assumptions interval_forms_py.

(* 16. offset_in_range at full strength, BOTH backends: every string, every option combination whose tz option is a legal fixed offset,
   ANY dateutil (no assumption): every DateTime in the value parse returns (a DateTime, or the two ends of an Interval) carries an
   offset strictly between -24 h and +24 h.  (compiled: rs_offset_in_range propagated through the descent; pure-Python: the tz group
   of ISO8601_DT is Z or a sign followed by digits/colon — theorem 12 — and py_tz_offset checks the upper bound) *)
Theorem offset_in_range : forall du rs o s v, tz_opt_ok o -> parse_full du rs o s = Ok v -> off_ok_v v.
Proof. exact offset_in_range_all. Qed.
Print Assumptions offset_in_range.

(* 17. parse_total, either backend (the conjunction; compiled: unconditional, pure-Python: outside the model region of theorem 14) *)
Theorem parse_total_partial : forall (du : list Z -> bool -> bool -> result pval),
  (forall s a b, match du s a b with Ok _ | Raise E_ValueError | Raise E_ParserError | Raise E_OverflowError => True | Raise _ => False end) ->
  forall (rs : bool) o s, (rs = false -> py_parts_unmodelled s = false) -> out_ok (parse_full du rs o s).
Proof.
  intros du H rs o s R. destruct rs; [exact (parse_total_rs du H o s)|exact (parse_total_py_region du H o s (R eq_refl))].
Qed.
Print Assumptions parse_total_partial.

(* ------------------------------------------------------------ unconditional forms (Model/DurParse.v py_parts computes the negative case) *)
(* 18. the model of Duration's derived fields (Duration.__new__: m = -1 if total < 0 else 1, every derived field multiplied by m /
   _sign(_seconds)) never raises: the region of theorem 14 is empty on EVERY text *)
Theorem py_parts_region_empty : forall s, py_parts_unmodelled s = false.
Proof. exact py_parts_unmodelled_never. Qed.
Print Assumptions py_parts_region_empty.

(* 19. parse_total, pure-Python backend, UNCONDITIONAL: every string, every option combination, any dateutil that returns a datetime or
   raises ValueError/ParserError/OverflowError: a supported value or ValueError/ParserError — nothing else *)
Theorem parse_total_py : forall (du : list Z -> bool -> bool -> result pval),
  (forall s a b, match du s a b with Ok _ | Raise E_ValueError | Raise E_ParserError | Raise E_OverflowError => True | Raise _ => False end) ->
  forall o s, out_ok (parse_full du false o s).
Proof. exact parse_total_py_full. Qed.
Print Assumptions parse_total_py.

(* 20. parse_total, EITHER backend, unconditional *)
Theorem parse_total : forall (du : list Z -> bool -> bool -> result pval),
  (forall s a b, match du s a b with Ok _ | Raise E_ValueError | Raise E_ParserError | Raise E_OverflowError => True | Raise _ => False end) ->
  forall (rs : bool) o s, out_ok (parse_full du rs o s).
Proof. intros du H rs o s. destruct rs; [exact (parse_total_rs du H o s)|exact (parse_total_py_full du H o s)]. Qed.
Print Assumptions parse_total.

(* ---- the model IS the code: Gen/ParseChain.v is TRANSLATED on every run (tools/vlib/gens/g84_parse_chain.py) from src/pendulum/parsing/__init__.py
   (parse, _parse with its ladder of contextlib.suppress / try-except, _normalize, _parse_common after COMMON.match, _parse_iso8601_interval) and
   src/pendulum/parser.py (_parse: the assembly of DateTime / Date / Time / Duration / Interval with its two OverflowError -> ParserError handlers).
   try / except is translated as a match on the exception kind carried by the result monad; isinstance(e, K) is exn_isa PC_SUBCLASS K e with the class
   hierarchy READ from parsing/exceptions (ParserError < ValueError).  parse_iso8601 (iso8601 rs, either backend) and dateutil (du) are parameters on
   both sides, as in Model/ParseTotal.v.  Hand primitives: Model/ParseChainObj.v.
   Side conditions (stated, not assumed silently): iso_wf = parse_iso8601 returns objects of the native classes (fields inside their ranges: the model's
   normalize / at_midnight build datetime(...) without re-checking, the code runs the constructor); wf_now = options["now"] is a datetime. ---- *)
From PV Require Import Gen.IsoRegex Model.ParseChainObj Gen.ParseChain Proofs.ParseChainFacts.

(* parsing._parse: the ladder parse_iso8601 -> _parse_iso8601_interval -> _parse_common -> strict gate -> dateutil, every string, every option record *)
Theorem model_is_code_parsing_parse : forall du rs o s, iso_wf (iso8601 rs) ->
  pchain_parse_ladder (iso8601 rs) du s o = base_parse du rs o s /\
  pchain_parse (iso8601 rs) du s o = bind (base_parse du rs o s) (fun r => pchain_normalize r o).
Proof. intros; split; [apply pchain_parse_ladder_eq|apply pchain_parse_eq]; assumption. Qed.
Print Assumptions model_is_code_parsing_parse.

(* which exceptions the three kinds of handler catch *)
Theorem model_is_code_except_classes : forall e,
  exn_isa PC_SUBCLASS E_ValueError e = is_ve e /\
  exn_isa PC_SUBCLASS E_ParserError e = match e with E_ParserError => true | _ => false end /\
  exn_isa PC_SUBCLASS E_OverflowError e = match e with E_OverflowError => true | _ => false end.
Proof. intros e; repeat split; [apply isa_value|apply isa_parser|apply isa_overflow]. Qed.
Print Assumptions model_is_code_except_classes.

(* _parse_common(text, **options): the code after COMMON.match on the generated pattern = common_parse_df, every string *)
Theorem model_is_code_parsing_parse_common : forall s o,
  pchain_parse_common s o = match common_parse_df (o_day_first o) s with Ok p => Ok (R_i (I_p p)) | Raise e => Raise e end.
Proof. exact pchain_parse_common_eq. Qed.
Print Assumptions model_is_code_parsing_parse_common.

(* _normalize(parsed, **options) *)
Theorem model_is_code_parsing_normalize : forall r o, wf_parsed r -> wf_now o -> pchain_normalize r o = Ok (normalize o r).
Proof. exact pchain_normalize_eq. Qed.
Print Assumptions model_is_code_parsing_normalize.

(* _parse_iso8601_interval(text), after the partial evaluation on the None-ness of start / end / duration *)
Theorem model_is_code_parsing_parse_iso8601_interval : forall iso s, iso_wf iso ->
  pchain_parse_iso8601_interval iso s = match interval_parse iso s with Ok f => Ok (R_form f) | Raise e => Raise e end.
Proof. exact pchain_parse_iso8601_interval_eq. Qed.
Print Assumptions model_is_code_parsing_parse_iso8601_interval.

(* parser._parse(text, **options) = parse_full: "now", the isinstance dispatch, the Interval assembly and both OverflowError handlers *)
Theorem model_is_code_parser_parse : forall du rs o s, iso_wf (iso8601 rs) -> wf_now o ->
  (forall r, base_parse du rs o s = Ok r -> wf_parsed r /\ kind_ok r) ->
  pchain_parser_parse rs (iso8601 rs) du s o = parse_full du rs o s.
Proof. exact pchain_parser_parse_eq. Qed.
Print Assumptions model_is_code_parser_parse.

(* the whole chain at once, with the side condition reduced to the two parameters: parse_iso8601 and dateutil return objects of the native classes
   (kind datetime / date / time with fields inside their ranges; any Duration), options["now"] is a datetime *)
Theorem model_is_code_pendulum_parse : forall du rs o s, iso_native (iso8601 rs) -> du_native du -> wf_now o ->
  pchain_parser_parse rs (iso8601 rs) du s o = parse_full du rs o s.
Proof. exact pchain_full_eq. Qed.
Print Assumptions model_is_code_pendulum_parse.

(* ---- parse_iso8601 returns objects of the native classes, BOTH backends, EVERY string: every value the parser models return went through a
   validating constructor (compiled: PyDateTime / PyDate / PyTime::new after the `as u8` casts; pure Python: datetime / date / time in the post-match
   code), so a datetime / date / time has its fields inside their ranges (no hour 24, second 60, month 13, day 0 ...) and nothing else is returned but
   a Duration.  This discharges the side condition iso_native of the model_is_code theorems above. ---- *)
Theorem parse_iso8601_returns_native : forall rs s i, iso8601 rs s = Ok i ->
  native_ok (R_i i) /\ match i with I_p p => p_native p | _ => True end.
Proof. exact iso8601_native_strong. Qed.
Print Assumptions parse_iso8601_returns_native.

(* the ladder and the interval rung without side condition *)
Theorem model_is_code_parsing_parse_all : forall du rs o s,
  pchain_parse_ladder (iso8601 rs) du s o = base_parse du rs o s /\
  pchain_parse_iso8601_interval (iso8601 rs) s = match interval_parse (iso8601 rs) s with Ok f => Ok (R_form f) | Raise e => Raise e end.
Proof.
  intros du rs o s. assert (W : iso_wf (iso8601 rs)) by (intros x i E; exact (proj1 (iso8601_native rs x i E))).
  split; [apply pchain_parse_ladder_eq; exact W|apply pchain_parse_iso8601_interval_eq; exact W].
Qed.
Print Assumptions model_is_code_parsing_parse_all.

(* pendulum.parse(text, **options): the translated chain IS parse_full, every string, every option record, both backends.  Remaining hypotheses: the
   opaque dateutil argument returns objects of the native classes (a genuine assumption on the oracle), options["now"] is a datetime *)
Theorem model_is_code_pendulum_parse_all : forall du rs o s, du_native du -> wf_now o ->
  pchain_parser_parse rs (iso8601 rs) du s o = parse_full du rs o s.
Proof. exact pchain_full_eq_all. Qed.
Print Assumptions model_is_code_pendulum_parse_all.

(* 20. the class "a valid form followed (or preceded) by free text", on a grid: ten heads (one per family of accepted forms) x an ASCII pad of
   0..16 characters (letters, or a blank first) x one character of UTF-8 width 1 / 2 / 3 / 4 bytes x {nothing, " fin"} after it, and the same
   characters in front of the head -- 2810 texts; strict=True refuses every one with ParserError, both backends, whatever dateutil does.  (The model
   reads code points: what the compiled parser does with the BYTES of the remainder is the run's stream valid-prefix-trailing-text.) *)
Theorem trailing_text_rejected : forall du rs s, In s trail_grid -> parse_full du rs opts0 s = Raise E_ParserError.
Proof. exact trail_grid_rejected. Qed.
Print Assumptions trailing_text_rejected.

Example trailing_text_rejected_hyps : length trail_grid = 2810%nat /\
  In ([50;48;50;52;45;48;53;45;49;55;84;48;57;58;51;48;58;48;48] ++ [32;97;98;99;100;101;102;103;104;8217] ++ [32;102;105;110]) trail_grid.
Proof.
  split; [exact trail_grid_size|]. assert (E : nth 155 trail_grid [] = [50;48;50;52;45;48;53;45;49;55;84;48;57;58;51;48;58;48;48] ++ [32;97;98;99;100;101;102;103;104;8217] ++ [32;102;105;110])
    by (vm_compute; reflexivity).
  rewrite <- E. apply nth_In. rewrite trail_grid_size. apply Nat.ltb_lt. vm_compute. reflexivity.
Qed.

(* ... the multi-byte character of a tail starts at EVERY byte offset 0..16 of the remainder (so for each width some tail has a character across
   byte 10, the length to which a diagnostic would shorten the remainder) *)
Theorem trailing_text_offsets_covered : forall k, (k < 17)%nat -> forall c, In c trail_chars ->
  In (pad_x k ++ c :: trail_fin) trail_tails /\ utf8_len (pad_x k) = Z.of_nat k.
Proof. exact trail_offsets_covered. Qed.
Print Assumptions trailing_text_offsets_covered.

(* ... and the refusal is NOT true of every trailing character: a Unicode Nd digit continues a field for the pure-Python backend (listed finding
   strict-lenient-python-regex); the compiled backend refuses it *)
Theorem trailing_text_rejected_refuted : forall du,
  parse_full du false opts0 [50;48;50;52;45;48;53;45;49;55;32;1635] = Ok (V_p (mkp 1 2024 5 17 3 0 0 0 (Some 0))) /\
  parse_full du true opts0 [50;48;50;52;45;48;53;45;49;55;32;1635] = Raise E_ParserError.
Proof. exact trail_nd_digit. Qed.
Print Assumptions trailing_text_rejected_refuted.
