(* Props/C09.v — Duration normalisation is consistent with timedelta and with itself.
   Only theorem statements; every proof is `exact <lemma>`.
   Model: Model/Duration.v (hand model over SpecFloat, equal to /repo's duration.py on every run by correspondence, both backends);
   timedelta / float semantics: Spec/TdFloat.v (validated against CPython bit for bit on every run).
   Notation: N = native value in microseconds; YM y m = 365 y + 30 m days; R = N - YM * 86400e6 = the part that excludes years and months.
   D9 N Y (Y = YM * 86400 s): (Y = 0 /\ |N| < 2^33 * 10^6) \/ (|N| < 2^32 * 10^6 /\ |R| < 2^32 * 10^6).
   `float_split_exact_on_D9` is the float round-trip premise (DESIGN 3.3 fallback): NOT proved, carried explicitly by every
   *_partial theorem, validated on each run (dur-* / hrt-* streams); instances and the sharpness of D9 are proved below by computation. *)
From Coq Require Import ZArith List Bool.
From Coq Require Import Floats.SpecFloat.
From PV Require Import Lib.PyBase Spec.TdFloat Model.Duration Proofs.TdFloatFacts Proofs.C09Facts Proofs.FloatRoundTrip Proofs.FloatRoundTripC09.
Import ListNotations.
Open Scope Z_scope.

(* ---- timedelta normal form (shared foundation) *)
Theorem td_norm_canonical : forall N, let '(d, s, u) := td_norm N in 0 <= s < 86400 /\ 0 <= u < 1000000.
Proof. exact td_norm_ranges. Qed.
Print Assumptions td_norm_canonical.

Theorem td_norm_exact : forall N, let '(d, s, u) := td_norm N in td_us d s u = N.
Proof. exact td_us_norm. Qed.
Print Assumptions td_norm_exact.

Theorem td_norm_unique : forall d s u, 0 <= s < 86400 -> 0 <= u < 1000000 -> td_norm (td_us d s u) = (d, s, u).
Proof. exact td_norm_us. Qed.
Print Assumptions td_norm_unique.

Theorem td_of_int_args_exact : forall d s us ms mi h w N,
  td_of_int_args d s us ms mi h w = Ok N ->
  N = ((((w * 7 + d) * 24 + h) * 60 + mi) * 60 + s) * 1000000 + ms * 1000 + us
  /\ -999999999 <= N / 86400000000 <= 999999999.
Proof. exact td_of_int_args_spec. Qed.
Print Assumptions td_of_int_args_exact.

(* ---- unconditional (all integer arguments, no bound) *)
(* as a timedelta the Duration IS the native timedelta of the same arguments with year = 365 d, month = 30 d *)
Theorem native_value : forall days seconds us ms mi h w years months d,
  duration_new days seconds us ms mi h w years months = Ok d ->
  td_of_int_args (days + (years * 365 + months * 30)) seconds us ms mi h w = Ok (d_N d).
Proof. exact C09Facts.native_value. Qed.
Print Assumptions native_value.

Theorem years_months_as_given : forall days seconds us ms mi h w years months d,
  duration_new days seconds us ms mi h w years months = Ok d ->
  d_years d = years /\ d_months d = months /\ d_abs d = false /\
  d_sig d = [years; months; w; days; h; mi; seconds; us + ms * 1000].
Proof. exact years_months_signature. Qed.
Print Assumptions years_months_as_given.

(* the lazy hours / minutes / remaining_seconds always decompose _seconds, with its sign, in canonical ranges *)
Theorem hours_minutes_seconds_decompose : forall d, Z.abs (d_seconds d) < 86400 ->
  dur_hours d * 3600 + dur_minutes d * 60 + dur_remaining_seconds d = d_seconds d
  /\ Z.abs (dur_hours d) < 24 /\ Z.abs (dur_minutes d) < 60 /\ Z.abs (dur_remaining_seconds d) < 60
  /\ (0 <= d_seconds d -> 0 <= dur_hours d /\ 0 <= dur_minutes d /\ 0 <= dur_remaining_seconds d)
  /\ (d_seconds d <= 0 -> dur_hours d <= 0 /\ dur_minutes d <= 0 /\ dur_remaining_seconds d <= 0).
Proof. exact hms_decompose. Qed.
Print Assumptions hours_minutes_seconds_decompose.

(* every constructed Duration (any magnitude) has |_seconds| < 86400, |remaining_days| < 7, weeks*7 + remaining_days = _days, same signs *)
Theorem stored_fields_consistent : forall days seconds us ms mi h w years months d,
  duration_new days seconds us ms mi h w years months = Ok d ->
  Z.abs (d_seconds d) < 86400 /\ Z.abs (d_rdays d) < 7 /\ d_weeks d * 7 + d_rdays d = d_days d
  /\ (0 <= d_days d -> 0 <= d_weeks d /\ 0 <= d_rdays d) /\ (d_days d <= 0 -> d_weeks d <= 0 /\ d_rdays d <= 0).
Proof. exact C09Facts.stored_fields_consistent. Qed.
Print Assumptions stored_fields_consistent.

(* total_*() / in_*() are functions of total_seconds(); for a Duration total_seconds() is N / 10^6 correctly rounded *)
Theorem totals_consistent : forall d,
  dur_total_minutes d = fdiv (dur_total_seconds d) (sf_of_Z 60) /\
  dur_total_hours d = fdiv (dur_total_seconds d) (sf_of_Z 3600) /\
  dur_total_days d = fdiv (dur_total_seconds d) (sf_of_Z 86400) /\
  dur_total_weeks d = fdiv (fdiv (dur_total_seconds d) (sf_of_Z 86400)) (sf_of_Z 7) /\
  dur_in_seconds d = py_int_trunc (dur_total_seconds d) /\ dur_in_minutes d = py_int_trunc (dur_total_minutes d) /\
  dur_in_hours d = py_int_trunc (dur_total_hours d) /\ dur_in_days d = py_int_trunc (dur_total_days d) /\
  dur_in_weeks d = py_int_trunc (dur_total_weeks d) /\
  (d_abs d = false -> dur_total_seconds d = total_seconds (d_N d)).
Proof. exact totals_by_definition. Qed.
Print Assumptions totals_consistent.

(* ---- the integer skeleton of the normalisation (all R) *)
Theorem skeleton_exact_split : forall N total years months sig,
  let R := N - YM years months * 86400000000 in
  let d := exact_dur N total years months sig in
  comp_sum d = R
  /\ Z.abs (d_rdays d) < 7 /\ Z.abs (dur_hours d) < 24 /\ Z.abs (dur_minutes d) < 60
  /\ Z.abs (dur_remaining_seconds d) < 60 /\ Z.abs (d_micro d) < 1000000
  /\ (0 <= R -> 0 <= d_weeks d /\ 0 <= d_rdays d /\ 0 <= dur_hours d /\ 0 <= dur_minutes d /\ 0 <= dur_remaining_seconds d /\ 0 <= d_micro d)
  /\ (R <= 0 -> d_weeks d <= 0 /\ d_rdays d <= 0 /\ dur_hours d <= 0 /\ dur_minutes d <= 0 /\ dur_remaining_seconds d <= 0 /\ d_micro d <= 0).
Proof. exact exact_components. Qed.
Print Assumptions skeleton_exact_split.

(* ---- on D9, given that the float pipeline is exact there *)
(* construction succeeds and stores exactly the integer split of R *)
Theorem construction_partial : float_split_exact_on_D9 ->
  forall days seconds us ms mi h w years months N,
  td_of_int_args (days + YM years months) seconds us ms mi h w = Ok N ->
  D9 N (YM years months * 86400) ->
  exists total, duration_new days seconds us ms mi h w years months =
                Ok (exact_dur N total years months [years; months; w; days; h; mi; seconds; us + ms * 1000]).
Proof. exact duration_new_exact_partial. Qed.
Print Assumptions construction_partial.

(* weeks, remaining_days, hours, minutes, remaining_seconds, microseconds: sign of R, canonical ranges, exact sum *)
Theorem components_sign_ranges_sum_partial : float_split_exact_on_D9 ->
  forall days seconds us ms mi h w years months d,
  duration_new days seconds us ms mi h w years months = Ok d ->
  let R := d_N d - YM years months * 86400000000 in
  D9 (d_N d) (YM years months * 86400) ->
  comp_sum d = R
  /\ Z.abs (d_rdays d) < 7 /\ Z.abs (dur_hours d) < 24 /\ Z.abs (dur_minutes d) < 60
  /\ Z.abs (dur_remaining_seconds d) < 60 /\ Z.abs (d_micro d) < 1000000
  /\ (0 <= R -> 0 <= d_weeks d /\ 0 <= d_rdays d /\ 0 <= dur_hours d /\ 0 <= dur_minutes d /\ 0 <= dur_remaining_seconds d /\ 0 <= d_micro d)
  /\ (R <= 0 -> d_weeks d <= 0 /\ d_rdays d <= 0 /\ dur_hours d <= 0 /\ dur_minutes d <= 0 /\ dur_remaining_seconds d <= 0 /\ d_micro d <= 0).
Proof. exact components_partial. Qed.
Print Assumptions components_sign_ranges_sum_partial.

Theorem rebuild_from_components_partial : float_split_exact_on_D9 ->
  forall days seconds us ms mi h w years months d,
  duration_new days seconds us ms mi h w years months = Ok d ->
  D9 (d_N d) (YM years months * 86400) ->
  exists d', duration_rebuild d = Ok d'
    /\ d_N d' = d_N d /\ d_total d' = d_total d /\ d_years d' = d_years d /\ d_months d' = d_months d
    /\ d_weeks d' = d_weeks d /\ d_days d' = d_days d /\ d_rdays d' = d_rdays d /\ d_seconds d' = d_seconds d /\ d_micro d' = d_micro d.
Proof. exact rebuild_partial. Qed.
Print Assumptions rebuild_from_components_partial.

Theorem in_seconds_exact_partial : float_split_exact_on_D9 ->
  forall d, d_abs d = false -> Z.abs (d_N d) < B33 -> dur_in_seconds d = Ok (Z.quot (d_N d) 1000000).
Proof. exact in_seconds_partial. Qed.
Print Assumptions in_seconds_exact_partial.

Theorem absolute_duration_spec_partial : float_split_exact_on_D9 ->
  forall days seconds us ms mi h w years months d,
  absolute_duration_new days seconds us ms mi h w years months = Ok d ->
  Z.abs (d_N d) < B33 ->
  td_of_int_args days seconds us ms mi h w = Ok (d_N d)
  /\ d_years d = Z.abs years /\ d_months d = Z.abs months
  /\ d_micro d = Z.abs (d_N d) mod 1000000
  /\ d_seconds d = Z.abs (d_N d) / 1000000 mod 86400
  /\ d_weeks d * 7 + d_rdays d = Z.abs (d_N d) / 86400000000 /\ 0 <= d_rdays d < 7 /\ 0 <= d_weeks d
  /\ comp_sum d = Z.abs (d_N d)
  /\ dur_total_seconds d = total_seconds (Z.abs (d_N d)).
Proof. exact absolute_duration_partial. Qed.
Print Assumptions absolute_duration_spec_partial.

(* ---- closed float facts (kernel computation on the SpecFloat model) *)
(* the premise holds at every microsecond count in -2000..2000, where also timedelta(seconds=td.total_seconds()) == td *)
Theorem float_split_exact_small : forall N, -2000 <= N <= 2000 -> split_exact N 0 /\ roundtripb N = true.
Proof. exact split_exact_small. Qed.
Print Assumptions float_split_exact_small.

(* ... around 2^k seconds (k up to 31) with and without a year/month part, and at the very top of D9 *)
Theorem float_split_exact_borders : Forall (fun p => split_exact (fst p) (snd p)) border_points.
Proof. exact split_exact_borders. Qed.
Print Assumptions float_split_exact_borders.

Theorem float_split_exact_top_of_D9 :
  split_exact (B33 - 1) 0 /\ split_exact (1 - B33) 0 /\ split_exact (B32 - 1) 0 /\
  split_exact (B32 - 1 - 31536000000000) (- 31536000) /\ split_exact (31536000000000 - B32 + 1) 31536000.
Proof. exact split_exact_top_of_D9. Qed.
Print Assumptions float_split_exact_top_of_D9.

(* structural float facts used above *)
Theorem total_seconds_of_abs : forall N, fabs (total_seconds N) = total_seconds (Z.abs N).
Proof. exact total_seconds_abs. Qed.
Print Assumptions total_seconds_of_abs.

Theorem total_seconds_odd : forall N, N <> 0 -> total_seconds (- N) = fopp (total_seconds N).
Proof. exact total_seconds_opp. Qed.
Print Assumptions total_seconds_odd.

(* ---- the boundary of the claim *)
(* Duration(years=1000, microseconds=1).microseconds == 0 : outside D9 the components do not sum to R *)
Theorem components_sum_outside_D9_refuted :
  exists d, duration_new 0 0 1 0 0 0 0 1000 0 = Ok d /\ d_micro d = 0 /\ comp_sum d <> d_N d - YM 1000 0 * 86400000000.
Proof. exact microsecond_resolution_refuted. Qed.
Print Assumptions components_sum_outside_D9_refuted.

(* with years/months the bound 2^32 s cannot be relaxed to 2^33 s:
   Duration(years=29, months=21, days=-59098, minutes=851846, milliseconds=364860) is off by one microsecond *)
Theorem components_sum_ym_band_refuted :
  exists d, duration_new (-59098) 0 0 364860 851846 0 0 29 21 = Ok d
    /\ Z.abs (d_N d) < B33 /\ Z.abs (d_N d - YM 29 21 * 86400000000) < B33
    /\ comp_sum d <> d_N d - YM 29 21 * 86400000000.
Proof. exact ym_band_refuted. Qed.
Print Assumptions components_sum_ym_band_refuted.

Theorem float_split_exact_everywhere_refuted : ~ (forall N Y, split_exact N Y).
Proof. exact float_split_not_exact_everywhere. Qed.
Print Assumptions float_split_exact_everywhere_refuted.

Theorem roundtrip_beyond_D9_refuted : exists N, B33 <= N /\ roundtripb N = false.
Proof. exact roundtrip_beyond_2_33_refuted. Qed.
Print Assumptions roundtrip_beyond_D9_refuted.

(* ---- the float premise is a THEOREM (Proofs/FloatRoundTrip*.v, via Flocq's correctness of binary64 division, subtraction and multiplication;
   depends on the standard library's real-number axioms, listed by Print Assumptions below and in the evidence trusted base) *)
Theorem float_split_exact_on_D9_holds : float_split_exact_on_D9.
Proof. exact float_split_exact_on_D9_proved. Qed.
Print Assumptions float_split_exact_on_D9_holds.

(* timedelta(seconds=td.total_seconds()) == td exactly, for every td below 2^33 seconds *)
Theorem timedelta_float_roundtrip_exact : forall N : Z, Z.abs N < 2 ^ 33 * 10 ^ 6 -> td_of_float_seconds (total_seconds N) = Ok N.
Proof. exact td_roundtrip_exact. Qed.
Print Assumptions timedelta_float_roundtrip_exact.

(* construction_partial with its premise discharged *)
Theorem construction :
  forall days seconds us ms mi h w years months N,
  td_of_int_args (days + YM years months) seconds us ms mi h w = Ok N ->
  D9 N (YM years months * 86400) ->
  exists total, duration_new days seconds us ms mi h w years months =
                Ok (exact_dur N total years months [years; months; w; days; h; mi; seconds; us + ms * 1000]).
Proof. exact (duration_new_exact_partial float_split_exact_on_D9_proved). Qed.
Print Assumptions construction.

(* components_sign_ranges_sum_partial with its premise discharged *)
Theorem components_sign_ranges_sum :
  forall days seconds us ms mi h w years months d,
  duration_new days seconds us ms mi h w years months = Ok d ->
  let R := d_N d - YM years months * 86400000000 in
  D9 (d_N d) (YM years months * 86400) ->
  comp_sum d = R
  /\ Z.abs (d_rdays d) < 7 /\ Z.abs (dur_hours d) < 24 /\ Z.abs (dur_minutes d) < 60
  /\ Z.abs (dur_remaining_seconds d) < 60 /\ Z.abs (d_micro d) < 1000000
  /\ (0 <= R -> 0 <= d_weeks d /\ 0 <= d_rdays d /\ 0 <= dur_hours d /\ 0 <= dur_minutes d /\ 0 <= dur_remaining_seconds d /\ 0 <= d_micro d)
  /\ (R <= 0 -> d_weeks d <= 0 /\ d_rdays d <= 0 /\ dur_hours d <= 0 /\ dur_minutes d <= 0 /\ dur_remaining_seconds d <= 0 /\ d_micro d <= 0).
Proof. exact (components_partial float_split_exact_on_D9_proved). Qed.
Print Assumptions components_sign_ranges_sum.

(* rebuild_from_components_partial with its premise discharged *)
Theorem rebuild_from_components :
  forall days seconds us ms mi h w years months d,
  duration_new days seconds us ms mi h w years months = Ok d ->
  D9 (d_N d) (YM years months * 86400) ->
  exists d', duration_rebuild d = Ok d'
    /\ d_N d' = d_N d /\ d_total d' = d_total d /\ d_years d' = d_years d /\ d_months d' = d_months d
    /\ d_weeks d' = d_weeks d /\ d_days d' = d_days d /\ d_rdays d' = d_rdays d /\ d_seconds d' = d_seconds d /\ d_micro d' = d_micro d.
Proof. exact (rebuild_partial float_split_exact_on_D9_proved). Qed.
Print Assumptions rebuild_from_components.

(* in_seconds_exact_partial with its premise discharged *)
Theorem in_seconds_exact :
  forall d, d_abs d = false -> Z.abs (d_N d) < B33 -> dur_in_seconds d = Ok (Z.quot (d_N d) 1000000).
Proof. exact (in_seconds_partial float_split_exact_on_D9_proved). Qed.
Print Assumptions in_seconds_exact.

(* absolute_duration_spec_partial with its premise discharged *)
Theorem absolute_duration_spec :
  forall days seconds us ms mi h w years months d,
  absolute_duration_new days seconds us ms mi h w years months = Ok d ->
  Z.abs (d_N d) < B33 ->
  td_of_int_args days seconds us ms mi h w = Ok (d_N d)
  /\ d_years d = Z.abs years /\ d_months d = Z.abs months
  /\ d_micro d = Z.abs (d_N d) mod 1000000
  /\ d_seconds d = Z.abs (d_N d) / 1000000 mod 86400
  /\ d_weeks d * 7 + d_rdays d = Z.abs (d_N d) / 86400000000 /\ 0 <= d_rdays d < 7 /\ 0 <= d_weeks d
  /\ comp_sum d = Z.abs (d_N d)
  /\ dur_total_seconds d = total_seconds (Z.abs (d_N d)).
Proof. exact (absolute_duration_partial float_split_exact_on_D9_proved). Qed.
Print Assumptions absolute_duration_spec.

(* ---- THE MODEL IS THE CODE.  Gen/DurationFloat.v is translated from /repo's src/pendulum/duration.py on every run by
   tools/vlib/pyfloat2gallina.py (Python ast -> Gallina over Spec/TdFloat.v's SpecFloat operations, CPython's int/float typing and
   conversion rules, evaluation order, every raising operation a bind; fails closed outside its fragment).  The hand model
   Model/Duration.v, about which every theorem above (and C10, C14, C05, C13, C20) speaks, EQUALS that translation for all arguments:
   a semantic edit of the float code of duration.py breaks one of these three proofs instead of only a source hash. *)
From PV Require Import Gen.DurationFloat Proofs.DurationFloatFacts.

(* Duration.__new__(days, seconds, microseconds, milliseconds, minutes, hours, weeks, years, months), integer arguments *)
Theorem model_is_code_duration_new : forall d s us ms mi h w y mo,
  gen_duration_new d s us ms mi h w y mo = duration_new d s us ms mi h w y mo.
Proof. exact gen_duration_new_eq. Qed.
Print Assumptions model_is_code_duration_new.

(* _sign, the lazily cached properties hours / minutes / remaining_seconds (first read on a fresh object), total_seconds() with the
   method resolution Duration / AbsoluteDuration, total_minutes/hours/days/weeks(), invert, in_weeks/days/hours/minutes/seconds() *)
Theorem model_is_code_duration_accessors : forall d,
  gen_sign = d_sign /\
  gen_hours d = dur_hours d /\ gen_minutes d = dur_minutes d /\ gen_remaining_seconds d = dur_remaining_seconds d /\
  gen_total_seconds d = dur_total_seconds d /\ gen_total_minutes d = dur_total_minutes d /\ gen_total_hours d = dur_total_hours d /\
  gen_total_days d = dur_total_days d /\ gen_total_weeks d = dur_total_weeks d /\ gen_invert d = dur_invert d /\
  gen_in_weeks d = dur_in_weeks d /\ gen_in_days d = dur_in_days d /\ gen_in_hours d = dur_in_hours d /\
  gen_in_minutes d = dur_in_minutes d /\ gen_in_seconds d = dur_in_seconds d.
Proof. exact accessors_eq. Qed.
Print Assumptions model_is_code_duration_accessors.

(* AbsoluteDuration.__new__, integer arguments *)
Theorem model_is_code_absolute_duration : forall d s us ms mi h w y mo,
  gen_absolute_duration_new d s us ms mi h w y mo = absolute_duration_new d s us ms mi h w y mo.
Proof. exact gen_absolute_duration_new_eq. Qed.
Print Assumptions model_is_code_absolute_duration.
