(* Props/C04.v — calendar-unit arithmetic follows the wall clock with end-of-month clamping.
   Models: Gen/AddDuration.v (helpers.add_duration, TRANSLATED), Model/CalendarArith.v (DateTime/Date add, subtract, + and -),
   Model/TzConvert.v (create / add_fixed / add_calendar), Model/Duration.v (Duration.__new__), Spec/Zone.v, Spec/NativeDT.v.
   Specification side (Proofs/C04Facts.v): ym_add (months since year 0, Proofs/AddDurationFacts.v), clamp_day = min(dim, day),
   ym_shift (year/month step), wall_shift (exact shift), cal_target = their composition.
   All amounts are arbitrary integers of either sign. *)
From Coq Require Import ZArith List Bool.
From Coq Require Import Floats.SpecFloat.
From PV Require Import Lib.PyBase Spec.Cal Spec.Zone Spec.NativeDT Spec.TdFloat Proofs.ZoneFacts Proofs.AddDurationFacts Gen.AddDuration.
From PV Require Import Model.TzConvert Model.Duration Model.CalendarArith Proofs.C04Facts Proofs.C04Cancel.
Import ListNotations.
Open Scope Z_scope.

(* helpers.add_duration (translated) = RuntimeError for time units on a date, else the year/month step (ValueError when the year leaves
   1..9999) followed by the exact shift of 7*weeks+days, h, m, s, us (OverflowError when the timedelta or the result is out of range) *)
Theorem add_duration_calendar_spec : forall W isdt Y M Wk D h m s us, wall_in_range W = true ->
  py_add_duration (mkndt W isdt) Y M Wk D h m s us = cal_spec W isdt Y M Wk D h m s us.
Proof. exact add_duration_cal. Qed.
Print Assumptions add_duration_calendar_spec.

(* the year/month step: months-since-epoch arithmetic, the day is min(days in the target month, day), the time of day is kept *)
Theorem clamp_spec : forall W Y M W1, wall_in_range W = true -> ym_shift W Y M = Ok W1 ->
  let '(y', m') := ym_add (w_year W) (w_month W) (12 * Y + M) in
  1 <= y' <= 9999 /\ w_year W1 = y' /\ w_month W1 = m' /\ w_day W1 = Z.min (dim y' m') (w_day W) /\
  w_tod W1 = w_tod W /\ wall_in_range W1 = true.
Proof. exact ym_shift_fields. Qed.
Print Assumptions clamp_spec.

(* the year/month step is arithmetic on the month index 12*year + (month-1) *)
Theorem ym_add_is_month_arithmetic : forall y m a b, 1 <= m <= 12 ->
  ym_add y m 0 = (y, m) /\
  (let '(y1, m1) := ym_add y m a in ym_add y1 m1 b) = ym_add y m (a + b) /\
  (let '(y1, m1) := ym_add y m a in 12 * y1 + (m1 - 1) = 12 * y + (m - 1) + a /\ 1 <= m1 <= 12).
Proof. exact ym_add_arith. Qed.
Print Assumptions ym_add_is_month_arithmetic.

(* DateTime.add with any calendar unit on an aware value: the wall-clock target, normalised by create (C02) with fold 1, zone kept *)
Theorem add_calendar_spec : forall z fx W f Y M Wk D h m s us, wall_in_range W = true -> any_cal Y M Wk D = true ->
  dt_add (Aware z fx) W f Y M Wk D h m s us =
  match cal_target true W Y M (td_total_us (D + 7 * Wk) h m s us) with
  | Raise e => Raise e
  | Ok W' => create z fx W' true false
  end.
Proof. exact dt_add_calendar. Qed.
Print Assumptions add_calendar_spec.

Theorem add_naive_spec : forall W f Y M Wk D h m s us, wall_in_range W = true ->
  dt_add Naive W f Y M Wk D h m s us =
  match cal_target true W Y M (td_total_us (D + 7 * Wk) h m s us) with
  | Raise e => Raise e
  | Ok W' => Ok (W', true)
  end.
Proof. exact dt_add_naive. Qed.
Print Assumptions add_naive_spec.

(* ... and what the normalisation does, for every well-formed zone table *)
Theorem add_calendar_unique : forall z W Y M Wk D h m s us W' f, wall_in_range W = true -> any_cal Y M Wk D = true ->
  cal_target true W Y M (td_total_us (D + 7 * Wk) h m s us) = Ok W' ->
  wf_zone z = true -> wall_unique z (sec W') ->
  dt_add (Aware z false) W f Y M Wk D h m s us = Ok (W', true) /\
  (forall u, renders_to z u (sec W') <-> u = sec W' - off_local z (sec W') true).
Proof. exact add_calendar_unique_l. Qed.
Print Assumptions add_calendar_unique.

Theorem add_calendar_repeated : forall z W Y M Wk D h m s us W' f, wall_in_range W = true -> any_cal Y M Wk D = true ->
  cal_target true W Y M (td_total_us (D + 7 * Wk) h m s us) = Ok W' ->
  wf_zone z = true -> wall_repeated z (sec W') ->
  dt_add (Aware z false) W f Y M Wk D h m s us = Ok (W', true) /\
  inst z W' true = W' - MEG * off_local z (sec W') true /\
  sec W' - off_local z (sec W') false < sec W' - off_local z (sec W') true.
Proof. exact add_calendar_repeated_l. Qed.
Print Assumptions add_calendar_repeated.

Theorem add_calendar_skipped : forall z W Y M Wk D h m s us W' f, wall_in_range W = true -> any_cal Y M Wk D = true ->
  cal_target true W Y M (td_total_us (D + 7 * Wk) h m s us) = Ok W' ->
  wf2_zone z = true -> wall_skipped z (sec W') ->
  let g := off_local z (sec W') true - off_local z (sec W') false in
  0 < g /\
  (wall_in_range (W' + MEG * g) = true -> dt_add (Aware z false) W f Y M Wk D h m s us = Ok (W' + MEG * g, false)) /\
  (wall_in_range (W' + MEG * g) = false -> dt_add (Aware z false) W f Y M Wk D h m s us = Raise E_OverflowError) /\
  (forall f', off_local z (sec W' + g) f' = off_local z (sec W') true) /\
  sec (W' + MEG * g) = sec W' + g.
Proof. exact add_calendar_skipped_l. Qed.
Print Assumptions add_calendar_skipped.

Theorem add_calendar_fixed_offset : forall o W f Y M Wk D h m s us, wall_in_range W = true -> any_cal Y M Wk D = true ->
  dt_add (Aware (fixed_zone o) true) W f Y M Wk D h m s us =
  match cal_target true W Y M (td_total_us (D + 7 * Wk) h m s us) with
  | Raise e => Raise e
  | Ok W' => Ok (W', false)
  end.
Proof. exact add_calendar_fixed_l. Qed.
Print Assumptions add_calendar_fixed_offset.

(* negative amounts given to add() behave exactly like subtract(), and conversely *)
Theorem add_neg_is_subtract : forall k W f y mo wk d h m s us,
  dt_subtract k W f y mo wk d h m s us = dt_add k W f (- y) (- mo) (- wk) (- d) (- h) (- m) (- s) (- us) /\
  dt_add k W f y mo wk d h m s us = dt_subtract k W f (- y) (- mo) (- wk) (- d) (- h) (- m) (- s) (- us).
Proof. exact add_neg_is_subtract_l. Qed.
Print Assumptions add_neg_is_subtract.

(* calendar-unit arguments that CANCEL each other (weeks=1, days=-7; years=1, months=-12; days=1, hours=-24): the call still involves a
   calendar unit, so the time units move on the WALL clock and the result is normalised by create -- it is not a pure elapsed-time shift.
   More generally a calendar call depends on its amounts only through 12*years+months and the total of the rest. *)
Theorem add_calendar_depends_on_totals : forall z fx W f Y M Wk D h m s us Y' M' Wk' D' h' m' s' us',
  wall_in_range W = true -> any_cal Y M Wk D = true -> any_cal Y' M' Wk' D' = true ->
  12 * Y + M = 12 * Y' + M' ->
  td_total_us (D + 7 * Wk) h m s us = td_total_us (D' + 7 * Wk') h' m' s' us' ->
  dt_add (Aware z fx) W f Y M Wk D h m s us = dt_add (Aware z fx) W f Y' M' Wk' D' h' m' s' us'.
Proof. exact add_calendar_depends_on_totals. Qed.
Print Assumptions add_calendar_depends_on_totals.

Theorem add_cancelling_units_wall_clock : forall z fx W f Y M Wk D h m s us,
  wall_in_range W = true -> any_cal Y M Wk D = true -> 12 * Y + M = 0 -> D + 7 * Wk = 0 ->
  dt_add (Aware z fx) W f Y M Wk D h m s us =
  match wall_shift true W (td_total_us 0 h m s us) with
  | Raise e => Raise e
  | Ok W' => create z fx W' true false
  end.
Proof. exact add_cancelling_wall_clock. Qed.
Print Assumptions add_cancelling_units_wall_clock.

Theorem subtract_cancelling_units_wall_clock : forall z fx W f Y M Wk D h m s us,
  wall_in_range W = true -> any_cal Y M Wk D = true -> 12 * Y + M = 0 -> D + 7 * Wk = 0 ->
  dt_subtract (Aware z fx) W f Y M Wk D h m s us =
  match wall_shift true W (td_total_us 0 (- h) (- m) (- s) (- us)) with
  | Raise e => Raise e
  | Ok W' => create z fx W' true false
  end.
Proof. exact subtract_cancelling_wall_clock. Qed.
Print Assumptions subtract_cancelling_units_wall_clock.

(* satisfiable, and different from the elapsed-time shift across an offset change: Europe/Paris 2013-03-31T01:30 .add(weeks=1, days=-7, hours=2)
   = 03:30+02:00 whereas .add(hours=2) = 04:30+02:00; 2013-10-27T01:30+02:00 .add(weeks=-2, days=14, hours=1) = 02:30+01:00 whereas .add(hours=1) = 02:30+02:00 *)
Theorem cancelling_units_examples :
  any_cal 0 0 1 (-7) = true /\ 12 * 0 + 0 = 0 /\ -7 + 7 * 1 = 0 /\ wf2_zone paris13 = true /\
  dt_add (Aware paris13 false) (wall_of 2013 3 31 1 30 0 0) false 0 0 1 (-7) 2 0 0 0 = Ok (wall_of 2013 3 31 3 30 0 0, true) /\
  dt_add (Aware paris13 false) (wall_of 2013 3 31 1 30 0 0) false 0 0 0 0 2 0 0 0 = Ok (wall_of 2013 3 31 4 30 0 0, false) /\
  dt_add (Aware paris13 false) (wall_of 2013 3 31 1 30 0 0) false 1 (-12) 0 0 2 0 0 0 = Ok (wall_of 2013 3 31 3 30 0 0, true) /\
  dt_add (Aware paris13 false) (wall_of 2013 3 31 1 30 0 0) false 0 0 0 1 (-22) 0 0 0 = Ok (wall_of 2013 3 31 3 30 0 0, true) /\
  dt_subtract (Aware paris13 false) (wall_of 2013 3 31 1 30 0 0) false 0 0 (-1) 7 (-2) 0 0 0 = Ok (wall_of 2013 3 31 3 30 0 0, true) /\
  dt_add (Aware paris13 false) (wall_of 2013 10 27 1 30 0 0) false 0 0 (-2) 14 1 0 0 0 = Ok (wall_of 2013 10 27 2 30 0 0, true) /\
  dt_add (Aware paris13 false) (wall_of 2013 10 27 1 30 0 0) false 0 0 0 0 1 0 0 0 = Ok (wall_of 2013 10 27 2 30 0 0, false) /\
  off_local paris13 (sec (wall_of 2013 10 27 2 30 0 0)) true = 3600 /\ off_local paris13 (sec (wall_of 2013 10 27 2 30 0 0)) false = 7200.
Proof. exact cancelling_examples. Qed.
Print Assumptions cancelling_units_examples.

(* Date.add: the same year/month step, then whole days *)
Theorem date_add_spec : forall W Y M Wk D, wall_in_range W = true ->
  date_add W Y M Wk D =
  match ym_shift W Y M with
  | Raise e => Raise e
  | Ok W1 =>
      let n := D + 7 * Wk in
      if (n <? -999999999) || (999999999 <? n) then Raise E_OverflowError
      else if wall_in_range (W1 + n * us_per_day) then Ok (W1 + n * us_per_day) else Raise E_OverflowError
  end.
Proof. exact date_add_spec_l. Qed.
Print Assumptions date_add_spec.

Theorem date_stays_midnight : forall W Y M Wk D W', wall_in_range W = true -> W mod us_per_day = 0 ->
  date_add W Y M Wk D = Ok W' -> W' mod us_per_day = 0.
Proof. exact date_add_midnight. Qed.
Print Assumptions date_stays_midnight.

(* Date + / - : a Duration contributes years, months, weeks, remaining_days; a plain timedelta its .days *)
Theorem date_operators_spec : forall W op,
  date_add_timedelta W op =
    match op with
    | OpTd N => date_add W 0 0 0 (N / 86400000000)
    | OpDur d => date_add W (d_years d) (d_months d) (d_weeks d) (d_rdays d)
    | OpIv y mo wk rd _ _ _ _ _ => date_add W y mo wk rd
    end /\
  date_sub_timedelta W op =
    match op with
    | OpTd N => date_add W 0 0 0 (- (N / 86400000000))
    | OpDur d => date_add W (- d_years d) (- d_months d) (- d_weeks d) (- d_rdays d)
    | OpIv y mo wk rd _ _ _ _ _ => date_add W (- y) (- mo) (- wk) (- rd)
    end.
Proof. exact date_operators_l. Qed.
Print Assumptions date_operators_spec.

(* dt + Duration(...) = dt.add(the constructor arguments) *)
Theorem plus_duration_is_add_signature : forall k W f days seconds us ms minutes hours weeks years months d,
  duration_new days seconds us ms minutes hours weeks years months = Ok d ->
  dt_add_timedelta k W f (OpDur d) = dt_add k W f years months weeks days hours minutes seconds (us + ms * 1000).
Proof. exact plus_duration_sig. Qed.
Print Assumptions plus_duration_is_add_signature.

(* dt + Interval = dt.add(the Interval's components) *)
Theorem plus_interval_is_add_components : forall k W f y mo wk rd h mi rs us total,
  dt_add_timedelta k W f (OpIv y mo wk rd h mi rs us total) = dt_add k W f y mo wk rd h mi rs us.
Proof. exact plus_interval_components_l. Qed.
Print Assumptions plus_interval_is_add_components.

(* dt + (-d) = dt.subtract(components of d): always (`-d` is built first, Duration.__neg__; its construction may itself raise) *)
Theorem sub_components_eq_plus_neg : forall k W f d, wall_in_range W = true -> Z.abs (d_seconds d) < 86400 ->
  dt_plus_neg k W f d = bind (dur_neg d) (fun _ => dt_sub_components k W f d).
Proof. exact sub_components_eq_plus_neg_l. Qed.
Print Assumptions sub_components_eq_plus_neg.

(* what `-d` is: Duration.__neg__ builds a NEW Duration from (years, months, weeks, remaining_days, _seconds, _microseconds) negated;
   these keyword values are its _signature, i.e. what `dt + (-d)` hands to add() *)
Theorem neg_duration_signature : forall d nd, dur_neg d = Ok nd ->
  d_sig nd = [- d_years d; - d_months d; - d_weeks d; - d_rdays d; 0; 0; - d_seconds d; - d_micro d + 0 * 1000].
Proof. exact dur_neg_sig. Qed.
Print Assumptions neg_duration_signature.

(* for EVERY Duration d (any constructor arguments), zone kind and wall value:
   dt - d = dt.subtract(components of d) = dt + (-d)
   (`-d` is evaluated first and can itself raise when the negated value is not representable; once it exists the results are equal).
   Holds since the repair of DateTime._subtract_timedelta (findings sub-duration-elapsed, sub-interval-double-count: fixed). *)
Theorem sub_duration_eq_add_neg : forall k W f days seconds us ms minutes hours weeks years months d,
  wall_in_range W = true -> duration_new days seconds us ms minutes hours weeks years months = Ok d ->
  dt_sub_timedelta k W f (OpDur d) = dt_sub_components k W f d /\
  dt_plus_neg k W f d = bind (dur_neg d) (fun _ => dt_sub_timedelta k W f (OpDur d)) /\
  (forall nd, dur_neg d = Ok nd -> dt_sub_timedelta k W f (OpDur d) = dt_add_timedelta k W f (OpDur nd)).
Proof. exact sub_duration_eq_add_neg_new. Qed.
Print Assumptions sub_duration_eq_add_neg.

(* the same for any record of components with |_seconds| < 86400 (not only constructor results) *)
Theorem sub_duration_eq_add_neg_components : forall k W f d, wall_in_range W = true -> Z.abs (d_seconds d) < 86400 ->
  dt_sub_timedelta k W f (OpDur d) = dt_sub_components k W f d /\
  dt_plus_neg k W f d = bind (dur_neg d) (fun _ => dt_sub_timedelta k W f (OpDur d)) /\
  (forall nd, dur_neg d = Ok nd -> dt_sub_timedelta k W f (OpDur d) = dt_add_timedelta k W f (OpDur nd)).
Proof. exact sub_duration_eq_add_neg_l. Qed.
Print Assumptions sub_duration_eq_add_neg_components.

Theorem duration_seconds_bound : forall days seconds us ms minutes hours weeks years months d,
  duration_new days seconds us ms minutes hours weeks years months = Ok d -> Z.abs (d_seconds d) < 86400.
Proof. exact duration_new_seconds_bound. Qed.
Print Assumptions duration_seconds_bound.

(* an Interval operand: dt - iv = dt.subtract(components of iv) = dt + (an Interval with the negated components, which is what -iv has);
   every component is counted once, `_total` plays no role *)
Theorem sub_interval_eq_add_neg : forall k W f y mo wk rd h mi rs us total,
  dt_sub_timedelta k W f (OpIv y mo wk rd h mi rs us total) = dt_subtract k W f y mo wk rd h mi rs us /\
  dt_sub_timedelta k W f (OpIv y mo wk rd h mi rs us total) =
  dt_add_timedelta k W f (OpIv (- y) (- mo) (- wk) (- rd) (- h) (- mi) (- rs) (- us) (fopp total)).
Proof. exact sub_interval_eq_add_neg_l. Qed.
Print Assumptions sub_interval_eq_add_neg.

(* hence `dt - d` with any year / month / week / day component moves on the WALL clock: the C02 normalisation (default fold 1, zone kept)
   of the calendar target of the negated amounts — not an elapsed-time shift through UTC *)
Theorem minus_duration_wall_clock : forall z fx W f d, wall_in_range W = true -> Z.abs (d_seconds d) < 86400 ->
  any_cal (d_years d) (d_months d) (d_weeks d) (d_rdays d) = true ->
  dt_sub_timedelta (Aware z fx) W f (OpDur d) =
  match cal_target true W (- d_years d) (- d_months d) (- dur_rest_us d) with
  | Raise e => Raise e
  | Ok W' => create z fx W' true false
  end.
Proof. exact minus_duration_wall_clock_l. Qed.
Print Assumptions minus_duration_wall_clock.

(* the inputs of the two repaired findings: Europe/Paris 2013-03-31T12:00 minus Duration(days=1) = 12:00 on the 30th by all three routes
   (the offset changes in between: the elapsed-time instant differs, third conjunct); 2021-03-05T06:00Z - (that - 2020-01-01T00:00Z) = 2020-01-01T00:00Z *)
Theorem former_witness_sub_duration :
  exists d, duration_new 1 0 0 0 0 0 0 0 0 = Ok d /\ wf2_zone paris13 = true /\
    wall_of 2013 3 31 12 0 0 0 - MEG * off_local paris13 (sec (wall_of 2013 3 31 12 0 0 0)) false - dur_rest_us d
      <> wall_of 2013 3 30 12 0 0 0 - MEG * off_local paris13 (sec (wall_of 2013 3 30 12 0 0 0)) true /\
    dt_sub_timedelta (Aware paris13 false) (wall_of 2013 3 31 12 0 0 0) false (OpDur d) = Ok (wall_of 2013 3 30 12 0 0 0, true) /\
    dt_plus_neg (Aware paris13 false) (wall_of 2013 3 31 12 0 0 0) false d = Ok (wall_of 2013 3 30 12 0 0 0, true) /\
    dt_sub_components (Aware paris13 false) (wall_of 2013 3 31 12 0 0 0) false d = Ok (wall_of 2013 3 30 12 0 0 0, true).
Proof. exact sub_duration_former_witness. Qed.
Print Assumptions former_witness_sub_duration.

Theorem former_witness_sub_interval :
  let z := mkzone 0 [] in
  let W := wall_of 2021 3 5 6 0 0 0 in
  dt_sub_timedelta (Aware z false) W false (OpIv 1 2 0 4 6 0 0 0 (sf_of_Z 37087200)) = Ok (wall_of 2020 1 1 0 0 0 0, true) /\
  dt_add_timedelta (Aware z false) W false (OpIv (-1) (-2) 0 (-4) (-6) 0 0 0 (sf_of_Z (-37087200))) = Ok (wall_of 2020 1 1 0 0 0 0, true) /\
  wall_of 2021 3 5 6 0 0 0 - wall_of 2020 1 1 0 0 0 0 = 37087200 * 1000000.
Proof. exact sub_interval_former_witness. Qed.
Print Assumptions former_witness_sub_interval.

(* non-vacuity *)
Theorem nonvacuous_wall_clock : exists d, duration_new 3 7261 500000 0 0 0 2 0 0 = Ok d /\ Z.abs (d_seconds d) < 86400 /\
  any_cal (d_years d) (d_months d) (d_weeks d) (d_rdays d) = true /\ dur_rest_us d = (17 * 86400 + 7261) * 1000000 + 500000.
Proof. exact wall_clock_hyps. Qed.
Print Assumptions nonvacuous_wall_clock.

Theorem clamp_and_dst_examples :
  dt_add Naive (wall_of 2023 1 31 10 0 0 0) false 0 1 0 0 0 0 0 0 = Ok (wall_of 2023 2 28 10 0 0 0, true) /\
  dt_add Naive (wall_of 2024 1 31 10 0 0 0) false 0 1 0 0 0 0 0 0 = Ok (wall_of 2024 2 29 10 0 0 0, true) /\
  dt_add Naive (wall_of 2023 3 31 10 0 0 0) false 0 (-13) 0 0 0 0 0 0 = Ok (wall_of 2022 2 28 10 0 0 0, true) /\
  dt_add Naive (wall_of 9999 12 31 0 0 0 0) false 0 1 0 0 0 0 0 0 = Raise E_ValueError /\
  wall_skipped paris13 (sec (wall_of 2013 3 31 2 30 0 0)) /\
  dt_add (Aware paris13 false) (wall_of 2013 3 30 2 30 0 0) false 0 0 0 1 0 0 0 0 = Ok (wall_of 2013 3 31 3 30 0 0, false) /\
  wall_repeated paris13 (sec (wall_of 2013 10 27 2 30 0 0)) /\
  dt_add (Aware paris13 false) (wall_of 2013 9 27 2 30 0 0) false 0 1 0 0 0 0 0 0 = Ok (wall_of 2013 10 27 2 30 0 0, true).
Proof. pose proof clamp_examples. pose proof dst_examples. tauto. Qed.
Print Assumptions clamp_and_dst_examples.

(* ---- the MODEL side itself: the operator / add / subtract entry points of Model/CalendarArith.v EQUAL the machine translation of pendulum's
   own code (Gen/TzGlue.v: src/pendulum/datetime.py and date.py translated from /repo on every run).  A right operand is the record of its
   class, native microseconds, accessor values and _signature (gop_of_iv / gop_of_dur / gop_of_td).  add_agrees / date_agrees = "add() agrees
   with the model on this value" (model_is_code_datetime_add in C03; model_is_code_date_add below, under their side conditions).
   NOT covered: the plain-timedelta route of DateTime (+/- a datetime.timedelta passes FLOAT seconds to add(): dt_add_fsec stays hand-written
   + pinned; g_add_timedelta marks it E_NotImplemented) and the datetime/date operand of `-` (Interval construction). ---- *)
From PV Require Import Model.TzGlueObj Gen.TzGlue Model.WallHistory Proofs.TzGlueFacts.

Theorem model_is_code_add_interval_operand : forall tzo W f y mo wk rd h mi rs us N total, add_agrees tzo W f ->
  g_add_timedelta (dt_of W f tzo) (gop_of_iv y mo wk rd h mi rs us N) = res_of tzo (dt_add_timedelta (tzk_of tzo) W f (OpIv y mo wk rd h mi rs us total)).
Proof. exact glue_add_interval_operand. Qed.
Print Assumptions model_is_code_add_interval_operand.

Theorem model_is_code_add_duration_operand : forall tzo W f d, add_agrees tzo W f ->
  g_add_timedelta (dt_of W f tzo) (gop_of_dur d) = res_of tzo (dt_add_timedelta (tzk_of tzo) W f (OpDur d)).
Proof. exact glue_add_duration_operand. Qed.
Print Assumptions model_is_code_add_duration_operand.

Theorem model_is_code_sub_duration_operand : forall tzo W f d, add_agrees tzo W f ->
  g_subtract_timedelta (dt_of W f tzo) (gop_of_dur d) = res_of tzo (dt_sub_timedelta (tzk_of tzo) W f (OpDur d)).
Proof. exact glue_sub_duration_operand. Qed.
Print Assumptions model_is_code_sub_duration_operand.

Theorem model_is_code_sub_interval_operand : forall tzo W f y mo wk rd h mi rs us N total, add_agrees tzo W f ->
  g_subtract_timedelta (dt_of W f tzo) (gop_of_iv y mo wk rd h mi rs us N) = res_of tzo (dt_sub_timedelta (tzk_of tzo) W f (OpIv y mo wk rd h mi rs us total)).
Proof. exact glue_sub_interval_operand. Qed.
Print Assumptions model_is_code_sub_interval_operand.

(* Date.add / subtract: midnight W = a date of years 1..9999; date_side = add_duration's result is again such a date *)
Theorem model_is_code_date_add : forall W y mo wk d, midnight W -> date_side W y mo wk d ->
  glue_Date_add (mkgdate W) y mo wk d = gres_date (date_add W y mo wk d).
Proof. exact glue_date_add. Qed.
Print Assumptions model_is_code_date_add.

Theorem model_is_code_date_subtract : forall W y mo wk d, midnight W -> date_side W (- y) (- mo) (- wk) (- d) ->
  glue_Date_subtract (mkgdate W) y mo wk d = gres_date (date_subtract W y mo wk d).
Proof. exact glue_date_subtract. Qed.
Print Assumptions model_is_code_date_subtract.

(* Date.__add__ / _add_timedelta with the three operand classes (a plain timedelta contributes .days: integers only, fully covered) *)
Theorem model_is_code_date_add_timedelta : forall W N, date_agrees W ->
  glue_Date___add__ (mkgdate W) (gop_of_td N) = gres_date (date_add_timedelta W (OpTd N)).
Proof. exact glue_date_add_timedelta_td. Qed.
Print Assumptions model_is_code_date_add_timedelta.

Theorem model_is_code_date_add_duration : forall W d, date_agrees W ->
  glue_Date___add__ (mkgdate W) (gop_of_dur d) = gres_date (date_add_timedelta W (OpDur d)).
Proof. exact glue_date_add_timedelta_dur. Qed.
Print Assumptions model_is_code_date_add_duration.

Theorem model_is_code_date_add_interval : forall W y mo wk rd h mi rs us N total, date_agrees W ->
  glue_Date___add__ (mkgdate W) (gop_of_iv y mo wk rd h mi rs us N) = gres_date (date_add_timedelta W (OpIv y mo wk rd h mi rs us total)).
Proof. exact glue_date_add_timedelta_iv. Qed.
Print Assumptions model_is_code_date_add_interval.

(* Date.__sub__ / _subtract_timedelta with a timedelta operand of any class *)
Theorem model_is_code_date_sub_timedelta : forall W op, date_agrees W ->
  glue_Date___sub___timedelta (mkgdate W)
    (match op with OpTd N => gop_of_td N | OpDur d => gop_of_dur d | OpIv y mo wk rd h mi rs us _ => gop_of_iv y mo wk rd h mi rs us 0 end)
  = gres_date (date_sub_timedelta W op).
Proof. exact glue_date_sub_timedelta. Qed.
Print Assumptions model_is_code_date_sub_timedelta.
