(* Props/C04.v — calendar-unit arithmetic follows the wall clock with end-of-month clamping. *)
From Coq Require Import ZArith Bool.
From PV Require Import Lib.PyBase Spec.Cal Spec.Zone Model.TzConvert Model.CalendarArith Proofs.C04Facts.
Open Scope Z_scope.

Theorem add_neg_is_subtract : forall k W f y mo wk d h m s us,
  dt_subtract k W f y mo wk d h m s us = dt_add k W f (- y) (- mo) (- wk) (- d) (- h) (- m) (- s) (- us).
Proof. exact add_neg_is_subtract_l. Qed.
Print Assumptions add_neg_is_subtract.
