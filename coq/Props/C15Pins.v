(* Props/C15Pins.v — written by tools/mkpins.py at development time (committed; never rewritten by a check).
   The hand-written model of C15 was transcribed from exactly these versions of the functions below (sha256 of the Python ast /
   of the comment-free Rust text, first 20 hex digits).  Gen/PinsC15.v is recomputed from /repo on every check: an edit to any
   pinned function breaks this obligation, and the check then has to find a failing input or report no-failing-input-found. *)
From Coq Require Import List String.
From PV Require Import Gen.PinsC15.
Import ListNotations.
Theorem hand_modelled_sources_unchanged_C15 : PinsC15.pins = [
  ("rust/src/helpers.rs::is_leap"%string, "94a45adc559e3b03aa45"%string);
  ("rust/src/helpers.rs::is_long_year"%string, "29a6892cc6b823c98c03"%string);
  ("rust/src/helpers.rs::days_in_year"%string, "161fad8d1ea98c43a814"%string);
  ("rust/src/helpers.rs::week_day"%string, "763bc2deb90dc2f3607f"%string);
  ("rust/src/helpers.rs::local_time"%string, "0beca1346122645d2f56"%string);
  ("rust/src/helpers.rs::p"%string, "b60abb9fbb6c2e9073ea"%string);
  ("rust/src/python/helpers.rs::local_time"%string, "5d7fa6fba037846eb05c"%string)].
Proof. exact eq_refl. Qed.
Print Assumptions hand_modelled_sources_unchanged_C15.
