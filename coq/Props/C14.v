(* placeholder while the model is being tied; replaced below *)
From Coq Require Import ZArith List Bool.
From PV Require Import Lib.PyBase Model.Pickle.
Theorem placeholder_c14 : tz_rebuild RCopy TzNone = Ok TzNone.
Proof. reflexivity. Qed.
Print Assumptions placeholder_c14.
