(* Props/C14.v — pickle, copy and deepcopy reproduce every pendulum value exactly.
   Only theorem statements; every proof is `exact <lemma>` (Proofs/C14Facts.v).
   Model: Model/Pickle.v — the TRUSTED pickle/copy protocol applied to what the classes hand to it; the argument lists
   (_getstate tuples, __deepcopy__ keyword lists, __getinitargs__, constructor parameters, method resolution) are DATA generated from
   /repo's class bodies on every run (Gen/Reduce.v); the constructors are the direct datetime/date/time constructors,
   Model/Duration.v (C09), interval_new, Timezone(key), FixedTimezone(offset, name).  Tied to /repo by the C14 correspondence run.
   Routes: RPickle p (any protocol p), RCopy, RDeep;  not_deep r  means  r is a pickle protocol or copy.copy.
   A DateTime is (wall microseconds W, fold, tzinfo); `zdb` maps a Timezone key to its tz table (Spec/Zone.v), universally quantified.
   A tzinfo is None, a pendulum Timezone / FixedTimezone, or TzForeign: a standard-library tzinfo (datetime.timezone(offset), zoneinfo.ZoneInfo(key)),
   as carried by dt.astimezone(datetime.timezone.utc) or DateTime(..., tzinfo=ZoneInfo(..)); DateTime.tz / .timezone are None for those.
   Theorems named *_refuted record genuine defects of /repo (known_findings/C14.json); *_partial hold on the stated region only.
   Repaired in /repo and stated at full strength: deepcopy-foreign-tzinfo-naive, duration-deepcopy-drops-weeks, interval-deepcopy-typeerror. *)
From Coq Require Import ZArith List Bool String.
From Coq Require Import Floats.SpecFloat.
From PV Require Import Lib.PyBase Spec.Cal Spec.Zone Spec.TdFloat Model.Duration Model.Pickle Model.PickleHistory Proofs.ZoneFacts Proofs.C09Facts Proofs.C14Facts Proofs.C14History Proofs.FloatRoundTripC09 Model.PickleNative Proofs.C14Native Proofs.C14Equal.
Import ListNotations.
Open Scope Z_scope.

(* ---- values that every route reproduces exactly (equality of the whole value, hence of every accessor) *)
Theorem roundtrip_date : forall r n, 1 <= n <= 3652059 -> date_rebuild r n = Ok n.
Proof. exact date_rebuild_id. Qed.
Print Assumptions roundtrip_date.

Theorem roundtrip_timezone : forall r k, tz_rebuild r (TzNamed k) = Ok (TzNamed k).
Proof. exact (fun r k => tz_rebuild_id r (TzNamed k) I). Qed.
Print Assumptions roundtrip_timezone.

Theorem roundtrip_fixed_timezone : forall r off name,
  td_in_range (off * US_PER_SEC) = true -> tz_rebuild r (TzFixed off name) = Ok (TzFixed off name).
Proof. exact (fun r off name H => tz_rebuild_id r (TzFixed off name) H). Qed.
Print Assumptions roundtrip_fixed_timezone.

(* a standard-library tzinfo is a value of the trusted protocol: every route gives back an equal object *)
Theorem roundtrip_foreign_tzinfo : forall r s, tz_rebuild r (TzForeign s) = Ok (TzForeign s).
Proof. exact (fun r s => tz_rebuild_id r (TzForeign s) I). Qed.
Print Assumptions roundtrip_foreign_tzinfo.

(* ---- DateTime *)
(* the attributes the state / keyword lists may name: tz and timezone are None for a standard-library tzinfo, tzinfo is the tzinfo *)
Theorem datetime_tz_attribute : forall y mo d h mi s us fold tz,
  dt_attr_f y mo d h mi s us fold tz "tz"%string = Some (ATz (pendulum_tz tz)) /\
  dt_attr_f y mo d h mi s us fold tz "timezone"%string = Some (ATz (pendulum_tz tz)) /\
  dt_attr_f y mo d h mi s us fold tz "tzinfo"%string = Some (ATz tz).
Proof. exact dt_tz_attribute. Qed.
Print Assumptions datetime_tz_attribute.

Theorem datetime_tz_attribute_none_for_foreign_tzinfo : forall s, pendulum_tz (TzForeign s) = TzNone.
Proof. exact pendulum_tz_foreign. Qed.
Print Assumptions datetime_tz_attribute_none_for_foreign_tzinfo.

(* deepcopy: DateTime.__deepcopy__ passes every field, tzinfo=self.tzinfo and fold: the value itself comes back, for EVERY tzinfo
   (None, Timezone, FixedTimezone, standard-library tzinfo).  Full strength since `fix: DateTime.__deepcopy__ keeps a tzinfo that is not a
   pendulum timezone` (finding deepcopy-foreign-tzinfo-naive: with tzinfo=self.tz the copy of a TzForeign value was naive). *)
Theorem roundtrip_datetime_deepcopy : forall v, dt_valid v -> dt_rebuild RDeep v = Ok v.
Proof. exact dt_rebuild_deep. Qed.
Print Assumptions roundtrip_datetime_deepcopy.

(* the former failing inputs: 2013-10-27T02:30 fold=1 with datetime.timezone.utc / datetime.timezone(-01:01:01) / ZoneInfo("Europe/Paris")
   deep-copy to themselves: aware, offsets 0 / -3661 / +3600, same instants *)
Theorem roundtrip_datetime_deepcopy_foreign_tzinfo :
  dt_rebuild RDeep (mkdt W_0230 true (TzForeign (StdOffset 0))) = Ok (mkdt W_0230 true (TzForeign (StdOffset 0))) /\
  dt_obs zdb_paris (mkdt W_0230 true (TzForeign (StdOffset 0))) = [2013; 10; 27; 2; 30; 0; 0; 1; 1; 0; W_0230; 3; 0] /\
  dt_rebuild RDeep (mkdt W_0230 true (TzForeign (StdOffset (-3661)))) = Ok (mkdt W_0230 true (TzForeign (StdOffset (-3661)))) /\
  dt_obs zdb_paris (mkdt W_0230 true (TzForeign (StdOffset (-3661)))) = [2013; 10; 27; 2; 30; 0; 0; 1; 1; -3661; W_0230 + 3661 * 1000000; 3; -3661] /\
  dt_rebuild RDeep (mkdt W_0230 true (TzForeign (StdZone 0))) = Ok (mkdt W_0230 true (TzForeign (StdZone 0))) /\
  dt_obs zdb_paris (mkdt W_0230 true (TzForeign (StdZone 0))) = [2013; 10; 27; 2; 30; 0; 0; 1; 1; 3600; W_0230 - 3600 * 1000000; 4; 0].
Proof. exact dt_deepcopy_foreign_witness. Qed.
Print Assumptions roundtrip_datetime_deepcopy_foreign_tzinfo.

(* every route keeps a standard-library tzinfo: the copy is aware with the same tzinfo and fields; fold as on the other DateTimes
   (kept by deepcopy, 0 after pickle / copy.copy); offset and instant equal unless the fold decides them *)
Theorem datetime_foreign_tzinfo_every_route : forall zdb r W f s, wall_in_range W = true ->
  exists v', dt_rebuild r (mkdt W f (TzForeign s)) = Ok v' /\ dt_tz v' = TzForeign s /\ dt_W v' = W /\ dt_aware v' = true
             /\ dt_fold v' = match r with RDeep => f | _ => false end
             /\ (~ fold_matters zdb (mkdt W f (TzForeign s)) -> dt_obs_nofold zdb v' = dt_obs_nofold zdb (mkdt W f (TzForeign s))).
Proof. exact dt_foreign_every_route. Qed.
Print Assumptions datetime_foreign_tzinfo_every_route.

(* pickle (every protocol) and copy.copy: what comes back is EXACTLY the fold=0 reading of the same fields and tzinfo *)
Theorem datetime_pickle_copy_is_fold0_reading : forall r v, not_deep r -> dt_valid v ->
  dt_rebuild r v = Ok (mkdt (dt_W v) false (dt_tz v)).
Proof. exact dt_rebuild_pickle_copy. Qed.
Print Assumptions datetime_pickle_copy_is_fold0_reading.

(* hence exact on fold = 0 (naive or aware, every route) *)
Theorem roundtrip_datetime_partial : forall r v, dt_valid v -> dt_fold v = false -> dt_rebuild r v = Ok v.
Proof. exact dt_rebuild_fold0. Qed.
Print Assumptions roundtrip_datetime_partial.

(* and, with fold = 1, fields / UTC offset / UTC instant / zone still agree unless the zone distinguishes the two folds at this
   wall second (fold_matters: a Timezone or ZoneInfo where off_local z w false <> off_local z w true, i.e. repeated or skipped) *)
Theorem roundtrip_datetime_instant_partial : forall zdb r v, not_deep r -> dt_valid v -> ~ fold_matters zdb v ->
  exists v', dt_rebuild r v = Ok v' /\ dt_obs_nofold zdb v' = dt_obs_nofold zdb v.
Proof. exact dt_pickle_copy_instant. Qed.
Print Assumptions roundtrip_datetime_instant_partial.

(* on the complementary region the copy is ALWAYS another instant with another offset (and fold) *)
Theorem datetime_pickle_copy_changes_instant : forall zdb r v k, not_deep r -> dt_valid v ->
  dt_tz v = TzNamed k -> dt_fold v = true -> ~ wall_unique (zdb k) (dt_W v / MEG) ->
  exists v', dt_rebuild r v = Ok v' /\ dt_inst zdb v' <> dt_inst zdb v /\ dt_off zdb v' <> dt_off zdb v /\ dt_fold v' <> dt_fold v.
Proof. exact dt_pickle_copy_changes. Qed.
Print Assumptions datetime_pickle_copy_changes_instant.

(* the same when the zone is carried as a zoneinfo.ZoneInfo *)
Theorem datetime_pickle_copy_changes_instant_zoneinfo : forall zdb r v k, not_deep r -> dt_valid v ->
  dt_tz v = TzForeign (StdZone k) -> dt_fold v = true -> ~ wall_unique (zdb k) (dt_W v / MEG) ->
  exists v', dt_rebuild r v = Ok v' /\ dt_inst zdb v' <> dt_inst zdb v /\ dt_off zdb v' <> dt_off zdb v /\ dt_fold v' <> dt_fold v.
Proof. exact dt_pickle_copy_changes_zoneinfo. Qed.
Print Assumptions datetime_pickle_copy_changes_instant_zoneinfo.

(* witness: Europe/Paris 2013-10-27T02:30 fold=1 (+01:00, a repeated wall time of a well-formed table) comes back +02:00, an hour earlier *)
Theorem roundtrip_datetime_pickle_copy_refuted :
  wf2_zone paris_2013 = true /\ wall_repeated paris_2013 (W_0230 / MEG) /\ dt_valid paris_0230_fold1 /\
  dt_obs zdb_paris paris_0230_fold1 = [2013; 10; 27; 2; 30; 0; 0; 1; 1; 3600; W_0230 - 3600 * 1000000; 1; 0] /\
  forall r, not_deep r -> exists v', dt_rebuild r paris_0230_fold1 = Ok v' /\
    dt_obs zdb_paris v' = [2013; 10; 27; 2; 30; 0; 0; 0; 1; 7200; W_0230 - 7200 * 1000000; 1; 0].
Proof. exact (conj paris_wf (conj paris_0230_repeated dt_pickle_witness)). Qed.
Print Assumptions roundtrip_datetime_pickle_copy_refuted.

(* ---- Time: Time._get_state has no fold and Time has no __deepcopy__: EVERY route returns the fold=0 reading *)
Theorem time_every_route_is_fold0_reading : forall r v, tm_valid v -> tm_rebuild r v = Ok (mktm (tm_T v) false (tm_tz v)).
Proof. exact tm_rebuild_eq. Qed.
Print Assumptions time_every_route_is_fold0_reading.

Theorem roundtrip_time_refuted : forall r, tm_rebuild r (mktm 9000000000 true TzNone) = Ok (mktm 9000000000 false TzNone).
Proof. exact time_witness. Qed.
Print Assumptions roundtrip_time_refuted.

(* ---- Duration *)
(* pickle / copy.copy go through timedelta.__reduce__: whatever comes back has the same native timedelta value, years = months = 0 *)
Theorem duration_pickle_copy_keeps_native_drops_years_months : forall r days seconds us ms mi h w years months d d', not_deep r ->
  duration_new days seconds us ms mi h w years months = Ok d -> dur_rebuild r d = Ok d' ->
  d_N d' = d_N d /\ d_years d' = 0 /\ d_months d' = 0 /\ d_abs d' = false.
Proof. exact dur_pickle_result. Qed.
Print Assumptions duration_pickle_copy_keeps_native_drops_years_months.

(* exact when years = months = 0, for every magnitude (no float premise: the same float pipeline runs on the same native value) *)
Theorem roundtrip_duration_pickle_copy_partial : forall r days seconds us ms mi h w d, not_deep r ->
  duration_new days seconds us ms mi h w 0 0 = Ok d ->
  exists d', dur_rebuild r d = Ok d' /\ dur_public d' = dur_public d /\ d_total d' = d_total d /\ d_days d' = d_days d.
Proof. exact dur_pickle_exact. Qed.
Print Assumptions roundtrip_duration_pickle_copy_partial.

(* Duration(years=1, months=2, days=3) comes back as Duration(weeks=61, days=1), years = months = 0 *)
Theorem roundtrip_duration_pickle_copy_refuted : forall r, not_deep r ->
  exists d d', duration_new 3 0 0 0 0 0 0 1 2 = Ok d /\ d_years d = 1 /\ d_months d = 2 /\ dur_rebuild r d = Ok d'
    /\ d_years d' = 0 /\ d_months d' = 0 /\ d_weeks d' = 61 /\ d_rdays d' = 1 /\ dur_public d' <> dur_public d.
Proof. exact dur_pickle_witness. Qed.
Print Assumptions roundtrip_duration_pickle_copy_refuted.

(* deepcopy: Duration.__deepcopy__ rebuilds from years months weeks remaining_days hours minutes remaining_seconds microseconds.  FULL STRENGTH on
   C09's exactness domain D9 since `fix: copy.deepcopy of a Duration keeps its weeks` (finding duration-deepcopy-drops-weeks: the weeks keyword was
   missing and the copy was short of weeks * 7 days): every public accessor, the native value and the stored fields come back, whatever the weeks are.
   This form carries C09's float premise explicitly and depends on no axiom; `roundtrip_duration_deepcopy` below is the unconditional statement. *)
Theorem roundtrip_duration_deepcopy_given_float_premise : float_split_exact_on_D9 ->
  forall days seconds us ms mi h w years months d,
  duration_new days seconds us ms mi h w years months = Ok d ->
  D9 (d_N d) (YM years months * 86400) ->
  exists d', dur_rebuild RDeep d = Ok d' /\ dur_public d' = dur_public d /\ d_N d' = d_N d /\ d_total d' = d_total d /\ d_days d' = d_days d.
Proof. exact dur_deep_exact. Qed.
Print Assumptions roundtrip_duration_deepcopy_given_float_premise.

(* the former failing input: Duration(weeks=2, days=3) deep-copies to 2 weeks and 3 days (17 days), all public accessors equal *)
Theorem roundtrip_duration_deepcopy_weeks_witness :
  exists d d', duration_new 3 0 0 0 0 0 2 0 0 = Ok d /\ d_weeks d = 2 /\ dur_rebuild RDeep d = Ok d' /\ d_weeks d' = 2
    /\ td_norm (d_N d) = (17, 0, 0) /\ td_norm (d_N d') = (17, 0, 0) /\ dur_public d' = dur_public d.
Proof. exact dur_deep_witness. Qed.
Print Assumptions roundtrip_duration_deepcopy_weeks_witness.

(* the domain hypothesis is needed: Duration(years=300, days=3, microseconds=7) has weeks = 0, reports microseconds = 8
   (C09's float resolution) and deep-copies to a Duration one microsecond longer *)
Theorem roundtrip_duration_deepcopy_outside_D9_refuted :
  exists d d', duration_new 3 0 7 0 0 0 0 300 0 = Ok d /\ d_weeks d = 0 /\ d_micro d = 8 /\ dur_rebuild RDeep d = Ok d'
    /\ d_N d' = d_N d + 1 /\ dur_public d' <> dur_public d.
Proof. exact dur_deep_outside_witness. Qed.
Print Assumptions roundtrip_duration_deepcopy_outside_D9_refuted.

(* AbsoluteDuration: pickle / copy.copy keep everything except years / months (which come back 0) *)
Theorem absolute_duration_pickle_copy_result : forall r days seconds us ms mi h w years months d d', not_deep r ->
  absolute_duration_new days seconds us ms mi h w years months = Ok d -> dur_rebuild r d = Ok d' ->
  d_N d' = d_N d /\ d_years d' = 0 /\ d_months d' = 0 /\ d_abs d' = true
  /\ d_total d' = d_total d /\ d_weeks d' = d_weeks d /\ d_rdays d' = d_rdays d /\ d_seconds d' = d_seconds d /\ d_micro d' = d_micro d.
Proof. exact absdur_pickle_result. Qed.
Print Assumptions absolute_duration_pickle_copy_result.

(* AbsoluteDuration inherits Duration.__deepcopy__: its components are absolute values, so a NEGATIVE underlying value (invert = True) comes back
   positive (finding absoluteduration-deepcopy-sign-weeks, now the sign only: the weeks survive since the repair above).
   AbsoluteDuration(days=-3, hours=-5) (invert = True) deep-copies to a value with invert = False *)
Theorem roundtrip_absolute_duration_deepcopy_refuted :
  exists d d', absolute_duration_new (-3) 0 0 0 0 (-5) 0 0 0 = Ok d /\ dur_invert d = true /\ dur_rebuild RDeep d = Ok d'
    /\ dur_invert d' = false /\ dur_public d' <> dur_public d.
Proof. exact absdur_deep_witness. Qed.
Print Assumptions roundtrip_absolute_duration_deepcopy_refuted.

(* the weeks part of that finding is repaired: AbsoluteDuration(weeks=2, days=3, hours=5) deep-copies to the same public accessors;
   AbsoluteDuration(weeks=-2, days=-3) keeps weeks = 2 and loses only the sign (native value -17 days -> +17 days) *)
Theorem absolute_duration_deepcopy_keeps_weeks :
  (exists d d', absolute_duration_new 3 0 0 0 0 5 2 0 0 = Ok d /\ d_weeks d = 2 /\ dur_rebuild RDeep d = Ok d' /\ dur_public d' = dur_public d) /\
  (exists d d', absolute_duration_new (-3) 0 0 0 0 0 (-2) 0 0 = Ok d /\ dur_invert d = true /\ d_weeks d = 2 /\ dur_rebuild RDeep d = Ok d'
     /\ dur_invert d' = false /\ d_weeks d' = 2 /\ td_norm (d_N d) = (-17, 0, 0) /\ td_norm (d_N d') = (17, 0, 0)).
Proof. exact absdur_deep_weeks_witness. Qed.
Print Assumptions absolute_duration_deepcopy_keeps_weeks.

(* ---- Interval *)
(* copy.copy: _getstate undoes the absolute swap, Interval(start, end, absolute) rebuilds the same value *)
Theorem roundtrip_interval_copy : forall zdb s e a iv, interval_new zdb s e a = Ok iv -> iv_rebuild zdb RCopy iv = Ok iv.
Proof. exact iv_copy_id. Qed.
Print Assumptions roundtrip_interval_copy.

(* pickle: exact when no endpoint is a DateTime with fold = 1 (Date endpoints, or fold 0) *)
Theorem roundtrip_interval_pickle_partial : forall zdb p s e a iv, interval_new zdb s e a = Ok iv ->
  ep_valid s -> ep_valid e -> ep_fold0 s -> ep_fold0 e -> iv_rebuild zdb (RPickle p) iv = Ok iv.
Proof. exact iv_pickle_id_fold0. Qed.
Print Assumptions roundtrip_interval_pickle_partial.

(* [Paris 02:30 fold=1 -> 04:00], 90 minutes, pickles to a 150-minute interval *)
Theorem roundtrip_interval_pickle_refuted : forall p,
  exists iv iv', interval_new zdb_paris iv_wit_start iv_wit_end false = Ok iv /\ td_norm (iv_N iv) = (0, 5400, 0)
    /\ iv_rebuild zdb_paris (RPickle p) iv = Ok iv' /\ td_norm (iv_N iv') = (0, 9000, 0)
    /\ iv_obs zdb_paris iv' <> iv_obs zdb_paris iv.
Proof. exact iv_pickle_witness. Qed.
Print Assumptions roundtrip_interval_pickle_refuted.

(* copy.deepcopy: Interval.__deepcopy__ deep-copies the endpoints of _getstate() and passes the absolute flag.  FULL STRENGTH since
   `fix: copy.deepcopy of an Interval` (finding interval-deepcopy-typeerror: Interval inherited Duration.__deepcopy__, which called Interval(days=...)
   and raised TypeError for EVERY Interval): every constructed Interval comes back as itself - forward, inverted, absolute, Date or DateTime
   endpoints, naive or aware, fold 0 or 1, pendulum or standard-library tzinfo (ep_valid: the endpoint is a constructible value) *)
Theorem roundtrip_interval_deepcopy : forall zdb s e a iv, interval_new zdb s e a = Ok iv -> ep_valid s -> ep_valid e ->
  iv_rebuild zdb RDeep iv = Ok iv.
Proof. exact iv_deep_id. Qed.
Print Assumptions roundtrip_interval_deepcopy.

(* the Interval that pickle changes, [Paris 02:30 fold=1 -> 04:00], deep-copies to itself (90 minutes), and so does the absolute one whose end carries
   zoneinfo.ZoneInfo("Europe/Paris") *)
Theorem roundtrip_interval_deepcopy_witness :
  (exists iv, interval_new zdb_paris iv_wit_start iv_wit_end false = Ok iv /\ td_norm (iv_N iv) = (0, 5400, 0)
     /\ iv_rebuild zdb_paris RDeep iv = Ok iv) /\
  (exists iv, interval_new zdb_paris iv_wit_start iv_wit_end_foreign true = Ok iv /\ td_norm (iv_N iv) = (0, 5400, 0)
     /\ iv_rebuild zdb_paris RDeep iv = Ok iv).
Proof. exact iv_deep_witness. Qed.
Print Assumptions roundtrip_interval_deepcopy_witness.

(* endpoints that are == (start is not later than end, as Interval.__init__ compares them) yet distinguishable - one instant in two zones, two tzinfo
   classes of one zone, the two folds of one wall time, a zero-length Interval: the deep copy holds BOTH endpoints exactly as given (the end is never
   replaced by the copied start), with the same flags and native value.  Checked on real objects by the iv-equal-instant / ivn-equal-instant streams. *)
Theorem interval_deepcopy_keeps_equal_yet_distinct_endpoints : forall zdb s e a iv,
  interval_new zdb s e a = Ok iv -> ep_valid s -> ep_valid e -> ep_gt zdb s e = Ok false ->
  exists iv', iv_rebuild zdb RDeep iv = Ok iv' /\ iv_start iv' = s /\ iv_end iv' = e /\ iv_abs iv' = a /\ iv_invert iv' = false /\ iv_N iv' = iv_N iv.
Proof. exact iv_deep_keeps_equal_endpoints. Qed.
Print Assumptions interval_deepcopy_keeps_equal_yet_distinct_endpoints.

(* satisfiable with different endpoints: 2013-10-27T04:00 Europe/Paris carried by a pendulum Timezone and by zoneinfo.ZoneInfo (neither is later) *)
Theorem interval_deepcopy_equal_endpoints_example :
  iv_wit_end <> iv_wit_end_foreign /\ ep_gt zdb_paris iv_wit_end iv_wit_end_foreign = Ok false /\ ep_gt zdb_paris iv_wit_end_foreign iv_wit_end = Ok false /\
  exists iv, interval_new zdb_paris iv_wit_end iv_wit_end_foreign false = Ok iv /\ iv_N iv = 0%Z /\ iv_rebuild zdb_paris RDeep iv = Ok iv
    /\ iv_start iv = iv_wit_end /\ iv_end iv = iv_wit_end_foreign.
Proof. exact iv_deep_equal_endpoints_example. Qed.
Print Assumptions interval_deepcopy_equal_endpoints_example.

(* ---- Intervals BUILT FROM STANDARD-LIBRARY operands (Model/PickleNative.v: Interval(<datetime>, <datetime>), pendulum.interval, a.diff(<native>);
   an operand is (is_native, endpoint); __new__ works on the operands as given, __init__ keeps pendulum.instance(operand)).
   When the conversion keeps the order and the elapsed time of the operands, the value IS the Interval of the converted operands, and copy.copy,
   copy.deepcopy and (fold 0) pickle return it unchanged. *)
Theorem roundtrip_interval_native_partial : forall zdb utc s e a s1 e1 iv,
  ep_instance zdb utc s = Ok s1 -> ep_instance zdb utc e = Ok e1 ->
  ep_gt zdb (snd s) (snd e) = ep_gt zdb s1 e1 ->
  ep_elapsed zdb (snd s) (snd e) = ep_elapsed zdb s1 e1 -> ep_elapsed zdb (snd e) (snd s) = ep_elapsed zdb e1 s1 ->
  interval_new_native zdb utc false s e a = Ok iv ->
  iv_rebuild zdb RCopy iv = Ok iv /\ (ep_valid s1 -> ep_valid e1 -> iv_rebuild zdb RDeep iv = Ok iv)
  /\ (forall p, ep_valid s1 -> ep_valid e1 -> ep_fold0 s1 -> ep_fold0 e1 -> iv_rebuild zdb (RPickle p) iv = Ok iv).
Proof. exact native_exact_roundtrip. Qed.
Print Assumptions roundtrip_interval_native_partial.

(* the hypotheses are satisfiable: zoneinfo Europe/Paris 2013-03-30T02:30 -> 2013-04-01T02:30 across the spring-forward night is 47 h and copies to itself *)
Theorem roundtrip_interval_native_example :
  exists iv, interval_new_native zdb_paris 1 false nat_ok_start nat_ok_end false = Ok iv /\ td_norm (iv_N iv) = (1, 82800, 0)
    /\ iv_rebuild zdb_paris RCopy iv = Ok iv.
Proof. exact native_exact_example. Qed.
Print Assumptions roundtrip_interval_native_example.

(* `b - a` / pre-converted operands: always the Interval of the converted operands *)
Theorem roundtrip_interval_native_preconverted : forall zdb utc s e a s1 e1 iv,
  ep_instance zdb utc s = Ok s1 -> ep_instance zdb utc e = Ok e1 -> interval_new_native zdb utc true s e a = Ok iv ->
  iv_rebuild zdb RCopy iv = Ok iv /\ (ep_valid s1 -> ep_valid e1 -> iv_rebuild zdb RDeep iv = Ok iv).
Proof. exact native_pre_roundtrip. Qed.
Print Assumptions roundtrip_interval_native_preconverted.

(* REFUTED without those hypotheses (finding interval-native-skipped-operand): the skipped wall time 2013-03-31T02:30 given as a standard-library
   datetime: the Interval's value is 23 h, its endpoints are 24 h apart, and copy.copy (like every route) returns the 24 h Interval *)
Theorem roundtrip_interval_native_refuted :
  exists iv iv', interval_new_native zdb_paris 1 false nat_skipped_start nat_ok_end false = Ok iv /\ td_norm (iv_N iv) = (0, 82800, 0)
    /\ iv_rebuild zdb_paris RCopy iv = Ok iv' /\ td_norm (iv_N iv') = (1, 0, 0)
    /\ iv_obs zdb_paris iv' <> iv_obs zdb_paris iv.
Proof. exact native_skipped_witness. Qed.
Print Assumptions roundtrip_interval_native_refuted.

(* ---- copies in a process with a history (Model/PickleHistory.v): the per-offset cache behind pendulum.timezone(<int>) / tz=<number> / instance().
   `hist_run zdb before r v after` = the calls `before`, then the copy of v along route r, then the calls `after`, in one process that starts fresh;
   `cache_ok c`: every entry of the cache is the default-named FixedTimezone of its own offset. *)
(* the cache is transparent: the factory hands out, after any history, what it hands out in a fresh process (same name, same offset, same exception) *)
Theorem fixed_timezone_cache_transparent : forall ops off,
  fst (fixed_timezone (fst (hrun [] ops)) off) = fst (fixed_timezone [] off) /\ cache_ok (fst (hrun [] ops)).
Proof. exact (fun ops off => conj (fixed_timezone_transparent _ off (hrun_ok ops [] cache_ok_nil)) (hrun_ok ops [] cache_ok_nil)). Qed.
Print Assumptions fixed_timezone_cache_transparent.

(* configuration = what the SUCCESSFUL calls left: a call that raises (offset beyond timedelta's range) leaves the cache unchanged *)
Theorem failed_call_keeps_cache : forall c off e, fst (fixed_timezone c off) = Raise e -> snd (fixed_timezone c off) = c.
Proof. exact fixed_timezone_failed_keeps. Qed.
Print Assumptions failed_call_keeps_cache.

(* constructing or copying a value never touches the cache: only the factory call does *)
Theorem only_the_factory_writes_the_cache : forall c o,
  fst (hstep c o) = match o with HTimezoneInt off => snd (fixed_timezone c off) | _ => c end.
Proof. exact hstep_cache. Qed.
Print Assumptions only_the_factory_writes_the_cache.

(* the original, its copy, and everything the earlier and later calls return are what they are in a fresh process *)
Theorem copy_result_independent_of_history : forall zdb before r v after,
  hr_orig (hist_run zdb before r v after) = hr_orig (hist_run zdb [] r v []) /\
  hr_copy (hist_run zdb before r v after) = hr_copy (hist_run zdb [] r v []) /\
  hr_before (hist_run zdb before r v after) = map (fun o => snd (hstep [] o)) before /\
  hr_after (hist_run zdb before r v after) = map (fun o => snd (hstep [] o)) after /\
  cache_ok (hr_cache (hist_run zdb before r v after)).
Proof. exact hist_run_independent. Qed.
Print Assumptions copy_result_independent_of_history.

(* a FixedTimezone with an explicit name comes back with that name on every route after every history - in particular when the cache
   already holds the default-named zone of the same offset (pendulum.timezone(19800) earlier, FixedTimezone(19800, "IST") copied) *)
Theorem roundtrip_fixed_timezone_after_any_history : forall zdb before r off name after, td_in_range (off * US_PER_SEC) = true ->
  hr_copy (hist_run zdb before r (HvTz (TzFixed off name)) after) = 0 :: tz_obs (TzFixed off name).
Proof. exact hist_fixed_named. Qed.
Print Assumptions roundtrip_fixed_timezone_after_any_history.


(* ---- C09's float premise float_split_exact_on_D9 is a THEOREM (Proofs/FloatRoundTripC09.v, through Flocq's binary64 correctness): the deepcopy statement
   that carries it holds unconditionally (standard-library real-number axioms, listed by Print Assumptions; the premise-carrying form above depends on nothing). *)
Theorem roundtrip_duration_deepcopy :
  forall days seconds us ms mi h w years months d,
  duration_new days seconds us ms mi h w years months = Ok d ->
  D9 (d_N d) (YM years months * 86400) ->
  exists d', dur_rebuild RDeep d = Ok d' /\ dur_public d' = dur_public d /\ d_N d' = d_N d /\ d_total d' = d_total d /\ d_days d' = d_days d.
Proof. exact (dur_deep_exact float_split_exact_on_D9_proved). Qed.
Print Assumptions roundtrip_duration_deepcopy.

(* AbsoluteDuration through the inherited Duration.__deepcopy__, characterised: the deep copy is the AbsoluteDuration of the ABSOLUTE value of the
   underlying timedelta - every component (weeks included, since the repair) and total_seconds() identical, invert False.  So the copy is exact
   whenever the underlying value is not negative; the remaining finding absoluteduration-deepcopy-sign-weeks is exactly invert = True. *)
Theorem absolute_duration_deepcopy_is_absolute_value : forall days seconds us ms mi h w years months d,
  absolute_duration_new days seconds us ms mi h w years months = Ok d -> Z.abs (d_N d) < B33 ->
  exists d', dur_rebuild RDeep d = Ok d' /\ d_N d' = Z.abs (d_N d) /\ d_abs d' = true /\ dur_invert d' = false
    /\ d_years d' = d_years d /\ d_months d' = d_months d /\ d_weeks d' = d_weeks d /\ d_rdays d' = d_rdays d
    /\ d_seconds d' = d_seconds d /\ d_micro d' = d_micro d /\ dur_total_seconds d' = dur_total_seconds d.
Proof. exact (absdur_deep_result float_split_exact_on_D9_proved). Qed.
Print Assumptions absolute_duration_deepcopy_is_absolute_value.

Theorem roundtrip_absolute_duration_deepcopy_partial : forall days seconds us ms mi h w years months d,
  absolute_duration_new days seconds us ms mi h w years months = Ok d -> 0 <= d_N d < B33 ->
  exists d', dur_rebuild RDeep d = Ok d' /\ dur_public d' = dur_public d.
Proof. exact (absdur_deep_exact_nonneg float_split_exact_on_D9_proved). Qed.
Print Assumptions roundtrip_absolute_duration_deepcopy_partial.

(* ---- THE MODEL IS THE CODE (FixedTimezone.__init__'s default name).  What pickle / copy are handed is DATA generated from /repo (Gen/Reduce.v); the method
   BODIES this model still transcribes by hand are pinned by text in g60_pickle.py: FixedTimezone.__init__ (default_name), Interval.__new__ / __init__
   (interval_new), DateTime.timezone / tz (pendulum_tz), Timezone.__new__ (forwards the key); Duration.__new__ is Model/Duration.v (C09 model_is_code_duration_new).
   The first one is now translated on every run (Gen/FixedTzInit.v: FLOAT division offset / 60, int(), divmod, the f-string) and equals default_name (integer
   arithmetic) for EVERY offset strictly between -24 h and +24 h (exhaustive kernel evaluation); outside that range default_name stays hand + pinned. *)
From PV Require Import Gen.FixedTzInit Proofs.FixedTzInitFacts.

Theorem model_is_code_fixed_timezone_default_name : forall off, -86400 < off < 86400 ->
  gen_FixedTimezone_default_name off = Ok (default_name off).
Proof. exact gen_default_name_eq. Qed.
Print Assumptions model_is_code_fixed_timezone_default_name.
