(* Props/C06.v — Interval components are canonical and rebuild the end from the start.
   Only theorem statements; every proof is `exact <lemma>`.  py_precise_diff / pd_add_duration are regenerated from /repo on
   every run (Gen/PreciseDiff.v), rs_precise_diff is the hand model of rust/src/python/helpers.rs, iv_components the hand model of
   the Interval properties (both tied by correspondence).  Domain of the universally quantified theorems: ordered pairs of
   well-formed datetimes with zero UTC offset (naive, or both UTC) — `dt_pair` — or of plain dates — `date_pair`; `op_pair` is
   either; every year, no bound other than the representable range 1..9999 where add_duration is involved.
   pd_spec (Proofs/C06Spec.v) is the arithmetic specification: time components = time-of-day difference with a one-day borrow,
   months in 0..11, and the day/month part given by three cases (no day borrow / the "exactly a full month" arm, taken only
   when the start day is the last day of the month before the end month and the end day is the last day of its shorter
   month / day borrow through the previous month).
   pd_rebuild / pd_rust_rebuild (full strength since the repair of finding exact-month-arm): adding the reported components
   back to the start with the translated helpers.add_duration gives exactly the end, for both backends.  Proof: symbolic in the
   years and in the month lengths (Proofs/C06Rebuild.v: ymd2ord is linear in the day, one month back is dbm_step).
   rs_precise_diff takes the two operands only (since the repair of finding rs-second-operand-subclass): the compiled helper tests
   both with is_type_of, so every pd_rust_* theorem below holds whatever datetime subclass (e.g. pendulum.DateTime) either operand
   is an instance of — there is no "second operand is exactly datetime.datetime" side condition any more.
   The Interval model (iv_elapsed / iv_components over precise_diff of the two operands, each with its OWN offset) is what Interval.__init__
   does for either occurrence of a repeated wall time since the repair of finding interval-init-drops-fold (listed for C18): the natives it
   hands to precise_diff carry the fold of the endpoints (iv_former_second_occurrence_witness; stream interval-second-occurrence). *)
From Coq Require Import ZArith Bool List.
Import ListNotations.
From PV Require Import Lib.PyBase Spec.Cal Gen.Helpers Model.RustHelpers Model.PdBase Gen.PreciseDiff Model.RustPreciseDiff Model.PdInterval Model.PdHistory.
From PV Require Import Model.PdForeign Proofs.C06Foreign.
From PV Require Import Proofs.C06History Proofs.C06Facts Proofs.C06Spec Proofs.C06Dates Proofs.C06Rebuild Proofs.C06Interval Proofs.C06Rust Proofs.C06Thms Proofs.C06Fold.
Open Scope Z_scope.

(* years >= 0, months 0..11, days 0..30, hours 0..23, minutes/seconds 0..59, microseconds 0..999999 *)
Theorem pd_ranges : forall a b, dt_pair a b -> p_wall a <= p_wall b ->
  exists r, py_precise_diff a b = Ok r /\ in_ranges r.
Proof. exact py_pd_ranges. Qed.
Print Assumptions pd_ranges.

Theorem pd_equal_is_zero : forall a b, dt_pair a b -> p_wall a = p_wall b -> py_precise_diff a b = Ok (mkPD 0 0 0 0 0 0 0 0).
Proof. exact py_pd_equal. Qed.
Print Assumptions pd_equal_is_zero.

(* the full arithmetic characterisation of the result (all three arms of the month-length branch), and total_days *)
Theorem pd_characterisation : forall a b, dt_pair a b -> p_wall a < p_wall b ->
  match py_precise_diff a b with
  | Ok r => pd_spec a b r /\
            pd_total_days r = py_day_number (p_year b) (p_month b) (p_day b) - py_day_number (p_year a) (p_month a) (p_day a)
  | Raise _ => False
  end.
Proof. exact py_pd_spec. Qed.
Print Assumptions pd_characterisation.

(* hours, minutes, seconds, microseconds rebuild the time of day of the end (with the borrowed day) *)
Theorem pd_time_exact : forall a b, dt_pair a b -> p_wall a < p_wall b ->
  exists r, py_precise_diff a b = Ok r /\
    ((pd_hours r * 60 + pd_minutes r) * 60 + pd_seconds r) * 1000000 + pd_microseconds r
      = tod b - tod a + (if tod b <? tod a then us_per_day else 0).
Proof. exact py_pd_time. Qed.
Print Assumptions pd_time_exact.

(* the compiled helper (hand model) reports the same components as the pure-Python helper *)
Theorem pd_rust_eq_python : forall a b, dt_pair a b -> 1 <= p_year a -> p_wall a < p_wall b ->
  py_precise_diff a b = Ok (rs_precise_diff a b).
Proof. exact rs_eq_py. Qed.
Print Assumptions pd_rust_eq_python.

Theorem pd_rust_characterisation : forall a b, dt_pair a b -> 1 <= p_year a -> p_wall a < p_wall b ->
  pd_spec a b (rs_precise_diff a b) /\
  pd_total_days (rs_precise_diff a b) =
    Model.RustHelpers.rs_day_number (p_year b) (p_month b) (p_day b) - Model.RustHelpers.rs_day_number (p_year a) (p_month a) (p_day a).
Proof. exact rs_pd_spec. Qed.
Print Assumptions pd_rust_characterisation.

Theorem pd_rust_ranges : forall a b, dt_pair a b -> 1 <= p_year a -> p_wall a < p_wall b -> in_ranges (rs_precise_diff a b).
Proof. exact rs_pd_ranges. Qed.
Print Assumptions pd_rust_ranges.

Theorem in_months_def : forall d e, iv_in_months (iv_components d e) = 12 * pd_years d + pd_months d.
Proof. exact in_months_of_components. Qed.
Print Assumptions in_months_def.

(* a + (b - a) = b, pure-Python helper: for every ordered pair of datetimes (zero offset) or dates, every year 1..9999, the
   components are canonical and pd_add_duration a years months 0 days hours minutes seconds microseconds = Ok (the end, carrying
   the tzinfo of the start) *)
Theorem pd_rebuild : forall a b, op_pair a b -> 1 <= p_year a -> p_year b <= 9999 -> p_wall a <= p_wall b ->
  exists r, py_precise_diff a b = Ok r /\ in_ranges r /\ rebuilds a b r.
Proof. exact py_pd_rebuild. Qed.
Print Assumptions pd_rebuild.

(* the same for the compiled helper (hand model) *)
Theorem pd_rust_rebuild : forall a b, op_pair a b -> 1 <= p_year a -> p_year b <= 9999 -> p_wall a <= p_wall b ->
  in_ranges (rs_precise_diff a b) /\ rebuilds a b (rs_precise_diff a b).
Proof. exact rs_pd_rebuild. Qed.
Print Assumptions pd_rust_rebuild.

(* operands carrying the same tzinfo: the rebuilt value is the end itself *)
Theorem pd_rebuild_same_tzinfo : forall a b, op_pair a b -> same_tzinfo a b -> 1 <= p_year a -> p_year b <= 9999 -> p_wall a <= p_wall b ->
  exists r, py_precise_diff a b = Ok r /\
    pd_add_duration a (pd_years r) (pd_months r) 0 (pd_days r) (pd_hours r) (pd_minutes r) (pd_seconds r) (pd_microseconds r) = Ok b.
Proof. exact py_pd_rebuild_same. Qed.
Print Assumptions pd_rebuild_same_tzinfo.

Theorem pd_rust_rebuild_same_tzinfo : forall a b, op_pair a b -> same_tzinfo a b -> 1 <= p_year a -> p_year b <= 9999 -> p_wall a <= p_wall b ->
  let r := rs_precise_diff a b in
  pd_add_duration a (pd_years r) (pd_months r) 0 (pd_days r) (pd_hours r) (pd_minutes r) (pd_seconds r) (pd_microseconds r) = Ok b.
Proof. exact rs_pd_rebuild_same. Qed.
Print Assumptions pd_rust_rebuild_same_tzinfo.

(* the Interval glue (hand model of the component properties and of DateTime.add / Date.add): a + (b - a), and add() with the
   years, months, weeks, remaining_days, hours, minutes, remaining_seconds, microseconds of b - a, give the end — both backends.
   (The elapsed Duration is modelled exactly; see finding interval-float-seconds for spans of 2^33 s or more.) *)
Theorem iv_rebuild : forall a b, op_pair a b -> 1 <= p_year a -> p_year b <= 9999 -> p_wall a <= p_wall b ->
  exists r, py_precise_diff a b = Ok r /\ dt_add_ivc a (iv_components r (iv_elapsed a b)) = Ok (p_retz a b).
Proof. exact py_iv_rebuild. Qed.
Print Assumptions iv_rebuild.

Theorem iv_rust_rebuild : forall a b, op_pair a b -> 1 <= p_year a -> p_year b <= 9999 -> p_wall a <= p_wall b ->
  dt_add_ivc a (iv_components (rs_precise_diff a b) (iv_elapsed a b)) = Ok (p_retz a b).
Proof. exact rs_iv_rebuild. Qed.
Print Assumptions iv_rust_rebuild.

(* any result that satisfies the specification is rebuilt (the step both theorems above go through) *)
Theorem pd_spec_rebuilds : forall a b r, wf_op a -> wf_op b -> kind_ok a b -> 1 <= p_year a -> p_year b <= 9999 -> p_wall a < p_wall b ->
  pd_spec a b r -> rebuilds a b r.
Proof. exact spec_rebuilds. Qed.
Print Assumptions pd_spec_rebuilds.

(* plain dates: characterisation, ranges, and equality of the two backends *)
Theorem pd_characterisation_dates : forall a b, date_pair a b -> p_wall a < p_wall b ->
  match py_precise_diff a b with
  | Ok r => pd_spec a b r /\
            pd_total_days r = py_day_number (p_year b) (p_month b) (p_day b) - py_day_number (p_year a) (p_month a) (p_day a)
  | Raise _ => False
  end.
Proof. exact py_pd_spec_date. Qed.
Print Assumptions pd_characterisation_dates.

Theorem pd_ranges_dates : forall a b, date_pair a b -> p_wall a <= p_wall b ->
  exists r, py_precise_diff a b = Ok r /\ in_ranges r.
Proof. exact py_pd_ranges_date. Qed.
Print Assumptions pd_ranges_dates.

Theorem pd_rust_eq_python_dates : forall a b, date_pair a b -> 1 <= p_year a -> p_wall a < p_wall b ->
  py_precise_diff a b = Ok (rs_precise_diff a b).
Proof. exact rs_eq_py_date. Qed.
Print Assumptions pd_rust_eq_python_dates.

(* the former witnesses of finding exact-month-arm (2021-05-02 -> 2021-06-01, 2021-01-30 -> 2021-02-27): 30 / 28 days, rebuilt, both backends *)
Theorem pd_rebuild_former_witnesses :
  py_precise_diff (naive_dt 2021 5 2 0 0 0 0) (naive_dt 2021 6 1 0 0 0 0) = Ok (mkPD 0 0 30 0 0 0 0 30) /\
  rs_precise_diff (naive_dt 2021 5 2 0 0 0 0) (naive_dt 2021 6 1 0 0 0 0) = mkPD 0 0 30 0 0 0 0 30 /\
  rebuilds (naive_dt 2021 5 2 0 0 0 0) (naive_dt 2021 6 1 0 0 0 0) (mkPD 0 0 30 0 0 0 0 30) /\
  py_precise_diff (naive_dt 2021 1 30 0 0 0 0) (naive_dt 2021 2 27 0 0 0 0) = Ok (mkPD 0 0 28 0 0 0 0 28) /\
  rs_precise_diff (naive_dt 2021 1 30 0 0 0 0) (naive_dt 2021 2 27 0 0 0 0) = mkPD 0 0 28 0 0 0 0 28 /\
  rebuilds (naive_dt 2021 1 30 0 0 0 0) (naive_dt 2021 2 27 0 0 0 0) (mkPD 0 0 28 0 0 0 0 28).
Proof. exact former_witnesses_rebuild. Qed.
Print Assumptions pd_rebuild_former_witnesses.

(* the former witness of finding rs-second-operand-subclass (two pendulum.DateTime in UTC passed directly, 10:00 -> 12:30 on
   2021-01-01; the compiled helper reported hours = -10): 2 h 30 min, both backends, both directions, rebuilt *)
Theorem pd_rust_former_subclass_witness :
  dt_pair (utc_named_dt 2021 1 1 10 0 0 0) (utc_named_dt 2021 1 1 12 30 0 0) /\
  py_precise_diff (utc_named_dt 2021 1 1 10 0 0 0) (utc_named_dt 2021 1 1 12 30 0 0) = Ok (mkPD 0 0 0 2 30 0 0 0) /\
  rs_precise_diff (utc_named_dt 2021 1 1 10 0 0 0) (utc_named_dt 2021 1 1 12 30 0 0) = mkPD 0 0 0 2 30 0 0 0 /\
  rs_precise_diff (utc_named_dt 2021 1 1 12 30 0 0) (utc_named_dt 2021 1 1 10 0 0 0) = mkPD 0 0 0 (-2) (-30) 0 0 0 /\
  rebuilds (utc_named_dt 2021 1 1 10 0 0 0) (utc_named_dt 2021 1 1 12 30 0 0) (mkPD 0 0 0 2 30 0 0 0).
Proof. exact former_subclass_witness. Qed.
Print Assumptions pd_rust_former_subclass_witness.

(* the former witness of finding interval-init-drops-fold (listed for C18, repaired): 2012-10-28T01:19:59Z -> the SECOND 02:20:00 in
   Europe/Paris (+01:00), one second later: one second, both backends, both directions (the Interval reported minutes = -59 when
   Interval.__init__ rebuilt its natives without fold= and the end was read as 02:20:00+02:00) *)
Theorem iv_former_second_occurrence_witness :
  let a := utc_named_dt 2012 10 28 1 19 59 0 in let b := paris_second_0220 in
  p_instant b - p_instant a = 1000000 /\
  py_precise_diff a b = Ok (mkPD 0 0 0 0 0 1 0 0) /\ rs_precise_diff a b = mkPD 0 0 0 0 0 1 0 0 /\
  py_precise_diff b a = Ok (mkPD 0 0 0 0 0 (-1) 0 0) /\ rs_precise_diff b a = mkPD 0 0 0 0 0 (-1) 0 0 /\
  iv_components (mkPD 0 0 0 0 0 1 0 0) (iv_elapsed a b) = mkivc 0 0 0 0 0 0 1 0 0 0.
Proof. exact former_second_occurrence_witness. Qed.
Print Assumptions iv_former_second_occurrence_witness.

(* current code: outside the zero-offset domain the two backends differ (cross-zone pair whose UTC shift leaves the month) *)
Theorem pd_rust_eq_python_cross_zone_refuted : exists a b,
  py_precise_diff a b = Ok (mkPD 0 1 3 0 30 0 0 31) /\ rs_precise_diff a b = mkPD 0 1 0 0 30 0 0 31.
Proof. exact rs_cross_zone_refuted. Qed.
Print Assumptions pd_rust_eq_python_cross_zone_refuted.

(* ---- a whole PROCESS: several Intervals built (and helper calls made) one after the other (Model/PdHistory.run_history; the history-*
   streams run it against one interpreter executing the same constructions in order).  rs = false: pure-Python helper, true: compiled. *)
Theorem history_prefix_stable : forall rs h t, run_history rs (h ++ t) = run_history rs h ++ run_history rs t.
Proof. exact C06History.history_split. Qed.
Print Assumptions history_prefix_stable.

(* what an Interval reports (components, a + (b - a), the reversed Interval) is the same at every position of every history *)
Theorem components_independent_of_history : forall rs h1 t1 h2 t2 s,
  nth_error (run_history rs (h1 ++ s :: t1)) (length h1) = Some (eval_step rs s)
  /\ nth_error (run_history rs (h2 ++ s :: t2)) (length h2) = Some (eval_step rs s).
Proof. exact C06History.components_independent_of_history. Qed.
Print Assumptions components_independent_of_history.

(* COUNTER-MODEL run_memo (a memo in front of precise_diff, looked up with the equivalence eqv): transparent whenever eqv separates
   everything precise_diff depends on — in particular when it compares all twelve fields of both operands *)
Theorem memo_with_faithful_key_is_transparent : forall eqv pd h,
  (forall k k', eqv k k' = true -> pd (fst k) (snd k) = pd (fst k') (snd k')) -> run_memo eqv pd [] h = map (step_with pd) h.
Proof. exact C06History.memo_transparent. Qed.
Print Assumptions memo_with_faithful_key_is_transparent.

Theorem memo_keyed_by_all_fields_is_transparent : forall rs h, run_memo identity_eq (pd_of rs) [] h = run_history rs h.
Proof. exact C06History.identity_memo_transparent. Qed.
Print Assumptions memo_keyed_by_all_fields_is_transparent.

(* ... and NOT transparent when it is looked up with CPython's == / hash of the native operands (functools.lru_cache): aware datetimes are
   equal when their INSTANTS are, so 2021-02-28T22:00Z .. 2021-03-31T22:00Z (1 month 3 days) and the same two instants at +05:00,
   2021-03-01T03:00 .. 2021-04-01T03:00 (1 month 0 days), share an entry: the second Interval reports the first one's components and
   a + (b - a) is 2021-04-04T03:00 *)
Theorem memo_keyed_by_equality_refuted : forall rs,
  cpython_eq (w_ua, w_ub) (w_fa, w_fb) = true /\
  nth_error (run_history rs [mkhstep HIv w_ua w_ub; mkhstep HIv w_fa w_fb]) 1
    = Some [[0; 0; 1; 0; 0; 0; 0; 0; 0; 1; 31]; [0; 2021; 4; 1; 3; 0; 0; 0]; [0; 0; -1; 0; 0; 0; 0; 0; 0; -1; -31]] /\
  nth_error (run_memo cpython_eq (pd_of rs) [] [mkhstep HIv w_ua w_ub; mkhstep HIv w_fa w_fb]) 1
    = Some [[0; 0; 1; 0; 3; 0; 0; 0; 0; 1; 31]; [0; 2021; 4; 4; 3; 0; 0; 0]; [0; 0; -1; 0; -3; 0; 0; 0; 0; -1; -31]].
Proof. exact C06History.memo_keyed_by_equality_refuted. Qed.
Print Assumptions memo_keyed_by_equality_refuted.

(* whichever zone comes first wins *)
Theorem memo_keyed_by_equality_order_dependent : forall rs,
  nth_error (run_memo cpython_eq (pd_of rs) [] [mkhstep HIv w_ua w_ub; mkhstep HIv w_fa w_fb]) 1
  <> nth_error (run_memo cpython_eq (pd_of rs) [] [mkhstep HIv w_fa w_fb; mkhstep HIv w_ua w_ub]) 0.
Proof. exact C06History.cpython_eq_memo_order_dependent. Qed.
Print Assumptions memo_keyed_by_equality_order_dependent.

(* the two occurrences of 2012-10-28T02:20 Europe/Paris carry the same tzinfo object: == compares their wall fields and ignores the fold *)
Theorem memo_keyed_by_equality_conflates_folds : forall rs,
  cpython_eq (w_s, w_e0) (w_s, w_e1) = true
  /\ run_memo cpython_eq (pd_of rs) [] [mkhstep HIv w_s w_e0; mkhstep HIv w_s w_e1]
     <> run_history rs [mkhstep HIv w_s w_e0; mkhstep HIv w_s w_e1].
Proof. exact C06History.cpython_eq_memo_conflates_folds. Qed.
Print Assumptions memo_keyed_by_equality_conflates_folds.

(* ---- the component properties of an Interval (interval.py years, months, weeks, remaining_days, hours, minutes, in_years, in_months, in_weeks,
   in_days: translated from /repo on every run, Gen/IntervalGlue.v) = Model/PdInterval.v iv_components.  An Interval is read through its
   PreciseDiff (`self._delta`) and Duration._days (dur_days_of elapsed = abs(total seconds) // 86400 * sign); Duration._sign is checked by shape.
   remaining_seconds / microseconds / days are Duration's (Gen/DurationOps.v, C10). ---- *)
From PV Require Import Model.TzGlueObj Gen.TzGlue Model.IntervalObj Gen.IntervalGlue Proofs.IntervalGlueNew Proofs.IntervalGlueInit Proofs.IntervalGlueFacts.
Theorem model_is_code_interval_components : forall delta elapsed,
  let g := mkgivs delta (dur_days_of elapsed) in let c := iv_components delta elapsed in
  glue_Interval_years g = iv_years c /\ glue_Interval_months g = iv_months c /\ glue_Interval_weeks g = iv_weeks c /\
  glue_Interval_remaining_days g = iv_remaining_days c /\ glue_Interval_hours g = iv_hours c /\ glue_Interval_minutes g = iv_minutes c /\
  glue_Interval_in_months g = iv_in_months c /\ glue_Interval_in_days g = iv_in_days c /\ glue_Interval_in_years g = iv_years c /\
  glue_Interval_in_weeks g = Z.abs (iv_in_days c) / 7 * sgn (iv_in_days c).
Proof. exact glue_interval_components. Qed.
Print Assumptions model_is_code_interval_components.

(* ---- CROSS-ZONE, universal (pure-Python helper): two aware datetimes in DIFFERENTLY NAMED zones (cross_pair: distinct tzinfo objects, names that differ),
   at ANY UTC offsets — also when an endpoint is the second occurrence of a repeated wall time —, the first the earlier INSTANT.  The translated
   precise_diff moves each operand to UTC with its own offset (d - d.utcoffset(): real calendar arithmetic, p_shift), so its result has exactly the
   years .. microseconds of precise_diff on the two UTC readings (utc_of d: the wall fields of the instant of d, offset 0; only total_days, which the
   code takes BEFORE the shift, may differ), it satisfies the arithmetic specification pd_spec on those readings, and its components are canonical.
   Proofs/C06Cross.v: both calls are reduced to the same tail of the translated function over the same atoms (640 leaves closed by reflexivity), then
   pd_characterisation is APPLIED to the UTC readings.  The compiled helper is NOT covered: finding rs-cross-zone-shift. ---- *)
From PV Require Import Proofs.C06Cross.

Theorem pd_cross_zone_is_utc : forall a b, cross_pair a b -> p_instant a < p_instant b ->
  exists r r', py_precise_diff a b = Ok r /\ py_precise_diff (utc_of a) (utc_of b) = Ok r' /\ core7 r = core7 r' /\
               pd_spec (utc_of a) (utc_of b) r /\ wf_op (utc_of a) /\ wf_op (utc_of b) /\
               p_wall (utc_of a) = p_instant a /\ p_wall (utc_of b) = p_instant b.
Proof. exact pd_cross_zone_is_utc_lemma. Qed.
Print Assumptions pd_cross_zone_is_utc.

Theorem pd_cross_zone_ranges : forall a b, cross_pair a b -> p_instant a < p_instant b ->
  exists r, py_precise_diff a b = Ok r /\ in_ranges r.
Proof. exact pd_cross_zone_ranges_lemma. Qed.
Print Assumptions pd_cross_zone_ranges.

(* ---- one zone NAME carried by tzinfo objects of different CLASSES (pendulum Timezone / its base class zoneinfo.ZoneInfo / pytz / a hand-written
   tzinfo answering .key, .name or .zone; streams pd-tzclass, interval-tzclass, history-tzclass-twins).  precise_diff compares the NAMES; the model
   reads the identity of the tzinfo object only in CPython's == and >, which for operands with one UTC offset answer the same whatever objects
   carry the zone (retag d i = d carried by the object i) *)
Theorem comparison_ignores_tzinfo_identity : forall a b i j, p_offset a = p_offset b ->
  p_eqb (retag a i) (retag b j) = p_eqb a b /\ p_gtb (retag a i) (retag b j) = p_gtb a b.
Proof. exact cmp_ignores_identity. Qed.
Print Assumptions comparison_ignores_tzinfo_identity.

(* 2021-03-31T00:30+02:00 -> 2021-05-01T00:30+02:00 in Europe/Paris, one endpoint on pendulum's Timezone (object 1), the other on a plain ZoneInfo
   (object 2): 1 month 1 day on the shared wall clock — both backends, both directions, either assignment of the objects — and a + (b - a) = b;
   the last clause is the same pair read as two DIFFERENT zones (UTC calendar): 1 month 0 days *)
Theorem pd_same_name_other_class_witness :
  py_precise_diff (paris_a 1 5) (paris_b 2 5) = Ok (mkPD 0 1 1 0 0 0 0 31) /\
  py_precise_diff (paris_a 2 5) (paris_b 1 5) = Ok (mkPD 0 1 1 0 0 0 0 31) /\
  py_precise_diff (paris_a 1 5) (paris_b 1 5) = Ok (mkPD 0 1 1 0 0 0 0 31) /\
  rs_precise_diff (paris_a 1 5) (paris_b 2 5) = mkPD 0 1 1 0 0 0 0 31 /\
  py_precise_diff (paris_b 2 5) (paris_a 1 5) = Ok (mkPD 0 (-1) (-1) 0 0 0 0 (-31)) /\
  rs_precise_diff (paris_b 2 5) (paris_a 1 5) = mkPD 0 (-1) (-1) 0 0 0 0 (-31) /\
  of_dt (rebuild_of (py_pd (paris_a 1 5) (paris_b 2 5)) (paris_a 1 5) (paris_b 2 5)) = [0; 2021; 5; 1; 0; 30; 0; 0] /\
  py_precise_diff (paris_a 1 5) (paris_b 2 6) = Ok (mkPD 0 1 0 0 0 0 0 31).
Proof. exact same_name_other_class_witness. Qed.
Print Assumptions pd_same_name_other_class_witness.

(* current code (finding add-foreign-tzinfo-time-units): a START that carries a tzinfo which is not a pendulum class (self.tz is None) is moved to
   UTC by DateTime.add when no unit of variable length is given and never moved back: 2023-02-27T23:59+01:00 + 30 minutes = 23:29 on the 27th *)
Theorem iv_rebuild_foreign_start_refuted : exists a b,
  p_tzname a = p_tzname b /\ p_offset a = p_offset b /\ p_wall a <= p_wall b /\
  py_pd a b = Ok (mkPD 0 0 0 0 30 0 0 1) /\ rs_pd a b = Ok (mkPD 0 0 0 0 30 0 0 1) /\
  of_dt (rebuild_of (py_pd a b) a b) = [0; 2023; 2; 28; 0; 29; 0; 0] /\
  of_dt (rebuild_of_foreign (py_pd a b) a b) = [0; 2023; 2; 27; 23; 29; 0; 0] /\
  of_dt (rebuild_of_foreign (rs_pd a b) a b) = [0; 2023; 2; 27; 23; 29; 0; 0].
Proof. exact foreign_start_refuted. Qed.
Print Assumptions iv_rebuild_foreign_start_refuted.

(* ... and where it holds: with a unit of variable length, or a zero offset, the wall fields are those a pendulum-zone start reaches *)
Theorem iv_rebuild_foreign_start_partial : forall a years months weeks days hours minutes seconds us r', p_is_dt a = true ->
  (negb (years =? 0) || negb (months =? 0) || negb (weeks =? 0) || negb (days =? 0) = true \/ p_utcoffset a = 0) ->
  dt_add a years months weeks days hours minutes seconds us = Ok r' ->
  exists r, dt_add_foreign a years months weeks days hours minutes seconds us = Ok r /\ p_wall r = p_wall r'.
Proof. exact foreign_start_partial. Qed.
Print Assumptions iv_rebuild_foreign_start_partial.
