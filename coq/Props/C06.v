(* Props/C06.v — Interval components are canonical and rebuild the end from the start.
   Only theorem statements; every proof is `exact <lemma>`.  py_precise_diff / pd_add_duration are regenerated from /repo on
   every run (Gen/PreciseDiff.v), rs_precise_diff is the hand model of rust/src/python/helpers.rs, iv_components the hand model of
   the Interval properties (both tied by correspondence).  Domain of the universally quantified theorems: ordered pairs of
   well-formed datetimes with zero UTC offset (naive, or both UTC) — `dt_pair` — for every year, no bound.
   pd_spec (Proofs/C06Spec.v) is the arithmetic specification: time components = time-of-day difference with a one-day borrow,
   months in 0..11, and the day/month part given by three cases (no day borrow / the "exactly a full month" arm / day borrow
   through the previous month).  The middle case is the arm that is wrong unless the start day is the last day of that
   previous month (finding exact-month-arm): pd_rebuild_refuted.  NOT proved here (pd_rebuild_partial): that outside that arm
   pd_add_duration a (pd a b) = Ok b; the missing piece is the evaluation of the translated add_duration through
   fields_of_wall (wall_of ...) — the calendrical identity clamp + days + borrow = end date follows from pd_spec by
   min + max = sum and CalFacts.dbm_step; it is covered every run by the rebuild oracle on the enumerated shapes. *)
From Coq Require Import ZArith Bool.
From PV Require Import Lib.PyBase Spec.Cal Gen.Helpers Model.RustHelpers Model.PdBase Gen.PreciseDiff Model.RustPreciseDiff Model.PdInterval.
From PV Require Import Proofs.C06Facts Proofs.C06Spec Proofs.C06Rust Proofs.C06Thms.
Open Scope Z_scope.

(* years >= 0, months 0..11, days 0..30, hours 0..23, minutes/seconds 0..59, microseconds 0..999999 *)
Theorem pd_ranges : forall a b, dt_pair a b -> p_wall a <= p_wall b ->
  exists r, py_precise_diff a b = Ok r /\ in_ranges r.
Proof. exact py_pd_ranges. Qed.
Print Assumptions pd_ranges.

Theorem pd_equal_is_zero : forall a b, dt_pair a b -> p_wall a = p_wall b -> py_precise_diff a b = Ok (mkPD 0 0 0 0 0 0 0 0).
Proof. exact py_pd_equal. Qed.
Print Assumptions pd_equal_is_zero.

(* the full arithmetic characterisation of the result (all three arms of the month-length branch), and total_days *)
Theorem pd_characterisation : forall a b, dt_pair a b -> p_wall a < p_wall b ->
  match py_precise_diff a b with
  | Ok r => pd_spec a b r /\
            pd_total_days r = py_day_number (p_year b) (p_month b) (p_day b) - py_day_number (p_year a) (p_month a) (p_day a)
  | Raise _ => False
  end.
Proof. exact py_pd_spec. Qed.
Print Assumptions pd_characterisation.

(* hours, minutes, seconds, microseconds rebuild the time of day of the end (with the borrowed day) *)
Theorem pd_time_exact : forall a b, dt_pair a b -> p_wall a < p_wall b ->
  exists r, py_precise_diff a b = Ok r /\
    ((pd_hours r * 60 + pd_minutes r) * 60 + pd_seconds r) * 1000000 + pd_microseconds r
      = tod b - tod a + (if tod b <? tod a then us_per_day else 0).
Proof. exact py_pd_time. Qed.
Print Assumptions pd_time_exact.

(* the compiled helper (hand model) reports the same components as the pure-Python helper *)
Theorem pd_rust_eq_python : forall a b, dt_pair a b -> 1 <= p_year a -> p_wall a < p_wall b ->
  py_precise_diff a b = Ok (rs_precise_diff a b true).
Proof. exact rs_eq_py. Qed.
Print Assumptions pd_rust_eq_python.

Theorem pd_rust_characterisation : forall a b, dt_pair a b -> 1 <= p_year a -> p_wall a < p_wall b ->
  pd_spec a b (rs_precise_diff a b true) /\
  pd_total_days (rs_precise_diff a b true) =
    Model.RustHelpers.rs_day_number (p_year b) (p_month b) (p_day b) - Model.RustHelpers.rs_day_number (p_year a) (p_month a) (p_day a).
Proof. exact rs_pd_spec. Qed.
Print Assumptions pd_rust_characterisation.

Theorem pd_rust_ranges : forall a b, dt_pair a b -> 1 <= p_year a -> p_wall a < p_wall b -> in_ranges (rs_precise_diff a b true).
Proof. exact rs_pd_ranges. Qed.
Print Assumptions pd_rust_ranges.

Theorem in_months_def : forall d e, iv_in_months (iv_components d e) = 12 * pd_years d + pd_months d.
Proof. exact in_months_of_components. Qed.
Print Assumptions in_months_def.

(* current code: the rebuild property is false (2021-05-02 -> 2021-06-01 reports 1 month 0 days) *)
Theorem pd_rebuild_refuted : exists a b r, dt_pair a b /\ p_wall a <= p_wall b /\ py_precise_diff a b = Ok r /\ in_ranges r /\ ~ rebuilds a b r.
Proof. exact rebuild_refuted. Qed.
Print Assumptions pd_rebuild_refuted.

Theorem pd_rebuild_refuted_clamped : exists a b r, dt_pair a b /\ p_wall a <= p_wall b /\ py_precise_diff a b = Ok r /\ ~ rebuilds a b r.
Proof. exact rebuild_refuted_clamped. Qed.
Print Assumptions pd_rebuild_refuted_clamped.

Theorem pd_rust_rebuild_refuted : exists a b, dt_pair a b /\ p_wall a <= p_wall b /\ ~ rebuilds a b (rs_precise_diff a b true).
Proof. exact rs_rebuild_refuted. Qed.
Print Assumptions pd_rust_rebuild_refuted.

(* current code: outside the zero-offset domain the two backends differ (cross-zone pair whose UTC shift leaves the month) *)
Theorem pd_rust_eq_python_cross_zone_refuted : exists a b,
  py_precise_diff a b = Ok (mkPD 0 1 3 0 30 0 0 31) /\ rs_precise_diff a b true = mkPD 0 1 0 0 30 0 0 31.
Proof. exact rs_cross_zone_refuted. Qed.
Print Assumptions pd_rust_eq_python_cross_zone_refuted.
