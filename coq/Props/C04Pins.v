(* Props/C04Pins.v — written by tools/mkpins.py at development time (committed; never rewritten by a check).
   The hand-written model of C04 was transcribed from exactly these versions of the functions below (sha256 of the Python ast /
   of the comment-free Rust text, first 20 hex digits).  Gen/PinsC04.v is recomputed from /repo on every check: an edit to any
   pinned function breaks this obligation, and the check then has to find a failing input or report no-failing-input-found. *)
From Coq Require Import List String.
From PV Require Import Gen.PinsC04.
Import ListNotations.
Theorem hand_modelled_sources_unchanged_C04 : PinsC04.pins = [
  ("src/pendulum/datetime.py::DateTime.add"%string, "f9e0754e563c868f30d8"%string);
  ("src/pendulum/datetime.py::DateTime.subtract"%string, "604ff496290ba1734411"%string);
  ("src/pendulum/datetime.py::DateTime._add_timedelta_"%string, "be3054462e35df320002"%string);
  ("src/pendulum/datetime.py::DateTime._subtract_timedelta"%string, "3d4df3d87f175b8f2c22"%string);
  ("src/pendulum/datetime.py::DateTime.__add__"%string, "89b96c93c5ea36aca854"%string);
  ("src/pendulum/datetime.py::DateTime.__sub__"%string, "2b6416e501e40500ef40"%string);
  ("src/pendulum/date.py::Date.add"%string, "4350dc4041834c098c93"%string);
  ("src/pendulum/date.py::Date.subtract"%string, "1869a565e5e0ae929a5e"%string);
  ("src/pendulum/date.py::Date._add_timedelta"%string, "43a0930e3222962ec8b7"%string);
  ("src/pendulum/date.py::Date._subtract_timedelta"%string, "07a4b3fd325c210bcf3d"%string);
  ("src/pendulum/date.py::Date.__add__"%string, "e6ba06605ed2aec821f0"%string);
  ("src/pendulum/date.py::Date.__sub__"%string, "a18b21317b4af7c50e28"%string);
  ("src/pendulum/duration.py::Duration.__new__"%string, "0196f5b0f9c20319ebae"%string);
  ("src/pendulum/duration.py::Duration.__neg__"%string, "20da2f49439c147bdd5b"%string)].
Proof. exact eq_refl. Qed.
Print Assumptions hand_modelled_sources_unchanged_C04.
