(* Props/C09Pins.v — written by tools/mkpins.py at development time (committed; never rewritten by a check).
   The hand-written model of C09 was transcribed from exactly these versions of the functions below (sha256 of the Python ast /
   of the comment-free Rust text, first 20 hex digits).  Gen/PinsC09.v is recomputed from /repo on every check: an edit to any
   pinned function breaks this obligation, and the check then has to find a failing input or report no-failing-input-found. *)
From Coq Require Import List String.
From PV Require Import Gen.PinsC09.
Import ListNotations.
Theorem hand_modelled_sources_unchanged_C09 : PinsC09.pins = [
  ("src/pendulum/duration.py::Duration.__new__"%string, "0196f5b0f9c20319ebae"%string);
  ("src/pendulum/duration.py::AbsoluteDuration.__new__"%string, "e47c3e8e2b7a625b9f64"%string);
  ("src/pendulum/duration.py::Duration.hours"%string, "c6095af84ae841c7d015"%string);
  ("src/pendulum/duration.py::Duration.minutes"%string, "21a4ff4a1e657fcaaf37"%string);
  ("src/pendulum/duration.py::Duration.remaining_seconds"%string, "e151100eabe24fecdb20"%string);
  ("src/pendulum/duration.py::Duration.remaining_days"%string, "005c96262fff3eb1a1a7"%string);
  ("src/pendulum/duration.py::Duration.weeks"%string, "787a73dcb6ab6f11cb51"%string);
  ("src/pendulum/duration.py::Duration.total_days"%string, "d201a486a42b2bc65134"%string);
  ("src/pendulum/duration.py::Duration.total_weeks"%string, "8eb63c5ce7ea0066d2e6"%string);
  ("src/pendulum/duration.py::Duration.in_days"%string, "df0dd892792676f80819"%string);
  ("src/pendulum/duration.py::Duration.in_weeks"%string, "73b9df9ace642923c8b7"%string);
  ("src/pendulum/duration.py::Duration.invert"%string, "9f089018f83611670cef"%string);
  ("src/pendulum/duration.py::Duration._sign"%string, "4c6172fddbfdee16bb13"%string)].
Proof. exact eq_refl. Qed.
Print Assumptions hand_modelled_sources_unchanged_C09.
