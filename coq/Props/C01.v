(* Props/C01.v — timezone conversion preserves the instant and matches the tz database. *)
From Coq Require Import ZArith Bool.
From PV Require Import Lib.PyBase Spec.Cal Spec.Zone Proofs.ZoneFacts Model.TzConvert Proofs.C01Facts.
Open Scope Z_scope.

(* the PEP 495 round trip every conversion rests on: rendering an instant and reading it back gives the instant *)
Theorem render_then_inst : forall z U, wf_zone z = true -> let '(W, f) := render z U in inst z W f = U.
Proof. exact render_inst. Qed.
Print Assumptions render_then_inst.

Theorem in_tz_same_instant_database_fields : forall z1 z2 W f W' f', wf_zone z2 = true -> astz z1 z2 W f = Ok (W', f') ->
  inst z2 W' f' = inst z1 W f /\
  W' = inst z1 W f + MEG * off_utc z2 (inst z1 W f / MEG) /\ f' = fold_utc z2 (inst z1 W f / MEG).
Proof. exact in_tz_spec. Qed.
Print Assumptions in_tz_same_instant_database_fields.

Theorem in_tz_chain_A_B_C : forall z1 z2 z3 W f W2 f2, wf_zone z2 = true -> astz z1 z2 W f = Ok (W2, f2) ->
  astz z2 z3 W2 f2 = astz z1 z3 W f.
Proof. exact in_tz_chain. Qed.
Print Assumptions in_tz_chain_A_B_C.

Theorem conversion_never_wraps : forall z1 z2 W f, wall_in_range (inst z1 W f) = false -> astz z1 z2 W f = Raise E_OverflowError.
Proof. exact astz_out_of_range. Qed.
Print Assumptions conversion_never_wraps.

Theorem int_timestamp_inverts_from_timestamp : forall z n W f, wf_zone z = true ->
  from_timestamp_int z false n = Ok (W, f) -> int_timestamp z W f = n.
Proof. exact from_timestamp_roundtrip. Qed.
Print Assumptions int_timestamp_inverts_from_timestamp.

Theorem int_timestamp_inverts_from_timestamp_utc : forall n W f,
  from_timestamp_int (fixed_zone 0) true n = Ok (W, f) -> int_timestamp (fixed_zone 0) W f = n.
Proof. exact from_timestamp_utc_obj. Qed.
Print Assumptions int_timestamp_inverts_from_timestamp_utc.

Theorem instance_keeps_instant : forall z W sf src_off W' f', wf_zone z = true ->
  src_off = off_local z (sec W) sf -> ~ wall_skipped z (sec W) ->
  convert_naive z W sf false = Ok (W', f') -> inst z W' f' = W - MEG * src_off.
Proof. exact instance_instant. Qed.
Print Assumptions instance_keeps_instant.

(* known finding: a pytz-style source (fold 0 with the later offset on a repeated wall time) changes the instant *)
Theorem instance_pytz_second_pass_refuted :
  let W := EPOCH_US + 1383442200 * MEG in
  exists W' f', wf_zone ny2013 = true /\ wall_repeated ny2013 (sec W) /\
    convert_naive ny2013 W false false = Ok (W', f') /\
    inst ny2013 W' f' = W - MEG * (-14400) /\ inst ny2013 W' f' <> W - MEG * (-18000).
Proof. exact instance_pytz_refuted. Qed.
Print Assumptions instance_pytz_second_pass_refuted.
