(* Props/C01.v — timezone conversion preserves the instant and matches the tz database. *)
From Coq Require Import ZArith Bool List.
From PV Require Import Lib.PyBase Spec.Cal Spec.Zone Proofs.ZoneFacts Model.TzConvert Proofs.C01Facts.
From PV Require Import Spec.TdFloat Model.FloatRoutes Proofs.FloatRoutesFacts Proofs.FloatRoutesFlocq.
Open Scope Z_scope.

(* the PEP 495 round trip every conversion rests on: rendering an instant and reading it back gives the instant *)
Theorem render_then_inst : forall z U, wf_zone z = true -> let '(W, f) := render z U in inst z W f = U.
Proof. exact render_inst. Qed.
Print Assumptions render_then_inst.

Theorem in_tz_same_instant_database_fields : forall z1 z2 W f W' f', wf_zone z2 = true -> astz z1 z2 W f = Ok (W', f') ->
  inst z2 W' f' = inst z1 W f /\
  W' = inst z1 W f + MEG * off_utc z2 (inst z1 W f / MEG) /\ f' = fold_utc z2 (inst z1 W f / MEG).
Proof. exact in_tz_spec. Qed.
Print Assumptions in_tz_same_instant_database_fields.

Theorem in_tz_chain_A_B_C : forall z1 z2 z3 W f W2 f2, wf_zone z2 = true -> astz z1 z2 W f = Ok (W2, f2) ->
  astz z2 z3 W2 f2 = astz z1 z3 W f.
Proof. exact in_tz_chain. Qed.
Print Assumptions in_tz_chain_A_B_C.

Theorem conversion_never_wraps : forall z1 z2 W f, wall_in_range (inst z1 W f) = false -> astz z1 z2 W f = Raise E_OverflowError.
Proof. exact astz_out_of_range. Qed.
Print Assumptions conversion_never_wraps.

Theorem int_timestamp_inverts_from_timestamp : forall z n W f, wf_zone z = true ->
  from_timestamp_int z false n = Ok (W, f) -> int_timestamp z W f = n.
Proof. exact from_timestamp_roundtrip. Qed.
Print Assumptions int_timestamp_inverts_from_timestamp.

Theorem int_timestamp_inverts_from_timestamp_utc : forall n W f,
  from_timestamp_int (fixed_zone 0) true n = Ok (W, f) -> int_timestamp (fixed_zone 0) W f = n.
Proof. exact from_timestamp_utc_obj. Qed.
Print Assumptions int_timestamp_inverts_from_timestamp_utc.

Theorem instance_keeps_instant : forall z W sf src_off W' f', wf_zone z = true ->
  src_off = off_local z (sec W) sf -> ~ wall_skipped z (sec W) ->
  convert_naive z W sf false = Ok (W', f') -> inst z W' f' = W - MEG * src_off.
Proof. exact instance_instant. Qed.
Print Assumptions instance_keeps_instant.

(* known finding: a pytz-style source (fold 0 with the later offset on a repeated wall time) changes the instant *)
Theorem instance_pytz_second_pass_refuted :
  let W := EPOCH_US + 1383442200 * MEG in
  exists W' f', wf_zone ny2013 = true /\ wall_repeated ny2013 (sec W) /\
    convert_naive ny2013 W false false = Ok (W', f') /\
    inst ny2013 W' f' = W - MEG * (-14400) /\ inst ny2013 W' f' <> W - MEG * (-18000).
Proof. exact instance_pytz_refuted. Qed.
Print Assumptions instance_pytz_second_pass_refuted.

(* ------------------------------------------------------------------ FLOAT timestamps (Model/FloatRoutes.v): from_timestamp(t) for a double t
   (datetime.utcfromtimestamp: modf, fraction * 1e6, round-half-even, carry) and timestamp() / float_timestamp = (self - EPOCH).total_seconds().
   N is an instant in integer microseconds since the Unix epoch; total_seconds N is its float timestamp N / 10**6.
   The float premise is proved with Flocq (Proofs/FloatRoutesFlocq.v); the axioms listed are those of Coq's real numbers. *)

Theorem utcfromtimestamp_float_exact : forall N, Z.abs N < 2 ^ 33 * 10 ^ 6 -> utcfromtimestamp_float_us (total_seconds N) = Ok N.
Proof. exact utcfromtimestamp_exact_proved. Qed.
Print Assumptions utcfromtimestamp_float_exact.

Theorem timestamp_inverts_from_timestamp_float : forall z N W f, wf_zone z = true -> Z.abs N < 2 ^ 33 * 10 ^ 6 ->
  from_timestamp_float z false (total_seconds N) = Ok (W, f) ->
  (W, f) = render z (EPOCH_US + N) /\ inst z W f = EPOCH_US + N /\ timestamp_float z W f = total_seconds N.
Proof. exact timestamp_inverts_from_timestamp_proved. Qed.
Print Assumptions timestamp_inverts_from_timestamp_float.

Theorem timestamp_inverts_from_timestamp_float_utc : forall N W f, Z.abs N < 2 ^ 33 * 10 ^ 6 ->
  from_timestamp_float (fixed_zone 0) true (total_seconds N) = Ok (W, f) ->
  W = EPOCH_US + N /\ timestamp_float (fixed_zone 0) W f = total_seconds N.
Proof. exact timestamp_inverts_from_timestamp_utc_proved. Qed.
Print Assumptions timestamp_inverts_from_timestamp_float_utc.

(* same result and same exceptions as from_timestamp at the instant EPOCH + N us; on whole seconds it is the integer route *)
Theorem from_timestamp_float_is_the_instant : forall z b N, Z.abs N < 2 ^ 33 * 10 ^ 6 ->
  from_timestamp_float z b (total_seconds N) =
  (let U := EPOCH_US + N in if negb (wall_in_range U) then Raise E_ValueError else in_tz b (fixed_zone 0) z U true).
Proof. exact from_timestamp_float_unfold_proved. Qed.
Print Assumptions from_timestamp_float_is_the_instant.

Theorem from_timestamp_float_agrees_with_int_on_whole_seconds : forall z b n, Z.abs (n * MEG) < 2 ^ 33 * 10 ^ 6 ->
  from_timestamp_float z b (total_seconds (n * MEG)) = from_timestamp_int z b n.
Proof. exact from_timestamp_float_whole_proved. Qed.
Print Assumptions from_timestamp_float_agrees_with_int_on_whole_seconds.

(* beyond 2^33 s (year 2242..) doubles are more than 1 us apart: total_seconds N no longer determines N.  from_timestamp returns the
   microsecond nearest to the double (N + 1 here) and timestamp() of that DateTime is the same double: timestamp() still inverts
   from_timestamp(), but the DateTime is not the instant N (it is the instant the DOUBLE denotes).  Not a failure of the property. *)
Theorem from_timestamp_float_beyond_2_33_refuted :
  let z := fixed_zone 0 in let N := 8589934592000001 in
  exists W f, Z.abs N >= 2 ^ 33 * 10 ^ 6 /\ from_timestamp_float z false (total_seconds N) = Ok (W, f) /\
    inst z W f = EPOCH_US + N + 1 /\ inst z W f <> EPOCH_US + N /\
    timestamp_float z W f = total_seconds N /\ total_seconds (N + 1) = total_seconds N.
Proof. exact from_timestamp_float_beyond_refuted. Qed.
Print Assumptions from_timestamp_float_beyond_2_33_refuted.

(* kernel evaluation between 2^33 s and the year-1 / year-9999 limits: timestamp() inverts from_timestamp() and the instant is within 64 us;
   the last 15 microseconds of year 9999 round up to year 10000 and raise *)
Theorem timestamp_inverts_from_timestamp_float_beyond_family :
  (forallb ts_invertb beyond_family = true /\ (length beyond_family >= 100)%nat) /\
  from_timestamp_float (fixed_zone 0) false (total_seconds 253402300799999985) = Raise E_ValueError.
Proof. exact ts_beyond_family_evaluated. Qed.
Print Assumptions timestamp_inverts_from_timestamp_float_beyond_family.

(* ---- the tz database itself (Gen/ZoneTables.v: every table the staged interpreter's zoneinfo ships, regenerated on every run, proved well-formed by kernel
   computation in Proofs/ShippedZones.v / Props/C02.v shipped_zones_wellformed): the conversion theorems hold for the concrete zones without any hypothesis on the table *)
From Coq Require Import List.
From PV Require Import Gen.ZoneTables Proofs.ShippedZones.

Theorem shipped_zone_render_then_inst : forall z U, In z shipped_zones -> let '(W, f) := render z U in inst z W f = U.
Proof. exact shipped_render_inst. Qed.
Print Assumptions shipped_zone_render_then_inst.

Theorem shipped_zone_conversion : forall z1 z2 W f W' f', In z2 shipped_zones -> astz z1 z2 W f = Ok (W', f') ->
  inst z2 W' f' = inst z1 W f /\
  W' = inst z1 W f + MEG * off_utc z2 (inst z1 W f / MEG) /\ f' = fold_utc z2 (inst z1 W f / MEG).
Proof. exact shipped_conversion. Qed.
Print Assumptions shipped_zone_conversion.

Theorem shipped_zone_chain : forall z1 z2 z3 W f W2 f2, In z2 shipped_zones -> astz z1 z2 W f = Ok (W2, f2) ->
  astz z2 z3 W2 f2 = astz z1 z3 W f.
Proof. exact shipped_chain. Qed.
Print Assumptions shipped_zone_chain.

Theorem shipped_zone_timestamp : forall z n W f, In z shipped_zones -> from_timestamp_int z false n = Ok (W, f) -> int_timestamp z W f = n.
Proof. exact shipped_timestamp. Qed.
Print Assumptions shipped_zone_timestamp.

(* ---- the MODEL side itself: the hand-written Model/TzConvert.v EQUALS the machine translation of pendulum's own code (Gen/TzGlue.v:
   src/pendulum/tz/timezone.py and src/pendulum/datetime.py translated from /repo on every run, tools/vlib/gens/g15_tz_glue.py), so a
   semantic change of the code breaks one of these proofs, not only a source pin.  Bridge (Proofs/TzGlueFacts.v): dt_of W f tz = the datetime
   object with wall W, fold f, tzinfo tz; res_of (Some tz) r = the object a model result (W', f') denotes in the zone of the timezone object tz;
   gtz_ok t = a FixedTimezone's table is fixed_zone of its offset; same_obj a b = equal identity tags mean the same object.  The native
   operations the code calls are the primitives of Model/TzGlueObj.v, each tied to CPython's source by a spec_is_stdlib_* theorem (C02, C11). ---- *)
From PV Require Import Spec.NativeDT Gen.AddDuration Model.TzGlueObj Gen.TzGlue Proofs.TzGlueFacts.

(* DateTime.in_timezone(tz) on an aware value = in_tz (the conversion rule of this property) *)
Theorem model_is_code_in_timezone : forall t1 tz W f, gtz_ok t1 -> gtz_ok tz -> same_obj t1 tz ->
  glue_DateTime_in_timezone (dt_of W f (Some t1)) tz = res_of (Some tz) (in_tz (gtz_is t1 tz) (gz_zone t1) (gz_zone tz) W f).
Proof. exact glue_in_timezone_aware. Qed.
Print Assumptions model_is_code_in_timezone.

(* ... on a naive value: fold is set to 1, then tz.convert = create with fold = 1 *)
Theorem model_is_code_in_timezone_naive : forall tz W f, wall_in_range W = true ->
  glue_DateTime_in_timezone (dt_of W f None) tz = res_of (Some tz) (create (gz_zone tz) (gz_fixed tz) W true false).
Proof. exact glue_in_timezone_naive. Qed.
Print Assumptions model_is_code_in_timezone_naive.

Theorem model_is_code_in_tz : forall d tz, glue_DateTime_in_tz d tz = glue_DateTime_in_timezone d tz.
Proof. exact glue_in_tz_is_in_timezone. Qed.
Print Assumptions model_is_code_in_tz.

(* DateTime.astimezone(tz) (native astimezone, then the field-by-field rebuild) = in_tz *)
Theorem model_is_code_astimezone : forall t1 tz W f, gtz_ok t1 -> gtz_ok tz -> same_obj t1 tz -> wall_in_range W = true ->
  glue_DateTime_astimezone (dt_of W f (Some t1)) tz = res_of (Some tz) (in_tz (gtz_is t1 tz) (gz_zone t1) (gz_zone tz) W f).
Proof. exact glue_astimezone. Qed.
Print Assumptions model_is_code_astimezone.

(* the native astimezone between pendulum timezone objects, with FixedTimezone.utcoffset / fromutc being the translated methods *)
Theorem model_is_code_native_astimezone : forall t1 t2 W f, gtz_ok t1 -> gtz_ok t2 -> same_obj t1 t2 ->
  nat_astimezone (dt_of W f (Some t1)) t2 = res_of (Some t2) (in_tz (gtz_is t1 t2) (gz_zone t1) (gz_zone t2) W f).
Proof. exact nat_astimezone_spec. Qed.
Print Assumptions model_is_code_native_astimezone.

(* DateTime.int_timestamp of an aware value = int_timestamp *)
Theorem model_is_code_int_timestamp : forall t W f, gtz_ok t -> same_obj t g_UTC -> wall_in_range W = true ->
  glue_DateTime_int_timestamp (dt_of W f (Some t)) = Ok (int_timestamp (gz_zone t) W f).
Proof. exact glue_int_timestamp. Qed.
Print Assumptions model_is_code_int_timestamp.

(* pendulum.from_timestamp(n, tz) for an integer n and a timezone object = from_timestamp_int (utcfromtimestamp, pendulum.datetime(.., tz=UTC),
   in_timezone); DateTime.instance(native, tz) = create with the fold of the native value in (native.tzinfo or tz) *)
From PV Require Import Model.WallHistory.
Theorem model_is_code_from_timestamp : forall tz n, gtz_ok tz -> same_obj g_UTC tz ->
  glue_from_timestamp n tz = res_of (Some tz) (from_timestamp_int (gz_zone tz) (gtz_is g_UTC tz) n).
Proof. exact glue_from_timestamp_spec. Qed.
Print Assumptions model_is_code_from_timestamp.

Theorem model_is_code_instance : forall tzo tzarg W f, wall_in_range W = true ->
  glue_DateTime_instance (dt_of W f tzo) tzarg = g_build (opt_tz_or tzo tzarg) W f false.
Proof. exact glue_instance_spec. Qed.
Print Assumptions model_is_code_instance.

(* ---- FLOAT timestamps: the model is the code.  Gen/FloatGlueGen.v (gens/g55_float_glue.py, tools/vlib/pyfloat2gallina.py) translates from /repo on
   every run pendulum.from_timestamp under a FLOAT timestamp (utcfromtimestamp(<float>) = the named CPython primitive
   Model/FloatGlue.nat_utcfromtimestamp_float = FloatRoutes.utcfromtimestamp_float_us + the year range check; then pendulum.datetime(.., tz=UTC) and
   in_timezone: the translated Gen/TzGlue functions) and DateTime.float_timestamp (= self.timestamp(), CPython's own: DateTime must not define it).
   They equal from_timestamp_float / timestamp_float of Model/FloatRoutes.v, about which the float theorems above speak.
   (int_timestamp and the integer from_timestamp: model_is_code_int_timestamp / model_is_code_from_timestamp above.) *)
From PV Require Import Spec.TdFloat Model.FloatRoutes Model.FloatGlue Gen.FloatGlueGen Proofs.FloatGlueFacts.

Theorem model_is_code_from_timestamp_float : forall tz t, gtz_ok tz -> same_obj g_UTC tz ->
  gen_from_timestamp_float t tz = res_of (Some tz) (from_timestamp_float (gz_zone tz) (gtz_is g_UTC tz) t).
Proof. exact gen_from_timestamp_float_eq. Qed.
Print Assumptions model_is_code_from_timestamp_float.

Theorem model_is_code_timestamp : forall t W f, gen_float_timestamp (dt_of W f (Some t)) = Ok (timestamp_float (gz_zone t) W f).
Proof. exact gen_float_timestamp_eq. Qed.
Print Assumptions model_is_code_timestamp.

(* pendulum._safe_timezone on every kind of argument it distinguishes (translated from /repo; None and "local" = system local timezone are out
   of scope): a pendulum timezone object is returned unchanged; a number of hours gives the FixedTimezone of that offset; a FOREIGN tzinfo is
   asked, IN THIS ORDER, for .key (zoneinfo -> Timezone(key)), .localize (pytz -> Timezone(obj.zone)), tzname(None) == "UTC" (-> pendulum.UTC),
   utcoffset(dt) (None = 0; truncated toward zero to whole seconds -> FixedTimezone); a string names the cached Timezone *)
Theorem model_is_code_safe_timezone : forall o, glue_safe_timezone o = safe_tz_table o.
Proof. exact glue_safe_timezone_spec. Qed.
Print Assumptions model_is_code_safe_timezone.

(* DateTime.instance(native, tz) when the tzinfo of the native value / the tz argument may be FOREIGN: the native fields and fold are read in the
   zone of the timezone object _safe_timezone assigns to (native.tzinfo or tz) — create in that zone = convert_naive with the NATIVE fold and
   raise_on_unknown_times = False: exactly the premises of instance_keeps_instant above (z = the zone of safe_tz_table, sf = the native fold) *)
Theorem model_is_code_instance_foreign : forall W f tzo tzarg, wall_in_range W = true ->
  glue_DateTime_instance_foreign (mkgfdt W (Z.b2z f) tzo) tzarg = g_build (option_map safe_tz_table (opt_ta_or tzo tzarg)) W f false.
Proof. exact glue_instance_foreign_spec. Qed.
Print Assumptions model_is_code_instance_foreign.
