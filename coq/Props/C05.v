(* Props/C05.v — an interval's length is the exact elapsed time between its endpoints.
   Only theorem statements; every proof is `exact <lemma>` (Proofs/C05Facts.v).
   Model: Model/IntervalLen.v (hand model of Interval.__new__/__init__, DateTime/Date.__sub__/__rsub__/diff, Duration(seconds=float); equal to /repo on every
   run by correspondence, both backends).  Zones: Spec/Zone.v; `inst z W f` = W - 10^6 * utcoffset(W, fold) is the UTC instant of a wall value; `ep_inst a` is that
   instant for an aware endpoint and the wall value itself for a naive one / a date.  Floats: Spec/TdFloat.v (SpecFloat binary64).
   An endpoint carries the identity of its tzinfo object (`e_obj`, 0 = None): `same_tz a b` is Python's `a.tzinfo is b.tzinfo`; NO theorem below assumes
   anything about how the two zones / objects are related (same object, same name through another object, different zones are all covered).
   Float premises: explicit hypotheses of the *_partial theorems (validated on every run); they are THEOREMS (Proofs/FloatRoundTrip*.v, through Flocq's
   correctness of binary64 division/multiplication/subtraction) and the last section of this file restates every *_partial theorem WITHOUT premise.  Those
   statements depend on the real-number axioms of Coq's standard library that Flocq uses (listed by Print Assumptions); the *_partial ones on nothing.
   The premises:
     float_roundtrip_exact_below_2_33 : timedelta(seconds=td.total_seconds()) == td for |td| < 2^33 s
     float_roundtrip_within_64        : the same round trip is within 64 us for |td| <= 3652061 days
     float_split_exact_on_D9 (C09), float_div_trunc_exact 60 / 3600 : int(td.total_seconds() / unit) is the truncated quotient for |td| < 2^33 s. *)
From Coq Require Import ZArith List Bool.
From Coq Require Import Floats.SpecFloat.
From PV Require Import Lib.PyBase Spec.Cal Spec.Zone Spec.TdFloat Model.Duration Model.TzConvert Model.IntervalLen.
From PV Require Import Proofs.ZoneFacts Proofs.C09Facts Proofs.C05Facts Proofs.FloatRoundTripC05 Proofs.C05Foreign.
Import ListNotations.
Open Scope Z_scope.

(* ---- the integer heart: what Interval.__new__ hands to total_seconds() *)
(* for ANY two aware endpoints (any tables, any folds, any wall values, shared tzinfo object or not): the difference of the UTC instants *)
Theorem interval_native_delta : forall a b D, e_dt a = true -> aware a = true -> aware b = true ->
  native_delta a b = Ok D -> D = ep_inst b - ep_inst a.
Proof. exact native_delta_aware. Qed.
Print Assumptions interval_native_delta.

(* endpoints that are the renderings of two instants in any two well-formed zones: exactly the time elapsed between those instants *)
Theorem interval_elapsed_between_rendered_instants : forall za zb Ua Ub na nb oa ob ca cb fxa fxb,
  wf_zone za = true -> wf_zone zb = true -> oa <> 0 -> ob <> 0 ->
  wall_in_range Ua = true -> wall_in_range Ub = true ->
  native_delta (mkep true na oa ca fxa za (fst (render za Ua)) (snd (render za Ua)))
               (mkep true nb ob cb fxb zb (fst (render zb Ub)) (snd (render zb Ub))) = Ok (Ub - Ua).
Proof. exact native_delta_rendered. Qed.
Print Assumptions interval_elapsed_between_rendered_instants.

(* the only failure: OverflowError, exactly when both share the tzinfo object and an instant leaves years 1..9999 *)
Theorem native_delta_total : forall a b,
  (forall e, native_delta a b = Raise e ->
     e = E_OverflowError /\ e_dt a = true /\ same_tz a b = true /\ aware a = true /\ aware b = true /\
     (wall_in_range (ep_inst a) = false \/ wall_in_range (ep_inst b) = false)) /\
  ((e_dt a = true -> same_tz a b = true -> aware a = true -> wall_in_range (ep_inst a) = true /\ wall_in_range (ep_inst b) = true) ->
   exists D, native_delta a b = Ok D).
Proof. intros a b. split; [exact (native_delta_raises a b) | exact (native_delta_ok a b)]. Qed.
Print Assumptions native_delta_total.

(* known finding edge-overflow-same-tzinfo: 0001-01-01T00:30+01:00 -> 0001-01-02T00:00+01:00 raises; with two distinct objects it is 84600 s *)
Theorem edge_overflow_refuted :
  wall_in_range (e_W edge_a) = true /\ wall_in_range (e_W edge_b) = true /\ ep_inst edge_b - ep_inst edge_a = 84600 * MEG /\
  interval_new_delta edge_a edge_b false = Raise E_OverflowError /\
  interval_new_delta edge_a (mkep true false 11 10 true (fixed_zone 3600) (86400 * MEG) false) false = Ok (84600 * MEG).
Proof. exact edge_overflow_witness. Qed.
Print Assumptions edge_overflow_refuted.

(* naive pairs and Date pairs: the wall-clock difference *)
Theorem naive_and_date_delta : forall a b,
  (e_dt a = false \/ (aware a = false /\ aware b = false)) -> native_delta a b = Ok (e_W b - e_W a).
Proof. exact native_delta_naive_date. Qed.
Print Assumptions naive_and_date_delta.

(* swapping the endpoints negates (all kinds of endpoints) *)
Theorem swap_negates : forall a b D, interval_new_delta a b false = Ok D -> interval_new_delta b a false = Ok (- D).
Proof. exact interval_delta_swap. Qed.
Print Assumptions swap_negates.

(* ---- absolute=True / diff()'s default / abs() *)
Theorem abs_is_magnitude_partial : forall a b D, e_dt a = true -> e_dt b = true -> aware a = true -> aware b = true ->
  (same_tz a b = true -> (e_W a >? e_W b) = (ep_inst a >? ep_inst b)) ->
  interval_new_delta a b true = Ok D -> D = Z.abs (ep_inst b - ep_inst a).
Proof. exact interval_abs_aware. Qed.
Print Assumptions abs_is_magnitude_partial.

Theorem abs_is_magnitude_naive_date : forall a b D, e_dt a = e_dt b -> (e_dt a = false \/ (aware a = false /\ aware b = false)) ->
  interval_new_delta a b true = Ok D -> D = Z.abs (e_W b - e_W a).
Proof. exact interval_abs_naive_date. Qed.
Print Assumptions abs_is_magnitude_naive_date.

(* known finding same-tzinfo-wall-order: in the complementary region the result is MINUS the magnitude *)
Theorem abs_is_negated_in_region : forall a b D, e_dt a = true -> e_dt b = true -> aware a = true -> aware b = true ->
  same_tz a b = true -> (e_W a >? e_W b) <> (ep_inst a >? ep_inst b) ->
  interval_new_delta a b true = Ok D -> D = - Z.abs (ep_inst b - ep_inst a).
Proof. exact interval_abs_region. Qed.
Print Assumptions abs_is_negated_in_region.

(* Europe/Paris 2013-10-27: a = 02:30 (second occurrence), b = 02:45 (first occurrence, 45 min earlier): both orders give -2700 s with absolute=True *)
Theorem abs_is_magnitude_refuted :
  wf2_zone paris13 = true /\ wall_repeated paris13 (W_0230 / MEG) /\ wall_repeated paris13 (W_0245 / MEG) /\
  ep_inst par_b - ep_inst par_a = - (2700 * MEG) /\
  interval_new_delta par_a par_b true = Ok (- (2700 * MEG)) /\
  interval_new_delta par_b par_a true = Ok (- (2700 * MEG)).
Proof. exact abs_refuted_witness. Qed.
Print Assumptions abs_is_magnitude_refuted.

Theorem abs_is_magnitude_refuted_interval :
  exists i, interval_make par_a par_b true = Ok i /\ d_N (i_dur i) = - (2700 * MEG) /\ dur_in_minutes (i_dur i) = Ok (-45).
Proof. exact abs_refuted_interval. Qed.
Print Assumptions abs_is_magnitude_refuted_interval.

(* the region needs two different offsets and walls closer than the offsets differ: it lives inside offset changes *)
Theorem wall_order_region_is_small : forall z Wa fa Wb fb,
  let oa := off_local z (Wa / MEG) fa in let ob := off_local z (Wb / MEG) fb in
  (Wa >? Wb) <> (inst z Wa fa >? inst z Wb fb) ->
  oa <> ob /\ Z.abs (Wa - Wb) <= MEG * Z.abs (oa - ob).
Proof. exact order_region_small. Qed.
Print Assumptions wall_order_region_is_small.

Theorem invert_flag_partial : forall a b ab i, e_native a = false -> e_native b = false ->
  e_dt a = true -> aware a = true -> aware b = true ->
  (same_tz a b = true -> (e_W a >? e_W b) = (ep_inst a >? ep_inst b)) ->
  interval_make a b ab = Ok i -> i_invert i = (ep_inst a >? ep_inst b).
Proof. exact invert_flag. Qed.
Print Assumptions invert_flag_partial.

Theorem invert_flag_refuted :
  exists i j, interval_make par_a par_b false = Ok i /\ i_invert i = false /\ d_N (i_dur i) = - (2700 * MEG)
           /\ interval_make par_b par_a false = Ok j /\ i_invert j = true /\ d_N (i_dur j) = 2700 * MEG.
Proof. exact invert_refuted_witness. Qed.
Print Assumptions invert_flag_refuted.

(* ---- the Duration: its native value is the float round trip of EXACTLY the elapsed microseconds (no premise) *)
Theorem interval_length_is_roundtrip_of_elapsed : forall a b i, e_dt a = true -> e_dt b = true -> aware a = true -> aware b = true ->
  interval_make a b false = Ok i ->
  td_of_float_seconds (total_seconds (ep_inst b - ep_inst a)) = Ok (d_N (i_dur i)) /\ d_abs (i_dur i) = false.
Proof. exact interval_length_roundtrip. Qed.
Print Assumptions interval_length_is_roundtrip_of_elapsed.

Theorem interval_length_is_roundtrip_naive_date : forall a b i,
  (e_dt a = false \/ (aware a = false /\ aware b = false)) -> interval_make a b false = Ok i ->
  td_of_float_seconds (total_seconds (e_W b - e_W a)) = Ok (d_N (i_dur i)).
Proof. exact interval_length_roundtrip_naive_date. Qed.
Print Assumptions interval_length_is_roundtrip_naive_date.

(* ---- exact below 2^33 s, within 64 us beyond, truncation: from the float premises *)
Theorem interval_length_exact_partial : float_roundtrip_exact_below_2_33 ->
  forall a b i, e_dt a = true -> e_dt b = true -> aware a = true -> aware b = true ->
  interval_make a b false = Ok i -> Z.abs (ep_inst b - ep_inst a) < B33 ->
  d_N (i_dur i) = ep_inst b - ep_inst a.
Proof. exact length_exact_partial. Qed.
Print Assumptions interval_length_exact_partial.

Theorem interval_length_exact_abs_partial : float_roundtrip_exact_below_2_33 ->
  forall a b i, e_dt a = true -> e_dt b = true -> aware a = true -> aware b = true ->
  (same_tz a b = true -> (e_W a >? e_W b) = (ep_inst a >? ep_inst b)) ->
  interval_make a b true = Ok i -> Z.abs (ep_inst b - ep_inst a) < B33 ->
  d_N (i_dur i) = Z.abs (ep_inst b - ep_inst a).
Proof. exact length_exact_abs_partial. Qed.
Print Assumptions interval_length_exact_abs_partial.

Theorem interval_length_exact_naive_date_partial : float_roundtrip_exact_below_2_33 ->
  forall a b i, (e_dt a = false \/ (aware a = false /\ aware b = false)) ->
  interval_make a b false = Ok i -> Z.abs (e_W b - e_W a) < B33 -> d_N (i_dur i) = e_W b - e_W a.
Proof. exact length_exact_naive_date_partial. Qed.
Print Assumptions interval_length_exact_naive_date_partial.

Theorem interval_length_64_partial : float_roundtrip_within_64 ->
  forall a b i, e_dt a = true -> e_dt b = true -> aware a = true -> aware b = true ->
  interval_make a b false = Ok i -> Z.abs (ep_inst b - ep_inst a) <= SPAN_MAX ->
  Z.abs (d_N (i_dur i) - (ep_inst b - ep_inst a)) <= 64.
Proof. exact length_64_partial. Qed.
Print Assumptions interval_length_64_partial.

Theorem swap_negates_length_partial : float_roundtrip_exact_below_2_33 ->
  forall a b i j, e_dt a = true -> e_dt b = true -> aware a = true -> aware b = true ->
  interval_make a b false = Ok i -> interval_make b a false = Ok j -> Z.abs (ep_inst b - ep_inst a) < B33 ->
  d_N (i_dur j) = - d_N (i_dur i).
Proof. exact C05Facts.swap_negates_length_partial. Qed.
Print Assumptions swap_negates_length_partial.

(* in_seconds / in_minutes / in_hours: the elapsed time truncated toward zero (Z.quot; see quot_truncates_toward_zero) *)
Theorem in_seconds_minutes_hours_trunc_partial :
  float_roundtrip_exact_below_2_33 -> float_split_exact_on_D9 -> float_div_trunc_exact 60 -> float_div_trunc_exact 3600 ->
  forall a b i, e_dt a = true -> e_dt b = true -> aware a = true -> aware b = true ->
  interval_make a b false = Ok i -> Z.abs (ep_inst b - ep_inst a) < B33 ->
  let D := ep_inst b - ep_inst a in
  dur_in_seconds (i_dur i) = Ok (Z.quot D 1000000) /\
  dur_in_minutes (i_dur i) = Ok (Z.quot D 60000000) /\
  dur_in_hours (i_dur i) = Ok (Z.quot D 3600000000).
Proof. exact in_units_trunc_partial. Qed.
Print Assumptions in_seconds_minutes_hours_trunc_partial.

Theorem quot_truncates_toward_zero : forall D u, 0 < u ->
  exists r, D = Z.quot D u * u + r /\ Z.abs r < u /\ (0 <= D -> 0 <= r) /\ (D <= 0 -> r <= 0).
Proof. exact quot_is_trunc. Qed.
Print Assumptions quot_truncates_toward_zero.

(* ---- subtracting a native datetime *)
(* a stdlib aware operand that denotes a valid local time keeps its fields and its instant through DateTime.instance *)
Theorem native_operand_keeps_instant : forall o o', e_native o = true -> e_dt o = true -> aware o = true -> e_canon o <> 0 ->
  (e_fixed o = true -> exists off, e_zone o = fixed_zone off) ->
  ~ wall_skipped (e_zone o) (sec (e_W o)) ->
  normalise_operand o = Ok o' ->
  e_native o' = false /\ e_dt o' = true /\ aware o' = true /\ e_obj o' = e_canon o /\ e_zone o' = e_zone o /\
  e_W o' = e_W o /\ ep_inst o' = ep_inst o.
Proof. exact normalise_native_valid. Qed.
Print Assumptions native_operand_keeps_instant.

(* pendulum - native and native - pendulum: the round trip of exactly the difference of the instants as CPython reads the native value *)
Theorem sub_native_same_length : forall self o i, e_dt self = true -> aware self = true ->
  e_native o = true -> e_dt o = true -> aware o = true -> e_canon o <> 0 ->
  (e_fixed o = true -> exists off, e_zone o = fixed_zone off) ->
  ~ wall_skipped (e_zone o) (sec (e_W o)) ->
  (dt_sub self o = Ok i -> td_of_float_seconds (total_seconds (ep_inst self - ep_inst o)) = Ok (d_N (i_dur i))) /\
  (dt_rsub self o = Ok i -> td_of_float_seconds (total_seconds (ep_inst o - ep_inst self)) = Ok (d_N (i_dur i))).
Proof. exact sub_native_roundtrip. Qed.
Print Assumptions sub_native_same_length.

Theorem sub_native_same_length_exact_partial : float_roundtrip_exact_below_2_33 ->
  forall self o i, e_dt self = true -> aware self = true ->
  e_native o = true -> e_dt o = true -> aware o = true -> e_canon o <> 0 ->
  (e_fixed o = true -> exists off, e_zone o = fixed_zone off) ->
  ~ wall_skipped (e_zone o) (sec (e_W o)) -> Z.abs (ep_inst self - ep_inst o) < B33 ->
  (dt_sub self o = Ok i -> d_N (i_dur i) = ep_inst self - ep_inst o) /\
  (dt_rsub self o = Ok i -> d_N (i_dur i) = ep_inst o - ep_inst self).
Proof. exact sub_native_exact_partial. Qed.
Print Assumptions sub_native_same_length_exact_partial.

Theorem sub_pendulum_operand_unchanged : forall self o, e_native o = false ->
  dt_sub self o = interval_make o self false /\ dt_rsub self o = interval_make self o false.
Proof. exact sub_pendulum. Qed.
Print Assumptions sub_pendulum_operand_unchanged.

(* a stdlib operand on a SKIPPED wall time is first moved by the gap (documented normalisation, C02): the measured instant is
   wall - utcoffset(other fold), i.e. CPython's reading moved by exactly the gap *)
Theorem native_operand_skipped_is_shifted : forall o o', e_native o = true -> e_dt o = true -> aware o = true -> e_canon o <> 0 ->
  e_fixed o = false -> wf2_zone (e_zone o) = true -> wall_skipped (e_zone o) (sec (e_W o)) ->
  normalise_operand o = Ok o' ->
  ep_inst o' = e_W o - MEG * off_local (e_zone o) (sec (e_W o)) (negb (e_fold o)) /\
  ep_inst o' - ep_inst o = (if e_fold o then 1 else -1) * MEG * (off_local (e_zone o) (sec (e_W o)) true - off_local (e_zone o) (sec (e_W o)) false).
Proof. exact normalise_native_skipped. Qed.
Print Assumptions native_operand_skipped_is_shifted.

(* ---- closed float facts (kernel computation on the SpecFloat model) *)
Theorem float_roundtrip_exact_borders :
  Forall (fun N => Z.abs N < B33 /\ td_of_float_seconds (total_seconds N) = Ok N) rt_border_points.
Proof. exact roundtrip_borders. Qed.
Print Assumptions float_roundtrip_exact_borders.

(* k units -1us / exact / +1us, both signs, k = 0..600, for seconds, minutes and hours *)
Theorem float_div_trunc_unit_boundaries : forall unit k, (unit = 1 \/ unit = 60 \/ unit = 3600) -> 0 <= k <= 600 ->
  forall d, (d = -1 \/ d = 0 \/ d = 1) ->
  py_int_trunc (fdiv (total_seconds (k * unit * 1000000 + d)) (sf_of_Z unit)) = Ok (Z.quot (k * unit * 1000000 + d) (unit * 1000000)) /\
  py_int_trunc (fdiv (total_seconds (- (k * unit * 1000000) - d)) (sf_of_Z unit)) = Ok (Z.quot (- (k * unit * 1000000) - d) (unit * 1000000)).
Proof. exact div_trunc_small_k. Qed.
Print Assumptions float_div_trunc_unit_boundaries.

(* ... and for k around every power of two up to the top of the exact range *)
Theorem float_div_trunc_pow2_boundaries : forall unit, (unit = 1 \/ unit = 60 \/ unit = 3600) ->
  Forall (fun k => unit_boundaryb unit k = true /\ (k + 1) * unit * 1000000 <= B33) (pow2_ks unit).
Proof. exact div_trunc_pow2. Qed.
Print Assumptions float_div_trunc_pow2_boundaries.

Theorem float_roundtrip_within_64_far_points :
  Forall (fun N => exists M, td_of_float_seconds (total_seconds N) = Ok M /\ Z.abs (M - N) <= 64 /\ B33 <= Z.abs N <= SPAN_MAX)
  [SPAN_MAX; - SPAN_MAX; SPAN_MAX - 1; 3652059 * 86400000000 - 1; 2 ^ 38 * 1000000 + 1; 2 ^ 38 * 1000000 - 1; - (2 ^ 37 * 1000000) - 31; 17999999999999999; B33; B33 + 1].
Proof. exact within_64_far. Qed.
Print Assumptions float_roundtrip_within_64_far_points.

(* ---- the bound 2^33 s is sharp *)
Theorem interval_length_exact_beyond_refuted :
  exists i, interval_make (utc_ep 0) (utc_ep (B33 + 1)) false = Ok i /\
            ep_inst (utc_ep (B33 + 1)) - ep_inst (utc_ep 0) = B33 + 1 /\ d_N (i_dur i) = B33 + 2.
Proof. exact length_exact_beyond_refuted. Qed.
Print Assumptions interval_length_exact_beyond_refuted.

Theorem in_units_trunc_beyond_refuted :
  exists i, interval_make (utc_ep 1000000) (utc_ep (1000000 + 17999999999999999)) false = Ok i /\
            dur_in_hours (i_dur i) = Ok 5000000 /\ Z.quot 17999999999999999 3600000000 = 4999999 /\
            dur_in_seconds (i_dur i) = Ok 18000000000 /\ Z.quot 17999999999999999 1000000 = 17999999999.
Proof. exact in_units_beyond_refuted. Qed.
Print Assumptions in_units_trunc_beyond_refuted.


(* ---- the float premises are THEOREMS: every *_partial statement above holds unconditionally.
   Print Assumptions lists the standard-library axioms these proofs rest on (classical reals, as used by Flocq); nothing is assumed by this development. *)
Theorem float_premises_hold :
  float_roundtrip_exact_below_2_33 /\ float_roundtrip_within_64 /\ float_split_exact_on_D9 /\ float_div_trunc_exact 60 /\ float_div_trunc_exact 3600.
Proof.
  exact (conj float_roundtrip_exact_below_2_33_proved (conj float_roundtrip_within_64_proved
        (conj FloatRoundTripC09.float_split_exact_on_D9_proved (conj float_div_trunc_exact_60_proved float_div_trunc_exact_3600_proved)))).
Qed.
Print Assumptions float_premises_hold.

(* the length of an interval between two aware endpoints less than 2^33 s (272 years) apart is EXACTLY the elapsed time between their UTC instants *)
Theorem interval_length_exact :
  forall a b i, e_dt a = true -> e_dt b = true -> aware a = true -> aware b = true ->
  interval_make a b false = Ok i -> Z.abs (ep_inst b - ep_inst a) < B33 ->
  d_N (i_dur i) = ep_inst b - ep_inst a.
Proof. exact length_exact_proved. Qed.
Print Assumptions interval_length_exact.

Theorem interval_length_exact_abs :
  forall a b i, e_dt a = true -> e_dt b = true -> aware a = true -> aware b = true ->
  (same_tz a b = true -> (e_W a >? e_W b) = (ep_inst a >? ep_inst b)) ->
  interval_make a b true = Ok i -> Z.abs (ep_inst b - ep_inst a) < B33 ->
  d_N (i_dur i) = Z.abs (ep_inst b - ep_inst a).
Proof. exact length_exact_abs_proved. Qed.
Print Assumptions interval_length_exact_abs.

Theorem interval_length_exact_naive_date :
  forall a b i, (e_dt a = false \/ (aware a = false /\ aware b = false)) ->
  interval_make a b false = Ok i -> Z.abs (e_W b - e_W a) < B33 -> d_N (i_dur i) = e_W b - e_W a.
Proof. exact length_exact_naive_date_proved. Qed.
Print Assumptions interval_length_exact_naive_date.

(* over the whole calendar (any two instants of years 1..9999) the length is within 64 us of the elapsed time *)
Theorem interval_length_64 :
  forall a b i, e_dt a = true -> e_dt b = true -> aware a = true -> aware b = true ->
  interval_make a b false = Ok i -> Z.abs (ep_inst b - ep_inst a) <= SPAN_MAX ->
  Z.abs (d_N (i_dur i) - (ep_inst b - ep_inst a)) <= 64.
Proof. exact length_64_proved. Qed.
Print Assumptions interval_length_64.

Theorem swap_negates_length :
  forall a b i j, e_dt a = true -> e_dt b = true -> aware a = true -> aware b = true ->
  interval_make a b false = Ok i -> interval_make b a false = Ok j -> Z.abs (ep_inst b - ep_inst a) < B33 ->
  d_N (i_dur j) = - d_N (i_dur i).
Proof. exact swap_negates_length_proved. Qed.
Print Assumptions swap_negates_length.

Theorem in_seconds_minutes_hours_trunc :
  forall a b i, e_dt a = true -> e_dt b = true -> aware a = true -> aware b = true ->
  interval_make a b false = Ok i -> Z.abs (ep_inst b - ep_inst a) < B33 ->
  let D := ep_inst b - ep_inst a in
  dur_in_seconds (i_dur i) = Ok (Z.quot D 1000000) /\
  dur_in_minutes (i_dur i) = Ok (Z.quot D 60000000) /\
  dur_in_hours (i_dur i) = Ok (Z.quot D 3600000000).
Proof. exact in_units_trunc_proved. Qed.
Print Assumptions in_seconds_minutes_hours_trunc.

Theorem sub_native_same_length_exact :
  forall self o i, e_dt self = true -> aware self = true ->
  e_native o = true -> e_dt o = true -> aware o = true -> e_canon o <> 0 ->
  (e_fixed o = true -> exists off, e_zone o = fixed_zone off) ->
  ~ wall_skipped (e_zone o) (sec (e_W o)) -> Z.abs (ep_inst self - ep_inst o) < B33 ->
  (dt_sub self o = Ok i -> d_N (i_dur i) = ep_inst self - ep_inst o) /\
  (dt_rsub self o = Ok i -> d_N (i_dur i) = ep_inst o - ep_inst self).
Proof. exact sub_native_exact_proved. Qed.
Print Assumptions sub_native_same_length_exact.

(* ---- the MODEL side itself: Model/IntervalLen.v EQUALS the machine translation of pendulum's own code (Gen/IntervalGlue.v: interval.py
   Interval.__new__, datetime.py DateTime.diff / __sub__ / __rsub__, date.py Date.diff / __sub__, __init__.py naive — translated from /repo on
   every run, tools/vlib/gens/g17_interval_glue.py).  An endpoint is an object WITH ITS CLASS TAG (Model/IntervalObj.v gobj: native date /
   native datetime / pendulum Date / pendulum DateTime); ep_of maps it to the endpoint record of the model; obj_ok = well-formed object.
   Stated for the DELTA of the Interval (the `_end - _start` of __new__): the tail Duration.__new__(cls, seconds=delta.total_seconds()) is
   Spec/TdFloat.v + Model/Duration.v (C09 model_is_code_duration_new); Interval.__init__ is not translated. ---- *)
From PV Require Import Model.TzGlueObj Gen.TzGlue Model.IntervalObj Gen.IntervalGlue Proofs.IntervalGlueNew Proofs.IntervalGlueFacts.

(* Interval.__new__: type check, naive/aware check, the `absolute and start > end` swap, native rebuilds WITH fold, removal of the offsets by
   hand when both rebuilt natives carry the same tzinfo OBJECT, native subtraction — EVERY pair of well-formed objects and both values of absolute *)
Theorem model_is_code_interval_new : forall a b abs, obj_ok a -> obj_ok b ->
  glue_Interval_new_delta a b abs = interval_new_delta (ep_of a) (ep_of b) abs.
Proof. exact glue_interval_new. Qed.
Print Assumptions model_is_code_interval_new.

(* the translation itself is this small function over the native primitives (no hypothesis) *)
Theorem model_is_code_interval_new_shape : forall a b abs, glue_Interval_new_delta a b abs = spec_new a b abs.
Proof. exact glue_new_is_spec. Qed.
Print Assumptions model_is_code_interval_new_shape.

(* DateTime.diff(dt, abs) builds Interval(self, dt, absolute=abs) *)
Theorem model_is_code_diff : forall self dt abs, glue_DateTime_diff_delta self dt abs = glue_Interval_new_delta self dt abs.
Proof. exact glue_dt_diff. Qed.
Print Assumptions model_is_code_diff.

(* self - other (a datetime): other is normalised (a native naive value through pendulum.naive with its default fold 1, a native aware value
   through DateTime.instance, a pendulum DateTime unchanged), then other.diff(self, False) = Interval(other, self) *)
Theorem model_is_code_sub_datetime : forall self other,
  glue_DateTime___sub___datetime self other = bind (norm_operand self other) (fun o => glue_Interval_new_delta o self false).
Proof. exact glue_dt_sub_datetime. Qed.
Print Assumptions model_is_code_sub_datetime.

(* other - self evaluated by self.__rsub__(other): the same normalisation, then self.diff(other, False) = Interval(self, other) *)
Theorem model_is_code_rsub_datetime : forall self other,
  glue_DateTime___rsub__ self other = bind (norm_operand self other) (fun o => glue_Interval_new_delta self o false).
Proof. exact glue_dt_rsub. Qed.
Print Assumptions model_is_code_rsub_datetime.

(* Date.diff / Date.__sub__ with a date operand: both sides are rebuilt as pendulum Dates first *)
Theorem model_is_code_date_diff : forall self dt abs,
  glue_Date_diff_delta self dt abs = bind (o_pdate_new (o_year dt) (o_month dt) (o_day dt)) (fun d => glue_Interval_new_delta self d abs).
Proof. exact glue_date_diff. Qed.
Print Assumptions model_is_code_date_diff.

Theorem model_is_code_date_sub_date : forall self other,
  glue_Date___sub___date self other =
  bind (o_pdate_new (o_year other) (o_month other) (o_day other)) (fun d =>
  bind (o_pdate_new (o_year self) (o_month self) (o_day self)) (fun s => glue_Interval_new_delta d s false)).
Proof. exact glue_date_sub_date. Qed.
Print Assumptions model_is_code_date_sub_date.

Theorem model_is_code_naive_operand : forall o, wall_in_range (o_wall o) = true ->
  glue_pendulum_naive_7 (o_year o) (o_month o) (o_day o) (o_hour o) (o_minute o) (o_second o) (o_microsecond o) = Ok (mkgobj 3 (o_wall o) 1 None).
Proof. exact glue_naive_operand. Qed.
Print Assumptions model_is_code_naive_operand.

(* Interval.__init__ (translated up to precise_diff: endpoint normalisation through pendulum.instance / pendulum.date, the native rebuilds WITH
   fold, _invert = start > end, the absolute swap) = the endpoint part of interval_make; and Interval(a, b, absolute) as the WHOLE record of the
   model: __new__'s delta, the Duration built from it (Spec/TdFloat.v + Model/Duration.v), __init__'s endpoints and _invert.
   The fourth and fifth components of the translated __init__ are the two values it hands to precise_diff (C06). *)
From PV Require Import Proofs.IntervalGlueInit.
Theorem model_is_code_interval_init : forall a b abs, obj_ok a -> obj_ok b ->
  init_image (glue_Interval_init a b abs) = iv_endpoints (ep_of a) (ep_of b) abs.
Proof. exact glue_init_endpoints. Qed.
Print Assumptions model_is_code_interval_init.

Theorem model_is_code_interval_init_shape : forall a b abs, glue_Interval_init a b abs = spec_init a b abs.
Proof. exact glue_init_is_spec. Qed.
Print Assumptions model_is_code_interval_init_shape.

Theorem model_is_code_interval_make : forall a b abs, obj_ok a -> obj_ok b ->
  interval_make (ep_of a) (ep_of b) abs =
  bind (glue_Interval_new_delta a b abs) (fun D => bind (duration_of_float_seconds (total_seconds D)) (fun d =>
  bind (init_image (glue_Interval_init a b abs)) (fun '(inv, s, e) => Ok (mkival d inv s e abs)))).
Proof. exact glue_interval_make. Qed.
Print Assumptions model_is_code_interval_make.

(* one endpoint of __init__: a native datetime goes through the translated pendulum.instance -> DateTime.instance(tz=UTC), a native date through
   pendulum.date, a pendulum object is kept (and rebuilt natively for precise_diff) = instance_ep of the model; the result is again well-formed *)
Theorem model_is_code_instance_ep : forall o, obj_ok o ->
  match init_norm o with
  | Ok (p, n) => instance_ep (ep_of o) = Ok (ep_of p) /\ obj_ok p
  | Raise e => instance_ep (ep_of o) = Raise e
  end.
Proof. exact init_norm_ep. Qed.
Print Assumptions model_is_code_instance_ep.

Theorem model_is_code_pendulum_instance_date : forall o tz, obj_ok o -> is_dt o = false ->
  glue_pendulum_instance o tz = if is_pdate o then Ok o else Ok (mkgobj 2 (o_wall o) 0 None).
Proof. exact glue_pendulum_instance_date. Qed.
Print Assumptions model_is_code_pendulum_instance_date.

(* self - other and other - self (a datetime operand) as WHOLE results of the model: the operand normalisation of the translated __sub__ / __rsub__
   IS normalise_operand (native naive -> pendulum.naive with fold 1; native aware -> DateTime.instance(tz=UTC) = create in the zone of its tzinfo;
   a pendulum DateTime unchanged), and the Interval built from it is interval_make (model_is_code_interval_make) *)
Theorem model_is_code_normalise_operand : forall self other, obj_ok other -> is_dt other = true ->
  match norm_operand self other with
  | Ok p => normalise_operand (ep_of other) = Ok (ep_of p) /\ obj_ok p
  | Raise e => normalise_operand (ep_of other) = Raise e
  end.
Proof. exact norm_operand_ep. Qed.
Print Assumptions model_is_code_normalise_operand.

Theorem model_is_code_dt_sub : forall self other, obj_ok self -> obj_ok other -> is_dt other = true ->
  dt_sub (ep_of self) (ep_of other) =
  match norm_operand self other with Ok p => interval_make (ep_of p) (ep_of self) false | Raise e => Raise e end.
Proof. exact glue_dt_sub_whole. Qed.
Print Assumptions model_is_code_dt_sub.

Theorem model_is_code_dt_rsub : forall self other, obj_ok self -> obj_ok other -> is_dt other = true ->
  dt_rsub (ep_of self) (ep_of other) =
  match norm_operand self other with Ok p => interval_make (ep_of self) (ep_of p) false | Raise e => Raise e end.
Proof. exact glue_dt_rsub_whole. Qed.
Print Assumptions model_is_code_dt_rsub.

Theorem model_is_code_dt_sub_delta : forall self other, obj_ok self -> obj_ok other -> is_dt other = true ->
  glue_DateTime___sub___datetime self other = bind (normalise_operand (ep_of other)) (fun o => interval_new_delta o (ep_of self) false).
Proof. exact glue_dt_sub_delta. Qed.
Print Assumptions model_is_code_dt_sub_delta.

Theorem model_is_code_dt_rsub_delta : forall self other, obj_ok self -> obj_ok other -> is_dt other = true ->
  glue_DateTime___rsub__ self other = bind (normalise_operand (ep_of other)) (fun o => interval_new_delta (ep_of self) o false).
Proof. exact glue_dt_rsub_delta. Qed.
Print Assumptions model_is_code_dt_rsub_delta.

(* Interval.__abs__ / __neg__ (ival_abs / ival_neg of the model: Interval(start, end, True) / Interval(end, start, self._absolute)) *)
Theorem model_is_code_interval_abs : forall g, obj_ok (gv_start g) -> obj_ok (gv_end g) ->
  glue_Interval___abs___delta g = interval_new_delta (ep_of (gv_start g)) (ep_of (gv_end g)) true.
Proof. exact glue_interval_abs_model. Qed.
Print Assumptions model_is_code_interval_abs.

Theorem model_is_code_interval_neg : forall g, obj_ok (gv_start g) -> obj_ok (gv_end g) ->
  glue_Interval___neg___delta g = interval_new_delta (ep_of (gv_end g)) (ep_of (gv_start g)) (gv_abs g).
Proof. exact glue_interval_neg_model. Qed.
Print Assumptions model_is_code_interval_neg.

(* the listed finding neg-absolute-interval, read off the translated code: -i of an ABSOLUTE Interval with start < end has the delta of i itself
   (absolute is passed on, so __new__'s swap undoes the exchange of the endpoints) *)
Theorem model_is_code_neg_of_absolute_interval : forall a b, obj_ok a -> obj_ok b -> obj_gt a b = Ok false -> obj_gt b a = Ok true ->
  glue_Interval___neg___delta (mkgiv a b true) = glue_Interval_new_delta a b true.
Proof. exact neg_of_absolute_is_not_negated. Qed.
Print Assumptions model_is_code_neg_of_absolute_interval.

(* ---- foreign tzinfo objects: the class of the tzinfo object an endpoint carries (pendulum Timezone / FixedTimezone, zoneinfo.ZoneInfo, datetime.timezone,
   a hand-written subclass, dateutil) is irrelevant.  `relabelled a a'` : a' is a with ANOTHER tzinfo object (identity / cached counterpart free) that has the same
   utcoffset() rules and is None exactly when a's is.  With the same `is` pattern between the two endpoints nothing changes. *)
Theorem length_independent_of_tzinfo_class : forall a b a' b' absolute, relabelled a a' -> relabelled b b' -> same_tz a' b' = same_tz a b ->
  interval_new_delta a' b' absolute = interval_new_delta a b absolute.
Proof. exact new_delta_relabel. Qed.
Print Assumptions length_independent_of_tzinfo_class.

(* two pendulum DateTimes: native microseconds, in_seconds, in_minutes, in_hours and invert of Interval(a, b, absolute) *)
Theorem observed_interval_independent_of_tzinfo_class : forall a b a' b' absolute,
  e_native a = false -> e_native b = false ->
  relabelled a a' -> relabelled b b' -> same_tz a' b' = same_tz a b ->
  bind (interval_make a' b' absolute) ival_observe = bind (interval_make a b absolute) ival_observe.
Proof. exact make_observe_relabel. Qed.
Print Assumptions observed_interval_independent_of_tzinfo_class.

(* two aware endpoints that share ONE tzinfo object (of any class): the delta is the wall difference CORRECTED by the difference of the two utcoffsets
   (an endpoint rebuilt without its tzinfo would give the bare wall difference) *)
Theorem shared_tzinfo_object_delta_corrects_wall_difference : forall a b D, e_dt a = true -> e_dt b = true -> aware a = true -> aware b = true ->
  same_tz a b = true -> interval_new_delta a b false = Ok D ->
  D = (e_W b - e_W a) - (( e_W b - inst (e_zone b) (e_W b) (e_fold b)) - (e_W a - inst (e_zone a) (e_W a) (e_fold a))).
Proof. exact shared_object_delta_is_not_wall_difference. Qed.
Print Assumptions shared_tzinfo_object_delta_corrects_wall_difference.
