(* Props/C05.v — an interval's length is the exact elapsed time between its endpoints. *)
From Coq Require Import ZArith List Bool.
From PV Require Import Lib.PyBase Spec.Zone Spec.TdFloat Model.Duration Model.IntervalLen Proofs.C05Facts.
Import ListNotations.
Open Scope Z_scope.

Theorem interval_native_delta : forall a b D, e_dt a = true -> aware a = true -> aware b = true ->
  native_delta a b = Ok D -> D = ep_inst b - ep_inst a.
Proof. exact native_delta_aware. Qed.
Print Assumptions interval_native_delta.
