(* Props/C02.v — wall-clock construction is normalised by the documented DST rules.
   Models: Spec/Zone.v (zoneinfo's view of a tz-database zone), Model/TzConvert.v (Timezone.convert, DateTime.create),
   Model/WallHistory.v (a construction after a history: set/on/at/replace read the fold the earlier steps left on the instance).
   Every theorem holds for EVERY well-formed zone table and every wall value (no bound on instants or zones). *)
From Coq Require Import ZArith Bool List.
From PV Require Import Lib.PyBase Spec.Cal Spec.Zone Proofs.ZoneFacts Proofs.ZoneWindow Proofs.ZoneGap Model.TzConvert Proofs.C02Facts
  Model.WallHistory Proofs.C02History.
Import ListNotations.
Open Scope Z_scope.

(* PEP 495: every wall second is exactly one of unique / repeated (two instants, fold tells them apart) / skipped (no instant) *)
Theorem wall_time_trichotomy : forall z w, wf_zone z = true ->
  (wall_unique z w /\ (forall u, renders_to z u w <-> u = w - off_local z w false)) \/
  (wall_repeated z w /\ (forall u, renders_to z u w <-> (u = w - off_local z w false \/ u = w - off_local z w true)) /\
     fold_utc z (w - off_local z w false) = false /\ fold_utc z (w - off_local z w true) = true) \/
  (wall_skipped z w /\ forall u, ~ renders_to z u w).
Proof. exact wall_trichotomy. Qed.
Print Assumptions wall_time_trichotomy.

Theorem construct_unique : forall z W f, wf_zone z = true -> wall_unique z (sec W) -> forall r,
  convert_naive z W f r = Ok (W, f) /\
  (forall u, renders_to z u (sec W) <-> u = sec W - off_local z (sec W) f) /\
  off_utc z (sec W - off_local z (sec W) f) = off_local z (sec W) f.
Proof. exact create_unique. Qed.
Print Assumptions construct_unique.

Theorem construct_repeated : forall z W f, wf_zone z = true -> wall_repeated z (sec W) ->
  convert_naive z W f false = Ok (W, f) /\
  renders_to z (sec W - off_local z (sec W) false) (sec W) /\ renders_to z (sec W - off_local z (sec W) true) (sec W) /\
  sec W - off_local z (sec W) false < sec W - off_local z (sec W) true /\
  inst z W f = (if f then W - MEG * off_local z (sec W) true else W - MEG * off_local z (sec W) false) /\
  (forall u, renders_to z u (sec W) <-> (u = sec W - off_local z (sec W) false \/ u = sec W - off_local z (sec W) true)).
Proof. exact create_repeated. Qed.
Print Assumptions construct_repeated.

Theorem construct_skipped : forall z W, wf2_zone z = true -> wall_skipped z (sec W) ->
  let g := off_local z (sec W) true - off_local z (sec W) false in
  0 < g /\
  (wall_in_range (W + MEG * g) = true -> convert_naive z W true false = Ok (W + MEG * g, false)) /\
  (wall_in_range (W - MEG * g) = true -> convert_naive z W false false = Ok (W - MEG * g, false)) /\
  (forall f', off_local z (sec W + g) f' = off_local z (sec W) true) /\
  (forall f', off_local z (sec W - g) f' = off_local z (sec W) false) /\
  sec (W + MEG * g) = sec W + g /\ sec (W - MEG * g) = sec W - g.
Proof. exact (fun z W => create_skipped z W true). Qed.
Print Assumptions construct_skipped.

Theorem construct_raises_iff : forall z W f, wf_zone z = true ->
  (convert_naive z W f true = Raise E_NonExistingTime <-> (forall u, ~ renders_to z u (sec W))) /\
  (convert_naive z W f true = Raise E_AmbiguousTime <-> (exists u1 u2, u1 <> u2 /\ renders_to z u1 (sec W) /\ renders_to z u2 (sec W))) /\
  (convert_naive z W f true = Ok (W, f) <-> (exists u, forall u', renders_to z u' (sec W) <-> u' = u)).
Proof. exact create_raises_iff. Qed.
Print Assumptions construct_raises_iff.

Theorem construct_valid : forall z W f r W' f', wf2_zone z = true -> convert_naive z W f r = Ok (W', f') ->
  let U := inst z W' f' in fst (render z U) = W' /\ off_utc z (U / MEG) = off_local z (sec W') f'.
Proof. exact create_valid. Qed.
Print Assumptions construct_valid.

Theorem construct_fixed_offset : forall o W f r, convert_naive (fixed_zone o) W f r = Ok (W, f).
Proof. exact create_fixed. Qed.
Print Assumptions construct_fixed_offset.

(* the hypotheses are satisfiable: a real table with a gap and an overlap *)
Theorem nonvacuous_paris_2013 : let z := mkzone 3600 (cons (1364691600, 7200) (cons (1382835600, 3600) nil)) in
  wf2_zone z = true /\ wall_skipped z (1364691600 + 3600 + 1800) /\ wall_repeated z (1382835600 + 3600 + 1800).
Proof. exact paris_2013. Qed.
Print Assumptions nonvacuous_paris_2013.

(* lookups depend only on the transitions near the queried instant: the harness may feed the model a window of the real table *)
Theorem zone_window_irrelevance : forall init pre mid post u w f,
  passed_utc pre u -> before_first post u ->
  passed_local init pre w f -> before_first_local (last_off (last_off init pre) mid) post w f ->
  off_utc_l init (pre ++ mid ++ post) u = off_utc_l (last_off init pre) mid u /\
  off_local_l init (pre ++ mid ++ post) w f = off_local_l (last_off init pre) mid w f.
Proof. exact window_irrelevance. Qed.
Print Assumptions zone_window_irrelevance.

Theorem zone_window_irrelevance_fold : forall init pre mid post u acc,
  pre <> nil -> passed_fold init pre u -> before_first post u ->
  fold_utc_l init (pre ++ mid ++ post) u acc = fold_utc_l (last_off init pre) mid u false.
Proof. exact window_irrelevance_fold. Qed.
Print Assumptions zone_window_irrelevance_fold.

(* "moved by the length of the gap": the amount off_local w 1 - off_local w 0 used by the construction rule is exactly the length of the
   maximal interval of non-existent wall seconds around w *)
Theorem gap_length_is_exact : forall z w, wf_zone z = true -> wall_skipped z w ->
  let g := off_local z w true - off_local z w false in
  exists a, a <= w < a + g /\
    (forall w', a <= w' < a + g -> wall_skipped z w' /\ off_local z w' false = off_local z w false /\ off_local z w' true = off_local z w true) /\
    ~ wall_skipped z (a + g) /\ ~ wall_skipped z (a - 1).
Proof. exact gap_is_interval. Qed.
Print Assumptions gap_length_is_exact.

(* ---------------------------------------------------------------------------------------------------------------------------------------
   A construction AFTER A HISTORY (Model/WallHistory.v).  set()/on()/at()/replace() read the fold of the instance; hfinal st ops is the
   value after the operations ops.  "Transparent" = the result is the direct construction with the fold that was asked for. *)

(* built in a named zone where the wall time exists (once or twice), then read in another zone with set(tz=)/replace(tzinfo=) *)
Theorem history_named_zone_transparent : forall z1 z2 fx2 W f st, ~ wall_skipped z1 (sec W) ->
  hfinal st [OCreate z1 false W f false; OSetTz z2 fx2] = hfinal st [OCreate z2 fx2 W f false].
Proof. exact named_zone_transparent. Qed.
Print Assumptions history_named_zone_transparent.

(* UTC, or any named zone without transitions: unconditionally, whatever raise_on_unknown_times was *)
Theorem history_utc_transparent : forall o z2 fx2 W f r st,
  hfinal st [OCreate (fixed_zone o) false W f r; OSetTz z2 fx2] = hfinal st [OCreate z2 fx2 W f false].
Proof. exact utc_transparent. Qed.
Print Assumptions history_utc_transparent.

(* other fields in the same zone: set(y, .., us) / on() / at() / replace(year=..) *)
Theorem history_set_wall_transparent : forall z W W' f st, ~ wall_skipped z (sec W) ->
  hfinal st [OCreate z false W f false; OSetWall W'] = hfinal st [OCreate z false W' f false].
Proof. exact set_wall_transparent. Qed.
Print Assumptions history_set_wall_transparent.

Theorem history_two_hops_transparent : forall z1 z2 W0 W f st, ~ wall_skipped z1 (sec W0) -> ~ wall_skipped z2 (sec W0) ->
  hfinal st [OCreate z1 false W0 f false; OSetTz z2 false; OSetWall W] = hfinal st [OCreate z2 false W f false].
Proof. exact two_hops_transparent. Qed.
Print Assumptions history_two_hops_transparent.

(* replace(fold=f') is an explicit request and decides; replace(tzinfo=None) keeps the fold *)
Theorem history_set_fold_decides : forall z1 z2 fx2 W f f' st, ~ wall_skipped z1 (sec W) ->
  hfinal st [OCreate z1 false W f false; OSetFold f'; OSetTz z2 fx2] = hfinal st [OCreate z2 fx2 W f' false].
Proof. exact set_fold_decides. Qed.
Print Assumptions history_set_fold_decides.

Theorem history_replace_no_tz_transparent : forall z2 fx2 st,
  hfinal st [OReplaceNoTz; OSetTz z2 fx2] = hfinal st [OSetTz z2 fx2].
Proof. exact replace_no_tz_transparent. Qed.
Print Assumptions history_replace_no_tz_transparent.

(* a value that had to be moved out of a gap is an ordinary time carrying fold 0 (construct_skipped): that fold decides afterwards *)
Theorem history_after_shift_fold0 : forall z1 z2 fx2 W (f : bool) st, wf2_zone z1 = true -> wall_skipped z1 (sec W) ->
  let g := off_local z1 (sec W) true - off_local z1 (sec W) false in
  let W1 := if f then W + MEG * g else W - MEG * g in
  wall_in_range W1 = true ->
  hfinal st [OCreate z1 false W f false; OSetTz z2 fx2] = hfinal st [OCreate z2 fx2 W1 false false].
Proof. exact after_shift_fold0. Qed.
Print Assumptions history_after_shift_fold0.

(* FixedTimezone.convert forces fold 0 (finding fixed-offset-drops-fold): what follows is the fold-0 reading whatever was asked for;
   with the default fold 1 a repeated wall time denotes the EARLIER instant and a skipped one moves BACKWARD *)
Theorem history_fixed_offset_is_fold0_reading : forall z1 z2 fx2 W f r st,
  hfinal st [OCreate z1 true W f r; OSetTz z2 fx2] = hfinal st [OCreate z2 fx2 W false false].
Proof. exact fixed_offset_is_fold0_reading. Qed.
Print Assumptions history_fixed_offset_is_fold0_reading.

Theorem history_fixed_offset_transparent_refuted :
  exists z1 z2 W s1 s2, wf2_zone z2 = true /\ wall_repeated z2 (sec W) /\
    hfinal hinit [OCreate z1 true W true false; OSetTz z2 false] = Ok s1 /\
    hfinal hinit [OCreate z2 false W true false] = Ok s2 /\
    inst z2 (h_W s1) (h_f s1) + 3600 * MEG = inst z2 (h_W s2) (h_f s2).
Proof. exact fixed_offset_refuted. Qed.
Print Assumptions history_fixed_offset_transparent_refuted.

Theorem history_fixed_offset_skipped_refuted :
  exists z1 z2 W s1 s2, wf2_zone z2 = true /\ wall_skipped z2 (sec W) /\
    hfinal hinit [OCreate z1 true W true false; OSetTz z2 false] = Ok s1 /\
    hfinal hinit [OCreate z2 false W true false] = Ok s2 /\
    h_W s1 = W - 3600 * MEG /\ h_W s2 = W + 3600 * MEG.
Proof. exact fixed_offset_skipped_refuted. Qed.
Print Assumptions history_fixed_offset_skipped_refuted.

(* region where the loss does not show: the wall time exists once in the target zone (same fields, same zone, same instant; only the
   attribute fold differs).  With f = false history_fixed_offset_is_fold0_reading is already the direct construction. *)
Theorem history_fixed_offset_transparent_partial : forall z1 z2 W f r st, wall_unique z2 (sec W) ->
  exists s1 s2, hfinal st [OCreate z1 true W f r; OSetTz z2 false] = Ok s1 /\ hfinal st [OCreate z2 false W f false] = Ok s2 /\
    h_W s1 = h_W s2 /\ h_tz s1 = h_tz s2 /\ inst z2 (h_W s1) (h_f s1) = inst z2 (h_W s2) (h_f s2).
Proof. exact fixed_offset_partial. Qed.
Print Assumptions history_fixed_offset_transparent_partial.

(* DateTime.naive() does not forward the fold (finding naive-method-drops-fold) *)
Theorem history_naive_method_is_fold0_reading : forall z2 fx2 st,
  hfinal st [ODropTz; OSetTz z2 fx2] = hfinal (mkhst None (h_W st) false) [OSetTz z2 fx2].
Proof. exact naive_method_is_fold0_reading. Qed.
Print Assumptions history_naive_method_is_fold0_reading.

Theorem history_naive_method_transparent_refuted :
  exists z2 W s1 s2, wf2_zone z2 = true /\ wall_repeated z2 (sec W) /\
    hfinal hinit [OCreate (fixed_zone 0) false W true false; ODropTz; OSetTz z2 false] = Ok s1 /\
    hfinal hinit [OCreate (fixed_zone 0) false W true false; OReplaceNoTz; OSetTz z2 false] = Ok s2 /\
    hfinal hinit [OCreate z2 false W true false] = Ok s2 /\
    inst z2 (h_W s1) (h_f s1) + 3600 * MEG = inst z2 (h_W s2) (h_f s2).
Proof. exact naive_method_refuted. Qed.
Print Assumptions history_naive_method_transparent_refuted.

Theorem history_naive_method_transparent_partial : forall z1 z2 W f st, ~ wall_skipped z1 (sec W) -> wall_unique z2 (sec W) ->
  exists s1 s2, hfinal st [OCreate z1 false W f false; ODropTz; OSetTz z2 false] = Ok s1 /\ hfinal st [OCreate z2 false W f false] = Ok s2 /\
    h_W s1 = h_W s2 /\ h_tz s1 = h_tz s2 /\ inst z2 (h_W s1) (h_f s1) = inst z2 (h_W s2) (h_f s2).
Proof. exact naive_method_partial. Qed.
Print Assumptions history_naive_method_transparent_partial.

(* the hypotheses above are satisfiable together *)
Theorem history_hypotheses_nonvacuous :
  ~ wall_skipped (fixed_zone 0) (sec W_rep) /\ wall_repeated paris13 (sec W_rep) /\ wall_skipped paris13 (sec W_skip) /\
  wall_unique paris13 (sec (W_rep + 7200 * MEG)) /\ wf2_zone paris13 = true.
Proof. exact history_hypotheses_satisfiable. Qed.
Print Assumptions history_hypotheses_nonvacuous.

(* ---- the tz database itself (Gen/ZoneTables.v: every table the staged interpreter's zoneinfo ships, regenerated on every run; POSIX rules expanded to the year stated there) *)
From PV Require Import Gen.ZoneTables Proofs.ShippedZones.

(* every shipped table is well-formed (and gap-separated): checked by the kernel on the data, not by the harness *)
Theorem shipped_zones_wellformed : forallb wf2_zone shipped_zones = true.
Proof. exact shipped_wf2_all. Qed.
Print Assumptions shipped_zones_wellformed.

(* the data is the database: hundreds of distinct tables, tens of thousands of transitions, the structurally odd zones among them *)
Theorem shipped_zones_are_the_database :
  ((300 <= length shipped_zones)%nat /\ 30000 <= SHIPPED_TRANSITIONS_COUNT /\ 590 <= SHIPPED_NAMES_COUNT
   /\ SHIPPED_TRANSITIONS_COUNT = Z.of_nat (fold_right (fun z n => (length (z_trans z) + n)%nat) 0%nat shipped_zones)) /\
  (In zone_Europe_Paris shipped_zones /\ In zone_America_New_York shipped_zones /\ In zone_Australia_Lord_Howe shipped_zones /\
   In zone_Pacific_Apia shipped_zones /\ In zone_Pacific_Kiritimati shipped_zones /\ In zone_America_Sao_Paulo shipped_zones /\
   In zone_Asia_Kathmandu shipped_zones /\ In zone_UTC shipped_zones).
Proof. exact (conj shipped_data_size named_zones_shipped). Qed.
Print Assumptions shipped_zones_are_the_database.

(* hence, for every shipped zone and every wall second, without any hypothesis on the table: *)
Theorem shipped_zone_trichotomy : forall z w, In z shipped_zones ->
  (wall_unique z w /\ (forall u, renders_to z u w <-> u = w - off_local z w false)) \/
  (wall_repeated z w /\ (forall u, renders_to z u w <-> (u = w - off_local z w false \/ u = w - off_local z w true)) /\
     fold_utc z (w - off_local z w false) = false /\ fold_utc z (w - off_local z w true) = true) \/
  (wall_skipped z w /\ forall u, ~ renders_to z u w).
Proof. exact shipped_trichotomy. Qed.
Print Assumptions shipped_zone_trichotomy.

Theorem shipped_zone_construct_valid : forall z W f r W' f', In z shipped_zones -> convert_naive z W f r = Ok (W', f') ->
  let U := inst z W' f' in fst (render z U) = W' /\ off_utc z (U / MEG) = off_local z (sec W') f'.
Proof. exact shipped_construct_valid. Qed.
Print Assumptions shipped_zone_construct_valid.

Theorem shipped_zone_construct_skipped : forall z W, In z shipped_zones -> wall_skipped z (sec W) ->
  let g := off_local z (sec W) true - off_local z (sec W) false in
  0 < g /\
  (wall_in_range (W + MEG * g) = true -> convert_naive z W true false = Ok (W + MEG * g, false)) /\
  (wall_in_range (W - MEG * g) = true -> convert_naive z W false false = Ok (W - MEG * g, false)).
Proof. exact shipped_construct_skipped. Qed.
Print Assumptions shipped_zone_construct_skipped.

(* ---- the specification side itself: Spec/Zone.v IS the algorithm of CPython's pure-Python zoneinfo.
   Gen/StdlibZone.v is the machine translation of zoneinfo/_zoneinfo.py (regenerated on every run from the staged interpreter's standard
   library): _ts_to_local, _get_local_timestamp, _find_trans, utcoffset, fromutc; the last three specialised to dt not None and
   `_tz_after` a plain _ttinfo (the POSIX-rule tail _TZStr is OUT OF SCOPE: the harness expands rule transitions into the table).
   A table z is encoded as the data ZoneInfo._load_file stores (Proofs/StdlibZoneFacts.v: trans_utc = times, utcoffsets = z_init :: offsets,
   trans_idx = 1..n, _tti_before = z_init = utcoffsets[0], _tz_after = last offset); unix_zone z = the same table in Unix seconds,
   wall_second d = seconds of the datetime d since 0001-01-01T00:00:00 (the convention of Spec/Zone.v) = _get_local_timestamp(d) + EPOCH_S.
   bisect.bisect_right is the library contract on sorted lists (Lib/PyList.v); wf_zone makes every list handed to it sorted. ---- *)
From PV Require Import Lib.PyList Model.StdlibZoneObj Gen.StdlibZone Proofs.PyListFacts Proofs.StdlibZoneFacts.

(* _ts_to_local builds exactly the wall thresholds off_local compares with (max / min of neighbouring offsets): EVERY table, no hypothesis *)
Theorem spec_is_stdlib_ts_to_local : forall z,
  sl_ts_to_local (enc_idx z) (enc_utc z) (enc_offs z) = Ok [walls z false; walls z true].
Proof. exact sl_ts_to_local_spec. Qed.
Print Assumptions spec_is_stdlib_ts_to_local.

(* off_local reads those thresholds: it is the offset in force at the insertion point of w (every table, every w) *)
Theorem spec_is_stdlib_off_local_reads_walls : forall f tr init w,
  off_local_l init tr w f = nth (Z.to_nat (bisect_right (walls_l f init tr) w)) (init :: map snd tr) 0.
Proof. exact off_local_bisect. Qed.
Print Assumptions spec_is_stdlib_off_local_reads_walls.

(* ZoneInfo.utcoffset(dt) = off_local at the wall second of dt with dt.fold: every well-formed table, EVERY datetime (any integer fields) *)
Theorem spec_is_stdlib_utcoffset : forall z d (f : bool), wf_zone z = true -> dt_fold d = Z.b2z f ->
  sl_utcoffset (stdlib_zone (unix_zone z)) d = Ok (off_local z (wall_second d) f).
Proof. exact sl_utcoffset_is_off_local. Qed.
Print Assumptions spec_is_stdlib_utcoffset.

(* the same without the epoch shift and with the weakest hypothesis used: the local list of that fold is sorted *)
Theorem spec_is_stdlib_utcoffset_sorted : forall z d (f : bool), dt_fold d = Z.b2z f -> sortedb (walls z f) = true ->
  sl_utcoffset (stdlib_zone z) d = Ok (off_local z (sl_get_local_timestamp (stdlib_zone z) d) f).
Proof. exact sl_utcoffset_spec. Qed.
Print Assumptions spec_is_stdlib_utcoffset_sorted.

(* ZoneInfo.fromutc(dt) = render at second granularity: wall second u + off_utc z u, fold = fold_utc z u — every well-formed table
   that does not consist of exactly ONE transition, every datetime *)
Theorem spec_is_stdlib_fromutc : forall z d, wf_zone z = true -> length (z_trans z) <> 1%nat ->
  exists d', sl_fromutc (stdlib_zone (unix_zone z)) d = Ok d' /\
             wall_second d' = wall_second d + off_utc z (wall_second d) /\
             dt_fold d' = Z.b2z (fold_utc z (wall_second d)).
Proof. exact sl_fromutc_is_render. Qed.
Print Assumptions spec_is_stdlib_fromutc.

(* a table of exactly one transition and no POSIX tail (TZif version 1 data): the pure-Python fromutc keeps the fold only AT the transition
   second — a defect of CPython's _zoneinfo.py (the C implementation and Spec/Zone.v give fold = 1 on the whole repeated interval);
   in the staged tzdata 9 shipped zones have that shape with a backward LMT -> standard-time step (Africa/Bangui, Brazzaville, Harare, Kigali,
   Kinshasa, Lome, Maputo, Mbabane, Indian/Mayotte; a TZ string without DST parses to a plain _ttinfo): there _zoneinfo.py returns fold = 0 one
   second after the step where the C zoneinfo.ZoneInfo returns 1 (checked on the staged interpreter).  The oracle of the harness and pendulum
   use the C class, which agrees with Spec/Zone.v *)
Theorem spec_is_stdlib_fromutc_single : forall init t o d,
  let z := mkzone init [(t, o)] in
  let u := sl_get_local_timestamp (stdlib_zone z) d in
  sl_fromutc (stdlib_zone z) d = Ok (fromutc_result d (off_utc z u) (fold_utc z u && (u <=? t))).
Proof. exact sl_fromutc_single. Qed.
Print Assumptions spec_is_stdlib_fromutc_single.

Theorem spec_is_stdlib_fromutc_single_refuted :
  exists z d, wf_zone z = true /\ length (z_trans z) = 1%nat /\
    let u := sl_get_local_timestamp (stdlib_zone z) d in
    sl_fromutc (stdlib_zone z) d <> Ok (fromutc_result d (off_utc z u) (fold_utc z u)).
Proof. exact sl_fromutc_single_refuted. Qed.
Print Assumptions spec_is_stdlib_fromutc_single_refuted.

(* well-formed tables hand sorted lists to bisect_right (its contract), and the epoch constants are the calendar's *)
Theorem spec_is_stdlib_bisect_inputs_sorted : forall z, wf_zone z = true ->
  sortedb (enc_utc z) = true /\ sortedb (walls z false) = true /\ sortedb (walls z true) = true.
Proof. exact wf_zone_bisect_inputs_sorted. Qed.
Print Assumptions spec_is_stdlib_bisect_inputs_sorted.

Theorem spec_is_stdlib_epoch : sl_EPOCHORDINAL = ymd2ord 1970 1 1 /\ EPOCH_S = (sl_EPOCHORDINAL - 1) * 86400.
Proof. exact sl_EPOCHORDINAL_is_spec. Qed.
Print Assumptions spec_is_stdlib_epoch.

(* bisect.py's own binary search (translated: the statements bisect_right(a, x) executes, while loop on fuel) returns the contract model
   on every sorted list, and never runs out of fuel on any list *)
Theorem spec_is_stdlib_bisect_right : forall a x, sortedb a = true -> sl_bisect_right_py a x = Some (bisect_right a x).
Proof. exact sl_bisect_right_py_spec. Qed.
Print Assumptions spec_is_stdlib_bisect_right.

Theorem spec_is_stdlib_bisect_right_total : forall a x, sl_bisect_right_py a x <> None.
Proof. exact sl_bisect_right_py_total. Qed.
Print Assumptions spec_is_stdlib_bisect_right_total.

Theorem spec_is_stdlib_bisect_right_is_count : forall l x, sortedb l = true -> bisect_right l x = count_le l x.
Proof. exact bisect_right_count. Qed.
Print Assumptions spec_is_stdlib_bisect_right_is_count.

(* the statements are not vacuous *)
Theorem spec_is_stdlib_zone_examples :
  let z := mkzone 3600 [(1000, 7200); (5000, 3600); (9000, 7200)] in
  wf_zone z = true /\
  sl_ts_to_local (enc_idx z) (enc_utc z) (enc_offs z) = Ok [[8200; 12200; 16200]; [4600; 8600; 12600]] /\
  sl_utcoffset (stdlib_zone z) (mksdt 719163 2 20 0 0) = Ok 7200 /\ sl_utcoffset (stdlib_zone z) (mksdt 719163 2 30 0 1) = Ok 3600 /\
  sl_fromutc (stdlib_zone z) (mksdt 719163 1 23 30 0) = Ok (mksdt 719163 2 23 30 1).
Proof. exact sl_zone_examples. Qed.
Print Assumptions spec_is_stdlib_zone_examples.

(* ---- the MODEL side itself: the hand-written Model/TzConvert.v EQUALS the machine translation of pendulum's own code (Gen/TzGlue.v:
   src/pendulum/tz/timezone.py and src/pendulum/datetime.py translated from /repo on every run, tools/vlib/gens/g15_tz_glue.py), so a
   semantic change of the code breaks one of these proofs, not only a source pin.  Bridge (Proofs/TzGlueFacts.v): dt_of W f tz = the datetime
   object with wall W, fold f, tzinfo tz; res_of (Some tz) r = the object a model result (W', f') denotes in the zone of the timezone object tz;
   gtz_ok t = a FixedTimezone's table is fixed_zone of its offset; same_obj a b = equal identity tags mean the same object.  The native
   operations the code calls are the primitives of Model/TzGlueObj.v, each tied to CPython's source by a spec_is_stdlib_* theorem (C02, C11). ---- *)
From PV Require Import Spec.NativeDT Gen.AddDuration Model.TzGlueObj Gen.TzGlue Proofs.TzGlueFacts.

(* Timezone.convert on a naive datetime = convert_naive: gap moved by the gap length in the direction fold says (fold reset to 0), repeated
   time keeps fold, raise_on_unknown_times raises NonExistingTime / AmbiguousTime — EVERY table, wall value, fold and flag *)
Theorem model_is_code_convert_naive : forall tz W f r,
  glue_Timezone_convert tz (dt_of W f None) r = res_of (Some tz) (convert_naive (gz_zone tz) W f r).
Proof. exact glue_convert_naive. Qed.
Print Assumptions model_is_code_convert_naive.

(* FixedTimezone.convert on a naive datetime = convert_naive_fixed (same fields, fold forced to 0) *)
Theorem model_is_code_fixed_convert : forall tz W f r, wall_in_range W = true ->
  glue_FixedTimezone_convert tz (dt_of W f None) r = res_of (Some tz) (convert_naive_fixed W f).
Proof. exact glue_fixed_convert_naive. Qed.
Print Assumptions model_is_code_fixed_convert.

(* tz.convert(dt) on an aware datetime (either class) = in_tz: the object itself when tz is dt.tzinfo, else astz (native astimezone;
   FixedTimezone.fromutc is the translated pendulum method) *)
Theorem model_is_code_convert_aware : forall tz t1 W f r, gtz_ok t1 -> gtz_ok tz -> same_obj t1 tz ->
  g_convert tz (dt_of W f (Some t1)) r = res_of (Some tz) (in_tz (gtz_is t1 tz) (gz_zone t1) (gz_zone tz) W f).
Proof. exact glue_convert_aware. Qed.
Print Assumptions model_is_code_convert_aware.

(* DateTime.create(fields of W, tz=tz, fold=f, raise_on_unknown_times=r) = create *)
Theorem model_is_code_create : forall tz W f r, wall_in_range W = true ->
  let d := dt_of W f None in
  glue_DateTime_create (g_year d) (g_month d) (g_day d) (g_hour d) (g_minute d) (g_second d) (g_microsecond d) (Some tz) (Z.b2z f) r
  = res_of (Some tz) (create (gz_zone tz) (gz_fixed tz) W f r).
Proof. exact glue_create. Qed.
Print Assumptions model_is_code_create.

Theorem model_is_code_create_naive : forall W f r, wall_in_range W = true ->
  let d := dt_of W f None in
  glue_DateTime_create (g_year d) (g_month d) (g_day d) (g_hour d) (g_minute d) (g_second d) (g_microsecond d) None (Z.b2z f) r = Ok d.
Proof. exact glue_create_naive. Qed.
Print Assumptions model_is_code_create_naive.

(* Timezone.datetime / FixedTimezone.datetime (fields of W) = create with fold = 1 *)
Theorem model_is_code_tz_datetime : forall tz W, wall_in_range W = true ->
  let d := dt_of W true None in
  (if gz_fixed tz then glue_FixedTimezone_datetime else glue_Timezone_datetime) tz (g_year d) (g_month d) (g_day d) (g_hour d) (g_minute d) (g_second d) (g_microsecond d)
  = res_of (Some tz) (create (gz_zone tz) (gz_fixed tz) W true false).
Proof. exact glue_tz_datetime. Qed.
Print Assumptions model_is_code_tz_datetime.

Theorem model_is_code_glue_examples :
  let z := mkzone 3600 [(1000, 7200); (100000, 3600)] in let t := mkgtz 7 false 0 z in let fx := mkgtz 8 true (-18000) (fixed_zone (-18000)) in
  wf_zone z = true /\
  glue_Timezone_convert t (mkgdt (5000 * MEG) 0 None) false = Ok (mkgdt (1400 * MEG) 0 (Some t)) /\
  glue_Timezone_convert t (mkgdt (5000 * MEG) 1 None) false = Ok (mkgdt (8600 * MEG) 0 (Some t)) /\
  glue_Timezone_convert t (mkgdt (5000 * MEG) 1 None) true = Raise E_NonExistingTime /\
  glue_Timezone_convert t (mkgdt (105000 * MEG) 0 None) true = Raise E_AmbiguousTime /\
  glue_Timezone_convert t (mkgdt (105000 * MEG) 1 None) false = Ok (mkgdt (105000 * MEG) 1 (Some t)) /\
  g_convert fx (mkgdt (105000 * MEG) 1 (Some t)) false = Ok (mkgdt (83400 * MEG) 0 (Some fx)).
Proof. exact glue_examples. Qed.
Print Assumptions model_is_code_glue_examples.

(* ---- set / on / at / replace / naive: the translated methods (Gen/TzGlue.v) ARE the step functions of Model/WallHistory.v (they funnel into
   create with the fold of the INSTANCE).  tzp tzo = the (zone, is_fixed) pair of the timezone object, hres tzo r = the object a step result denotes;
   time_us h mi s us = microseconds since midnight. ---- *)
From PV Require Import Model.WallHistory.

Theorem model_is_code_set : forall tzo W f W', wall_in_range W' = true ->
  let d' := dt_of W' f None in
  glue_DateTime_set (dt_of W f tzo) (Some (g_year d')) (Some (g_month d')) (Some (g_day d')) (Some (g_hour d')) (Some (g_minute d'))
                    (Some (g_second d')) (Some (g_microsecond d')) None
  = hres tzo (hstep (mkhst (tzp tzo) W f) (OSetWall W')).
Proof. exact glue_set_wall. Qed.
Print Assumptions model_is_code_set.

Theorem model_is_code_set_tz : forall tzo t W f, wall_in_range W = true ->
  glue_DateTime_set (dt_of W f tzo) None None None None None None None (Some t)
  = hres (Some t) (hstep (mkhst (tzp tzo) W f) (OSetTz (gz_zone t) (gz_fixed t))).
Proof. exact glue_set_tz. Qed.
Print Assumptions model_is_code_set_tz.

Theorem model_is_code_on : forall tzo W f y m d, wall_in_range W = true -> 1 <= y <= 9999 -> valid_dateb y m d = true ->
  wall_in_range ((ymd2ord y m d - 1) * us_per_day + W mod us_per_day) = true ->
  glue_DateTime_on (dt_of W f tzo) y m d = hres tzo (hstep (mkhst (tzp tzo) W f) (OOn (ymd2ord y m d - 1))).
Proof. exact glue_on. Qed.
Print Assumptions model_is_code_on.

Theorem model_is_code_at : forall tzo W f h mi s us, wall_in_range W = true -> 0 <= h <= 23 -> 0 <= mi <= 59 -> 0 <= s <= 59 -> 0 <= us <= 999999 ->
  glue_DateTime_at (dt_of W f tzo) h mi s us = hres tzo (hstep (mkhst (tzp tzo) W f) (OAt (time_us h mi s us))).
Proof. exact glue_at. Qed.
Print Assumptions model_is_code_at.

Theorem model_is_code_replace : forall tzo W f f', wall_in_range W = true ->
  glue_DateTime_replace_keep (dt_of W f tzo) None None None None None None None (Some (Z.b2z f'))
  = hres tzo (hstep (mkhst (tzp tzo) W f) (OSetFold f')).
Proof. exact glue_replace_fold. Qed.
Print Assumptions model_is_code_replace.

Theorem model_is_code_replace_tzinfo : forall tzo tz' W f, wall_in_range W = true ->
  glue_DateTime_replace_tz (dt_of W f tzo) None None None None None None None tz' None
  = match tz' with
    | Some t => hres (Some t) (hstep (mkhst (tzp tzo) W f) (OSetTz (gz_zone t) (gz_fixed t)))
    | None => hres None (hstep (mkhst (tzp tzo) W f) OReplaceNoTz)
    end.
Proof. exact glue_replace_tzinfo. Qed.
Print Assumptions model_is_code_replace_tzinfo.

Theorem model_is_code_naive : forall tzo W f, wall_in_range W = true ->
  glue_DateTime_naive (dt_of W f tzo) = hres None (hstep (mkhst (tzp tzo) W f) ODropTz).
Proof. exact glue_naive. Qed.
Print Assumptions model_is_code_naive.

(* ---- a second construction step that passes ANY SUBSET of the seven fields (Model/WallFields.v; substep-* streams): whatever subset
   set() / replace() are given -- also only second / microsecond: transitions are not minute-aligned -- all seven fields go through
   DateTime.create -> Timezone.convert with the instance's fold ---- *)
From PV Require Import Model.WallFields Proofs.C02SetFields.

Theorem model_is_code_set_fields : forall tzo W f oy om od oh omi os ous W',
  merge_fields W oy om od oh omi os ous = Some W' -> wall_in_range W' = true ->
  glue_DateTime_set (dt_of W f tzo) oy om od oh omi os ous None
  = hres tzo (hstep2 (mkhst (tzp tzo) W f) (HSetFields oy om od oh omi os ous)).
Proof. exact glue_set_fields. Qed.
Print Assumptions model_is_code_set_fields.

Theorem model_is_code_set_fields_invalid : forall tzo W f oy om od oh omi os ous,
  merge_fields W oy om od oh omi os ous = None ->
  glue_DateTime_set (dt_of W f tzo) oy om od oh omi os ous None
  = hres tzo (hstep2 (mkhst (tzp tzo) W f) (HSetFields oy om od oh omi os ous)).
Proof. exact glue_set_fields_invalid. Qed.
Print Assumptions model_is_code_set_fields_invalid.

Theorem model_is_code_replace_fields : forall tzo W f oy om od oh omi os ous W',
  merge_fields W oy om od oh omi os ous = Some W' -> wall_in_range W' = true ->
  glue_DateTime_replace_keep (dt_of W f tzo) oy om od oh omi os ous None
  = hres tzo (hstep2 (mkhst (tzp tzo) W f) (HSetFields oy om od oh omi os ous)).
Proof. exact glue_replace_fields. Qed.
Print Assumptions model_is_code_replace_fields.

Theorem substep_is_construction : forall z fx W f oy om od oh omi os ous W',
  merge_fields W oy om od oh omi os ous = Some W' ->
  hstep2 (mkhst (Some (z, fx)) W f) (HSetFields oy om od oh omi os ous) = build (Some (z, fx)) W' f false.
Proof. exact set_fields_is_construction. Qed.
Print Assumptions substep_is_construction.

Theorem substep_no_field_renormalises : forall st, wall_in_range (h_W st) = true ->
  hstep2 st (HSetFields None None None None None None None) = build (h_tz st) (h_W st) (h_f st) false.
Proof. exact set_fields_none_renormalises. Qed.
Print Assumptions substep_no_field_renormalises.

Theorem substep_all_fields_is_set_wall : forall st W', wall_in_range W' = true ->
  let '(y, m, d, h, mi, s, us) := fields_of_wall W' in
  hstep2 st (HSetFields (Some y) (Some m) (Some d) (Some h) (Some mi) (Some s) (Some us)) = hstep st (OSetWall W').
Proof. exact set_fields_all_is_set_wall. Qed.
Print Assumptions substep_all_fields_is_set_wall.

Theorem substep_second_only_skipped : forall z W f s W', wf2_zone z = true ->
  merge_fields W None None None None None (Some s) None = Some W' -> wall_skipped z (sec W') ->
  let g := off_local z (sec W') true - off_local z (sec W') false in
  0 < g /\
  (wall_in_range (W' + MEG * g) = true -> f = true ->
     hstep2 (mkhst (Some (z, false)) W f) (HSetFields None None None None None (Some s) None) = Ok (mkhst (Some (z, false)) (W' + MEG * g) false)) /\
  (wall_in_range (W' - MEG * g) = true -> f = false ->
     hstep2 (mkhst (Some (z, false)) W f) (HSetFields None None None None None (Some s) None) = Ok (mkhst (Some (z, false)) (W' - MEG * g) false)).
Proof. exact set_second_only_skipped. Qed.
Print Assumptions substep_second_only_skipped.

Theorem substep_second_only_repeated : forall z W f s W', wf_zone z = true ->
  merge_fields W None None None None None (Some s) None = Some W' -> wall_repeated z (sec W') ->
  hstep2 (mkhst (Some (z, false)) W f) (HSetFields None None None None None (Some s) None) = Ok (mkhst (Some (z, false)) W' f) /\
  inst z W' f = (if f then W' - MEG * off_local z (sec W') true else W' - MEG * off_local z (sec W') false).
Proof. exact set_second_only_repeated. Qed.
Print Assumptions substep_second_only_repeated.

Theorem substep_second_only_monrovia_1972 :
  let W := wall_of 1972 1 7 0 44 45 0 in
  wf2_zone monrovia = true /\
  merge_fields W None None None None None (Some 10) None = Some (wall_of 1972 1 7 0 44 10 0) /\
  ~ wall_skipped monrovia (sec W) /\ wall_skipped monrovia (sec (wall_of 1972 1 7 0 44 10 0)) /\
  hstep2 (mkhst (Some (monrovia, false)) W true) (HSetFields None None None None None (Some 10) None)
    = Ok (mkhst (Some (monrovia, false)) (wall_of 1972 1 7 1 28 40 0) false) /\
  hstep2 (mkhst (Some (monrovia, false)) W false) (HSetFields None None None None None (Some 10) None)
    = Ok (mkhst (Some (monrovia, false)) (wall_of 1972 1 6 23 59 40 0) false).
Proof. exact set_second_only_monrovia. Qed.
Print Assumptions substep_second_only_monrovia_1972.
