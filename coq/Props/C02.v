(* Props/C02.v — wall-clock construction is normalised by the documented DST rules.
   Models: Spec/Zone.v (zoneinfo's view of a tz-database zone), Model/TzConvert.v (Timezone.convert, DateTime.create).
   Every theorem holds for EVERY well-formed zone table and every wall value (no bound on instants or zones). *)
From Coq Require Import ZArith Bool.
From PV Require Import Lib.PyBase Spec.Cal Spec.Zone Proofs.ZoneFacts Proofs.ZoneWindow Proofs.ZoneGap Model.TzConvert Proofs.C02Facts.
Open Scope Z_scope.

(* PEP 495: every wall second is exactly one of unique / repeated (two instants, fold tells them apart) / skipped (no instant) *)
Theorem wall_time_trichotomy : forall z w, wf_zone z = true ->
  (wall_unique z w /\ (forall u, renders_to z u w <-> u = w - off_local z w false)) \/
  (wall_repeated z w /\ (forall u, renders_to z u w <-> (u = w - off_local z w false \/ u = w - off_local z w true)) /\
     fold_utc z (w - off_local z w false) = false /\ fold_utc z (w - off_local z w true) = true) \/
  (wall_skipped z w /\ forall u, ~ renders_to z u w).
Proof. exact wall_trichotomy. Qed.
Print Assumptions wall_time_trichotomy.

Theorem construct_unique : forall z W f, wf_zone z = true -> wall_unique z (sec W) -> forall r,
  convert_naive z W f r = Ok (W, f) /\
  (forall u, renders_to z u (sec W) <-> u = sec W - off_local z (sec W) f) /\
  off_utc z (sec W - off_local z (sec W) f) = off_local z (sec W) f.
Proof. exact create_unique. Qed.
Print Assumptions construct_unique.

Theorem construct_repeated : forall z W f, wf_zone z = true -> wall_repeated z (sec W) ->
  convert_naive z W f false = Ok (W, f) /\
  renders_to z (sec W - off_local z (sec W) false) (sec W) /\ renders_to z (sec W - off_local z (sec W) true) (sec W) /\
  sec W - off_local z (sec W) false < sec W - off_local z (sec W) true /\
  inst z W f = (if f then W - MEG * off_local z (sec W) true else W - MEG * off_local z (sec W) false) /\
  (forall u, renders_to z u (sec W) <-> (u = sec W - off_local z (sec W) false \/ u = sec W - off_local z (sec W) true)).
Proof. exact create_repeated. Qed.
Print Assumptions construct_repeated.

Theorem construct_skipped : forall z W, wf2_zone z = true -> wall_skipped z (sec W) ->
  let g := off_local z (sec W) true - off_local z (sec W) false in
  0 < g /\
  (wall_in_range (W + MEG * g) = true -> convert_naive z W true false = Ok (W + MEG * g, false)) /\
  (wall_in_range (W - MEG * g) = true -> convert_naive z W false false = Ok (W - MEG * g, false)) /\
  (forall f', off_local z (sec W + g) f' = off_local z (sec W) true) /\
  (forall f', off_local z (sec W - g) f' = off_local z (sec W) false) /\
  sec (W + MEG * g) = sec W + g /\ sec (W - MEG * g) = sec W - g.
Proof. exact (fun z W => create_skipped z W true). Qed.
Print Assumptions construct_skipped.

Theorem construct_raises_iff : forall z W f, wf_zone z = true ->
  (convert_naive z W f true = Raise E_NonExistingTime <-> (forall u, ~ renders_to z u (sec W))) /\
  (convert_naive z W f true = Raise E_AmbiguousTime <-> (exists u1 u2, u1 <> u2 /\ renders_to z u1 (sec W) /\ renders_to z u2 (sec W))) /\
  (convert_naive z W f true = Ok (W, f) <-> (exists u, forall u', renders_to z u' (sec W) <-> u' = u)).
Proof. exact create_raises_iff. Qed.
Print Assumptions construct_raises_iff.

Theorem construct_valid : forall z W f r W' f', wf2_zone z = true -> convert_naive z W f r = Ok (W', f') ->
  let U := inst z W' f' in fst (render z U) = W' /\ off_utc z (U / MEG) = off_local z (sec W') f'.
Proof. exact create_valid. Qed.
Print Assumptions construct_valid.

Theorem construct_fixed_offset : forall o W f r, convert_naive (fixed_zone o) W f r = Ok (W, f).
Proof. exact create_fixed. Qed.
Print Assumptions construct_fixed_offset.

(* the hypotheses are satisfiable: a real table with a gap and an overlap *)
Theorem nonvacuous_paris_2013 : let z := mkzone 3600 (cons (1364691600, 7200) (cons (1382835600, 3600) nil)) in
  wf2_zone z = true /\ wall_skipped z (1364691600 + 3600 + 1800) /\ wall_repeated z (1382835600 + 3600 + 1800).
Proof. exact paris_2013. Qed.
Print Assumptions nonvacuous_paris_2013.

(* lookups depend only on the transitions near the queried instant: the harness may feed the model a window of the real table *)
Theorem zone_window_irrelevance : forall init pre mid post u w f,
  passed_utc pre u -> before_first post u ->
  passed_local init pre w f -> before_first_local (last_off (last_off init pre) mid) post w f ->
  off_utc_l init (pre ++ mid ++ post) u = off_utc_l (last_off init pre) mid u /\
  off_local_l init (pre ++ mid ++ post) w f = off_local_l (last_off init pre) mid w f.
Proof. exact window_irrelevance. Qed.
Print Assumptions zone_window_irrelevance.

Theorem zone_window_irrelevance_fold : forall init pre mid post u acc,
  pre <> nil -> passed_fold init pre u -> before_first post u ->
  fold_utc_l init (pre ++ mid ++ post) u acc = fold_utc_l (last_off init pre) mid u false.
Proof. exact window_irrelevance_fold. Qed.
Print Assumptions zone_window_irrelevance_fold.

(* "moved by the length of the gap": the amount off_local w 1 - off_local w 0 used by the construction rule is exactly the length of the
   maximal interval of non-existent wall seconds around w *)
Theorem gap_length_is_exact : forall z w, wf_zone z = true -> wall_skipped z w ->
  let g := off_local z w true - off_local z w false in
  exists a, a <= w < a + g /\
    (forall w', a <= w' < a + g -> wall_skipped z w' /\ off_local z w' false = off_local z w false /\ off_local z w' true = off_local z w true) /\
    ~ wall_skipped z (a + g) /\ ~ wall_skipped z (a - 1).
Proof. exact gap_is_interval. Qed.
Print Assumptions gap_length_is_exact.
