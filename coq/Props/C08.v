(* Props/C08.v — format() renders every token correctly and from_format() inverts it.
   Only theorem statements; every proof is `exact <lemma>` (Proofs/C08Decimal.v, C08Facts.v, C08SourceTie.v).
   Model: Model/Formatter.v (format side), Model/FormatterParse.v (from_format side); all tables (token list, _TOKENS_RULES, locales,
   regexes, named formats) are regenerated from /repo on every run (Gen/FormatterTables.v, Gen/LocaleTables.v).
   Strings are lists of code points; render_d n = f"{n:d}", render_0wd w n = f"{n:0<w>d}", py_int = int(text).
   Calendar quantities are Spec/Cal.v (CPython's datetime): ymd2ord, iso_weekday, weekday0, days_before_month. *)
From Coq Require Import ZArith List Bool.
From PV Require Import Lib.PyBase Spec.Cal Model.FormatterBase Gen.FormatterTables Gen.LocaleTables Model.Formatter Model.FormatterParse.
From PV Require Import Proofs.C08Decimal Proofs.C08Facts Proofs.C08SourceTie.
Import ListNotations.
Open Scope Z_scope.

(* the padded rendering is a decimal numeral of n ... *)
Theorem render_decimal_value : forall w n, 0 <= n -> value_of_digits (render_0wd w n) = n.
Proof. exact render_0wd_value. Qed.
Print Assumptions render_decimal_value.

(* ... made of ASCII digits only ... *)
Theorem render_decimal_digits : forall w n, 0 <= n -> Forall (fun c => 48 <= c <= 57) (render_0wd w n).
Proof. exact render_0wd_digits. Qed.
Print Assumptions render_decimal_digits.

(* ... of exactly w characters when n < 10^w *)
Theorem render_decimal_width : forall (w : nat) n, 0 <= n < 10 ^ Z.of_nat w -> (1 <= w)%nat -> length (render_0wd (Z.of_nat w) n) = w.
Proof. exact render_0wd_length. Qed.
Print Assumptions render_decimal_width.

(* int() inverts the padded rendering *)
Theorem parse_render_decimal : forall w n, 0 <= n -> py_int (render_0wd w n) = Some n.
Proof. exact py_int_render_0wd. Qed.
Print Assumptions parse_render_decimal.

(* int(str(n)) = n for every integer, negative ones included *)
Theorem parse_render_int : forall n, py_int (render_d n) = Some n.
Proof. exact py_int_render_d. Qed.
Print Assumptions parse_render_int.

Theorem year_is_four_digits : forall y, 1000 <= y <= 9999 -> render_d y = render_0wd 4 y.
Proof. exact render_d_year4. Qed.
Print Assumptions year_is_four_digits.

(* token YYYY *)
Theorem token_YYYY_spec : forall rec loc t, 1000 <= t_year t <= 9999 -> format_token rec loc t [89;89;89;89] = Ok (render_0wd 4 (t_year t)).
Proof. exact tok_YYYY_4. Qed.
Print Assumptions token_YYYY_spec.

(* token YY *)
Theorem token_YY_spec : forall rec loc t, 1000 <= t_year t <= 9999 -> format_token rec loc t [89;89] = Ok (render_0wd 2 (t_year t mod 100)).
Proof. exact tok_YY. Qed.
Print Assumptions token_YY_spec.

(* token Y *)
Theorem token_Y_spec : forall rec loc t, format_token rec loc t [89] = Ok (render_d (t_year t)).
Proof. exact tok_Y. Qed.
Print Assumptions token_Y_spec.

(* token Q *)
Theorem token_Q_spec : forall rec loc t, format_token rec loc t [81] = Ok (render_d ((t_month t + 2) / 3)).
Proof. exact tok_Q. Qed.
Print Assumptions token_Q_spec.

(* token MM *)
Theorem token_MM_spec : forall rec loc t, format_token rec loc t [77;77] = Ok (render_0wd 2 (t_month t)).
Proof. exact tok_MM. Qed.
Print Assumptions token_MM_spec.

(* token M *)
Theorem token_M_spec : forall rec loc t, format_token rec loc t [77] = Ok (render_d (t_month t)).
Proof. exact tok_M. Qed.
Print Assumptions token_M_spec.

(* token DD *)
Theorem token_DD_spec : forall rec loc t, format_token rec loc t [68;68] = Ok (render_0wd 2 (t_day t)).
Proof. exact tok_DD. Qed.
Print Assumptions token_DD_spec.

(* token D *)
Theorem token_D_spec : forall rec loc t, format_token rec loc t [68] = Ok (render_d (t_day t)).
Proof. exact tok_D. Qed.
Print Assumptions token_D_spec.

(* token DDDD *)
Theorem token_DDDD_spec : forall rec loc t, 1 <= t_month t <= 12 -> format_token rec loc t [68;68;68;68] = Ok (render_0wd 3 (days_before_month (t_year t) (t_month t) + t_day t)).
Proof. exact tok_DDDD. Qed.
Print Assumptions token_DDDD_spec.

(* token DDD *)
Theorem token_DDD_spec : forall rec loc t, 1 <= t_month t <= 12 -> format_token rec loc t [68;68;68] = Ok (render_d (days_before_month (t_year t) (t_month t) + t_day t)).
Proof. exact tok_DDD. Qed.
Print Assumptions token_DDD_spec.

(* token d *)
Theorem token_d_spec : forall rec loc t, format_token rec loc t [100] = Ok (render_d (iso_weekday (ymd2ord (t_year t) (t_month t) (t_day t)) mod 7)).
Proof. exact tok_d. Qed.
Print Assumptions token_d_spec.

(* token E *)
Theorem token_E_spec : forall rec loc t, format_token rec loc t [69] = Ok (render_d (iso_weekday (ymd2ord (t_year t) (t_month t) (t_day t)))).
Proof. exact tok_E. Qed.
Print Assumptions token_E_spec.

(* token HH *)
Theorem token_HH_spec : forall rec loc t, format_token rec loc t [72;72] = Ok (render_0wd 2 (t_hour t)).
Proof. exact tok_HH. Qed.
Print Assumptions token_HH_spec.

(* token H *)
Theorem token_H_spec : forall rec loc t, format_token rec loc t [72] = Ok (render_d (t_hour t)).
Proof. exact tok_H. Qed.
Print Assumptions token_H_spec.

(* token hh *)
Theorem token_hh_spec : forall rec loc t, format_token rec loc t [104;104] = Ok (render_0wd 2 (if t_hour t mod 12 =? 0 then 12 else t_hour t mod 12)).
Proof. exact tok_hh. Qed.
Print Assumptions token_hh_spec.

(* token h *)
Theorem token_h_spec : forall rec loc t, format_token rec loc t [104] = Ok (render_d (if t_hour t mod 12 =? 0 then 12 else t_hour t mod 12)).
Proof. exact tok_h. Qed.
Print Assumptions token_h_spec.

(* token mm *)
Theorem token_mm_spec : forall rec loc t, format_token rec loc t [109;109] = Ok (render_0wd 2 (t_minute t)).
Proof. exact tok_mm. Qed.
Print Assumptions token_mm_spec.

(* token m *)
Theorem token_m_spec : forall rec loc t, format_token rec loc t [109] = Ok (render_d (t_minute t)).
Proof. exact tok_m. Qed.
Print Assumptions token_m_spec.

(* token ss *)
Theorem token_ss_spec : forall rec loc t, format_token rec loc t [115;115] = Ok (render_0wd 2 (t_second t)).
Proof. exact tok_ss. Qed.
Print Assumptions token_ss_spec.

(* token s *)
Theorem token_s_spec : forall rec loc t, format_token rec loc t [115] = Ok (render_d (t_second t)).
Proof. exact tok_s. Qed.
Print Assumptions token_s_spec.

(* token S *)
Theorem token_S_spec : forall rec loc t, format_token rec loc t [83] = Ok (render_0wd 1 (t_micro t / 100000)).
Proof. exact tok_S1. Qed.
Print Assumptions token_S_spec.

(* token SS *)
Theorem token_SS_spec : forall rec loc t, format_token rec loc t [83;83] = Ok (render_0wd 2 (t_micro t / 10000)).
Proof. exact tok_S2. Qed.
Print Assumptions token_SS_spec.

(* token SSS *)
Theorem token_SSS_spec : forall rec loc t, format_token rec loc t [83;83;83] = Ok (render_0wd 3 (t_micro t / 1000)).
Proof. exact tok_S3. Qed.
Print Assumptions token_SSS_spec.

(* token SSSS *)
Theorem token_SSSS_spec : forall rec loc t, format_token rec loc t [83;83;83;83] = Ok (render_0wd 4 (t_micro t / 100)).
Proof. exact tok_S4. Qed.
Print Assumptions token_SSSS_spec.

(* token SSSSS *)
Theorem token_SSSSS_spec : forall rec loc t, format_token rec loc t [83;83;83;83;83] = Ok (render_0wd 5 (t_micro t / 10)).
Proof. exact tok_S5. Qed.
Print Assumptions token_SSSSS_spec.

(* token SSSSSS *)
Theorem token_SSSSSS_spec : forall rec loc t, format_token rec loc t [83;83;83;83;83;83] = Ok (render_0wd 6 (t_micro t)).
Proof. exact tok_S6. Qed.
Print Assumptions token_SSSSSS_spec.

(* token X *)
Theorem token_X_spec : forall rec loc t, t_has_tz t = true -> format_token rec loc t [88] = Ok (render_d ((ymd2ord (t_year t) (t_month t) (t_day t) - 719163) * 86400 + t_hour t * 3600 + t_minute t * 60 + t_second t - t_off t)).
Proof. exact tok_X. Qed.
Print Assumptions token_X_spec.

(* token x *)
Theorem token_x_spec : forall rec loc t, t_has_tz t = true -> format_token rec loc t [120] = Ok (render_d (((ymd2ord (t_year t) (t_month t) (t_day t) - 719163) * 86400 + t_hour t * 3600 + t_minute t * 60 + t_second t - t_off t) * 1000 + t_micro t / 1000)).
Proof. exact tok_x. Qed.
Print Assumptions token_x_spec.

(* token zz *)
Theorem token_zz_spec : forall rec loc t, format_token rec loc t [122;122] = Ok ((if t_has_tz t then t_abbr t else [])).
Proof. exact tok_zz. Qed.
Print Assumptions token_zz_spec.

(* token z *)
Theorem token_z_spec : forall rec loc t, format_token rec loc t [122] = Ok ((if t_has_tz t then t_zone t else [])).
Proof. exact tok_z. Qed.
Print Assumptions token_z_spec.

(* token Z: sign, hours, colon, minutes of a whole-minute offset *)
Theorem token_Z_spec : forall rec loc t, t_has_tz t = true -> t_off t mod 60 = 0 ->
  format_token rec loc t [90] = Ok ((if 0 <=? t_off t then 43 else 45) :: render_0wd 2 (Z.abs (t_off t) / 3600) ++ [58] ++ render_0wd 2 (Z.abs (t_off t) / 60 mod 60)).
Proof. exact tok_Z_minutes. Qed.
Print Assumptions token_Z_spec.

Theorem token_ZZ_spec : forall rec loc t, t_has_tz t = true -> t_off t mod 60 = 0 ->
  format_token rec loc t [90;90] = Ok ((if 0 <=? t_off t then 43 else 45) :: render_0wd 2 (Z.abs (t_off t) / 3600) ++ render_0wd 2 (Z.abs (t_off t) / 60 mod 60)).
Proof. exact tok_ZZ_minutes. Qed.
Print Assumptions token_ZZ_spec.

Theorem token_Z_naive : forall t colon, t_has_tz t = false -> format_offset t colon = [].
Proof. exact format_offset_naive. Qed.
Print Assumptions token_Z_naive.

(* AM / PM *)
Theorem token_A_en_spec : forall rec t, format_token rec loc_en t [65] = Ok (if 12 <=? t_hour t then [80;77] else [65;77]).
Proof. exact tok_A_en. Qed.
Print Assumptions token_A_en_spec.

(* English month and day names as calendar.month_name / day_name spell them *)
Theorem token_MMMM_en_spec : forall rec t, 1 <= t_month t <= 12 -> format_token rec loc_en t [77;77;77;77] = Ok (nth (Z.to_nat (t_month t - 1)) en_month_names []).
Proof. exact tok_MMMM_en. Qed.
Print Assumptions token_MMMM_en_spec.

Theorem token_MMM_en_spec : forall rec t, 1 <= t_month t <= 12 -> format_token rec loc_en t [77;77;77] = Ok (firstn 3 (nth (Z.to_nat (t_month t - 1)) en_month_names [])).
Proof. exact tok_MMM_en. Qed.
Print Assumptions token_MMM_en_spec.

Theorem token_dddd_en_spec : forall rec t, format_token rec loc_en t [100;100;100;100] = Ok (nth (Z.to_nat (weekday0 (ymd2ord (t_year t) (t_month t) (t_day t)))) en_day_names []).
Proof. exact tok_dddd_en. Qed.
Print Assumptions token_dddd_en_spec.

Theorem token_Do_spec : forall rec loc t, format_token rec loc t [68;111] = Ok (ordinalize loc (t_day t)).
Proof. exact tok_Do. Qed.
Print Assumptions token_Do_spec.

(* in every locale the name tokens are the locale table entry of the month / weekday *)
Theorem token_names_by_table : forall rec loc t, format_token rec loc t [77;77;77;77] = tbl_get (l_months_wide loc) (t_month t).
Proof. exact tok_MMMM. Qed.
Print Assumptions token_names_by_table.

(* all 27 shipped locales: every month and weekday has a non-empty name in every table *)
Theorem localized_names_total : forall l, In l locales ->
  (forall m, 1 <= m <= 12 -> (exists c s, tbl_get (l_months_wide l) m = Ok (c :: s)) /\ (exists c s, tbl_get (l_months_abbr l) m = Ok (c :: s))) /\
  (forall w, 0 <= w <= 6 -> (exists c s, tbl_get (l_days_wide l) w = Ok (c :: s)) /\ (exists c s, tbl_get (l_days_abbr l) w = Ok (c :: s))
                            /\ (exists c s, tbl_get (l_days_short l) w = Ok (c :: s))).
Proof. exact localized_names_total. Qed.
Print Assumptions localized_names_total.

Theorem shipped_locales_count : length locales = 27%nat.
Proof. exact locales_count. Qed.
Print Assumptions shipped_locales_count.

Theorem localized_names_injective : forall l, In l locales ->
  (forall a b x, 1 <= a <= 12 -> 1 <= b <= 12 -> tbl_get (l_months_wide l) a = Ok x -> tbl_get (l_months_wide l) b = Ok x -> a = b) /\
  (forall a b x, 1 <= a <= 12 -> 1 <= b <= 12 -> tbl_get (l_months_abbr l) a = Ok x -> tbl_get (l_months_abbr l) b = Ok x -> a = b) /\
  (forall a b x, 0 <= a <= 6 -> 0 <= b <= 6 -> tbl_get (l_days_wide l) a = Ok x -> tbl_get (l_days_wide l) b = Ok x -> a = b).
Proof. exact localized_names_injective. Qed.
Print Assumptions localized_names_injective.

(* token e: day of week relative to the locale's first day; every shipped locale has week_data
   (nl lacked it and raised TypeError until the fix: commit in /repo; the former _refuted theorem is gone with the defect) *)
Theorem token_e : forall rec loc t, In loc locales -> exists fd, l_first_day loc = Some fd /\
  format_token rec loc t [101] = Ok (render_d ((weekday0 (ymd2ord (t_year t) (t_month t) (t_day t)) mod 7 - fd) mod 7)).
Proof. exact tok_e_every_locale. Qed.
Print Assumptions token_e.

Theorem every_locale_has_week_data : forallb (fun l => match l_first_day l with Some _ => true | None => false end) locales = true.
Proof. exact C08Facts.every_locale_has_week_data. Qed.
Print Assumptions every_locale_has_week_data.

(* [body] is emitted verbatim (body without '[', and no ']' in the rest before the next '['), followed by the rendering of the rest *)
Theorem escape_verbatim : forall d loc t body rest, ~ In 91 body -> no_rb_before_lb rest = true ->
  format_loc (S d) loc t (91 :: body ++ 93 :: rest) =
    bind (render_pieces (format_token (format_loc d loc t) loc t) (tokenize (length (91 :: body ++ 93 :: rest)) rest)) (fun b => Ok (body ++ b)).
Proof. exact format_bracket_verbatim. Qed.
Print Assumptions escape_verbatim.

Theorem escape_only_verbatim : forall loc t body, ~ In 91 body -> format_loc 1 loc t (91 :: body ++ [93]) = Ok body.
Proof. exact format_only_bracket. Qed.
Print Assumptions escape_only_verbatim.

Theorem backslash_verbatim : forall d loc t c rest, c <> 10 ->
  format_loc (S d) loc t (92 :: c :: rest) =
    bind (render_pieces (format_token (format_loc d loc t) loc t) (tokenize (length (92 :: c :: rest)) rest)) (fun b => Ok (c :: b)).
Proof. exact format_backslash_verbatim. Qed.
Print Assumptions backslash_verbatim.

(* named formats: the tokenisation of the format string is computed, the fields are symbolic *)
Theorem named_format_composition_atom : forall t,
  string_helper [116;111;95;97;116;111;109;95;115;116;114;105;110;103] t =
  Ok (render_d (t_year t) ++ [45] ++ render_0wd 2 (t_month t) ++ [45] ++ render_0wd 2 (t_day t) ++ [84]
      ++ render_0wd 2 (t_hour t) ++ [58] ++ render_0wd 2 (t_minute t) ++ [58] ++ render_0wd 2 (t_second t) ++ format_offset t true).
Proof. exact atom_composition. Qed.
Print Assumptions named_format_composition_atom.

Theorem named_format_composition_w3c : forall t,
  string_helper [116;111;95;119;51;99;95;115;116;114;105;110;103] t =
  Ok (render_d (t_year t) ++ [45] ++ render_0wd 2 (t_month t) ++ [45] ++ render_0wd 2 (t_day t) ++ [84]
      ++ render_0wd 2 (t_hour t) ++ [58] ++ render_0wd 2 (t_minute t) ++ [58] ++ render_0wd 2 (t_second t) ++ format_offset t true).
Proof. exact w3c_composition. Qed.
Print Assumptions named_format_composition_w3c.

Theorem named_format_composition_cookie : forall t,
  string_helper [116;111;95;99;111;111;107;105;101;95;115;116;114;105;110;103] t =
  bind (tbl_get (l_days_wide loc_en) (weekday0 (ordn t))) (fun dn =>
  bind (tbl_get (l_months_abbr loc_en) (t_month t)) (fun mn =>
  Ok (dn ++ [44] ++ [32] ++ render_0wd 2 (t_day t) ++ [45] ++ mn ++ [45] ++ render_d (t_year t) ++ [32]
      ++ render_0wd 2 (t_hour t) ++ [58] ++ render_0wd 2 (t_minute t) ++ [58] ++ render_0wd 2 (t_second t) ++ [32] ++ (if t_has_tz t then t_abbr t else [])))).
Proof. exact cookie_composition. Qed.
Print Assumptions named_format_composition_cookie.

Theorem named_format_composition_rfc822 : forall t,
  string_helper [116;111;95;114;102;99;56;50;50;95;115;116;114;105;110;103] t =
  bind (tbl_get (l_days_abbr loc_en) (weekday0 (ordn t))) (fun dn =>
  bind (tbl_get (l_months_abbr loc_en) (t_month t)) (fun mn =>
  Ok (dn ++ [44] ++ [32] ++ render_0wd 2 (t_day t) ++ [32] ++ mn ++ [32] ++ skipn 2 (render_d (t_year t)) ++ [32]
      ++ render_0wd 2 (t_hour t) ++ [58] ++ render_0wd 2 (t_minute t) ++ [58] ++ render_0wd 2 (t_second t) ++ [32] ++ format_offset t false))).
Proof. exact rfc822_composition. Qed.
Print Assumptions named_format_composition_rfc822.

Theorem named_format_composition_rfc850 : forall t,
  string_helper [116;111;95;114;102;99;56;53;48;95;115;116;114;105;110;103] t =
  bind (tbl_get (l_days_wide loc_en) (weekday0 (ordn t))) (fun dn =>
  bind (tbl_get (l_months_abbr loc_en) (t_month t)) (fun mn =>
  Ok (dn ++ [44] ++ [32] ++ render_0wd 2 (t_day t) ++ [45] ++ mn ++ [45] ++ skipn 2 (render_d (t_year t)) ++ [32]
      ++ render_0wd 2 (t_hour t) ++ [58] ++ render_0wd 2 (t_minute t) ++ [58] ++ render_0wd 2 (t_second t) ++ [32] ++ (if t_has_tz t then t_abbr t else [])))).
Proof. exact rfc850_composition. Qed.
Print Assumptions named_format_composition_rfc850.

Theorem named_format_composition_rfc1036 : forall t,
  string_helper [116;111;95;114;102;99;49;48;51;54;95;115;116;114;105;110;103] t =
  bind (tbl_get (l_days_abbr loc_en) (weekday0 (ordn t))) (fun dn =>
  bind (tbl_get (l_months_abbr loc_en) (t_month t)) (fun mn =>
  Ok (dn ++ [44] ++ [32] ++ render_0wd 2 (t_day t) ++ [32] ++ mn ++ [32] ++ skipn 2 (render_d (t_year t)) ++ [32]
      ++ render_0wd 2 (t_hour t) ++ [58] ++ render_0wd 2 (t_minute t) ++ [58] ++ render_0wd 2 (t_second t) ++ [32] ++ format_offset t false))).
Proof. exact rfc1036_composition. Qed.
Print Assumptions named_format_composition_rfc1036.

Theorem named_format_composition_rfc1123 : forall t,
  string_helper [116;111;95;114;102;99;49;49;50;51;95;115;116;114;105;110;103] t =
  bind (tbl_get (l_days_abbr loc_en) (weekday0 (ordn t))) (fun dn =>
  bind (tbl_get (l_months_abbr loc_en) (t_month t)) (fun mn =>
  Ok (dn ++ [44] ++ [32] ++ render_0wd 2 (t_day t) ++ [32] ++ mn ++ [32] ++ render_d (t_year t) ++ [32]
      ++ render_0wd 2 (t_hour t) ++ [58] ++ render_0wd 2 (t_minute t) ++ [58] ++ render_0wd 2 (t_second t) ++ [32] ++ format_offset t false))).
Proof. exact rfc1123_composition. Qed.
Print Assumptions named_format_composition_rfc1123.

Theorem named_format_composition_rfc2822 : forall t,
  string_helper [116;111;95;114;102;99;50;56;50;50;95;115;116;114;105;110;103] t =
  bind (tbl_get (l_days_abbr loc_en) (weekday0 (ordn t))) (fun dn =>
  bind (tbl_get (l_months_abbr loc_en) (t_month t)) (fun mn =>
  Ok (dn ++ [44] ++ [32] ++ render_0wd 2 (t_day t) ++ [32] ++ mn ++ [32] ++ render_d (t_year t) ++ [32]
      ++ render_0wd 2 (t_hour t) ++ [58] ++ render_0wd 2 (t_minute t) ++ [58] ++ render_0wd 2 (t_second t) ++ [32] ++ format_offset t false))).
Proof. exact rfc2822_composition. Qed.
Print Assumptions named_format_composition_rfc2822.

Theorem named_format_composition_rss : forall t,
  string_helper [116;111;95;114;115;115;95;115;116;114;105;110;103] t =
  bind (tbl_get (l_days_abbr loc_en) (weekday0 (ordn t))) (fun dn =>
  bind (tbl_get (l_months_abbr loc_en) (t_month t)) (fun mn =>
  Ok (dn ++ [44] ++ [32] ++ render_0wd 2 (t_day t) ++ [32] ++ mn ++ [32] ++ render_d (t_year t) ++ [32]
      ++ render_0wd 2 (t_hour t) ++ [58] ++ render_0wd 2 (t_minute t) ++ [58] ++ render_0wd 2 (t_second t) ++ [32] ++ format_offset t false))).
Proof. exact rss_composition. Qed.
Print Assumptions named_format_composition_rss.

Theorem named_format_composition_rfc3339 : forall t, string_helper [116;111;95;114;102;99;51;51;51;57;95;115;116;114;105;110;103] t = Ok (isoformat_T t).
Proof. exact rfc3339_composition. Qed.
Print Assumptions named_format_composition_rfc3339.

Theorem named_format_composition_iso8601 : forall t,
  string_helper [116;111;95;105;115;111;56;54;48;49;95;115;116;114;105;110;103] t =
  Ok (if t_has_tz t && str_eqb (t_zone t) UTC_name
      then replace_all (S (length (isoformat_T t))) (isoformat_T t) plus0000 [90] else isoformat_T t).
Proof. exact iso8601_composition. Qed.
Print Assumptions named_format_composition_iso8601.

Theorem named_format_composition_time : forall t,
  string_helper [116;111;95;116;105;109;101;95;115;116;114;105;110;103] t =
  Ok (render_0wd 2 (t_hour t) ++ [58] ++ render_0wd 2 (t_minute t) ++ [58] ++ render_0wd 2 (t_second t)).
Proof. exact time_composition. Qed.
Print Assumptions named_format_composition_time.

Theorem named_format_composition_datetime : forall t,
  string_helper [116;111;95;100;97;116;101;116;105;109;101;95;115;116;114;105;110;103] t =
  Ok (render_d (t_year t) ++ [45] ++ render_0wd 2 (t_month t) ++ [45] ++ render_0wd 2 (t_day t) ++ [32]
      ++ render_0wd 2 (t_hour t) ++ [58] ++ render_0wd 2 (t_minute t) ++ [58] ++ render_0wd 2 (t_second t)).
Proof. exact datetime_composition. Qed.
Print Assumptions named_format_composition_datetime.

Theorem named_format_composition_day_datetime : forall t,
  string_helper [116;111;95;100;97;121;95;100;97;116;101;116;105;109;101;95;115;116;114;105;110;103] t =
  bind (tbl_get (l_days_abbr loc_en) (weekday0 (ordn t))) (fun dn =>
  bind (tbl_get (l_months_abbr loc_en) (t_month t)) (fun mn =>
  Ok (dn ++ [44] ++ [32] ++ mn ++ [32] ++ render_d (t_day t) ++ [44] ++ [32] ++ render_d (t_year t) ++ [32]
      ++ render_d (hour12 (t_hour t)) ++ [58] ++ render_0wd 2 (t_minute t) ++ [32]
      ++ match (if 12 <=? t_hour t then l_pm loc_en else l_am loc_en) with Some s => s | None => [] end))).
Proof. exact day_datetime_composition. Qed.
Print Assumptions named_format_composition_day_datetime.

(* from_format, after the match: the captured renderings of YYYY MM DD HH mm ss SSSSSS Z|ZZ go through _get_parsed_value and _check_parsed back to the DateTime's fields and offset (no range assumption beyond non-negative fields and a whole-minute offset below 100 h) *)
Theorem from_format_values_invert_rendering : forall rs zones now colon t,
  dt_in_range t ->
  parse_finish rs zones loc_en (iso_names colon) [iso_caps colon t] now =
  Ok (t_year t, t_month t, t_day t, t_hour t, t_minute t, t_second t, t_micro t, Some (TzFixed (t_off t))).
Proof. exact parse_finish_iso. Qed.
Print Assumptions from_format_values_invert_rendering.

Theorem from_format_offset_inverse : forall t colon,
  t_has_tz t = true -> t_off t mod 60 = 0 -> Z.abs (t_off t) < 360000 ->
  parse_offset (format_offset t colon) = Ok (t_off t).
Proof. exact parse_format_offset. Qed.
Print Assumptions from_format_offset_inverse.

(* a narrower fraction token reads back the truncated value: SSS renders us/1000 and parses to (us/1000)*1000 *)
Theorem from_format_fraction_truncates : forall zones v p,
  0 <= v -> get_parsed_value zones [83;83;83] (render_0wd 3 v) p = Ok (set_micro (Some (v * 1000)) p).
Proof. exact parsed_S3. Qed.
Print Assumptions from_format_fraction_truncates.

(* a string the anchored pattern does not match raises ValueError *)
Theorem from_format_mismatch_raises : forall rs zones lname loc now time fmt names r,
  find_locale lname = Some loc ->
  forallb (fun p => match p with FLit _ => true | _ => false end) (ff_tokenize (S (length (re_escape fmt))) [] (re_escape fmt)) = false ->
  parse_pattern loc fmt = Ok (names, r) -> has_dup names = false ->
  search_anchored r time = false ->
  parse rs zones lname now time fmt = Raise E_ValueError.
Proof. exact parse_mismatch_valueerror. Qed.
Print Assumptions from_format_mismatch_raises.

Theorem from_format_all_fields_as_given : forall rs y m d hh mi ss us tz now,
  check_parsed rs (mkparsed (Some y) (Some m) (Some d) (Some hh) (Some mi) (Some ss) (Some us) tz None None None None None) now
  = Ok (y, m, d, hh, mi, ss, us, tz).
Proof. exact check_parsed_all. Qed.
Print Assumptions from_format_all_fields_as_given.

(* fields absent from the format: the date comes from `now` when no date field is given, a smaller unit restarts at 1 when a larger one is given, time fields default to 0 *)
Theorem from_format_time_only_fills_date_from_now : forall rs hh mi ss us tz now,
  check_parsed rs (mkparsed None None None hh mi ss us tz None None None None None) now
  = Ok (n_year now, n_month now, n_day now,
        match hh with Some v => v | None => 0 end, match mi with Some v => v | None => 0 end,
        match ss with Some v => v | None => 0 end, match us with Some v => v | None => 0 end, tz).
Proof. exact check_parsed_time_only. Qed.
Print Assumptions from_format_time_only_fills_date_from_now.

Theorem from_format_year_only : forall rs y now,
  check_parsed rs (mkparsed (Some y) None None None None None None None None None None None None) now = Ok (y, 1, 1, 0, 0, 0, 0, None).
Proof. exact check_parsed_year_only. Qed.
Print Assumptions from_format_year_only.

Theorem from_format_month_day_fills_year_from_now : forall rs m d now,
  m <> 0 -> d <> 0 ->
  check_parsed rs (mkparsed None (Some m) (Some d) None None None None None None None None None None) now = Ok (n_year now, m, d, 0, 0, 0, 0, None).
Proof. exact check_parsed_month_day. Qed.
Print Assumptions from_format_month_day_fills_year_from_now.

Theorem from_format_month_only : forall rs m now,
  check_parsed rs (mkparsed None (Some m) None None None None None None None None None None None) now = Ok (n_year now, m, 1, 0, 0, 0, 0, None).
Proof. exact check_parsed_month_only. Qed.
Print Assumptions from_format_month_only.

Theorem from_format_day_only_fills_year_month_from_now : forall rs d now,
  d <> 0 ->
  check_parsed rs (mkparsed None None (Some d) None None None None None None None None None None) now = Ok (n_year now, n_month now, d, 0, 0, 0, 0, None).
Proof. exact check_parsed_day_only. Qed.
Print Assumptions from_format_day_only_fills_year_month_from_now.

(* the matching hypotheses of from_format_inverts_format_partial hold for a concrete DateTime (computed in the model) *)
Theorem from_format_hypotheses_satisfiable : forall colon,
  exists r, parse_pattern loc_en (iso_fmt colon) = Ok (iso_names colon, r)
            /\ search_anchored r (iso_render colon iso_sample) = true
            /\ sub_matches (S (length (iso_render colon iso_sample))) r (iso_render colon iso_sample) = Some [iso_caps colon iso_sample].
Proof. exact iso_sample_matches. Qed.
Print Assumptions from_format_hypotheses_satisfiable.

(* from_format(dt.format(fmt), fmt) = dt's fields and offset for fmt = "YYYY-MM-DD HH:mm:ss.SSSSSS Z" (colon = true) or "... ZZ".
   _partial: the regex matching step (r is the assembled pattern; the anchored search succeeds on the rendering; the re.sub pass finds one
   match whose groups are the rendered tokens) is a hypothesis, validated on every run by the correspondence streams
   roundtrip-full / nonmatching and satisfiable by from_format_hypotheses_satisfiable. Everything else is proved: the rendering, the pattern
   assembly bookkeeping, _get_parsed_value on every group, the offset arithmetic and _check_parsed. *)
Theorem from_format_inverts_format_partial : forall (rs : bool) (zones : list str) (now : pnow) (colon : bool) (t : pdt),
  dt_in_range t -> 1000 <= t_year t <= 9999 ->
  forall r : re,
  parse_pattern loc_en (iso_fmt colon) = Ok (iso_names colon, r) ->
  search_anchored r (iso_render colon t) = true ->
  sub_matches (S (length (iso_render colon t))) r (iso_render colon t) = Some [iso_caps colon t] ->
  bind (format [101;110] t (iso_fmt colon)) (fun s => parse rs zones [101;110] now s (iso_fmt colon)) =
  Ok (t_year t, t_month t, t_day t, t_hour t, t_minute t, t_second t, t_micro t, Some (TzFixed (t_off t))).
Proof. exact from_format_inverts_iso. Qed.
Print Assumptions from_format_inverts_format_partial.

(* KNOWN FINDING tr-cumartesi-prefix: 2024-07-06 (a Saturday) formatted with 'YYYY-MM-DD dddd' in locale tr parses back as Friday 2024-07-05 *)
Theorem from_format_tr_saturday_refuted : roundtrip false [116;114] sample_dt tr_fmt = Ok (2024, 7, 5, 0, 0, 0, 0, None).
Proof. exact tr_saturday_roundtrip. Qed.
Print Assumptions from_format_tr_saturday_refuted.

(* KNOWN FINDING from-format-escape-unprotected: 'YYYY[at]HH' *)
Theorem from_format_bracket_escape_refuted : roundtrip false [101;110] sample_dt at_fmt = Raise E_ValueError.
Proof. exact bracket_escape_roundtrip_fails. Qed.
Print Assumptions from_format_bracket_escape_refuted.

(* KNOWN FINDING from-format-backslash-escape *)
Theorem from_format_backslash_escape_refuted : roundtrip false [101;110] sample_dt bs_fmt = Raise E_ValueError.
Proof. exact backslash_escape_roundtrip_fails. Qed.
Print Assumptions from_format_backslash_escape_refuted.

(* finding rs-ordinal-month-end (REPAIRED: rust/src/parsing.rs ordinal_to_ymd compares with `<=`): the day-of-year step of
   _check_parsed — pendulum.parse('YYYY-DDD') — yields the month and day of that day of the year with the compiled parser too,
   for every year and every existing day, the last day of each month included ... *)
Theorem from_format_day_of_year_rust : forall y doy, 1 <= doy <= days_in_year y -> doy_to_md_rs y doy = Ok (md_of_yday y doy).
Proof. exact doy_to_md_rs_spec. Qed.
Print Assumptions from_format_day_of_year_rust.

(* ... hence the model of Formatter.parse no longer depends on the parser backend at all ... *)
Theorem from_format_backend_independent : forall zones lname now s fmt,
  parse true zones lname now s fmt = parse false zones lname now s fmt.
Proof. exact parse_backend_independent. Qed.
Print Assumptions from_format_backend_independent.

(* ... and the former witness, 'YYYY-DDDD' of 2020-02-29 (day 60), round-trips with both backends *)
Theorem from_format_ordinal_month_end_both_backends : roundtrip false [101;110] leap_day doy_fmt = Ok (2020, 2, 29, 0, 0, 0, 0, None)
  /\ roundtrip true [101;110] leap_day doy_fmt = Ok (2020, 2, 29, 0, 0, 0, 0, None).
Proof. exact ordinal_month_end_backends. Qed.
Print Assumptions from_format_ordinal_month_end_both_backends.

(* the methods modelled by hand are the ones this development was written against (ast fingerprints from the generator) *)
Theorem hand_modelled_sources_pinned : List.length source_fingerprints = 16%nat.
Proof. exact (f_equal (@List.length _) hand_modelled_sources_unchanged). Qed.
Print Assumptions hand_modelled_sources_pinned.

(* ------------------------------------------------------------ the regex matching step of from_format, for every DateTime *)
From PV Require Import Proofs.MreShape Proofs.C08Match.

(* generic (any assembled pattern r, any input): inputs whose characters are pairwise indistinguishable by the character tests of r and by
   the newline test of `$` get the same answer from the anchored search ... *)
Theorem from_format_search_shape_invariant : forall r s0 s, Forall2 (simR r) s0 s -> search_anchored r s = search_anchored r s0.
Proof. exact search_anchored_shape. Qed.
Print Assumptions from_format_search_shape_invariant.

(* ... and the matches of the re.sub pass on s are the substrings of s at the spans found on the representative s0 *)
Theorem from_format_matches_by_representative : forall r fuel s0 s, Forall2 (simR r) s0 s ->
  sub_matches fuel r s = option_map (map (tx s)) (sub_matches_sp fuel r s0).
Proof. exact sub_matches_shape. Qed.
Print Assumptions from_format_matches_by_representative.

(* the three matching hypotheses of from_format_inverts_format_partial hold for EVERY DateTime with fields of the usual widths
   (dt_widths: month, day, hour, minute, second below 100, microsecond below 10^6): iso_re colon is the pattern the model assembles *)
Theorem from_format_matching_step : forall colon t, dt_in_range t -> 1000 <= t_year t <= 9999 -> dt_widths t ->
  parse_pattern loc_en (iso_fmt colon) = Ok (iso_names colon, iso_re colon) /\
  search_anchored (iso_re colon) (iso_render colon t) = true /\
  sub_matches (S (length (iso_render colon t))) (iso_re colon) (iso_render colon t) = Some [iso_caps colon t].
Proof. exact (fun colon t Hr Hy Hw => conj (iso_re_pattern colon) (iso_render_matches colon t Hr Hy Hw)). Qed.
Print Assumptions from_format_matching_step.

(* hence from_format(dt.format(fmt), fmt) = dt's fields and offset for fmt = "YYYY-MM-DD HH:mm:ss.SSSSSS Z" (colon = true) or "... ZZ",
   with NO hypothesis about the regex: tokenisation, pattern assembly, matching, _get_parsed_value, offset arithmetic, _check_parsed *)
Theorem from_format_inverts_format : forall (rs : bool) (zones : list str) (now : pnow) (colon : bool) (t : pdt),
  dt_in_range t -> 1000 <= t_year t <= 9999 -> dt_widths t ->
  bind (format [101;110] t (iso_fmt colon)) (fun s => parse rs zones [101;110] now s (iso_fmt colon)) =
  Ok (t_year t, t_month t, t_day t, t_hour t, t_minute t, t_second t, t_micro t, Some (TzFixed (t_off t))).
Proof. exact from_format_inverts_iso_full. Qed.
Print Assumptions from_format_inverts_format.

(* ------------------------------------------------------------ the timestamp tokens X / x through from_format *)
From PV Require Import Gen.Helpers Model.RustHelpers Proofs.LocalTime Proofs.C08Timestamp.

(* what format() renders for X is read back into parsed["timestamp"] as that second count (n below 10^15 in absolute value: every DateTime) *)
Theorem from_format_X_reads_the_rendered_count : forall zones n p, Z.abs n < 1000000000000000 ->
  get_parsed_value zones [88] (render_d n) p = Ok (set_ts (Some (n, 0)) p).
Proof. exact parsed_X. Qed.
Print Assumptions from_format_X_reads_the_rendered_count.

(* ... and for x (milliseconds): the seconds are floored, the microseconds are read off the ABSOLUTE value *)
Theorem from_format_x_reads_the_rendered_count : forall zones n p, Z.abs n < 1000000000000000 ->
  get_parsed_value zones [120] (render_d n) p = Ok (set_ts (Some (n / 1000, (Z.abs n mod 1000) * 1000)) p).
Proof. exact parsed_x. Qed.
Print Assumptions from_format_x_reads_the_rendered_count.

(* _check_parsed with a timestamp, in EITHER backend (the translated pure-Python helpers.local_time / the model of the compiled one):
   the fields are the standard library's broken-down time of that second (Proofs/LocalTime.v local_time_spec = ord2ymd of the day
   number + hour/minute/second of the remainder), tz = None, for every second of the years 1..9999 *)
Theorem from_format_timestamp_is_broken_down_by_the_calendar : forall rs p now S us,
  p_ts p = Some (S, us) -> -62135596800 <= S <= 253402300799 ->
  check_parsed rs p now = Ok (with_no_zone (local_time_spec S us)).
Proof. exact check_parsed_timestamp. Qed.
Print Assumptions from_format_timestamp_is_broken_down_by_the_calendar.

(* the second count of a UTC DateTime breaks down to that DateTime's own fields *)
Theorem timestamp_of_utc_datetime_breaks_down_to_its_fields : forall t us, utc_fields_ok t ->
  local_time_spec (int_timestamp t) us = (t_year t, t_month t, t_day t, t_hour t, t_minute t, t_second t, us).
Proof. exact local_time_of_int_timestamp. Qed.
Print Assumptions timestamp_of_utc_datetime_breaks_down_to_its_fields.

(* from_format(dt.format("X"), "X") after the matching step: dt's fields to the second, no zone — every UTC DateTime of the years 1..9999,
   both backends; for a DateTime in another zone the calendar fields of its instant (from_format_X_fields) *)
Theorem from_format_inverts_X : forall rs zones now t, utc_fields_ok t -> -62135596800 <= int_timestamp t <= 253402300799 ->
  bind (get_parsed_value zones [88] (render_d (int_timestamp t)) parsed0) (fun p => check_parsed rs p now)
  = Ok (t_year t, t_month t, t_day t, t_hour t, t_minute t, t_second t, 0, None).
Proof. exact from_format_inverts_X_after_matching. Qed.
Print Assumptions from_format_inverts_X.

Theorem from_format_X_any_zone : forall rs zones now t, -62135596800 <= int_timestamp t <= 253402300799 ->
  bind (get_parsed_value zones [88] (render_d (int_timestamp t)) parsed0) (fun p => check_parsed rs p now)
  = Ok (with_no_zone (local_time_spec (int_timestamp t) 0)).
Proof. exact from_format_X_fields. Qed.
Print Assumptions from_format_X_any_zone.

(* KNOWN FINDING x-negative-fraction.  "from_format(dt.format('x'), 'x') has dt's fields to the millisecond" is FALSE before the epoch:
   1969-12-31T23:59:59.750 renders "-250" and comes back as .250 (the whole path, regex matching included, both backends) *)
Theorem from_format_x_before_epoch_refuted :
  format [101;110] x_witness [120] = Ok [45;50;53;48] /\
  roundtrip false [101;110] x_witness [120] = Ok (1969, 12, 31, 23, 59, 59, 250000, None) /\
  roundtrip true [101;110] x_witness [120] = Ok (1969, 12, 31, 23, 59, 59, 250000, None).
Proof. exact x_witness_roundtrip. Qed.
Print Assumptions from_format_x_before_epoch_refuted.

(* the region where it holds: at or after the epoch, or no millisecond part *)
Theorem from_format_inverts_x_partial : forall rs zones now t, utc_fields_ok t -> 0 <= t_micro t < 1000000 ->
  -62135596800 <= int_timestamp t <= 253402300799 ->
  0 <= int_timestamp t \/ t_micro t / 1000 = 0 ->
  bind (get_parsed_value zones [120] (render_d (x_value t)) parsed0) (fun p => check_parsed rs p now)
  = Ok (t_year t, t_month t, t_day t, t_hour t, t_minute t, t_second t, t_micro t / 1000 * 1000, None).
Proof. exact from_format_inverts_x_region. Qed.
Print Assumptions from_format_inverts_x_partial.

(* ... and exactly what comes back outside it: the right second, the milliseconds mirrored (the known() predicate of the harness) *)
Theorem from_format_x_before_epoch_mirrors_the_milliseconds : forall rs zones now t, utc_fields_ok t -> 0 <= t_micro t < 1000000 ->
  -62135596800 <= int_timestamp t < 0 -> t_micro t / 1000 <> 0 ->
  bind (get_parsed_value zones [120] (render_d (x_value t)) parsed0) (fun p => check_parsed rs p now)
  = Ok (t_year t, t_month t, t_day t, t_hour t, t_minute t, t_second t, (1000 - t_micro t / 1000) * 1000, None).
Proof. exact from_format_x_before_epoch. Qed.
Print Assumptions from_format_x_before_epoch_mirrors_the_milliseconds.

(* the hypotheses of the three theorems above are satisfiable (by the witness of the finding) *)
Theorem from_format_x_hypotheses_satisfiable : utc_fields_ok x_witness /\ 0 <= t_micro x_witness < 1000000 /\ -62135596800 <= int_timestamp x_witness < 0.
Proof. exact x_witness_ok. Qed.
Print Assumptions from_format_x_hypotheses_satisfiable.

(* the WHOLE path — tokenisation, pattern assembly, regex matching, _get_parsed_value, _check_parsed, local_time — on the structurally
   special instants (first and last representable seconds, the epoch, the last day of a century inside and at the end of a 400-year
   cycle, leap days, the 2^31 boundary), tokens X and x, both backends *)
Theorem from_format_inverts_timestamps_at_special_instants : forall rs tok t, In t special_instants -> tok = [88] \/ tok = [120] ->
  roundtrip rs [101;110] t tok = Ok (t_year t, t_month t, t_day t, t_hour t, t_minute t, t_second t, 0, None).
Proof. exact special_instants_invert. Qed.
Print Assumptions from_format_inverts_timestamps_at_special_instants.

(* ------------------------------------------------------------ histories of the process (Model/FormatterSession.v) *)
From PV Require Import Model.FormatterSession Proofs.C08Session.

(* a set_locale that is rejected raises ValueError and leaves the configuration as it was *)
Theorem failed_set_keeps_configuration : forall st rs now n, loads n = false -> step rs now st (FSet n) = (st, OUnit (Raise E_ValueError)).
Proof. exact failed_set_keeps. Qed.
Print Assumptions failed_set_keeps_configuration.

(* format / from_format / get_locale never change the configuration *)
Theorem formatting_leaves_no_trace : forall rs now st o, is_set o = false -> fst (step rs now st o) = st.
Proof. exact non_set_keeps_state. Qed.
Print Assumptions formatting_leaves_no_trace.

(* the configuration after any history is the name of the last set_locale that was accepted *)
Theorem configuration_is_last_accepted_set : forall rs now ops st, final rs now st ops = last_good_set ops st.
Proof. exact final_is_last_good_set. Qed.
Print Assumptions configuration_is_last_accepted_set.

(* the output of a call depends on the history before it only through that name ... *)
Theorem result_depends_on_history_only_through_the_default_locale : forall rs now hist st o,
  run rs now st (hist ++ [o]) = run rs now st hist ++ [snd (step rs now (last_good_set hist st) o)].
Proof. exact output_after_history. Qed.
Print Assumptions result_depends_on_history_only_through_the_default_locale.

(* ... so two histories with the same last accepted name cannot be told apart by anything that follows *)
Theorem result_independent_of_history : forall rs now h1 h2 st1 st2 rest,
  last_good_set h1 st1 = last_good_set h2 st2 ->
  run rs now (final rs now st1 h1) rest = run rs now (final rs now st2 h2) rest.
Proof. exact history_independent. Qed.
Print Assumptions result_independent_of_history.

(* a call that names its locale does not depend on the configuration at all *)
Theorem explicit_locale_independent_of_configuration : forall rs now st1 st2 c n zones t fmt time,
  snd (step rs now st1 (FRound (Some (c :: n)) zones t fmt)) = snd (step rs now st2 (FRound (Some (c :: n)) zones t fmt)) /\
  snd (step rs now st1 (FFormat (Some (c :: n)) t fmt)) = snd (step rs now st2 (FFormat (Some (c :: n)) t fmt)) /\
  snd (step rs now st1 (FParse (Some (c :: n)) zones time fmt)) = snd (step rs now st2 (FParse (Some (c :: n)) zones time fmt)).
Proof. exact explicit_locale_ignores_state. Qed.
Print Assumptions explicit_locale_independent_of_configuration.

(* relying on the default locale is the same as naming it *)
Theorem default_locale_same_as_explicit : forall rs now c n zones t fmt time,
  snd (step rs now (c :: n) (FRound None zones t fmt)) = snd (step rs now (c :: n) (FRound (Some (c :: n)) zones t fmt)) /\
  snd (step rs now (c :: n) (FFormat None t fmt)) = snd (step rs now (c :: n) (FFormat (Some (c :: n)) t fmt)) /\
  snd (step rs now (c :: n) (FParse None zones time fmt)) = snd (step rs now (c :: n) (FParse (Some (c :: n)) zones time fmt)).
Proof. exact default_is_explicit. Qed.
Print Assumptions default_locale_same_as_explicit.

(* the round trip inside a session IS the stateless round trip (the object of from_format_inverts_format) under the effective locale *)
Theorem session_roundtrip_is_the_stateless_roundtrip : forall rs now st loc zones t fmt,
  snd (step rs now st (FRound loc zones t fmt)) =
  ORound (bind (format (normalize_locale (eff st loc)) t fmt)
               (fun s => Ok (s, parse rs zones (normalize_locale (eff st loc)) now s fmt))).
Proof. exact session_roundtrip_is_parse_of_format. Qed.
Print Assumptions session_roundtrip_is_the_stateless_roundtrip.

(* a concrete history: set_locale('fr'), round trip, set_locale('de'), the same format again, set_locale('tlh') REJECTED, once more, get_locale():
   every default-locale round trip of "dddd D MMMM YYYY" gives 2024-02-29 back and the configuration ends as 'de' *)
Theorem session_example_two_default_locales :
  map (fun o => match o with
                | ORound (Ok (_, Ok v)) => Some v
                | _ => None end) (run false (mknow 2021 3 4) initial ex_ops)
  = [None; Some (2024, 2, 29, 0, 0, 0, 0, None); None; Some (2024, 2, 29, 0, 0, 0, 0, None); None; Some (2024, 2, 29, 0, 0, 0, 0, None); None]
  /\ nth 4 (run false (mknow 2021 3 4) initial ex_ops) (OStr (Ok [])) = OUnit (Raise E_ValueError)
  /\ nth 6 (run false (mknow 2021 3 4) initial ex_ops) (OUnit (Ok tt)) = OStr (Ok [100;101]).
Proof. exact example_session. Qed.
Print Assumptions session_example_two_default_locales.

(* ------------------------------------------------------------ localized month and weekday names, every shipped locale (Proofs/C08Locale.v) *)
From PV Require Import Proofs.C08Locale.

(* month names: from_format(dt.format("YYYY MMMM DD", locale), "YYYY MMMM DD", locale) gives dt's year, month and day for EVERY shipped
   locale, every month and every year 1000..9999 / day field.  _partial: excluded beyond the listed findings are the locales whose month
   names contain decimal digits — ja and ko ("1月", "1월"): the assembled pattern then tells digits apart, the digit-blind lifting does not
   apply (they are covered by the correspondence streams over the locale tables) *)
Theorem from_format_inverts_localized_month_names_partial : forall rs zones now L t,
  In L locales -> name_in (l_name L) digit_months_wide = false ->
  1 <= t_month t <= 12 -> 1000 <= t_year t <= 9999 -> 0 <= t_day t < 100 ->
  bind (format (l_name L) t (fmtA T_MMMM)) (fun s => parse rs zones (l_name L) now s (fmtA T_MMMM)) =
  Ok (t_year t, t_month t, t_day t, 0, 0, 0, 0, None).
Proof. exact from_format_inverts_month_wide. Qed.
Print Assumptions from_format_inverts_localized_month_names_partial.

(* abbreviated month names, "YYYY MMM DD": as above; excluded: ja, ko, zh (digits in the abbreviations) *)
Theorem from_format_inverts_localized_month_abbr_partial : forall rs zones now L t,
  In L locales -> name_in (l_name L) digit_months_abbr = false ->
  1 <= t_month t <= 12 -> 1000 <= t_year t <= 9999 -> 0 <= t_day t < 100 ->
  bind (format (l_name L) t (fmtA T_MMM)) (fun s => parse rs zones (l_name L) now s (fmtA T_MMM)) =
  Ok (t_year t, t_month t, t_day t, 0, 0, 0, 0, None).
Proof. exact from_format_inverts_month_abbr. Qed.
Print Assumptions from_format_inverts_localized_month_abbr_partial.

(* weekday names, all 27 locales, every valid date of the years 1000..9999 (the name rendered is that of the date's weekday; _check_parsed
   moves the date to that weekday of its week, i.e. leaves it): "dddd YYYY-MM-DD", "ddd YYYY-MM-DD", "YYYY-MM-DD ddd" without exception *)
Theorem from_format_inverts_localized_weekday_names : forall rs zones now L t,
  In L locales -> date_ok (t_year t) (t_month t) (t_day t) = true -> 1000 <= t_year t <= 9999 ->
  bind (format (l_name L) t (fmtB T_dddd)) (fun s => parse rs zones (l_name L) now s (fmtB T_dddd)) = Ok (t_year t, t_month t, t_day t, 0, 0, 0, 0, None) /\
  bind (format (l_name L) t (fmtB T_ddd)) (fun s => parse rs zones (l_name L) now s (fmtB T_ddd)) = Ok (t_year t, t_month t, t_day t, 0, 0, 0, 0, None) /\
  bind (format (l_name L) t (fmtC T_ddd)) (fun s => parse rs zones (l_name L) now s (fmtC T_ddd)) = Ok (t_year t, t_month t, t_day t, 0, 0, 0, 0, None).
Proof.
  exact (fun rs zones now L t HL Hok Hy =>
    conj (from_format_inverts_weekday_wide_first rs zones now L t HL Hok Hy)
   (conj (from_format_inverts_weekday_abbr_first rs zones now L t HL Hok Hy)
         (from_format_inverts_weekday_abbr_last rs zones now L t HL Hok Hy))).
Qed.
Print Assumptions from_format_inverts_localized_weekday_names.

(* "YYYY-MM-DD dddd" (wide name last): every locale and weekday EXCEPT exactly the listed finding tr-cumartesi-prefix (tr, Saturday) ... *)
Theorem from_format_inverts_localized_weekday_name_last : forall rs zones now L t,
  In L locales -> date_ok (t_year t) (t_month t) (t_day t) = true -> 1000 <= t_year t <= 9999 ->
  ~ (l_name L = tr_name /\ wd_of t = 5) ->
  bind (format (l_name L) t (fmtC T_dddd)) (fun s => parse rs zones (l_name L) now s (fmtC T_dddd)) = Ok (t_year t, t_month t, t_day t, 0, 0, 0, 0, None).
Proof. exact from_format_inverts_weekday_wide_last. Qed.
Print Assumptions from_format_inverts_localized_weekday_name_last.

(* ... where the check of that pair fails in the model (the re.sub pass stops at the prefix "Cuma" of "Cumartesi"; from_format_tr_saturday_refuted) *)
Theorem from_format_tr_saturday_is_the_only_exception :
  exists L, In L locales /\ l_name L = tr_name /\ chkW l_days_wide (fmtC T_dddd) repC (expC T_dddd) (namesC T_dddd) L 5 = false.
Proof. exact chkC_dddd_tr_saturday. Qed.
Print Assumptions from_format_tr_saturday_is_the_only_exception.

(* ------------------------------------------------------------ from_format on the named formats (DateTime._FORMATS, locale en), Proofs/C08Named.v *)
From PV Require Import Proofs.C08Named.

(* named_dt_ok t: fields non-negative and of the usual widths, year 1000..9999, a valid date, aware with a whole-minute offset below 100 h *)
(* to_atom_string / to_w3c_string (YYYY-MM-DDTHH:mm:ssZ) are inverted to the second for every such DateTime *)
Theorem from_format_inverts_atom_w3c : forall rs zones now t, dt_in_range t -> 1000 <= t_year t <= 9999 -> dt_widths t ->
  bind (string_helper [116;111;95;97;116;111;109;95;115;116;114;105;110;103] t) (fun s => parse rs zones en now s (nf k_atom)) =
  Ok (t_year t, t_month t, t_day t, t_hour t, t_minute t, t_second t, 0, Some (TzFixed (t_off t))) /\
  bind (string_helper [116;111;95;119;51;99;95;115;116;114;105;110;103] t) (fun s => parse rs zones en now s (nf k_w3c)) =
  Ok (t_year t, t_month t, t_day t, t_hour t, t_minute t, t_second t, 0, Some (TzFixed (t_off t))).
Proof. exact from_format_inverts_atom. Qed.
Print Assumptions from_format_inverts_atom_w3c.

(* to_rfc1123_string / to_rfc2822_string / to_rss_string (ddd, DD MMM YYYY HH:mm:ss ZZ): inverted for every DateTime — all 7 weekday names,
   12 month names and both offset signs by one kernel computation, every digit by shape invariance *)
Theorem from_format_inverts_rfc1123_rfc2822_rss : forall rs zones now t, named_dt_ok t ->
  bind (string_helper helper_rfc1123 t) (fun s => parse rs zones en now s (nf k_rfc1123)) =
    Ok (t_year t, t_month t, t_day t, t_hour t, t_minute t, t_second t, 0, Some (TzFixed (t_off t))) /\
  bind (string_helper helper_rfc2822 t) (fun s => parse rs zones en now s (nf k_rfc2822)) =
    Ok (t_year t, t_month t, t_day t, t_hour t, t_minute t, t_second t, 0, Some (TzFixed (t_off t))) /\
  bind (string_helper helper_rss t) (fun s => parse rs zones en now s (nf k_rss)) =
    Ok (t_year t, t_month t, t_day t, t_hour t, t_minute t, t_second t, 0, Some (TzFixed (t_off t))).
Proof. exact from_format_inverts_rfc1123_rfc2822_rss. Qed.
Print Assumptions from_format_inverts_rfc1123_rfc2822_rss.

(* to_rfc822_string / to_rfc1036_string (ddd, DD MMM YY HH:mm:ss ZZ): the two-digit year is read into 1969..2068, so exactly the DateTimes
   of those years are recovered ... *)
Theorem from_format_inverts_rfc822_rfc1036_in_window : forall rs zones now t, named_dt_ok t -> 1969 <= t_year t <= 2068 ->
  bind (string_helper helper_rfc822 t) (fun s => parse rs zones en now s (nf k_rfc822)) =
    Ok (t_year t, t_month t, t_day t, t_hour t, t_minute t, t_second t, 0, Some (TzFixed (t_off t))) /\
  bind (string_helper helper_rfc1036 t) (fun s => parse rs zones en now s (nf k_rfc1036)) =
    Ok (t_year t, t_month t, t_day t, t_hour t, t_minute t, t_second t, 0, Some (TzFixed (t_off t))).
Proof. exact from_format_inverts_rfc822_rfc1036. Qed.
Print Assumptions from_format_inverts_rfc822_rfc1036_in_window.

(* ... outside the window the century is lost and the weekday name then moves the day: 2069-07-06 comes back as 1969-07-05 *)
Theorem from_format_rfc822_outside_window_refuted :
  bind (string_helper helper_rfc822 (mkpdt 2069 7 6 13 14 15 0 true 19800 [] [])) (fun s => parse false [] en (mknow 2021 3 4) s (nf k_rfc822)) =
  Ok (1969, 7, 5, 13, 14, 15, 0, Some (TzFixed 19800)).
Proof. exact rfc822_outside_window_witness. Qed.
Print Assumptions from_format_rfc822_outside_window_refuted.

(* to_cookie_string / to_rfc850_string end in the token zz, which from_format does not support: ValueError on EVERY text *)
Theorem from_format_rejects_cookie_rfc850_formats : forall rs zones now time,
  parse rs zones en now time (nf k_cookie) = Raise E_ValueError /\ parse rs zones en now time (nf k_rfc850) = Raise E_ValueError.
Proof. exact from_format_rejects_cookie_rfc850. Qed.
Print Assumptions from_format_rejects_cookie_rfc850_formats.

(* ---- THE MODEL IS THE CODE (format side).  Gen/FormatterMethods.v is translated from /repo on every run (tools/vlib/pyfloat2gallina.py +
   gens/g57_formatter_methods.py): Formatter._format_localizable_token and Formatter._format_token WHOLE (the branch order, every token comparison,
   which locale key and which DateTime quantity each token reads, the arithmetic of e / eo / do, the meridian test of A, the date-format lookup with
   its default table, and the FLOAT code of Z / ZZ: offset.total_seconds() / 60, >= 0, int(), abs, divmod, the f-string), one unfolding of
   Formatter.format (recognised shape: Locale.load, _FORMAT_RE.sub with the three-group callback), DateTime._to_string and to_iso8601_string.
   The hand model Model/Formatter.v, about which every format-side theorem above speaks, EQUALS that translation for every DateTime record, token,
   locale and every meaning of the recursive self.format call.  Side condition of the Z / ZZ float code: the utcoffset lies strictly between -24 h
   and +24 h (CPython's own bound on tzinfo.utcoffset) — there the float code agrees with the hand model's integer arithmetic, checked
   exhaustively in the kernel (172799 offsets).  Generated DATA, not translated here: _TOKENS, _TOKENS_RULES (apply_rule is the model's reading of
   one rule), _LOCALIZABLE_TOKENS, _DATE_FORMATS, _DEFAULT_DATE_FORMATS, DateTime._FORMATS, the to_*_string table, the locales. *)
From PV Require Import Spec.TdFloat Model.FormatterPrims Gen.FormatterMethods Proofs.FormatterOffsetFacts Proofs.FormatterMethodsFacts.

Theorem model_is_code_format_localizable_token : forall loc t tok, gen_format_localizable_token loc t tok = format_localizable loc t tok.
Proof. exact gen_format_localizable_eq. Qed.
Print Assumptions model_is_code_format_localizable_token.

Theorem model_is_code_format_token : forall rec loc t tok, -86400 < t_off t < 86400 ->
  gen_format_token rec loc t tok = format_token rec loc t tok.
Proof. exact gen_format_token_eq. Qed.
Print Assumptions model_is_code_format_token.

(* the float code of the offset, on its own: minutes = offset.total_seconds() / 60 ; int(minutes) ; minutes >= 0 *)
Theorem offset_float_code_is_integer_arithmetic : forall off, -86400 < off < 86400 ->
  py_int_trunc (fdiv (total_seconds (off * 1000000)) (sf_of_Z 60)) = Ok (Z.quot off 60) /\
  fge (fdiv (total_seconds (off * 1000000)) (sf_of_Z 60)) (sf_of_Z 0) = (0 <=? off).
Proof. exact offset_float_code. Qed.
Print Assumptions offset_float_code_is_integer_arithmetic.

(* Formatter.format with a loaded locale: one unfolding = tokenize + the callback, the recursive call being the previous unfolding *)
Theorem model_is_code_format : forall d loc t fmt, -86400 < t_off t < 86400 ->
  format_loc (S d) loc t fmt = gen_format_step (format_loc d loc t) loc t fmt.
Proof. exact gen_format_step_eq. Qed.
Print Assumptions model_is_code_format.

(* DateTime._to_string and to_iso8601_string (the other to_*_string helpers are entries of the generated table string_helpers) *)
Theorem model_is_code_to_string_helpers : forall t,
  (forall key locale, gen_to_string key locale t = to_string key locale t) /\
  gen_to_iso8601_string t = string_helper [116; 111; 95; 105; 115; 111; 56; 54; 48; 49; 95; 115; 116; 114; 105; 110; 103] t.
Proof. intros t. split; [intros; apply gen_to_string_eq | exact (gen_to_iso8601_string_eq t iso8601_helper_entry)]. Qed.
Print Assumptions model_is_code_to_string_helpers.

(* ---- THE MODEL IS THE CODE (parse side).  Gen/FormatterParseMethods.v is translated from /repo's formatter.py on every run (g73_formatter_parse.py):
   _get_parsed_value whole (the elif chain: two-digit year pivot 68 / 69, hh / h above 12, the Z / ZZ offset text with sign, hh / mm split and ":"; z against
   pendulum.timezones(); X / x into parsed["timestamp"]), _get_parsed_locale_value (static unit / match keys, Do; its a / A branch and _check_parsed: next block),
   the loop of _get_parsed_values, and Formatter.parse as the recognised statement list whose re.sub callback is the translated _get_parsed_values and whose last
   call is the translated _check_parsed.  The hand models of Model/FormatterParse.v EQUAL the translation for every token, text, state, locale, format.
   Primitives (Model/FormatterParsePrims.v + the model's own): the regex engine mre / search_anchored / sub_matches, re_escape, the tokenisation of the escaped
   format and the pattern assembly replace_token (= _replace_tokens) stay hand-written + pinned by fingerprint (Proofs/C08SourceTie.v);
   _PARSE_TOKENS / _REGEX_TOKENS / _LOCALIZABLE_TOKENS are generated data; Locale.match_translation is the model's match_translation (pinned). *)
From PV Require Import Model.FormatterParsePrims Gen.FormatterParseMethods Proofs.FormatterParseMethodsFacts.

Theorem model_is_code_get_parsed_value : forall zones tok value p, gen_get_parsed_value zones tok value p = get_parsed_value zones tok value p.
Proof. exact gen_get_parsed_value_eq. Qed.
Print Assumptions model_is_code_get_parsed_value.

Theorem model_is_code_get_parsed_locale_value : forall loc tok value p, gen_get_parsed_locale_value loc tok value p = get_parsed_locale_value loc tok value p.
Proof. exact gen_get_parsed_locale_value_eq. Qed.
Print Assumptions model_is_code_get_parsed_locale_value.

Theorem model_is_code_get_parsed_values : forall zones loc cs names p, gen_get_parsed_values zones loc names cs p = get_parsed_values zones loc names cs p.
Proof. exact gen_get_parsed_values_eq. Qed.
Print Assumptions model_is_code_get_parsed_values.

Theorem model_is_code_from_format_parse : forall rs zones lname now time fmt, gen_parse rs zones lname now time fmt = parse rs zones lname now time fmt.
Proof. exact gen_parse_eq. Qed.
Print Assumptions model_is_code_from_format_parse.

(* ---- THE MODEL IS THE CODE (_check_parsed and the a / A branch).  Formatter._check_parsed is translated whole on every run (g73_formatter_parse.py class CheckTr:
   the dict `validated` = eight variables, parsed[...] = the option fields of the record, `is None` tests = matches): the timestamp-first path (microseconds read off
   str(ts), helpers.local_time of the backend), the quarter loop, the year default, day of year through the ISO ordinal parser of the backend, day of week through
   start_of("week").subtract(days=1).next(dow), the meridiem block (tuple test >= (13, 0, 0, 0), %= 12, += 12), the month / day defaults (`or 1`, `or now.month`), the
   zero defaults of the time fields and tz.  check_parsed of Model/FormatterParse.v EQUALS it for every parsed record, now and backend flag; the a / A branch of
   _get_parsed_locale_value (the two day-period translations, lower(), membership, index) equals the model's branch parse_meridiem.  Named primitives
   (Model/FormatterParsePrims.v): mk_date, jan1 / jan1_of_now, quarter_loop (the while loop three additions deep), parse_ordinal, week_eve / next_weekday,
   ts_has_point / ts_frac_us / ts_local_time, need_strs / py_lower / lower_all / index_of / nth_str, tuple_ge, or_else / or_z. *)
Theorem model_is_code_check_parsed : forall rs p now, gen_check_parsed rs p now = check_parsed rs p now.
Proof. exact gen_check_parsed_eq. Qed.
Print Assumptions model_is_code_check_parsed.

Theorem model_is_code_parse_meridiem : forall loc tok value p, gen_parse_meridiem loc tok value p = parse_meridiem loc tok value p.
Proof. exact gen_parse_meridiem_eq. Qed.
Print Assumptions model_is_code_parse_meridiem.

(* ---- DAY-OF-YEAR TOKENS (DDDD / DDD).  format() renders the day of the year (tm_yday = days before the month + day); _check_parsed reads it back through
   pendulum.parse('YYYY-DDD'), the ISO ordinal date of the active parser backend.  For EVERY valid date of every year and both backends the step returns the month and
   the day — day 1, Feb 28 / Feb 29 / Mar 1 (59, 60, 61), every month end, day 365 and day 366 of a leap year included ... *)
From PV Require Import Proofs.CalFacts Proofs.C08Doy Model.IsoParse Gen.RustParsingDatesGen.
Theorem from_format_day_of_year_step_inverts_format : forall rs y m d, valid_dateb y m d = true -> doy_step rs y (yday_of y m d) = Ok (m, d).
Proof. exact doy_step_inverts_yday. Qed.
Print Assumptions from_format_day_of_year_step_inverts_format.

(* ... a day number the year does not have (0, 366 of a common year, 367 ...) is refused with ParserError (a ValueError) ... *)
Theorem from_format_day_of_year_step_rejects_missing_day : forall rs y doy, doy < 1 \/ days_in_year y < doy -> doy_step rs y doy = Raise E_ParserError.
Proof. exact doy_step_rejects_missing_day. Qed.
Print Assumptions from_format_day_of_year_step_rejects_missing_day.

Theorem from_format_day_366 : forall rs y, doy_step rs y 366 = if is_leap y then Ok (12, 31) else Raise E_ParserError.
Proof. exact doy_step_day_366. Qed.
Print Assumptions from_format_day_366.

(* ... hence _check_parsed on {year, day of year} — what 'YYYY DDDD' leaves — gives the date back, years 1000..9999 (time fields 0, no zone) ... *)
Theorem from_format_inverts_year_and_day_of_year : forall rs now y m d, 1000 <= y <= 9999 -> valid_dateb y m d = true ->
  check_parsed rs (parsed_y_doy y (yday_of y m d)) now = Ok (y, m, d, 0, 0, 0, 0, None).
Proof. exact check_parsed_inverts_day_of_year. Qed.
Print Assumptions from_format_inverts_year_and_day_of_year.

(* ... with the day of the year alone the year is filled from `now` ... *)
Theorem from_format_day_of_year_fills_year_from_now : forall rs now m d, 1000 <= n_year now <= 9999 -> valid_dateb (n_year now) m d = true ->
  check_parsed rs (parsed_doy (yday_of (n_year now) m d)) now = Ok (n_year now, m, d, 0, 0, 0, 0, None).
Proof. exact check_parsed_day_of_year_fills_year_from_now. Qed.
Print Assumptions from_format_day_of_year_fills_year_from_now.

Theorem from_format_rejects_missing_day_of_year : forall rs now y doy, 1000 <= y <= 9999 -> 0 <= doy -> (doy < 1 \/ days_in_year y < doy) ->
  check_parsed rs (parsed_y_doy y doy) now = Raise E_ParserError.
Proof. exact check_parsed_rejects_missing_day. Qed.
Print Assumptions from_format_rejects_missing_day_of_year.

(* ... and the compiled backend's step IS the code: the hand model doy_to_md_rs equals the TRANSLATION of rust/src/parsing.rs Parser::ordinal_to_ymd
   (Gen/RustParsingDatesGen.v, regenerated on every run) read as (month, day) / ParserError, for every year and every day number the formatter can produce. *)
Theorem model_is_code_rs_day_of_year_step : forall y doy, 1 <= y <= 100000 -> -100000 <= doy <= 100000 ->
  doy_to_md_rs y doy = md_of_rs (gen_rsp_ordinal_to_ymd y doy false).
Proof. exact doy_to_md_rs_is_code. Qed.
Print Assumptions model_is_code_rs_day_of_year_step.
