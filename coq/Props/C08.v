(* Props/C08.v — placeholder while the pipeline is brought up *)
From Coq Require Import ZArith List Bool.
From PV Require Import Lib.PyBase Model.FormatterBase Model.Formatter.
Import ListNotations.
Open Scope Z_scope.

Theorem render_d_zero : render_d 0 = [48].
Proof. exact eq_refl. Qed.
Print Assumptions render_d_zero.
