(* Props/C12Pins.v — written by tools/mkpins.py at development time (committed; never rewritten by a check).
   The hand-written model of C12 was transcribed from exactly these versions of the functions below (sha256 of the Python ast /
   of the comment-free Rust text, first 20 hex digits).  Gen/PinsC12.v is recomputed from /repo on every check: an edit to any
   pinned function breaks this obligation, and the check then has to find a failing input or report no-failing-input-found. *)
From Coq Require Import List String.
From PV Require Import Gen.PinsC12.
Import ListNotations.
Theorem hand_modelled_sources_unchanged_C12 : PinsC12.pins = [
  ("src/pendulum/datetime.py::DateTime.start_of"%string, "313d545f88e50d865294"%string);
  ("src/pendulum/datetime.py::DateTime.end_of"%string, "e445ce3c46359b387a37"%string);
  ("src/pendulum/datetime.py::DateTime._start_of_week"%string, "20616dffd06f43caab1c"%string);
  ("src/pendulum/datetime.py::DateTime._end_of_week"%string, "45f9d75b36178229c737"%string);
  ("src/pendulum/datetime.py::DateTime.set"%string, "d2096602146a93bb907c"%string);
  ("src/pendulum/datetime.py::DateTime.at"%string, "87cf23fb27859e45173d"%string);
  ("src/pendulum/date.py::Date.start_of"%string, "0297c4b3b21bbcf539c8"%string);
  ("src/pendulum/date.py::Date.end_of"%string, "9e501510c147820a14a6"%string);
  ("src/pendulum/date.py::Date._start_of_week"%string, "08b8886140b917b68b07"%string);
  ("src/pendulum/date.py::Date._end_of_week"%string, "debdcc75ab8fbe796129"%string);
  ("src/pendulum/helpers.py::week_starts_at"%string, "2a01ec9fe30da6d563fa"%string);
  ("src/pendulum/helpers.py::week_ends_at"%string, "e8d88e4b5407000baa3c"%string)].
Proof. exact eq_refl. Qed.
Print Assumptions hand_modelled_sources_unchanged_C12.
