(* Props/C03Pins.v — written by tools/mkpins.py at development time (committed; never rewritten by a check).
   The hand-written model of C03 was transcribed from exactly these versions of the functions below (sha256 of the Python ast /
   of the comment-free Rust text, first 20 hex digits).  Gen/PinsC03.v is recomputed from /repo on every check: an edit to any
   pinned function breaks this obligation, and the check then has to find a failing input or report no-failing-input-found. *)
From Coq Require Import List String.
From PV Require Import Gen.PinsC03.
Import ListNotations.
Theorem hand_modelled_sources_unchanged_C03 : PinsC03.pins = [
  ("src/pendulum/datetime.py::DateTime.add"%string, "f9e0754e563c868f30d8"%string);
  ("src/pendulum/datetime.py::DateTime.subtract"%string, "604ff496290ba1734411"%string);
  ("src/pendulum/datetime.py::DateTime._add_timedelta_"%string, "be3054462e35df320002"%string);
  ("src/pendulum/datetime.py::DateTime._subtract_timedelta"%string, "3d4df3d87f175b8f2c22"%string);
  ("src/pendulum/datetime.py::DateTime.__add__"%string, "89b96c93c5ea36aca854"%string);
  ("src/pendulum/datetime.py::DateTime.__radd__"%string, "3626c12a401689c2ac17"%string);
  ("src/pendulum/datetime.py::DateTime.__sub__"%string, "2b6416e501e40500ef40"%string)].
Proof. exact eq_refl. Qed.
Print Assumptions hand_modelled_sources_unchanged_C03.
