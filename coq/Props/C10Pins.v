(* Props/C10Pins.v — written by tools/mkpins.py at development time (committed; never rewritten by a check).
   The hand-written model of C10 was transcribed from exactly these versions of the functions below (sha256 of the Python ast /
   of the comment-free Rust text, first 20 hex digits).  Gen/PinsC10.v is recomputed from /repo on every check: an edit to any
   pinned function breaks this obligation, and the check then has to find a failing input or report no-failing-input-found. *)
From Coq Require Import List String.
From PV Require Import Gen.PinsC10.
Import ListNotations.
Theorem hand_modelled_sources_unchanged_C10 : PinsC10.pins = [
  ("src/pendulum/duration.py::Duration.__add__"%string, "61c1f2e75caf9314632b"%string);
  ("src/pendulum/duration.py::Duration.__sub__"%string, "b820033e0bebaf19a422"%string);
  ("src/pendulum/duration.py::Duration.__neg__"%string, "20da2f49439c147bdd5b"%string);
  ("src/pendulum/duration.py::Duration.__mul__"%string, "c9e347006261576d9c84"%string);
  ("src/pendulum/duration.py::Duration.__floordiv__"%string, "3ae150d0698f974a24ca"%string);
  ("src/pendulum/duration.py::Duration.__truediv__"%string, "877e17dbfe31e9b3152e"%string);
  ("src/pendulum/duration.py::Duration.__mod__"%string, "4fa62f40f7ed0ce0dd87"%string);
  ("src/pendulum/duration.py::Duration.__divmod__"%string, "f612754c63c1e439a5ff"%string);
  ("src/pendulum/duration.py::Duration._to_microseconds"%string, "c7dd3ad69f0f180f7070"%string);
  ("src/pendulum/interval.py::Interval.__add__"%string, "cac17421d13eb616da6d"%string);
  ("src/pendulum/interval.py::Interval.__sub__"%string, "c9c78c6026061384b12f"%string);
  ("src/pendulum/interval.py::Interval.__neg__"%string, "7178d7013e44e48640ed"%string);
  ("src/pendulum/interval.py::Interval.__mul__"%string, "a61f9790223d723914a4"%string);
  ("src/pendulum/interval.py::Interval.__floordiv__"%string, "1fd4b4bb0f16dd0b7f4f"%string);
  ("src/pendulum/interval.py::Interval.__truediv__"%string, "dcb9ec4797e1d631f5d2"%string);
  ("src/pendulum/interval.py::Interval.__mod__"%string, "561d219b5a2cdf29fbd7"%string);
  ("src/pendulum/interval.py::Interval.__divmod__"%string, "146a5acadd66acb76c3d"%string);
  ("src/pendulum/interval.py::Interval.as_duration"%string, "de90720cc32aeb39ca88"%string)].
Proof. exact eq_refl. Qed.
Print Assumptions hand_modelled_sources_unchanged_C10.
