(* Props/C06Pins.v — written by tools/mkpins.py at development time (committed; never rewritten by a check).
   The hand-written model of C06 was transcribed from exactly these versions of the functions below (sha256 of the Python ast /
   of the comment-free Rust text, first 20 hex digits).  Gen/PinsC06.v is recomputed from /repo on every check: an edit to any
   pinned function breaks this obligation, and the check then has to find a failing input or report no-failing-input-found. *)
From Coq Require Import List String.
From PV Require Import Gen.PinsC06.
Import ListNotations.
Theorem hand_modelled_sources_unchanged_C06 : PinsC06.pins = [
  ("rust/src/python/helpers.rs::precise_diff"%string, "dd738cda1346dff45577"%string);
  ("rust/src/python/helpers.rs::get_offset"%string, "05f1a84feeed6974c6c7"%string);
  ("rust/src/python/helpers.rs::get_tz_name"%string, "996374750089f07601b2"%string);
  ("rust/src/helpers.rs::day_number"%string, "773670d9b9b4689c19c3"%string);
  ("src/pendulum/interval.py::Interval.__init__"%string, "bf8b98f81fbc3c9ccb28"%string);
  ("src/pendulum/interval.py::Interval.years"%string, "f4c634e6c31bf2b5466e"%string);
  ("src/pendulum/interval.py::Interval.months"%string, "bd1993a433d26970144d"%string);
  ("src/pendulum/interval.py::Interval.weeks"%string, "9cfb8ee1b563c8da664c"%string);
  ("src/pendulum/interval.py::Interval.days"%string, "b35fa47785e52286df55"%string);
  ("src/pendulum/interval.py::Interval.remaining_days"%string, "18210957cb209e57891e"%string);
  ("src/pendulum/interval.py::Interval.hours"%string, "6532e6cabe4435d86c2c"%string);
  ("src/pendulum/interval.py::Interval.minutes"%string, "92f48adecc9973208595"%string);
  ("src/pendulum/interval.py::Interval.in_months"%string, "00fa8d3a10ff9f1ab041"%string);
  ("src/pendulum/datetime.py::DateTime._add_timedelta_"%string, "be3054462e35df320002"%string)].
Proof. exact eq_refl. Qed.
Print Assumptions hand_modelled_sources_unchanged_C06.
