(* Props/C14Pins.v — written by tools/mkpins.py at development time (committed; never rewritten by a check).
   The hand-written model of C14 was transcribed from exactly these versions of the functions below (sha256 of the Python ast /
   of the comment-free Rust text, first 20 hex digits).  Gen/PinsC14.v is recomputed from /repo on every check: an edit to any
   pinned function breaks this obligation, and the check then has to find a failing input or report no-failing-input-found. *)
From Coq Require Import List String.
From PV Require Import Gen.PinsC14.
Import ListNotations.
Theorem hand_modelled_sources_unchanged_C14 : PinsC14.pins = [
  ("src/pendulum/tz/__init__.py::fixed_timezone"%string, "432ddd6039236cf9060a"%string)].
Proof. exact eq_refl. Qed.
Print Assumptions hand_modelled_sources_unchanged_C14.
