(* Props/C18Pins.v — written by tools/mkpins.py at development time (committed; never rewritten by a check).
   The hand-written model of C18 was transcribed from exactly these versions of the functions below (sha256 of the Python ast /
   of the comment-free Rust text, first 20 hex digits).  Gen/PinsC18.v is recomputed from /repo on every check: an edit to any
   pinned function breaks this obligation, and the check then has to find a failing input or report no-failing-input-found. *)
From Coq Require Import List String.
From PV Require Import Gen.PinsC18.
Import ListNotations.
Theorem hand_modelled_sources_unchanged_C18 : PinsC18.pins = [
  ("src/pendulum/locales/locale.py::Locale.get"%string, "29fcfbe4e379bf18b213"%string);
  ("src/pendulum/locales/locale.py::Locale.translation"%string, "8d767f9bdcfca6303ba0"%string);
  ("src/pendulum/locales/locale.py::Locale.plural"%string, "659f7d7871eb301ba6ec"%string);
  ("src/pendulum/locales/locale.py::Locale.ordinal"%string, "05aee6840ebc77116cd0"%string);
  ("src/pendulum/locales/locale.py::Locale.ordinalize"%string, "dd8f072be7298340c4aa"%string);
  ("src/pendulum/duration.py::Duration.in_words"%string, "bdc3ca124e6809141127"%string);
  ("src/pendulum/interval.py::Interval.in_words"%string, "82134f1a76ae604cfb24"%string);
  ("src/pendulum/helpers.py::format_diff"%string, "99cbdf1743d6abaed847"%string);
  ("src/pendulum/datetime.py::DateTime.diff_for_humans"%string, "9f81883a03ddbc53761d"%string);
  ("src/pendulum/helpers.py::set_locale"%string, "f96c887ca5cc88a1a520"%string);
  ("src/pendulum/helpers.py::get_locale"%string, "e7cabbebe139c3268080"%string);
  ("src/pendulum/helpers.py::locale"%string, "6385b1f96e1a9f2353db"%string);
  ("src/pendulum/locales/locale.py::Locale.load"%string, "22b6cd98a552cebc3862"%string);
  ("src/pendulum/locales/locale.py::Locale.normalize_locale"%string, "db76aaecc1aad857fb40"%string);
  ("src/pendulum/interval.py::Interval.__new__"%string, "87853506c4af18f659e8"%string);
  ("src/pendulum/interval.py::Interval.__init__"%string, "bf8b98f81fbc3c9ccb28"%string);
  ("src/pendulum/datetime.py::DateTime.diff"%string, "a731b945966b4b276cbc"%string)].
Proof. exact eq_refl. Qed.
Print Assumptions hand_modelled_sources_unchanged_C18.
