(* Props/C07Pins.v — written by tools/mkpins.py at development time (committed; never rewritten by a check).
   The hand-written model of C07 was transcribed from exactly these versions of the functions below (sha256 of the Python ast /
   of the comment-free Rust text, first 20 hex digits).  Gen/PinsC07.v is recomputed from /repo on every check: an edit to any
   pinned function breaks this obligation, and the check then has to find a failing input or report no-failing-input-found. *)
From Coq Require Import List String.
From PV Require Import Gen.PinsC07.
Import ListNotations.
Theorem hand_modelled_sources_unchanged_C07 : PinsC07.pins = [
  ("rust/src/parsing.rs::parse_datetime"%string, "b26c67e8252311784e7a"%string);
  ("rust/src/parsing.rs::parse_time"%string, "a4e26fde7d5a18ee838a"%string);
  ("rust/src/parsing.rs::iso_to_ymd"%string, "ee5fb4a85fe16a9f70a9"%string);
  ("rust/src/parsing.rs::ordinal_to_ymd"%string, "7e977d85da80bf93bd24"%string);
  ("rust/src/parsing.rs::parse_integer"%string, "93702772d3ab350a3a8d"%string);
  ("rust/src/parsing.rs::parse"%string, "3cb046de4ca77103518c"%string);
  ("rust/src/python/parsing.rs::parse_iso8601"%string, "6a9c023548d1e6a11957"%string);
  ("src/pendulum/parsing/iso8601.py::parse_iso8601"%string, "d8d0e5d081f4fe3e7d88"%string);
  ("src/pendulum/parsing/iso8601.py::_get_iso_8601_week"%string, "8481f4c7fed131f5ba16"%string);
  ("src/pendulum/parsing/__init__.py::_parse"%string, "e1bf5535db80f1c278b8"%string);
  ("src/pendulum/parsing/__init__.py::_normalize"%string, "429d43efb9876a9af7a5"%string);
  ("src/pendulum/parsing/__init__.py::parse"%string, "750e155f220ccc282c77"%string);
  ("src/pendulum/parser.py::_parse"%string, "73897f7e0482fd280005"%string)].
Proof. exact eq_refl. Qed.
Print Assumptions hand_modelled_sources_unchanged_C07.
